#!/usr/bin/env python3
"""Regenerates MANIFEST.json from harness/*/check.json and not_applicable.json; validates it."""
import glob, json, os, subprocess, sys
ROOT = os.path.dirname(os.path.abspath(__file__))
checks = {}
for f in sorted(glob.glob(os.path.join(ROOT, "harness", "*", "check.json"))):
    checks.update(json.load(open(f)))
props = [json.loads(l)["id"] for l in open(os.path.join(ROOT, "properties.jsonl"))]
enabled = set(open(os.path.join(ROOT, "enabled_checks.txt")).read().split())
checks = {k: v for k, v in checks.items() if k in enabled}
na_path = os.path.join(ROOT, "not_applicable.json")
na = json.load(open(na_path)) if os.path.exists(na_path) else {}
hooks = subprocess.run(["git", "-C", "/repo", "log", "--format=%H %s"], capture_output=True, text=True).stdout.splitlines()
hook_commits = [l.split()[0] for l in hooks if " verif hook" in l]
m = {
    "version": 1,
    "setup_cmd": "./setup.sh",
    "hooks": {
        "guard": "verif",
        "enable": "go build tag: go test -tags verif (the harness module under /verif/harness replaces github.com/sourcenetwork/defradb with /repo)",
        "baseline_off_cmd": json.load(open("/root/.vp/BASELINE.json"))["cmd"],
        "source_commits": hook_commits,
        "add_only": True,
    },
    "engines": [{
        "name": "harness",
        "path": "harness/",
        "serves_properties": sorted(checks),
        "kind_free_text": "Go module (pgregory.net/rapid v1.3.0 property-based tests, native go fuzz targets in the thorough tier) built against /repo's working tree with -tags verif; driver ./check",
    }],
    "checks": [],
    "notes": "Every check: ./check <ID> [--tier quick|thorough] [--replay FILE]; exit 0 held / 1 VIOLATION / 2 inconclusive. VERIF_SEED selects the rapid PRNG values (seed*1000003+(shard+1)*2000000011, far apart because rapid derives case seeds cumulatively). Known findings are listed in known_findings.json.",
    "not_applicable": [],
}
for pid in props:
    if pid in checks:
        c = checks[pid]
        mf = c["manifest"]
        m["checks"].append({
            "property_id": pid,
            "quick_cmd": "./check %s --tier quick" % pid,
            "thorough_cmd": "./check %s --tier thorough" % pid,
            "evidence_file": "/verif/evidence/%s.json" % pid,
            "replay_cmd_template": "./check %s --replay {path}" % pid,
            "engine": "harness",
            "level_claimed": {"category": c["level"], "text": mf["level_text"], "design_ref": mf.get("design_ref", "DESIGN.md §5 " + pid)},
            "level_note": mf["level_note"],
            "technique": mf["technique"],
        })
    else:
        m["not_applicable"].append({"property_id": pid, "reason": na.get(pid, "check not built yet in this session; the design (DESIGN.md §5) applies the technique to it")})
json.dump(m, open(os.path.join(ROOT, "MANIFEST.json"), "w"), indent=1)
try:
    import jsonschema
    jsonschema.validate(m, json.load(open("/root/.vp/MANIFEST.schema.json")))
    for f in [os.path.join(ROOT, "evidence", k + ".json") for k in sorted(checks)]:
        jsonschema.validate(json.load(open(f)), json.load(open("/root/.vp/EVIDENCE.schema.json")))
    print("MANIFEST and %d evidence files valid; %d checks, %d not_applicable" % (len(glob.glob(os.path.join(ROOT, "evidence", "*.json"))), len(m["checks"]), len(m["not_applicable"])))
except ImportError:
    print("jsonschema not importable; skipped validation")
