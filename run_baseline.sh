#!/bin/bash
# Runs the repository's baseline suite (guard OFF: no -tags verif) on a scratch worktree of /repo HEAD
# and compares with /root/.vp/BASELINE.json stable_pass. Output: /tmp/baseline-result.txt
WT=/tmp/wt-base
git -C /repo worktree remove --force $WT 2>/dev/null
git -C /repo worktree add -q $WT HEAD || exit 1
cd $WT
GOFLAGS= GOPROXY=off go test -mod=mod -json -vet=off -count=1 -timeout 40m ./... > /tmp/baseline.json 2>/tmp/baseline.err
python3 - <<'PY' > /tmp/baseline-result.txt
import json
res={}
for l in open('/tmp/baseline.json'):
    try: e=json.loads(l)
    except: continue
    if e.get('Test') and e.get('Action') in ('pass','fail','skip'):
        res[e['Package']+'::'+e['Test']]=e['Action']
b=json.load(open('/root/.vp/BASELINE.json'))
sp=b['stable_pass']
bad=[t for t in sp if res.get(t)!='pass']
print("stable_pass",len(sp),"now passing",len(sp)-len(bad),"not passing",len(bad))
for t in bad[:200]: print(" ",t,res.get(t))
PY
cd /; git -C /repo worktree remove --force $WT
echo done >> /tmp/baseline-result.txt
