#!/bin/bash
# usage: run_all.sh SEED [tier]   -> /tmp/runall-SEED.txt
seed=$1; tier=${2:-quick}
out=/tmp/runall-$seed-$tier.txt; : > $out
ROOT=$(cd "$(dirname "$0")" && pwd)
for p in ${CHECKS:-$(cat $ROOT/enabled_checks.txt)}; do
  s=$(date +%s)
  o=$(cd $ROOT && VERIF_SEED=$seed ./check $p --tier $tier 2>&1); rc=$?
  e=$(date +%s)
  echo "$p rc=$rc wall=$((e-s))s $(echo "$o" | grep -c '^KNOWN-FINDING') known; $(echo "$o" | grep '^property=' | cut -c1-160)" >> $out
  if [ $rc -ne 0 ]; then echo "$o" | grep -v "^KNOWN\|^labels" | tail -15 | cut -c1-400 >> $out; fi
done
echo finished >> $out
