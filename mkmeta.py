#!/usr/bin/env python3
"""usage: mkmeta.py <seed-id> <property> "<needs_to_manifest>"  -- writes seeded/<id>/meta.json from seeded/<id>/run.json"""
import json, sys, os
ROOT = os.path.dirname(os.path.abspath(__file__))
sid, prop, needs = sys.argv[1:4]
d = os.path.join(ROOT, "seeded", sid)
r = json.load(open(os.path.join(d, "run.json")))
meta = {
    "id": sid, "property": prop,
    "source": "independent sub-agent given only the property text and a scratch worktree",
    "needs_to_manifest": needs,
    "confirmed": {
        "applies_and_builds": True,
        "demo_fails_with_change": r["demo_with_change_exit"] != 0,
        "demo_passes_without_change": r["demo_without_change_exit"] == 0,
        "existing_tests": "run by the seeding agent (see notes.txt); relevant unit and integration packages passed",
    },
    "what_was_run": {
        "demo_cmd": r["demo_cmd"], "demo_files": r["demo_files"], "base_commit": r["base_commit"],
        "how": "git worktree of /repo HEAD, git apply patch.diff, demo with and without (git apply -R), then `VERIF_REPO=<worktree> ./check <ID>` (quick tier); worktree removed afterwards",
    },
    "checks": r["checks"],
}
json.dump(meta, open(os.path.join(d, "meta.json"), "w"), indent=1)
print(sid, [(c["check"], c["exit"]) for c in r["checks"]], "demo", r["demo_with_change_exit"], r["demo_without_change_exit"])
