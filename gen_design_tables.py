#!/usr/bin/env python3
"""Rewrites the generated tables of DESIGN.md §8 (between the BEGIN/END GENERATED markers) from
known_findings.json and seeded/*/meta.json."""
import json, glob, os, re
ROOT = os.path.dirname(os.path.abspath(__file__))
kf = json.load(open(os.path.join(ROOT, "known_findings.json")))["findings"]
out = []
out.append("### 8.2 Findings on the pinned tree and their classification (generated from known_findings.json)\n")
out.append("`fixed` = genuine defect repaired by the named unguarded `fix:` commit in /repo (the entry suppresses nothing; a saved regress case re-checks it on every run). `known` = genuine defect recorded and not repaired (repair not small/safe, or it conflicts with baseline tests); the check prints KNOWN-FINDING for it and reports any other violation.\n")
byp = {}
for e in kf:
    byp.setdefault(e["property"], []).append(e)
for p in sorted(byp):
    out.append("**%s**\n" % p)
    for e in byp[p]:
        what = " ".join(e["what"].split())
        if len(what) > 420:
            what = what[:417] + "..."
        if e["status"] == "fixed":
            out.append("* fixed (%s): %s" % (e.get("commit", "?"), what))
        else:
            out.append("* known `%s`: %s" % (e["signature"], what))
    out.append("")
out.append("### 8.4 Seeded changes (generated from seeded/*/meta.json)\n")
out.append("Each change was written by a fresh sub-agent that saw only the property text and a scratch worktree; it compiles, passes the existing tests the agent ran, and its demonstration fails with the change and passes without it (re-confirmed by the coordinator in a scratch worktree). `caught` lists the checks run against it (quick tier) with exit code and signatures.\n")
out.append("| id | property | needs to manifest | caught by |")
out.append("|---|---|---|---|")
for f in sorted(glob.glob(os.path.join(ROOT, "seeded", "*", "meta.json"))):
    m = json.load(open(f))
    caught = "; ".join("%s exit %s %s" % (c["check"], c["exit"], c["signatures"].strip()) for c in m["checks"])
    out.append("| %s | %s | %s | %s |" % (m["id"], m["property"], m["needs_to_manifest"].replace("|", "/"), caught.replace("|", "/")))
out.append("")
text = "\n".join(out)
p = os.path.join(ROOT, "DESIGN.md")
s = open(p).read()
b, e = "<!-- BEGIN GENERATED -->", "<!-- END GENERATED -->"
if b not in s:
    s += "\n" + b + "\n" + e + "\n"
s = s[:s.index(b) + len(b)] + "\n" + text + "\n" + s[s.index(e):]
open(p, "w").write(s)
print("DESIGN.md tables regenerated: %d findings, %d seeded" % (len(kf), len(glob.glob(os.path.join(ROOT, "seeded", "*", "meta.json")))))
