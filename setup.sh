#!/bin/sh
# Run once after a fresh restore, offline: warms the Go build cache for the harness.
set -e
cd "$(dirname "$0")"
export GOFLAGS=-mod=mod GOPROXY=off
unset GOTOOLCHAIN GOSUMDB
python3 - <<'PY'
import sys, os
sys.path.insert(0, os.getcwd())
import importlib.machinery, importlib.util
loader = importlib.machinery.SourceFileLoader("check", os.path.join(os.getcwd(), "check"))
spec = importlib.util.spec_from_loader("check", loader)
mod = importlib.util.module_from_spec(spec)
loader.exec_module(mod)
mod.gen_module()
PY
cd harness
mkdir -p ../.build/setup
for p in $(ls -d */ | tr -d /); do
  if [ -f "$p/check.json" ]; then
    go test -c -vet=off -tags verif -o ../.build/setup/$p.test ./$p || exit 1
  fi
done
rm -rf ../.build/setup
echo setup ok
