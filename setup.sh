#!/bin/sh
# Run once after a fresh restore, offline: generates the harness module files and warms the Go
# build cache for the packages of the registered checks (plain and, for C16, race builds).
cd "$(dirname "$0")"
export GOFLAGS=-mod=mod GOPROXY=off
unset GOTOOLCHAIN GOSUMDB
python3 - <<'PY'
import sys, os, json, glob, subprocess
import importlib.machinery, importlib.util
root = os.getcwd()
loader = importlib.machinery.SourceFileLoader("check", os.path.join(root, "check"))
spec = importlib.util.spec_from_loader("check", loader)
mod = importlib.util.module_from_spec(spec)
loader.exec_module(mod)
out = os.path.join(root, ".build", "setup")
os.makedirs(out, exist_ok=True)
modfile = mod.gen_module(out)
enabled = set(open(os.path.join(root, "enabled_checks.txt")).read().split())
pkgs = {}
for pid, cfg in mod.CHECKS.items():
    if pid in enabled:
        pkgs[(cfg["pkg"], bool(cfg.get("race")))] = True
rc = 0
for (pkg, race) in sorted(pkgs):
    cmd = ["go", "test", "-c", "-vet=off", "-tags", "verif", "-modfile=" + modfile, "-o", os.path.join(out, pkg + ".test")]
    if race:
        cmd.append("-race")
    cmd.append("./" + pkg)
    p = subprocess.run(cmd, cwd=os.path.join(root, "harness"), env=mod.goenv())
    if p.returncode != 0:
        print("setup: build of", pkg, "failed")
        rc = 1
import shutil
shutil.rmtree(out, ignore_errors=True)
print("setup ok" if rc == 0 else "setup finished with build failures")
sys.exit(rc)
PY
