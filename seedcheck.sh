#!/bin/bash
# usage: seedcheck.sh <seed-id> <out-dir> "<demo dst path(s) relative to repo, space separated, matching files in out-dir by basename>" "<go test cmd for demo>" CHECK...
# Confirms a seeded change in a scratch worktree (demo fails with / passes without), runs the named checks against it, stores it under /verif/seeded/<seed-id>.
id=$1; out=$2; demos=$3; democmd=$4; shift 4
WT=/tmp/sv-$id
git -C /repo worktree remove --force $WT 2>/dev/null
git -C /repo worktree add -q $WT HEAD || exit 1
cd $WT
git apply $out/patch.diff || { echo "SEED $id: patch does not apply to /repo HEAD"; exit 1; }
for d in $demos; do mkdir -p $(dirname $d); f=$(find $out -name $(basename $d) | head -1); cp $f $d; done
GOFLAGS= GOPROXY=off go build ./... || { echo "SEED $id: build failed"; exit 1; }
(eval "GOFLAGS= GOPROXY=off $democmd") > /tmp/sv-$id-with.log 2>&1; with=$?
git apply -R $out/patch.diff
(eval "GOFLAGS= GOPROXY=off $democmd") > /tmp/sv-$id-without.log 2>&1; without=$?
git apply $out/patch.diff
echo "SEED $id: demo with change rc=$with (want !=0), without rc=$without (want 0)"
res=""
for c in "$@"; do
  o=$(cd /verif && VERIF_REPO=$WT ./check $c 2>&1); rc=$?
  sigs=$(echo "$o" | grep -o "signature=[^:]*" | sort -u | tr '\n' ' ')
  echo "SEED $id: check $c rc=$rc $sigs"
  res="$res{\"check\":\"$c\",\"exit\":$rc,\"signatures\":\"$sigs\"},"
done
mkdir -p /verif/seeded/$id
cp $out/patch.diff /verif/seeded/$id/
for d in $demos; do cp $d /verif/seeded/$id/; done
[ -f $out/notes.txt ] && cp $out/notes.txt /verif/seeded/$id/notes.txt
echo "{\"demo_with_change_exit\":$with,\"demo_without_change_exit\":$without,\"demo_cmd\":\"$democmd\",\"demo_files\":\"$demos\",\"base_commit\":\"$(git -C /repo log --format=%h -1)\",\"checks\":[${res%,}]}" > /verif/seeded/$id/run.json
cd / && git -C /repo worktree remove --force $WT

