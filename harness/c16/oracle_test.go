package c16

import (
	"fmt"
	"regexp"
	"sort"
	"strings"

	"github.com/sourcenetwork/defradb/verifharness/hx"
)

// effect of a call on the final state: the call's own status, and for calls inside the shared
// transaction the status of the commit.
func (r *runner) effect(c *callRec) int {
	if c.Status == stNoTarget {
		return stConflict // not executed: no effect
	}
	if !c.Txn {
		return c.Status
	}
	switch r.commitStatus {
	case stConflict:
		return stConflict
	case stError:
		return stError
	}
	return c.Status
}

// visibility interval of a call's effect.
func (r *runner) visible(c *callRec) (int64, int64) {
	if c.Txn {
		return r.commitStart, r.commitEnd
	}
	return c.Start, c.End
}

type regWrite struct {
	val     string
	vs, ve  int64
	cs, ce  int64
	txn     bool
	certain bool
	who     string
}

func hb(a, b regWrite) bool {
	if a.txn && b.txn {
		return a.ce < b.cs
	}
	return a.ve < b.vs
}

// admissible returns the values a register may hold at the end: those of writes that may have
// taken effect and are not followed (in real time) by a write that certainly took effect.
func admissible(ws []regWrite) map[string]string {
	out := map[string]string{}
	for i, w := range ws {
		over := false
		for j, x := range ws {
			if i != j && x.certain && hb(w, x) {
				over = true
				break
			}
		}
		if !over {
			out[w.val] = w.who
		}
	}
	return out
}

// mixedWithinSharedTxn: calls that share one transaction are not isolated from each other (they ARE
// one transaction), so two of them that overlapped in time may each win one of the two fields.
// The pair is accepted when s comes from one and tag from another admissible write, both issued
// through the shared transaction and neither completed before the other started.
func mixedWithinSharedTxn(ws []regWrite, adm map[string]string, got string) bool {
	for _, a := range ws {
		for _, b := range ws {
			if !a.txn || !b.txn || adm[a.val] == "" || adm[b.val] == "" || hb(a, b) || hb(b, a) {
				continue
			}
			as, bs := strings.SplitN(a.val, "|", 2), strings.SplitN(b.val, "|", 2)
			if len(as) == 2 && len(bs) == 2 && as[0]+"|"+bs[1] == got {
				return true
			}
		}
	}
	return false
}

func isWriteKind(k string) bool {
	switch k {
	case kUpdShared, kIncShared, kIncSharedC, kSetIShared, kCreate, kCreateC, kUpdOwn, kIncOwn, kDelOwn, kDelOwnC:
		return true
	}
	return false
}

func overlap(a1, a2, b1, b2 int64) bool { return a1 <= b2 && b1 <= a2 }

var wordRe = regexp.MustCompile(`[a-z]+`)

// errClass reduces an error text to its first words without identifiers.
var idRe = regexp.MustCompile(`\b(baf[a-z0-9]{20,}|bae-[0-9a-f-]{20,}|12D3[A-Za-z0-9]{20,})\b`)

func errClass(s string) string {
	ws := wordRe.FindAllString(strings.ToLower(idRe.ReplaceAllString(s, "")), -1)
	var keep []string
	for _, w := range ws {
		if len(w) > 24 || strings.HasPrefix(w, "bae") || strings.HasPrefix(w, "bafy") {
			continue
		}
		keep = append(keep, w)
		if len(keep) == 6 {
			break
		}
	}
	return strings.Join(keep, "-")
}

func (r *runner) evaluate() {
	c := r.c
	// ---- labels (observed classes)
	writers := map[string]map[int]bool{}
	for _, cl := range r.calls {
		if cl.Status == stConflict {
			r.label("conflict-observed")
		}
		if cl.Status == stError && isWriteKind(cl.Op.K) {
			r.label("write-with-other-error")
		}
		if cl.Op.K == kAddSchema {
			r.label("add-schema")
		}
		if isWriteKind(cl.Op.K) && cl.Doc != "" && cl.Shared >= 0 && cl.Status == stOK {
			if writers[cl.Doc] == nil {
				writers[cl.Doc] = map[int]bool{}
			}
			writers[cl.Doc][cl.G] = true
		}
		if cl.Op.K == kCreateIndex || cl.Op.K == kDropIndex {
			for _, w := range r.calls {
				if isWriteKind(w.Op.K) && w.G != cl.G && overlap(cl.Start, cl.End, w.Start, w.End) {
					r.label("index-change-overlaps-write")
					break
				}
			}
		}
	}
	for _, ws := range writers {
		if len(ws) >= 2 {
			r.label("same-doc-written-by-2+-goroutines")
		}
	}
	if c.P2P {
		r.label("p2p")
	}
	if c.Burst > 0 {
		r.label("merge-burst")
		if c.Burst >= 12 {
			r.label("merge-burst-12+")
		}
	}
	if c.Branchable {
		r.label("branchable")
	}
	for _, cl := range r.calls {
		if (cl.Op.K == kSetRep || cl.Op.K == kDelRep) && cl.Status == stOK {
			r.label("replicator-changed")
		}
		if cl.Op.K == kSinkDown {
			r.label("replicator-peer-stopped")
		}
	}
	if c.SharedTxn {
		r.label("shared-txn")
		if c.SharedCtx {
			r.label("shared-txn-with-one-shared-context")
		}
		r.label([]string{"txn-commit-ok", "txn-commit-conflict", "txn-commit-error"}[r.commitStatus])
		if r.commitStatus == stConflict {
			r.label("conflict-observed")
		}
	}
	for key := range r.merges.published {
		doc := key[:strings.Index(key, "|")]
		for _, w := range r.calls {
			if isWriteKind(w.Op.K) && w.Doc == doc && !w.Txn && overlap(r.merges.firstPub[key], r.merges.lastEnd[key], w.Start, w.End) {
				r.label("merge-overlaps-local-write")
			}
		}
		r.label("merge")
	}

	// ---- merges: every published merge must have completed
	failedDoc := map[string]bool{}
	for key, fl := range r.merges.failures {
		doc := key[:strings.Index(key, "|")]
		failedDoc[doc] = true
		for _, f := range fl {
			if c.Burst > 0 && doc == r.shared[0] && strings.Contains(strings.ToLower(f), "transaction conflict") {
				// nothing but merges writes this document and the merge queue runs them one at a time:
				// a conflict can only come from two merges of the document running together
				r.fail(hx.Failf(sigBurstConflict,
					"merge %s of a burst of %d merges for one document (no local writer, MaxTxnRetries=%d) was dropped with a conflict: %s; %d of the burst were dropped\n%s",
					short(key), c.Burst, c.BurstRetries, f, len(r.merges.failures), r.history()))
			} else if strings.Contains(strings.ToLower(f), "transaction conflict") {
				// MaxTxnRetries exceeds the number of commits in the whole case, so the retry loop cannot
				// have been exhausted by real conflicts
				r.fail(hx.Failf("C16/merge-lost/conflict-although-retries-left",
					"incoming merge %s was dropped with a transaction conflict although MaxTxnRetries (%d) exceeds the number of commits of the case: %s\n%s",
					short(key), r.tgt.DB.MaxTxnRetries(), f, r.history()))
			} else if strings.Contains(f, "corrupted index") {
				sig, why := r.classifyCorruptedIndexMerge(key, doc, f)
				r.fail(hx.Failf(sig, "incoming merge %s was dropped: %s; %s\n%s", short(key), f, why, r.history()))
			} else {
				r.fail(hx.Failf("C16/merge-lost/"+errClass(f), "incoming merge %s concurrent with local calls was dropped: %s\n%s", short(key), f, r.history()))
			}
		}
	}

	// ---- final state
	res := r.tgt.Exec(`query { Users(showDeleted: true) { _docID _deleted s i pn r tag } }`)
	if !res.OK() {
		r.fail(hx.Failf("C16/final-state/read-error", "reading all documents after the run failed: %s %s\n%s", res.Err(), trimTo(res.Panic, 1500), r.history()))
		return
	}
	rows := res.Rows("Users")
	byID := map[string]map[string]any{}
	byS := map[string][]map[string]any{}
	for _, row := range rows {
		byID[str(row["_docID"])] = row
		byS[str(row["s"])] = append(byS[str(row["s"])], row)
	}
	known := map[string]bool{}

	// shared documents
	for d, id := range r.shared {
		known[id] = true
		row := byID[id]
		if row == nil {
			r.fail(hx.Failf("C16/accounting/shared-document/missing", "shared document %s is gone\n%s", short(id), r.history()))
			continue
		}
		if del, _ := row["_deleted"].(bool); del {
			r.fail(hx.Failf("C16/accounting/shared-document/deleted", "shared document %s is deleted although no call deletes it\n%s", short(id), r.history()))
			continue
		}
		r.checkShared(d, id, row, failedDoc[id])
	}

	// own documents
	for g := range r.own {
		for _, od := range r.own[g] {
			rs := byS[od.key]
			for _, row := range rs {
				known[str(row["_docID"])] = true
			}
			if od.uncertain {
				r.label("own-document-uncertain")
				continue
			}
			exists := od.exists
			qual := "plain"
			if od.txn {
				qual = "shared-txn"
				switch r.commitStatus {
				case stConflict:
					exists = false
				case stError:
					continue
				}
			}
			if !exists {
				if len(rs) > 0 {
					r.fail(hx.Failf("C16/accounting/own-document/effect-of-conflicted-call/"+qual,
						"document %s exists although its creation reported a conflict (or its transaction did)\n%s", od.key, r.history()))
				}
				continue
			}
			if f := compareOwn(od, rs, "final state"); f != "" {
				kind := "state-mismatch"
				if len(rs) == 0 {
					kind = "missing"
				}
				r.fail(hx.Failf("C16/accounting/own-document/"+kind+"/"+qual, "%s\n%s", f, r.history()))
			}
		}
	}
	known[""] = true
	for _, row := range rows {
		if s := str(row["s"]); s == "warm" {
			continue
		}
		if !known[str(row["_docID"])] {
			r.fail(hx.Failf("C16/final-state/unexpected-document", "document %v belongs to no acknowledged call\n%s", hx.Canon(row), r.history()))
		}
	}

	r.checkIndexes(rows)
	r.checkSchemas()
}

func (r *runner) checkShared(d int, id string, row map[string]any, mergeFailed bool) {
	// highest chain commit merged
	K := 0
	for k, it := range r.chain[d] {
		if r.merges.published[mergeKey(id, it.cid.String())] > 0 && k+1 > K {
			K = k + 1
		}
	}
	base := r.p0[d]
	burst := d == 0 && r.c.Burst > 0
	if burst {
		// every sibling of the burst was published and must be merged
		K = len(r.burst)
		for _, it := range r.burst {
			base += it.delta
		}
	}
	for k := 0; k < K && !burst; k++ {
		base += r.chain[d][k].delta
	}
	var unc []int
	acked, uncertainWrites := 0, 0
	txnWrote := false
	var sw, iw []regWrite
	sw = append(sw, regWrite{val: fmt.Sprintf("shared%d|a", d), certain: true, who: "setup"})
	iw = append(iw, regWrite{val: "0", certain: true, who: "setup"})
	for _, cl := range r.calls {
		if cl.Shared != d || !isWriteKind(cl.Op.K) {
			continue
		}
		eff := r.effect(cl)
		if eff == stConflict {
			continue
		}
		if eff == stOK {
			acked++
		} else {
			uncertainWrites++
		}
		if cl.Txn {
			txnWrote = true
		}
		vs, ve := r.visible(cl)
		w := regWrite{vs: vs, ve: ve, cs: cl.Start, ce: cl.End, txn: cl.Txn, certain: eff == stOK, who: fmt.Sprintf("g%d#%d", cl.G, cl.I)}
		switch cl.Op.K {
		case kIncShared, kIncSharedC:
			delta := deltas[cl.Op.V%len(deltas)]
			if eff == stOK {
				base += delta
			} else {
				unc = append(unc, delta)
			}
		case kUpdShared:
			w.val = fmt.Sprintf("g%dn%d|%s", cl.G, cl.I, tags[cl.Op.V%len(tags)])
			sw = append(sw, w)
		case kSetIShared:
			w.val = fmt.Sprint(cl.G*1000 + cl.I + 1)
			iw = append(iw, w)
		}
	}
	qual := "plain"
	if txnWrote {
		qual = "shared-txn"
	}
	if K > 0 {
		qual += "+merge"
	}
	if mergeFailed {
		return // state after a lost merge is not judged further
	}
	// counter
	if len(unc) <= 12 {
		sums := map[int]bool{base: true}
		for _, u := range unc {
			next := map[int]bool{}
			for s := range sums {
				next[s], next[s+u] = true, true
			}
			sums = next
		}
		got, ok := num(row["pn"])
		if !ok || !sums[got] {
			lo, hi := base, base
			for s := range sums {
				if s < lo {
					lo = s
				}
				if s > hi {
					hi = s
				}
			}
			kind := "mismatch"
			if got < lo {
				kind = "lost-increment"
			} else if got > hi {
				kind = "excess-increment"
			}
			sig := "C16/accounting/counter/" + kind + "/" + qual
			if ok && len(unc) == 0 && r.explainedByOverlappingTxnIncrements(d, base, got) {
				// the counter's read-modify-write is two store operations; the wrapper mutex covers each
				// one, not the pair, and calls sharing a transaction do not conflict with each other
				sig = sigTxnCounter
			}
			r.fail(hx.Failf(sig,
				"shared[%d] %s: pn = %v, acknowledged increments (initial %d, merged chain commits 1..%d, %d calls with unknown outcome) give %v\n%s",
				d, short(id), row["pn"], r.p0[d], K, len(unc), keysInt(sums), r.history()))
		}
	}
	// registers
	gotS := str(row["s"]) + "|" + str(row["tag"])
	if adm := admissible(sw); adm[gotS] == "" && !mixedWithinSharedTxn(sw, adm, gotS) {
		r.fail(hx.Failf("C16/accounting/register/s-tag/"+qual,
			"shared[%d] %s: (s,tag) = %s is not the value of an acknowledged write that no later acknowledged write replaced; admissible: %v\n%s",
			d, short(id), gotS, adm, r.history()))
	}
	gi, _ := num(row["i"])
	if adm := admissible(iw); adm[fmt.Sprint(gi)] == "" {
		r.fail(hx.Failf("C16/accounting/register/i/"+qual,
			"shared[%d] %s: i = %d is not the value of an acknowledged write that no later acknowledged write replaced; admissible: %v\n%s",
			d, short(id), gi, adm, r.history()))
	}
	if gr, _ := num(row["r"]); gr != K && !burst { // the siblings of a burst write r concurrently
		r.fail(hx.Failf("C16/accounting/register/merged-remote-field/"+qual,
			"shared[%d] %s: r = %v, the highest merged chain commit wrote %d\n%s", d, short(id), row["r"], K, r.history()))
	}
	// structural: one composite commit per acknowledged write, links closed
	cres := r.tgt.Exec(fmt.Sprintf(`query { commits(docID: %q) { cid height fieldName links { cid } } }`, id))
	if !cres.OK() {
		r.fail(hx.Failf("C16/final-state/commits-read-error", "commits of %s: %s %s\n%s", short(id), cres.Err(), trimTo(cres.Panic, 1500), r.history()))
		return
	}
	cids := map[string]bool{}
	composites := 0
	for _, cm := range cres.Rows("commits") {
		cids[str(cm["cid"])] = true
		if fn := cm["fieldName"]; fn == nil || str(fn) == "_C" {
			composites++
		}
	}
	for _, cm := range cres.Rows("commits") {
		links, _ := cm["links"].([]any)
		for _, l := range links {
			lm, _ := l.(map[string]any)
			if !cids[str(lm["cid"])] {
				r.fail(hx.Failf("C16/structure/dangling-link/"+qual, "shared[%d] %s: commit %s links %s which is not among the document's commits\n%s",
					d, short(id), short(str(cm["cid"])), short(str(lm["cid"])), r.history()))
			}
		}
	}
	lo := 1 + K + acked
	hi := lo + uncertainWrites
	if composites < lo || composites > hi {
		kind := "missing-commit"
		if composites > hi {
			kind = "excess-commit"
		}
		r.fail(hx.Failf("C16/structure/composite-commits/"+kind+"/"+qual,
			"shared[%d] %s has %d composite commits; create + %d merged chain commits + %d acknowledged writes (+%d with unknown outcome) give %d..%d\n%s",
			d, short(id), composites, K, acked, uncertainWrites, lo, hi, r.history()))
	}
}

// indexedAndOverlapped: a CreateIndex call started before the merge ended, and a local write of
// the same document overlapped the merge.
func (r *runner) indexedAndOverlapped(key, doc string) bool {
	from, to := r.merges.firstPub[key], r.merges.lastEnd[key]
	ix, wr := false, false
	for _, cl := range r.calls {
		if cl.Op.K == kCreateIndex && cl.Status != stConflict && cl.Start < to {
			ix = true
		}
		if isWriteKind(cl.Op.K) && cl.Doc == doc && overlap(from, to, cl.Start, cl.End) {
			wr = true
		}
	}
	return ix && wr
}

var indexNameRe = regexp.MustCompile(`Name: (\w+)`)

// classifyCorruptedIndexMerge decides which listed defect, if any, fully explains a merge that was
// dropped with "corrupted index".
func (r *runner) classifyCorruptedIndexMerge(key, doc, errText string) (sig, why string) {
	name := ""
	if m := indexNameRe.FindStringSubmatch(errText); m != nil {
		name = m[1]
	}
	// Was the index already inconsistent for this document before the merge was published?
	// (a local call on the document had failed with the same error)
	prior := false
	for _, cl := range r.calls {
		if cl.Doc == doc && strings.Contains(cl.Err, "corrupted index") && cl.End < r.merges.firstPub[key] {
			prior = true
		}
	}
	if !prior && r.indexedAndOverlapped(key, doc) {
		// syncIndexedDoc reads the "old" document in a fresh transaction, not in the snapshot of the
		// merge: a local write that commits in between makes the index update look for an entry the
		// merge transaction does not have; the error ends the merge without retry
		return sigMergeCorruptedIndex, "an index existed (or was being created) and a local write of the same document overlapped the merge"
	}
	// Otherwise the merge is a victim of an index that earlier calls left inconsistent: attribute it
	// to the listed cause when that cause's own model condition holds for this document and index.
	switch {
	case name != "" && r.explainedByCreateIndexOverlap(name, []string{doc}):
		return sigIndexWriteSkew, "the index was created while a write of this document was in flight, so its entry was missing or stale before the merge arrived"
	case r.explainedByStaleDocumentUpdate(doc):
		return sigIndexStaleDoc, "a collection-API Get+Update of this document overlapped another acknowledged write of it, leaving a stale index entry before the merge arrived"
	case r.indexOpsOnDifferentIndexesOverlapped():
		return sigIndexLostUpdate, "CreateIndex/DropIndex calls on different indexes overlapped, so the index description and its entries disagree"
	}
	if prior {
		return "C16/merge-lost/corrupted-index/index-already-inconsistent-unexplained", "the index was already inconsistent for this document before the merge was published, and no listed cause explains it"
	}
	return "C16/merge-lost/corrupted-index/unexplained", "no local write overlapped the merge and no listed cause explains the inconsistent index"
}

// explainedByOverlappingTxnIncrements: the shared transaction committed, and the observed value is
// the expected one minus the deltas of some increments that were issued through the shared
// transaction while another write of the same document through it was in flight.
func (r *runner) explainedByOverlappingTxnIncrements(d, want, got int) bool {
	if !r.c.SharedTxn || r.commitStatus != stOK {
		return false
	}
	var cand []int
	for _, a := range r.calls {
		if !a.Txn || a.Shared != d || a.Status != stOK || (a.Op.K != kIncShared && a.Op.K != kIncSharedC) {
			continue
		}
		for _, b := range r.calls {
			if b != a && b.G != a.G && b.Txn && b.Shared == d && isWriteKind(b.Op.K) && overlap(a.Start, a.End, b.Start, b.End) {
				cand = append(cand, deltas[a.Op.V%len(deltas)])
				break
			}
		}
	}
	if len(cand) == 0 || len(cand) > 400 {
		return false
	}
	sums := map[int]bool{0: true}
	for _, c := range cand {
		next := map[int]bool{}
		for s := range sums {
			next[s], next[s+c] = true, true
		}
		sums = next
	}
	return sums[want-got]
}

func keysInt(m map[int]bool) []int {
	var out []int
	for k := range m {
		out = append(out, k)
	}
	sort.Ints(out)
	if len(out) > 12 {
		out = out[:12]
	}
	return out
}

func (r *runner) checkIndexes(rows []map[string]any) {
	col, err := r.tgt.DB.GetCollectionByName(r.ctx, "Users")
	if err != nil {
		r.fail(hx.Failf("C16/final-state/collection-read-error", "GetCollectionByName(Users): %v\n%s", err, r.history()))
		return
	}
	ixs, err := col.GetIndexes(r.ctx)
	if err != nil {
		r.fail(hx.Failf("C16/final-state/index-read-error", "GetIndexes: %v\n%s", err, r.history()))
		return
	}
	have := map[string]bool{}
	for _, ix := range ixs {
		have[ix.Name] = true
	}
	for _, name := range []string{"ix0", "ix1"} {
		ws := []regWrite{{val: "absent", certain: true, who: "setup"}}
		for _, cl := range r.calls {
			if (cl.Op.K != kCreateIndex && cl.Op.K != kDropIndex) || cl.Note != name || cl.Status == stConflict {
				continue
			}
			v := "present"
			if cl.Op.K == kDropIndex {
				v = "absent"
			}
			ws = append(ws, regWrite{val: v, vs: cl.Start, ve: cl.End, cs: cl.Start, ce: cl.End, certain: cl.Status == stOK, who: fmt.Sprintf("g%d#%d", cl.G, cl.I)})
		}
		got := "absent"
		if have[name] {
			got = "present"
		}
		if adm := admissible(ws); adm[got] == "" {
			sig := "C16/accounting/index/" + got
			if r.otherIndexChangedMeanwhile(name, ws) {
				// the index list is part of the collection description, which CreateIndex/DropIndex save
				// as a whole from the (possibly stale) collection object they are called on
				sig = sigIndexLostUpdate
			}
			r.fail(hx.Failf(sig, "index %s is %s at the end; acknowledged CreateIndex/DropIndex calls admit %v\n%s", name, got, adm, r.history()))
		}
	}
	// index content: a filter served by the index must agree with the documents themselves
	type probe struct{ field, lit, want string }
	var probes []probe
	for _, t := range tags {
		probes = append(probes, probe{"tag", fmt.Sprintf("%q", t), t})
	}
	seen := map[string]bool{}
	for _, row := range rows {
		if iv, ok := num(row["i"]); ok && !seen[fmt.Sprint(iv)] && len(seen) < 6 {
			seen[fmt.Sprint(iv)] = true
			probes = append(probes, probe{"i", fmt.Sprint(iv), fmt.Sprint(iv)})
		}
	}
	for _, p := range probes {
		want := []string{}
		for _, row := range rows {
			if del, _ := row["_deleted"].(bool); del {
				continue
			}
			v := str(row["tag"])
			if p.field == "i" {
				iv, ok := num(row["i"])
				if !ok {
					continue
				}
				v = fmt.Sprint(iv)
			}
			if v == p.want {
				want = append(want, str(row["_docID"]))
			}
		}
		sort.Strings(want)
		res := r.tgt.Exec(fmt.Sprintf(`query { Users(filter: {%s: {_eq: %s}}) { _docID } }`, p.field, p.lit))
		if !res.OK() {
			r.fail(hx.Failf("C16/final-state/filter-read-error", "filter on %s after the run: %s %s\n%s", p.field, res.Err(), trimTo(res.Panic, 1500), r.history()))
			continue
		}
		got := []string{}
		for _, row := range res.Rows("Users") {
			got = append(got, str(row["_docID"]))
		}
		sort.Strings(got)
		if strings.Join(got, ",") != strings.Join(want, ",") {
			indexed := (p.field == "tag" && have["ix0"]) || (p.field == "i" && have["ix1"])
			sig := fmt.Sprintf("C16/structure/index-content/%s/indexed=%v", p.field, indexed)
			ixName := map[string]string{"tag": "ix0", "i": "ix1"}[p.field]
			if indexed {
				skew, stale := 0, 0
				diff := symDiff(got, want)
				for _, id := range diff {
					if r.explainedByCreateIndexOverlap(ixName, []string{id}) {
						skew++
					} else if r.explainedByStaleDocumentUpdate(id) {
						stale++
					}
				}
				switch {
				case r.indexOpsOnDifferentIndexesOverlapped():
					// a description saved from a stale collection object resurrects a dropped index without
					// its entries, or drops one whose entries stay behind
					sig = sigIndexLostUpdate
				case skew == len(diff):
					// CreateIndex scans the documents of its snapshot; a write that commits meanwhile did not
					// see the index either: neither side indexes the document and both commits succeed
					sig = sigIndexWriteSkew
				case skew+stale == len(diff):
					// collection.Update recomputes the index entries from ALL fields of the client.Document it is
					// given; fields that are not dirty still hold what an earlier Get saw
					sig = sigIndexStaleDoc
				}
			}
			r.fail(hx.Failf(sig,
				"filter %s = %s returns %v, the documents themselves give %v (indexes present: %v)\n%s", p.field, p.lit, shorts(got), shorts(want), have, r.history()))
		}
	}
}

func symDiff(a, b []string) []string {
	in := map[string]int{}
	for _, x := range a {
		in[x] |= 1
	}
	for _, x := range b {
		in[x] |= 2
	}
	var out []string
	for x, m := range in {
		if m != 3 {
			out = append(out, x)
		}
	}
	sort.Strings(out)
	return out
}

// explainedByCreateIndexOverlap: every document in docs was written by a call that overlapped an
// acknowledged CreateIndex of that index.
func (r *runner) explainedByCreateIndexOverlap(index string, docs []string) bool {
	if len(docs) == 0 {
		return false
	}
	for _, id := range docs {
		ok := false
		for _, w := range r.calls {
			if !isWriteKind(w.Op.K) || w.Doc != id || r.effect(w) == stConflict {
				continue
			}
			ws, we := r.visible(w)
			for _, ci := range r.calls {
				if ci.Op.K == kCreateIndex && ci.Note == index && ci.Status == stOK && overlap(ws, we, ci.Start, ci.End) {
					ok = true
				}
			}
		}
		if !ok {
			return false
		}
	}
	return true
}

// explainedByStaleDocumentUpdate: a collection-API Get+Update call on the document was acknowledged
// and overlapped an acknowledged write of the same document by another goroutine.
func (r *runner) explainedByStaleDocumentUpdate(id string) bool {
	for _, w := range r.calls {
		if w.Doc != id || w.Status != stOK || w.Txn {
			continue
		}
		if w.Op.K != kIncSharedC && w.Op.K != kSetIShared && w.Op.K != kIncOwn {
			continue
		}
		for _, o := range r.calls {
			if o != w && o.G != w.G && o.Doc == id && isWriteKind(o.Op.K) && r.effect(o) == stOK {
				os, oe := r.visible(o)
				if overlap(w.Start, w.End, os, oe) {
					return true
				}
			}
		}
	}
	return false
}

// otherIndexChangedMeanwhile: an acknowledged CreateIndex/DropIndex of a different index overlapped
// one of the acknowledged calls on this index that is not overwritten by a later one.
func (r *runner) otherIndexChangedMeanwhile(name string, ws []regWrite) bool {
	for i, w := range ws {
		if !w.certain || w.who == "setup" {
			continue
		}
		last := true
		for j, x := range ws {
			if i != j && x.certain && hb(w, x) {
				last = false
			}
		}
		if !last {
			continue
		}
		for _, o := range r.calls {
			if (o.Op.K == kCreateIndex || o.Op.K == kDropIndex) && o.Note != name && o.Status == stOK && overlap(w.vs, w.ve, o.Start, o.End) {
				return true
			}
		}
	}
	return false
}

// indexOpsOnDifferentIndexesOverlapped: two acknowledged CreateIndex/DropIndex calls on different
// indexes overlapped in time.
func (r *runner) indexOpsOnDifferentIndexesOverlapped() bool {
	for _, a := range r.calls {
		if (a.Op.K != kCreateIndex && a.Op.K != kDropIndex) || a.Status != stOK {
			continue
		}
		for _, b := range r.calls {
			if (b.Op.K == kCreateIndex || b.Op.K == kDropIndex) && b.Status == stOK && b.Note != a.Note && overlap(a.Start, a.End, b.Start, b.End) {
				return true
			}
		}
	}
	return false
}

func shorts(xs []string) []string {
	out := make([]string, len(xs))
	for i, x := range xs {
		out[i] = short(x)
	}
	return out
}

func (r *runner) checkSchemas() {
	for _, cl := range r.calls {
		if cl.Op.K != kAddSchema || cl.Status == stError {
			continue
		}
		_, err := r.tgt.DB.GetCollectionByName(r.ctx, cl.Note)
		if cl.Status == stOK {
			if err != nil {
				r.fail(hx.Failf("C16/accounting/add-schema/collection-missing", "AddSchema of %s was acknowledged but GetCollectionByName fails: %v\n%s", cl.Note, err, r.history()))
				continue
			}
			res := r.tgt.Exec(fmt.Sprintf(`query { %s { _docID } }`, cl.Note))
			if !res.OK() {
				r.fail(hx.Failf("C16/accounting/add-schema/type-not-queryable", "AddSchema of %s was acknowledged, the collection exists, but a request on it fails: %s %s\n%s",
					cl.Note, res.Err(), trimTo(res.Panic, 1000), r.history()))
			}
		} else if err == nil {
			r.fail(hx.Failf("C16/accounting/add-schema/effect-of-conflicted-call", "AddSchema of %s reported a conflict but the collection exists\n%s", cl.Note, r.history()))
		}
	}
}
