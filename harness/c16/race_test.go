package c16

import (
	"os"
	"path/filepath"
	"regexp"
	"sort"
	"strings"
)

// raceReport is one "WARNING: DATA RACE" block of the race detector, reduced to
// the function names of the two conflicting accesses (leaf first).
type raceReport struct {
	Kind [2]string   // "Write", "Previous read", ...
	Stk  [2][]string // function names, leaf first
	Raw  string
}

const modPrefix = "github.com/sourcenetwork/defradb/"

var accessRe = regexp.MustCompile(`^(Previous )?(atomic )?(read|write|Read|Write) at 0x[0-9a-f]+ by (goroutine \d+|main goroutine)`)

// parseRaceLog splits the text of a GORACE log file into reports.
func parseRaceLog(text string) []raceReport {
	var out []raceReport
	for _, blk := range strings.Split(text, "==================") {
		if !strings.Contains(blk, "WARNING: DATA RACE") {
			continue
		}
		r := raceReport{Raw: strings.TrimSpace(blk)}
		n := 0
		cur := -1
		for _, line := range strings.Split(blk, "\n") {
			if strings.TrimSpace(line) == "" {
				cur = -1
				continue
			}
			if !strings.HasPrefix(line, " ") {
				cur = -1
				if m := accessRe.FindString(line); m != "" && n < 2 {
					cur = n
					r.Kind[n] = strings.TrimSpace(line[:strings.Index(line, " at 0x")])
					n++
				}
				continue
			}
			if cur < 0 {
				continue
			}
			s := strings.TrimSpace(line)
			// frames come as "pkg.func()" followed by an indented "file:line +0x.." line
			if strings.HasSuffix(s, ")") && !strings.HasPrefix(s, "/") && !strings.Contains(s, ".go:") {
				if i := strings.LastIndex(s, "("); i > 0 {
					s = s[:i]
				}
				r.Stk[cur] = append(r.Stk[cur], s)
			} else if strings.HasPrefix(s, "[failed to restore the stack]") {
				r.Stk[cur] = append(r.Stk[cur], "stack-not-restored")
			}
		}
		if n > 0 {
			out = append(out, r)
		}
	}
	return out
}

func isHarnessFrame(f string) bool { return strings.HasPrefix(f, modPrefix+"verifharness/") }

func isDefraFrame(f string) bool {
	return strings.HasPrefix(f, modPrefix) && !isHarnessFrame(f)
}

var instRe = regexp.MustCompile(`\[[^\]]*\]`)

// topDefraFrame returns the innermost defradb function of a stack, without the
// module prefix; when the stack has none, the innermost non-runtime function.
func topDefraFrame(stk []string) string {
	for _, f := range stk {
		if isDefraFrame(f) {
			return instRe.ReplaceAllString(strings.TrimPrefix(f, modPrefix), "")
		}
	}
	for _, f := range stk {
		if !strings.HasPrefix(f, "runtime.") && !isHarnessFrame(f) {
			return "ext:" + instRe.ReplaceAllString(f, "")
		}
	}
	if len(stk) > 0 {
		return "ext:" + stk[0]
	}
	return "no-stack"
}

// firstDefra reports whether the innermost defradb frame satisfies pred.
func firstDefra(stk []string, pred func(string) bool) bool {
	for _, f := range stk {
		if isDefraFrame(f) {
			return pred(f)
		}
	}
	return false
}

func hasFrame(stk []string, pred func(string) bool) bool {
	for _, f := range stk {
		if pred(f) {
			return true
		}
	}
	return false
}

// innermostBefore reports whether a frame satisfying pred occurs closer to the
// leaf than the first defradb frame.
func innerOfDefra(stk []string, pred func(string) bool) bool {
	for _, f := range stk {
		if isDefraFrame(f) {
			return false
		}
		if pred(f) {
			return true
		}
	}
	return false
}

func isBadgerTxn(f string) bool {
	return strings.HasPrefix(f, "github.com/dgraph-io/badger/v4.(*Txn).") ||
		strings.HasPrefix(f, "github.com/dgraph-io/badger/v4.(*Iterator).") ||
		strings.HasPrefix(f, "github.com/dgraph-io/badger/v4.(*Item).") ||
		strings.HasPrefix(f, "github.com/dgraph-io/badger/v4.(*pendingWritesIterator).")
}

func isStoreLayer(f string) bool {
	return strings.HasPrefix(f, "github.com/dgraph-io/badger/v4.") || strings.HasPrefix(f, "github.com/sourcenetwork/corekv/")
}

func isGraphqlGo(f string) bool {
	return strings.HasPrefix(f, "github.com/sourcenetwork/graphql-go.") || strings.HasPrefix(f, "github.com/sourcenetwork/graphql-go/")
}

func viaSharedTxn(stk []string) bool {
	return hasFrame(stk, func(f string) bool {
		return strings.Contains(f, "verifharness/c16.") && strings.Contains(f, "viaSharedTxn")
	})
}

// Signatures of the diagnosed classes (each needs every condition named in its
// diagnoser; anything else gets the generic pair signature).
const (
	sigStoreBypass  = "C16/race/shared-txn/badger-txn-accessed-without-wrapper-mutex"
	sigLazyTypes    = "C16/race/graphql-go/lazy-type-definition"
	sigParserSwap   = "C16/race/graphql-parser/schema-manager-replaced-without-synchronisation"
	sigTxnCallbacks = "C16/race/shared-txn/callback-lists-appended-without-lock"

	sigRedeletePanic         = "C16/panic/client.(*Document).GetValue/collection-delete-of-invisible-document-with-index"
	sigMergeCorruptedIndex   = "C16/merge-lost/corrupted-index/local-write-overlaps-merge-on-indexed-collection"
	sigIndexWriteSkew        = "C16/structure/index-content/write-overlaps-create-index"
	sigSharedTxnOpenIterator = "C16/fatal/shared-txn/unclosed-iterator-at-commit"
	sigIndexLostUpdate       = "C16/accounting/index/lost-by-concurrent-change-of-another-index"
	sigTxnCounter            = "C16/accounting/counter/shared-txn/overlapping-increments-in-one-transaction-not-atomic"
	sigBurstConflict         = "C16/merge-lost/conflict-between-merges-of-one-document"
	sigIndexStaleDoc         = "C16/structure/index-content/collection-update-with-stale-document"
	sigPushHeadsPanic        = "C16/fatal/unclosed-iterator/net.(*Peer).pushHeadsForAllDocs-returns-early"
)

func isParserMethod(f string) bool {
	return strings.HasPrefix(f, modPrefix+"internal/request/graphql.(*parser).")
}

func isTxnCallback(f string) bool {
	if !strings.HasPrefix(f, modPrefix+"internal/datastore.(*BasicTxn).On") {
		return false
	}
	return true
}

// duringClose reports whether an access happened inside the shutdown of a node. Closing a node
// while its background work is still running is not among the calls the property quantifies over.
func duringClose(stk []string) bool {
	return hasFrame(stk, func(f string) bool {
		switch f {
		case modPrefix + "internal/db.(*DB).Close", modPrefix + "node.(*Node).Close", modPrefix + "net.(*Peer).Close":
			return true
		}
		return strings.HasSuffix(f, "verifharness/c16.(*runner).close")
	})
}

// raceSignature reduces a report to its signature. caseSharedTxn tells whether
// the case used a shared concurrent transaction at all.
func raceSignature(r raceReport, caseSharedTxn bool) string {
	// (a) both accesses are inside Badger's *Txn (or its iterators), reached from two calls
	// that carry the shared concurrent transaction: NewConcurrentTxnFrom hands the stores the
	// unwrapped transaction, so concurrentTxn.mu is never taken on a data access.
	// One side may be the construction of a key or entry in the corekv wrappers that the other
	// side later finds in the transaction's pending writes.
	// or of a value that the other side's iterator copies out of them.
	if caseSharedTxn && (innerOfDefra(r.Stk[0], isBadgerTxn) || innerOfDefra(r.Stk[1], isBadgerTxn)) &&
		viaSharedTxn(r.Stk[0]) && viaSharedTxn(r.Stk[1]) {
		return sigStoreBypass
	}
	// (b) both accesses are inside graphql-go itself (type thunks resolved on first use)
	if innerOfDefra(r.Stk[0], isGraphqlGo) && innerOfDefra(r.Stk[1], isGraphqlGo) {
		return sigLazyTypes
	}
	a, b := topDefraFrame(r.Stk[0]), topDefraFrame(r.Stk[1])
	// (c) the commit callback of a schema change stores parser.schemaManager while a request on
	// another goroutine reads it through a method of the same parser
	// (also reported as: the construction of the new manager inside SetSchema, which the reader
	// reaches through the unsynchronised pointer)
	inSetSchema := func(stk []string) bool {
		return hasFrame(stk, func(f string) bool {
			return strings.HasPrefix(f, modPrefix+"internal/request/graphql.(*parser).SetSchema")
		})
	}
	if (inSetSchema(r.Stk[0]) && firstDefra(r.Stk[1], isParserMethod) && !inSetSchema(r.Stk[1])) ||
		(inSetSchema(r.Stk[1]) && firstDefra(r.Stk[0], isParserMethod) && !inSetSchema(r.Stk[0])) {
		return sigParserSwap
	}
	// (d) two calls carrying the shared transaction register commit/discard callbacks: the
	// appends in BasicTxn.On{Success,Error,Discard}[Async] have no lock
	if caseSharedTxn && firstDefra(r.Stk[0], isTxnCallback) && firstDefra(r.Stk[1], isTxnCallback) &&
		viaSharedTxn(r.Stk[0]) && viaSharedTxn(r.Stk[1]) {
		return sigTxnCallbacks
	}
	if a > b {
		a, b = b, a
	}
	return "C16/race/" + a + "~" + b
}

// readRaceReports reads every log file the race detector wrote for prefix.
func readRaceReports(prefix string) []raceReport {
	files, _ := filepath.Glob(prefix + ".*")
	sort.Strings(files)
	var out []raceReport
	for _, f := range files {
		raw, err := os.ReadFile(f)
		if err != nil {
			continue
		}
		out = append(out, parseRaceLog(string(raw))...)
	}
	return out
}

// goroutineFrames extracts the function names (leaf first) of the first goroutine of a Go
// crash dump ("goroutine N [running]:" block).
func goroutineFrames(dump string) []string {
	i := strings.Index(dump, "\ngoroutine ")
	if i < 0 {
		return nil
	}
	var out []string
	lines := strings.Split(dump[i+1:], "\n")
	for _, line := range lines[1:] {
		if strings.TrimSpace(line) == "" {
			break
		}
		if strings.HasPrefix(line, "\t") || strings.HasPrefix(line, " ") {
			continue
		}
		if strings.HasPrefix(line, "created by ") {
			break
		}
		if j := strings.LastIndex(line, "("); j > 0 {
			line = line[:j]
		}
		out = append(out, line)
	}
	return out
}

// fatalSignature reduces a runtime-fatal error or unrecovered panic of the child to a signature.
func fatalSignature(what, dump string, caseSharedTxn bool) string {
	stk := goroutineFrames(dump)
	if caseSharedTxn && strings.Contains(what, "concurrent map") && innerOfDefra(stk, isBadgerTxn) && viaSharedTxn(stk) {
		// the runtime caught the unsynchronised access to the transaction's pending writes itself
		return sigStoreBypass
	}
	if strings.Contains(what, "Unclosed iterator") && hasFrame(stk, func(f string) bool { return f == modPrefix+"net.(*Peer).pushHeadsForAllDocs" }) {
		return sigPushHeadsPanic
	}
	if caseSharedTxn && strings.Contains(what, "Unclosed iterator") && hasFrame(stk, func(f string) bool { return strings.HasSuffix(f, "verifharness/c16.(*runner).commit") }) {
		// some call inside the shared transaction left an iterator open; the harness commits only
		// after every user of the transaction has returned
		return sigSharedTxnOpenIterator
	}
	return "C16/fatal/" + errClass(what) + "/" + topDefraFrame(stk)
}
