package c16

import (
	"context"
	"encoding/json"
	"errors"
	"fmt"
	"os"
	"runtime"
	"runtime/debug"
	"sort"
	"strings"
	"sync"
	"sync/atomic"
	"time"

	"github.com/ipfs/go-cid"
	"github.com/libp2p/go-libp2p/core/peer"
	"github.com/sourcenetwork/corekv"

	"github.com/sourcenetwork/defradb/client"
	"github.com/sourcenetwork/defradb/event"
	"github.com/sourcenetwork/defradb/internal/db"
	netConfig "github.com/sourcenetwork/defradb/net/config"
	"github.com/sourcenetwork/defradb/node"
	"github.com/sourcenetwork/defradb/verifharness/hx"
)

const (
	stOK = iota
	stConflict
	stError    // any other error: the call may or may not have had an effect
	stNoTarget // nothing to act on (own document never created): not executed
)

var deltas = []int{1, 2, 3, -1, 5, 7}

// callRec is what the harness knows about one executed call.
type callRec struct {
	G, I       int
	Op         Op
	Txn        bool
	Doc        string // target document id ("" when none)
	Shared     int    // index of the shared document, -1 otherwise
	Start, End int64  // logical clock before / after the call
	Status     int
	Err        string
	Note       string
	// Redelete: a collection-API delete of a document the model already holds deleted.
	Redelete bool
}

func (c *callRec) String() string {
	st := [...]string{"ok", "CONFLICT", "ERROR", "no-target"}[c.Status]
	via := ""
	if c.Txn {
		via = " [txn]"
	}
	s := fmt.Sprintf("g%d#%d %s d=%d v=%d%s [%d,%d] %s", c.G, c.I, c.Op.K, c.Op.D, c.Op.V, via, c.Start, c.End, st)
	if c.Doc != "" {
		s += " doc=" + short(c.Doc)
	}
	if c.Note != "" {
		s += " " + c.Note
	}
	if c.Err != "" {
		s += " err=" + trimTo(c.Err, 160)
	}
	return s
}

func short(s string) string {
	if len(s) > 14 {
		return s[len(s)-8:]
	}
	return s
}

func trimTo(s string, n int) string {
	if len(s) > n {
		return s[:n] + "…"
	}
	return s
}

type chainItem struct {
	cid   cid.Cid
	delta int
	r     int
}

// ownDoc is the sequential model of a document only one goroutine touches.
type ownDoc struct {
	key       string // value of s, unique per document
	id        string
	exists    bool
	deleted   bool
	tag       string
	i, pn     int
	uncertain bool // a call on it ended with a non-conflict error
	txn       bool
}

// mergeTracker follows every Merge event the harness publishes to its end:
// a MergeComplete event or a "Failed to execute merge" log record.
type mergeTracker struct {
	mu        sync.Mutex
	cond      *sync.Cond
	published map[string]int
	ended     map[string]int
	failures  map[string][]string
	firstPub  map[string]int64
	lastEnd   map[string]int64
}

func newMergeTracker() *mergeTracker {
	m := &mergeTracker{published: map[string]int{}, ended: map[string]int{}, failures: map[string][]string{},
		firstPub: map[string]int64{}, lastEnd: map[string]int64{}}
	m.cond = sync.NewCond(&m.mu)
	return m
}

func mergeKey(docID, c string) string { return docID + "|" + c }

func (m *mergeTracker) publish(key string, tick int64) {
	m.mu.Lock()
	if _, ok := m.firstPub[key]; !ok {
		m.firstPub[key] = tick
	}
	m.published[key]++
	m.mu.Unlock()
}

// failed records a logged merge failure; it returns false when the harness published no such merge
// (the record belongs to another node of the process).
func (m *mergeTracker) failed(key string, failure string, tick int64) bool {
	m.mu.Lock()
	_, ok := m.published[key]
	m.mu.Unlock()
	if !ok {
		return false
	}
	m.end(key, failure, tick)
	return true
}

func (m *mergeTracker) end(key string, failure string, tick int64) {
	m.mu.Lock()
	m.ended[key]++
	m.lastEnd[key] = tick
	if failure != "" {
		m.failures[key] = append(m.failures[key], failure)
	}
	m.cond.Broadcast()
	m.mu.Unlock()
}

// wait blocks until pred holds; a stuck merge is reported as a harness hang (inconclusive), never as a verdict.
func (m *mergeTracker) wait(pred func() bool, what string) {
	done := make(chan struct{})
	go func() {
		m.mu.Lock()
		for !pred() {
			m.cond.Wait()
		}
		m.mu.Unlock()
		close(done)
	}()
	select {
	case <-done:
	case <-time.After(75 * time.Second):
		buf := make([]byte, 1<<20)
		buf = buf[:runtime.Stack(buf, true)]
		m.mu.Lock()
		st := fmt.Sprintf("published=%v ended=%v", m.published, m.ended)
		m.mu.Unlock()
		hx.Harnessf("merge did not end within 75s (%s): %s\n%s", what, st, trimTo(string(buf), 20000))
	}
}

func (m *mergeTracker) allEnded() bool {
	for k, n := range m.published {
		if m.ended[k] < n {
			return false
		}
	}
	return true
}

// current tracker for the log reader (one case runs at a time in the child process).
var curTracker atomic.Pointer[mergeTracker]
var curTick atomic.Pointer[atomic.Int64]

type runner struct {
	c    Case
	rep  int
	ctx  context.Context
	tgt  *hx.Node
	src  *hx.Node
	sink *hx.Node

	tick   atomic.Int64
	colID  string
	shared []string
	p0     []int
	chain  [][]chainItem
	burst  []chainItem

	txn          client.Txn
	sharedCtx    context.Context // set when the users of the shared transaction share one initialised context
	commitStart  int64
	commitEnd    int64
	commitStatus int
	commitErr    string

	mu     sync.Mutex
	calls  []*callRec
	fails  []*hx.Failure
	own    [][]*ownDoc
	merges *mergeTracker
	labels map[string]bool

	sinkInfo    peer.AddrInfo
	sinkStarted atomic.Int64
	sinkEnded   atomic.Int64
	foreignBase int64
	repDone     atomic.Int64 // ReplicatorCompleted events seen
	sinkDown    atomic.Bool
}

func timing(format string, args ...any) {
	if os.Getenv("VERIF_C16_SHOW_STDERR") != "" {
		fmt.Fprintf(os.Stdout, "timing: "+format+"\n", args...)
	}
}

// waitReplicatorPushes waits for the background push every acknowledged SetReplicator starts
// (it ends with a ReplicatorCompleted event), so that closing the node is not part of the schedule.
// Waiting is bounded and never a verdict.
func (r *runner) waitReplicatorPushes() {
	want := int64(0)
	for _, cl := range r.calls {
		if cl.Op.K == kSetRep && cl.Status == stOK {
			want++
		}
	}
	deadline := time.Now().Add(20 * time.Second)
	for r.repDone.Load() < want && time.Now().Before(deadline) {
		time.Sleep(5 * time.Millisecond)
	}
	if r.repDone.Load() < want {
		r.label("replicator-push-still-running-at-close")
	}
	// the replicator peer merges what it was pushed asynchronously: let it come to rest as well
	// (merges started = merges completed + merges logged as failed, stable for a moment)
	if r.sink != nil && !r.sinkDown.Load() {
		deadline = time.Now().Add(4 * time.Second)
		stable := 0
		for time.Now().Before(deadline) && stable < 6 {
			if r.sinkStarted.Load() <= r.sinkEnded.Load()+foreignMergeFailures.Load()-r.foreignBase {
				stable++
			} else {
				stable = 0
			}
			time.Sleep(5 * time.Millisecond)
		}
		if stable < 6 {
			r.label("replicator-peer-still-merging-at-close")
		}
	}
}

// foreignMergeFailures counts merge failures logged for merges the harness did not publish
// (those of the replicator peer in the same process).
var foreignMergeFailures atomic.Int64

func (r *runner) fail(f *hx.Failure) {
	r.mu.Lock()
	r.fails = append(r.fails, f)
	r.mu.Unlock()
}

func (r *runner) label(l string) {
	r.mu.Lock()
	r.labels[l] = true
	r.mu.Unlock()
}

func sdl(branchable bool) string {
	b := ""
	if branchable {
		b = " @branchable"
	}
	return "type Users" + b + " {\n s: String\n i: Int\n pn: Int @crdt(type: pncounter)\n r: Int\n tag: String\n}\n"
}

func isConflict(err error) bool {
	if err == nil {
		return false
	}
	return errors.Is(err, corekv.ErrTxnConflict) || strings.Contains(strings.ToLower(err.Error()), "transaction conflict")
}

func classify(err error) (int, string) {
	if err == nil {
		return stOK, ""
	}
	if isConflict(err) {
		return stConflict, err.Error()
	}
	return stError, err.Error()
}

// store is what a call is issued on: the database itself or the shared transaction.
type store interface {
	ExecRequest(ctx context.Context, request string, opts ...client.RequestOption) *client.RequestResult
	GetCollectionByName(ctx context.Context, name client.CollectionName) (client.Collection, error)
}

// viaSharedTxn marks (in stack traces too) the calls that carry the shared concurrent transaction.
//
//go:noinline
func (r *runner) viaSharedTxn(f func(ctx context.Context, st store) (int, string)) (int, string) {
	ctx := r.sharedCtx
	if ctx == nil {
		ctx = db.InitContext(r.ctx, r.txn)
	}
	st, e := f(ctx, r.txn)
	return st, e
}

//go:noinline
func (r *runner) viaDB(f func(ctx context.Context, st store) (int, string)) (int, string) {
	return f(r.ctx, r.tgt.DB)
}

func gqlErr(res *client.RequestResult) error {
	if len(res.GQL.Errors) == 0 {
		return nil
	}
	return errors.Join(res.GQL.Errors...)
}

func rowsOf(res *client.RequestResult, key string) []map[string]any {
	m, _ := hx.Normalize(res.GQL.Data).(map[string]any)
	v, _ := m[key].([]any)
	out := []map[string]any{}
	for _, x := range v {
		if row, ok := x.(map[string]any); ok {
			out = append(out, row)
		}
	}
	return out
}

func num(v any) (int, bool) {
	switch x := v.(type) {
	case json.Number:
		n, err := x.Int64()
		return int(n), err == nil
	case float64:
		return int(x), true
	case int:
		return x, true
	case int64:
		return int(x), true
	}
	return 0, false
}

func str(v any) string {
	s, _ := v.(string)
	return s
}

// setup boots the nodes, creates the shared documents on the second node, merges them into
// the node under test synchronously and lets the second node produce the commit chains.
func (r *runner) setup() {
	c := r.c
	total := c.Docs*c.Chain + 100
	for _, l := range c.Lists {
		total += len(l)
	}
	// more retries than there are commits in the whole case: a merge can then never run out of
	// retries legitimately (each lost attempt needs its own conflicting commit)
	opts := []node.Option{db.WithMaxRetries(4*total + 1000)}
	if c.Burst > 0 {
		// merges of one document are serialised by the merge queue and nothing else writes it, so
		// they can never conflict: a small retry budget must be enough
		opts = []node.Option{db.WithMaxRetries(c.BurstRetries)}
	}
	var err error
	if c.P2P {
		opts = append(opts, node.WithDisableP2P(false), netConfig.WithListenAddresses("/ip4/127.0.0.1/tcp/0"))
		r.sink, err = hx.NewMemNode(node.WithDisableP2P(false), netConfig.WithListenAddresses("/ip4/127.0.0.1/tcp/0"))
		if err != nil {
			hx.Harnessf("cannot boot p2p sink: %v", err)
		}
	}
	if r.sink != nil {
		r.sinkInfo = r.sink.N.Peer.PeerInfo()
	}
	r.tgt, err = hx.NewMemNode(opts...)
	if err != nil {
		hx.Harnessf("cannot boot node: %v", err)
	}
	r.src = hx.MustMemNode()
	r.ctx = r.tgt.Ctx
	nodes := []*hx.Node{r.tgt, r.src}
	if r.sink != nil {
		nodes = append(nodes, r.sink)
	}
	for _, n := range nodes {
		if _, err := n.DB.AddSchema(n.Ctx, sdl(c.Branchable)); err != nil {
			hx.Harnessf("schema rejected: %v", err)
		}
	}
	tap := hx.NewEventTap(r.src)
	defer tap.Close()
	col, err := r.src.DB.GetCollectionByName(r.src.Ctx, "Users")
	if err != nil {
		hx.Harnessf("collection: %v", err)
	}
	r.colID = col.Version().CollectionID
	docUpdates := func() []event.Update {
		var out []event.Update
		for _, u := range tap.Take() {
			if u.DocID != "" {
				out = append(out, u)
			}
		}
		return out
	}
	for d := 0; d < c.Docs; d++ {
		p0 := 10 * (d + 1)
		doc, err := client.NewDocFromJSON([]byte(fmt.Sprintf(`{"s":"shared%d","i":0,"pn":%d,"r":0,"tag":"a"}`, d, p0)), col.Definition())
		if err != nil {
			hx.Harnessf("doc: %v", err)
		}
		if err := col.Create(r.src.Ctx, doc); err != nil {
			hx.Harnessf("create on second node: %v", err)
		}
		id := doc.ID().String()
		ups := docUpdates()
		if len(ups) != 1 {
			hx.Harnessf("expected one document update event for a create, got %d", len(ups))
		}
		if _, err := hx.CopyClosure(r.ctx, r.src, r.tgt, ups[0].Cid); err != nil {
			hx.Harnessf("copy closure: %v", err)
		}
		if err := r.tgt.DB.VerifMerge(r.ctx, event.Merge{DocID: id, Cid: ups[0].Cid, CollectionID: r.colID}); err != nil {
			hx.Harnessf("initial merge of a shared document failed: %v", err)
		}
		r.shared = append(r.shared, id)
		r.p0 = append(r.p0, p0)
		if d == 0 && c.Burst > 0 {
			r.makeBurst(id, ups[0].Cid)
		}
		var ch []chainItem
		for k := 1; k <= c.Chain; k++ {
			delta := 100*k + d
			res := r.src.Exec(fmt.Sprintf(`mutation { update_Users(docID: %q, input: {pn: %d, r: %d}) { _docID } }`, id, delta, k))
			if !res.OK() {
				hx.Harnessf("chain update on second node: %s %s", res.Err(), res.Panic)
			}
			ups := docUpdates()
			if len(ups) != 1 {
				hx.Harnessf("expected one document update event for an update, got %d", len(ups))
			}
			ch = append(ch, chainItem{cid: ups[0].Cid, delta: delta, r: k})
		}
		r.chain = append(r.chain, ch)
	}
	if c.Warm {
		r.warmUp()
	}
}

// makeBurst produces c.Burst sibling commits of the document: each on a node of its own that knows
// only the create commit, incrementing the counter by a distinct amount. The blocks are copied into
// the node under test right away (what the DAG sync does before a Merge event is published).
func (r *runner) makeBurst(id string, create cid.Cid) {
	for k := 0; k < r.c.Burst; k++ {
		n := hx.MustMemNode()
		if _, err := n.DB.AddSchema(n.Ctx, sdl(false)); err != nil {
			hx.Harnessf("schema rejected: %v", err)
		}
		if _, err := hx.CopyClosure(n.Ctx, r.src, n, create); err != nil {
			hx.Harnessf("copy closure: %v", err)
		}
		if err := n.DB.VerifMerge(n.Ctx, event.Merge{DocID: id, Cid: create, CollectionID: r.colID}); err != nil {
			hx.Harnessf("merge of the create commit on a burst node failed: %v", err)
		}
		tap := hx.NewEventTap(n)
		delta := 1000 + 37*k
		res := n.Exec(fmt.Sprintf(`mutation { update_Users(docID: %q, input: {pn: %d, r: %d}) { _docID } }`, id, delta, k+1))
		if !res.OK() {
			hx.Harnessf("burst update: %s %s", res.Err(), res.Panic)
		}
		var c cid.Cid
		found := 0
		for _, u := range tap.Take() {
			if u.DocID == id {
				c = u.Cid
				found++
			}
		}
		if found != 1 {
			hx.Harnessf("expected one document update event on a burst node, got %d", found)
		}
		if _, err := hx.CopyClosure(r.ctx, n, r.tgt, c); err != nil {
			hx.Harnessf("copy closure: %v", err)
		}
		tap.Close()
		n.Close()
		r.burst = append(r.burst, chainItem{cid: c, delta: delta, r: k + 1})
	}
}

// publishBurst publishes this goroutine's share of the burst back to back, without waiting.
func (r *runner) publishBurst(g int) {
	if r.c.Burst == 0 || g >= r.c.BurstPublishers {
		return
	}
	for k, it := range r.burst {
		if k%r.c.BurstPublishers != g {
			continue
		}
		r.merges.publish(mergeKey(r.shared[0], it.cid.String()), r.tick.Add(1))
		r.tgt.DB.Events().Publish(event.NewMessage(event.MergeName, event.Merge{DocID: r.shared[0], Cid: it.cid, CollectionID: r.colID}))
	}
}

// warmUp issues one request of every shape sequentially, so that lazily built request types
// exist before the goroutines start.
func (r *runner) warmUp() {
	qs := []string{
		`query { Users(filter: {tag: {_eq: "zz"}}) { _docID s i pn r tag } }`,
		`query { Users(showDeleted: true) { _docID _deleted pn i } }`,
		fmt.Sprintf(`query { Users(docID: %q, showDeleted: true) { _docID _deleted tag i pn } }`, r.shared[0]),
		fmt.Sprintf(`query { commits(docID: %q) { cid height fieldName links { cid } } }`, r.shared[0]),
		fmt.Sprintf(`query { latestCommits(docID: %q) { cid } }`, r.shared[0]),
		`mutation { create_Users(input: {s: "warm", i: 1, pn: 1, tag: "a"}) { _docID } }`,
	}
	for _, q := range qs {
		res := r.tgt.Exec(q)
		if !res.OK() {
			hx.Harnessf("warm-up request failed: %s: %s %s", q, res.Err(), res.Panic)
		}
	}
	res := r.tgt.Exec(`query { Users(filter: {s: {_eq: "warm"}}) { _docID } }`)
	rows := res.Rows("Users")
	if len(rows) != 1 {
		hx.Harnessf("warm-up document not found")
	}
	id := str(rows[0]["_docID"])
	for _, q := range []string{
		fmt.Sprintf(`mutation { update_Users(docID: %q, input: {s: "warm", tag: "b", pn: 1}) { _docID } }`, id),
		fmt.Sprintf(`mutation { delete_Users(docID: %q) { _docID } }`, id),
	} {
		res := r.tgt.Exec(q)
		if !res.OK() {
			hx.Harnessf("warm-up request failed: %s: %s %s", q, res.Err(), res.Panic)
		}
	}
}

func (r *runner) close() {
	if r.tgt != nil {
		r.tgt.Close()
	}
	if r.sink != nil {
		if r.sinkDown.Load() {
			r.sink.N.Peer = nil // already closed by a sink-down call
		}
		r.sink.Close()
	}
	if r.src != nil {
		r.src.Close()
	}
}

// sharedFor maps a drawn document selector to a shared document.
func (r *runner) sharedFor(g, d int) int {
	if r.c.Burst > 0 {
		return 1 + d%(len(r.shared)-1) // document 0 is written by the burst only
	}
	return d % len(r.shared)
}

// writesShared tells whether goroutine g may write shared documents in this case.
func (r *runner) writesShared(g int) bool {
	if r.c.SharedTxn && r.c.Disjoint && r.c.TxnUser[g] {
		return false
	}
	return true
}

func (r *runner) goroutine(g int) {
	r.publishBurst(g)
	for i, op := range r.c.Lists[g] {
		for y := 0; y < op.Yield; y++ {
			runtime.Gosched()
		}
		r.call(g, i, op)
	}
}

func (r *runner) call(g, i int, op Op) {
	rc := &callRec{G: g, I: i, Op: op, Txn: r.c.TxnUser[g], Shared: -1}
	defer func() {
		if p := recover(); p != nil {
			if he, ok := p.(hx.HarnessError); ok {
				panic(he)
			}
			st := string(debug.Stack())
			rc.End = r.tick.Add(1)
			rc.Status = stError
			rc.Err = fmt.Sprintf("panic: %v", p)
			sig := "C16/panic/" + hx.PanicSite(st)
			if rc.Redelete && hx.PanicSite(st) == "client.(*Document).GetValue" && strings.Contains(st, "deleteIndexedDocWithID") {
				// collection.Delete fetches the document to remove its index entries; for a document
				// that is not visible the fetch yields nil and the index code dereferences it
				sig = sigRedeletePanic
			}
			r.fail(hx.Failf(sig, "call %s panicked: %v\n%s", rc, p, trimTo(st, 3000)))
		}
		r.mu.Lock()
		r.calls = append(r.calls, rc)
		r.mu.Unlock()
	}()
	k := op.K
	// disjoint mode: shared-document writes of transaction users become writes of own documents
	if !r.writesShared(g) {
		switch k {
		case kUpdShared:
			k = kUpdOwn
		case kIncShared, kIncSharedC, kSetIShared:
			k = kIncOwn
		}
		if (k == kUpdOwn || k == kIncOwn) && len(r.own[g]) == 0 {
			k = kCreate
		}
	}
	if r.c.NoSchema && k == kAddSchema {
		k = kRead
	}
	rc.Op.K = k
	issue := r.viaDB
	if rc.Txn {
		issue = r.viaSharedTxn
	}
	rc.Start = r.tick.Add(1)
	switch k {
	case kUpdShared:
		d := r.sharedFor(g, op.D)
		rc.Shared, rc.Doc = d, r.shared[d]
		s, tag := fmt.Sprintf("g%dn%d", g, i), tags[op.V%len(tags)]
		rc.Note = fmt.Sprintf("s=%s tag=%s", s, tag)
		rc.Status, rc.Err = issue(func(ctx context.Context, st store) (int, string) {
			res := st.ExecRequest(ctx, fmt.Sprintf(`mutation { update_Users(docID: %q, input: {s: %q, tag: %q}) { _docID } }`, rc.Doc, s, tag))
			return r.mutationResult(res, "update_Users")
		})
	case kIncShared:
		d := r.sharedFor(g, op.D)
		rc.Shared, rc.Doc = d, r.shared[d]
		delta := deltas[op.V%len(deltas)]
		rc.Note = fmt.Sprintf("pn+=%d", delta)
		rc.Status, rc.Err = issue(func(ctx context.Context, st store) (int, string) {
			res := st.ExecRequest(ctx, fmt.Sprintf(`mutation { update_Users(docID: %q, input: {pn: %d}) { _docID } }`, rc.Doc, delta))
			return r.mutationResult(res, "update_Users")
		})
	case kIncSharedC, kSetIShared:
		d := r.sharedFor(g, op.D)
		rc.Shared, rc.Doc = d, r.shared[d]
		field, val := "pn", deltas[op.V%len(deltas)]
		if k == kSetIShared {
			field, val = "i", g*1000+i+1
		}
		rc.Note = fmt.Sprintf("%s:%d", field, val)
		rc.Status, rc.Err = issue(func(ctx context.Context, st store) (int, string) {
			return colSet(ctx, st, rc.Doc, field, val)
		})
	case kCreate, kCreateC:
		od := &ownDoc{key: fmt.Sprintf("own-g%d-n%d", g, i), tag: tags[op.V%len(tags)], i: op.V, pn: op.V + 1, txn: rc.Txn}
		r.own[g] = append(r.own[g], od)
		rc.Note = od.key
		rc.Status, rc.Err = issue(func(ctx context.Context, st store) (int, string) {
			if k == kCreate {
				res := st.ExecRequest(ctx, fmt.Sprintf(`mutation { create_Users(input: {s: %q, i: %d, pn: %d, r: 0, tag: %q}) { _docID } }`, od.key, od.i, od.pn, od.tag))
				status, e := r.mutationResult(res, "create_Users")
				if status == stOK {
					od.id = str(rowsOf(res, "create_Users")[0]["_docID"])
				}
				return status, e
			}
			col, err := st.GetCollectionByName(ctx, "Users")
			if err != nil {
				return classify(err)
			}
			doc, err := client.NewDocFromJSON([]byte(fmt.Sprintf(`{"s":%q,"i":%d,"pn":%d,"r":0,"tag":%q}`, od.key, od.i, od.pn, od.tag)), col.Definition())
			if err != nil {
				hx.Harnessf("doc: %v", err)
			}
			if err := col.Create(ctx, doc); err != nil {
				return classify(err)
			}
			od.id = doc.ID().String()
			return stOK, ""
		})
		rc.Doc = od.id
		switch rc.Status {
		case stOK:
			od.exists = true
		case stError:
			od.uncertain = true
		}
	case kUpdOwn, kIncOwn, kDelOwn, kDelOwnC, kReadOwn:
		od := r.pickOwn(g, op.D, r.c.NoRedelete && (k == kDelOwn || k == kDelOwnC))
		if od == nil {
			rc.Status = stNoTarget
			break
		}
		rc.Doc, rc.Note = od.id, od.key
		r.ownCall(rc, od, k, op, issue)
	case kRead:
		rc.Status, rc.Err = issue(func(ctx context.Context, st store) (int, string) {
			var q string
			d := r.shared[op.D%len(r.shared)]
			switch op.V % 4 {
			case 0:
				q = fmt.Sprintf(`query { Users(filter: {tag: {_eq: %q}}) { _docID s i pn r tag } }`, tags[op.D%len(tags)])
			case 1:
				q = `query { Users(showDeleted: true) { _docID _deleted pn i } }`
			case 2:
				q = fmt.Sprintf(`query { commits(docID: %q) { cid height fieldName links { cid } } }`, d)
			default:
				q = fmt.Sprintf(`query { latestCommits(docID: %q) { cid } }`, d)
			}
			return classify(gqlErr(st.ExecRequest(ctx, q)))
		})
	case kCreateIndex, kDropIndex:
		name, field := "ix0", "tag"
		if op.V%2 == 1 {
			name, field = "ix1", "i"
		}
		rc.Note = name
		rc.Status, rc.Err = issue(func(ctx context.Context, st store) (int, string) {
			col, err := st.GetCollectionByName(ctx, "Users")
			if err != nil {
				return classify(err)
			}
			if k == kCreateIndex {
				_, err = col.CreateIndex(ctx, client.IndexCreateRequest{Name: name, Fields: []client.IndexedFieldDescription{{Name: field}}})
			} else {
				err = col.DropIndex(ctx, name)
			}
			return classify(err)
		})
	case kAddSchema:
		name := fmt.Sprintf("T%d_%d", g, i)
		rc.Note = name
		_, err := r.tgt.DB.AddSchema(r.ctx, "type "+name+" { x: Int }")
		rc.Status, rc.Err = classify(err)
	case kMerge:
		d := op.D % len(r.shared)
		it := r.chain[d][op.V%len(r.chain[d])]
		rc.Shared, rc.Doc = d, r.shared[d]
		rc.Note = fmt.Sprintf("commit#%d wait=%v", it.r, op.Wait)
		if _, err := hx.CopyClosure(r.ctx, r.src, r.tgt, it.cid); err != nil {
			hx.Harnessf("copy closure: %v", err)
		}
		key := mergeKey(rc.Doc, it.cid.String())
		r.merges.publish(key, r.tick.Add(1))
		r.tgt.DB.Events().Publish(event.NewMessage(event.MergeName, event.Merge{DocID: rc.Doc, Cid: it.cid, CollectionID: r.colID}))
		if op.Wait {
			r.merges.wait(func() bool { return r.merges.ended[key] >= r.merges.published[key] }, "merge "+rc.Note)
		}
	case kSinkDown:
		if r.sinkDown.CompareAndSwap(false, true) {
			// the replicator peer becomes unreachable: pushes fail from here on
			r.sink.N.Peer.Close()
			rc.Note = "closed"
		}
	case kSetRep, kDelRep:
		info := r.sinkInfo
		var err error
		if k == kSetRep {
			err = r.tgt.N.Peer.SetReplicator(r.ctx, info, "Users")
		} else {
			err = r.tgt.N.Peer.DeleteReplicator(r.ctx, info, "Users")
		}
		rc.Status, rc.Err = classify(err)
	default:
		hx.Harnessf("unknown call kind %q", k)
	}
	rc.End = r.tick.Add(1)
}

// mutationResult classifies the response of a single-document mutation.
func (r *runner) mutationResult(res *client.RequestResult, key string) (int, string) {
	if err := gqlErr(res); err != nil {
		return classify(err)
	}
	if n := len(rowsOf(res, key)); n != 1 {
		// no error but nothing returned: treated as "may or may not have had an effect"
		return stError, fmt.Sprintf("no error but %d rows returned", n)
	}
	return stOK, ""
}

func colSet(ctx context.Context, st store, docID, field string, val int) (int, string) {
	col, err := st.GetCollectionByName(ctx, "Users")
	if err != nil {
		return classify(err)
	}
	id, err := client.NewDocIDFromString(docID)
	if err != nil {
		hx.Harnessf("docID: %v", err)
	}
	doc, err := col.Get(ctx, id, false)
	if err != nil {
		// nothing was written
		if isConflict(err) {
			return stConflict, err.Error()
		}
		return stError, "get: " + err.Error()
	}
	if err := doc.Set(field, val); err != nil {
		hx.Harnessf("set: %v", err)
	}
	return classify(col.Update(ctx, doc))
}

// pickOwn selects one of the goroutine's documents whose creation was acknowledged.
func (r *runner) pickOwn(g, d int, notDeleted bool) *ownDoc {
	var live []*ownDoc
	for _, od := range r.own[g] {
		if od.id != "" && !(notDeleted && od.deleted) {
			live = append(live, od)
		}
	}
	if len(live) == 0 {
		return nil
	}
	return live[d%len(live)]
}

func (r *runner) ownCall(rc *callRec, od *ownDoc, k string, op Op, issue func(func(ctx context.Context, st store) (int, string)) (int, string)) {
	apply := func(f func()) {
		switch rc.Status {
		case stOK:
			if od.deleted || !od.exists {
				// success on a document the model holds deleted / not created: leave it to the final comparison
				od.uncertain = true
				return
			}
			f()
		case stError:
			od.uncertain = true
		}
	}
	switch k {
	case kUpdOwn:
		tag, iv := tags[op.V%len(tags)], 100+rc.I
		rc.Note += fmt.Sprintf(" tag=%s i=%d", tag, iv)
		rc.Status, rc.Err = issue(func(ctx context.Context, st store) (int, string) {
			res := st.ExecRequest(ctx, fmt.Sprintf(`mutation { update_Users(docID: %q, input: {tag: %q, i: %d}) { _docID } }`, od.id, tag, iv))
			return r.mutationResult(res, "update_Users")
		})
		apply(func() { od.tag, od.i = tag, iv })
	case kIncOwn:
		delta := deltas[op.V%len(deltas)]
		rc.Note += fmt.Sprintf(" pn+=%d", delta)
		rc.Status, rc.Err = issue(func(ctx context.Context, st store) (int, string) {
			return colSet(ctx, st, od.id, "pn", delta)
		})
		apply(func() { od.pn += delta })
	case kDelOwn:
		rc.Status, rc.Err = issue(func(ctx context.Context, st store) (int, string) {
			res := st.ExecRequest(ctx, fmt.Sprintf(`mutation { delete_Users(docID: %q) { _docID } }`, od.id))
			return r.mutationResult(res, "delete_Users")
		})
		apply(func() { od.deleted = true })
	case kDelOwnC:
		rc.Redelete = od.deleted
		rc.Status, rc.Err = issue(func(ctx context.Context, st store) (int, string) {
			col, err := st.GetCollectionByName(ctx, "Users")
			if err != nil {
				return classify(err)
			}
			id, _ := client.NewDocIDFromString(od.id)
			ok, err := col.Delete(ctx, id)
			if err == nil && !ok {
				return stError, "Delete returned false"
			}
			return classify(err)
		})
		apply(func() { od.deleted = true })
	case kReadOwn:
		var rows []map[string]any
		rc.Status, rc.Err = issue(func(ctx context.Context, st store) (int, string) {
			res := st.ExecRequest(ctx, fmt.Sprintf(`query { Users(docID: %q, showDeleted: true) { _docID _deleted tag i pn } }`, od.id))
			rows = rowsOf(res, "Users")
			return classify(gqlErr(res))
		})
		if rc.Status == stOK && !od.uncertain && od.exists {
			// read-your-writes: only this goroutine writes the document, its calls are sequential
			if f := compareOwn(od, rows, "read after own acknowledged writes"); f != "" {
				r.fail(hx.Failf("C16/accounting/own-document/read-your-writes", "%s: %s", rc, f))
			}
		}
	}
}

func compareOwn(od *ownDoc, rows []map[string]any, when string) string {
	if len(rows) != 1 {
		return fmt.Sprintf("%s: document %s (%s) expected once, got %d rows", when, od.key, short(od.id), len(rows))
	}
	row := rows[0]
	del, _ := row["_deleted"].(bool)
	iv, _ := num(row["i"])
	pn, _ := num(row["pn"])
	got := fmt.Sprintf("deleted=%v tag=%s i=%d pn=%d", del, str(row["tag"]), iv, pn)
	want := fmt.Sprintf("deleted=%v tag=%s i=%d pn=%d", od.deleted, od.tag, od.i, od.pn)
	if got != want {
		return fmt.Sprintf("%s: document %s (%s) is {%s}, acknowledged calls give {%s}", when, od.key, short(od.id), got, want)
	}
	return ""
}

func (r *runner) commit() {
	r.commitStart = r.tick.Add(1)
	err := r.txn.Commit(r.ctx)
	r.commitStatus, r.commitErr = classify(err)
	if err != nil {
		r.txn.Discard(r.ctx)
	}
	r.commitEnd = r.tick.Add(1)
}

// runOnce executes the case once and returns the failures of this repetition.
func runOnce(c Case, rep int) (fails []*hx.Failure, labels []string, history string) {
	r := &runner{c: c, rep: rep, merges: newMergeTracker(), labels: map[string]bool{}, own: make([][]*ownDoc, c.G)}
	old := runtime.GOMAXPROCS(c.Procs[rep%len(c.Procs)])
	defer runtime.GOMAXPROCS(old)
	t0 := time.Now()
	defer func() {
		tc := time.Now()
		r.close()
		timing("rep %d: close %v", rep, time.Since(tc).Round(time.Millisecond))
	}()
	r.setup()
	timing("rep %d: setup %v", rep, time.Since(t0).Round(time.Millisecond))
	t1 := time.Now()
	curTick.Store(&r.tick)
	curTracker.Store(r.merges)
	defer curTracker.Store(nil)

	// drains MergeComplete events (the bus blocks when a subscriber's buffer is full)
	sub, err := r.tgt.DB.Events().Subscribe(event.MergeCompleteName, event.ReplicatorCompletedName)
	if err != nil {
		hx.Harnessf("subscribe: %v", err)
	}
	subDone := make(chan struct{})
	go func() {
		defer close(subDone)
		for m := range sub.Message() {
			if mc, ok := m.Data.(event.MergeComplete); ok {
				r.merges.end(mergeKey(mc.Merge.DocID, mc.Merge.Cid.String()), "", r.tick.Add(1))
			}
			if m.Name == event.ReplicatorCompletedName {
				r.repDone.Add(1)
			}
		}
	}()
	if r.sink != nil {
		r.foreignBase = foreignMergeFailures.Load()
		ssub, err := r.sink.DB.Events().Subscribe(event.MergeName, event.MergeCompleteName)
		if err != nil {
			hx.Harnessf("subscribe: %v", err)
		}
		go func() {
			for m := range ssub.Message() {
				switch m.Name {
				case event.MergeName:
					r.sinkStarted.Add(1)
				case event.MergeCompleteName:
					r.sinkEnded.Add(1)
				}
			}
		}()
	}
	if c.SharedTxn {
		r.txn, err = r.tgt.DB.NewConcurrentTxn(r.ctx, false)
		if err != nil {
			hx.Harnessf("NewConcurrentTxn: %v", err)
		}
		if c.SharedCtx {
			r.sharedCtx = db.InitContext(r.ctx, r.txn)
		}
	}

	var wg, users sync.WaitGroup
	start := make(chan struct{})
	var harness atomic.Pointer[hx.HarnessError]
	for g := 0; g < c.G; g++ {
		wg.Add(1)
		if c.TxnUser[g] {
			users.Add(1)
		}
		go func(g int) {
			defer wg.Done()
			if c.TxnUser[g] {
				defer users.Done()
			}
			defer func() {
				if p := recover(); p != nil {
					he, ok := p.(hx.HarnessError)
					if !ok {
						he = hx.HarnessError(fmt.Sprintf("harness: unexpected panic in goroutine %d: %v\n%s", g, p, debug.Stack()))
					}
					harness.Store(&he)
				}
			}()
			<-start
			r.goroutine(g)
		}(g)
	}
	if c.SharedTxn {
		wg.Add(1)
		go func() {
			defer wg.Done()
			<-start
			users.Wait()
			// the other goroutines may still be running: the commit races with their calls
			r.commit()
		}()
	}
	close(start)
	wg.Wait()
	if he := harness.Load(); he != nil {
		panic(*he)
	}
	timing("rep %d: calls %v", rep, time.Since(t1).Round(time.Millisecond))
	t2 := time.Now()
	r.merges.wait(r.merges.allEnded, "end of case")
	r.waitReplicatorPushes()
	timing("rep %d: quiesce %v", rep, time.Since(t2).Round(time.Millisecond))
	t3 := time.Now()
	r.evaluate()
	timing("rep %d: evaluate %v", rep, time.Since(t3).Round(time.Millisecond))
	r.tgt.DB.Events().Unsubscribe(sub)
	<-subDone

	for l := range r.labels {
		labels = append(labels, l)
	}
	sort.Strings(labels)
	return r.fails, labels, r.history()
}

func (r *runner) history() string {
	var b strings.Builder
	fmt.Fprintf(&b, "repetition %d GOMAXPROCS=%d  %s\n", r.rep, r.c.Procs[r.rep%len(r.c.Procs)], r.c)
	for d, id := range r.shared {
		fmt.Fprintf(&b, "shared[%d]=%s pn0=%d\n", d, id, r.p0[d])
	}
	calls := append([]*callRec(nil), r.calls...)
	sort.Slice(calls, func(i, j int) bool { return calls[i].Start < calls[j].Start })
	for _, c := range calls {
		b.WriteString("  " + c.String() + "\n")
	}
	if r.c.SharedTxn {
		fmt.Fprintf(&b, "  commit of the shared transaction [%d,%d] status=%d %s\n", r.commitStart, r.commitEnd, r.commitStatus, r.commitErr)
	}
	r.merges.mu.Lock()
	for k, n := range r.merges.published {
		fmt.Fprintf(&b, "  merge %s published %d ended %d failures %v [%d,%d]\n", short(k), n, r.merges.ended[k], r.merges.failures[k], r.merges.firstPub[k], r.merges.lastEnd[k])
	}
	r.merges.mu.Unlock()
	return b.String()
}
