package c16

import (
	"fmt"

	"pgregory.net/rapid"
)

// Case is one concurrent history: G goroutines, each with a fixed list of calls
// against one node. Everything is drawn up front; only the interleaving is left
// to the Go scheduler (and is therefore repeated, see Procs).
type Case struct {
	G            int    `json:"g"`
	Docs         int    `json:"docs"`       // shared documents (written by every goroutine)
	Chain        int    `json:"chain"`      // commits per shared document produced on a second node and merged in during the run
	Branchable   bool   `json:"branchable"` // collection-level commits: merges go through the schema-root queue
	P2P          bool   `json:"p2p"`        // node has a libp2p peer; replicator changes are part of the call mix
	SharedTxn    bool   `json:"shared_txn"` // goroutines flagged in TxnUser issue all their calls through one NewConcurrentTxn
	// SharedCtx: the users of the shared transaction also share ONE context, made once by
	// db.InitContext(ctx, txn) (as a caller holding a transaction typically does), instead of
	// initialising a context per call.
	SharedCtx bool `json:"shared_ctx,omitempty"`
	TxnUser      []bool `json:"txn_user"`
	Disjoint     bool   `json:"disjoint"`       // shared-transaction users write only documents no other goroutine writes
	Warm         bool   `json:"warm"`           // one sequential request of every shape before the goroutines start
	NoSchema     bool   `json:"no_schema"`      // AddSchema calls replaced by reads (schema reload swaps the request types)
	NoRedelete   bool   `json:"no_redelete"`    // collection-API delete never targets a document the model holds deleted
	NoIndexMerge bool   `json:"no_index_merge"` // no CreateIndex/DropIndex in a case that has incoming merges
	NoIndex      bool   `json:"no_index"`       // no CreateIndex/DropIndex at all (an index created while documents are written misses them)
	NoRepPush    bool   `json:"no_rep_push"`    // the replicator is never deleted and its peer never stops (pushes do not fail)
	Procs        []int  `json:"procs"`          // GOMAXPROCS of each repetition
	// Burst > 0: merge-burst case. Burst sibling commits of shared document 0 (each made on its own
	// node on top of the create commit, incrementing the counter by a distinct amount) are published as
	// Merge events back to back by the first BurstPublishers goroutines before their own calls; no local
	// call writes document 0, there are no index or schema calls, and the node retries a conflicting
	// merge only BurstRetries times.
	Burst           int    `json:"burst,omitempty"`
	BurstRetries    int    `json:"burst_retries,omitempty"`
	BurstPublishers int    `json:"burst_publishers,omitempty"`
	Lists           [][]Op `json:"lists"`
}

// Op is one call. D selects a shared document (modulo Docs) or one of the
// goroutine's own documents (modulo what it has created so far at run time).
type Op struct {
	K     string `json:"k"`
	D     int    `json:"d,omitempty"`
	V     int    `json:"v,omitempty"`
	Yield int    `json:"y,omitempty"` // runtime.Gosched() calls before the call
	Wait  bool   `json:"w,omitempty"` // merge: wait for its completion before the next call
}

// Kinds of calls.
const (
	kUpdShared   = "upd"     // GraphQL update of s+tag on a shared document
	kIncShared   = "inc"     // GraphQL counter increment on a shared document
	kIncSharedC  = "inc-col" // collection API counter increment on a shared document
	kSetIShared  = "seti"    // collection API write of i on a shared document
	kCreate      = "new"     // GraphQL create of an own document
	kCreateC     = "new-col" // collection API create of an own document
	kUpdOwn      = "upd-own" // GraphQL update of an own document
	kIncOwn      = "inc-own" // collection API increment of an own document
	kDelOwn      = "del-own" // GraphQL delete of an own document
	kDelOwnC     = "del-col" // collection API delete of an own document
	kReadOwn     = "read-own"
	kRead        = "read"
	kCreateIndex = "ix+"
	kDropIndex   = "ix-"
	kAddSchema   = "schema"
	kMerge       = "merge"
	kSetRep      = "rep+"
	kDelRep      = "rep-"
	kSinkDown    = "sink-down" // the replicator peer stops (once per case)
)

var tags = []string{"a", "b", "c"}

type weighted struct {
	k string
	w int
}

func kindsFor(c Case, txnUser bool) []weighted {
	if c.Burst > 0 {
		// Only reads next to a merge burst: a write of ANOTHER document can legitimately conflict with a
		// merge (the store records the keys an iterator touches, including the neighbour just past a
		// prefix, so creates and updates of adjacent documents are seen as read-write conflicts). With
		// read-only company the merges are the only writers and the oracle "merges of one document never
		// conflict" needs no further assumption.
		return []weighted{{kRead, 1}}
	}
	ws := []weighted{
		{kUpdShared, 12}, {kIncShared, 12}, {kIncSharedC, 7}, {kSetIShared, 5},
		{kCreate, 5}, {kCreateC, 4}, {kUpdOwn, 5}, {kIncOwn, 3}, {kDelOwn, 2}, {kDelOwnC, 2},
		{kReadOwn, 4}, {kRead, 7},
	}
	if !txnUser {
		if !(c.NoIndexMerge && c.Chain > 0) && !c.NoIndex {
			ws = append(ws, weighted{kCreateIndex, 4}, weighted{kDropIndex, 3})
		}
		if !c.NoSchema {
			ws = append(ws, weighted{kAddSchema, 2})
		}
		if c.Chain > 0 {
			ws = append(ws, weighted{kMerge, 12})
		}
		if c.P2P {
			ws = append(ws, weighted{kSetRep, 4})
			if !c.NoRepPush {
				ws = append(ws, weighted{kDelRep, 3}, weighted{kSinkDown, 1})
			}
		}
	}
	return ws
}

func drawKind(t *rapid.T, ws []weighted, label string) string {
	total := 0
	for _, w := range ws {
		total += w.w
	}
	x := rapid.IntRange(0, total-1).Draw(t, label)
	for _, w := range ws {
		if x < w.w {
			return w.k
		}
		x -= w.w
	}
	return ws[len(ws)-1].k
}

func drawCase(t *rapid.T, maxOps int) Case {
	c := Case{}
	c.G = rapid.SampledFrom([]int{2, 4, 8}).Draw(t, "G")
	c.Docs = rapid.IntRange(1, 3).Draw(t, "docs")
	if rapid.IntRange(0, 3).Draw(t, "hasChain") > 0 {
		c.Chain = rapid.IntRange(1, 6).Draw(t, "chain")
	}
	c.Branchable = rapid.IntRange(0, 5).Draw(t, "branchable") == 0
	c.P2P = rapid.IntRange(0, 4).Draw(t, "p2p") == 0
	if c.P2P {
		// the replicator peer runs the same merge path in the same process and logs its failures
		// through the same logger: with harness-published merges the two could not be told apart
		c.Chain = 0
	}
	c.SharedTxn = rapid.IntRange(0, 9).Draw(t, "sharedTxn") < 5
	// "search past a defect": half of the cases avoid the triggers of the listed findings
	avoid := rapid.Bool().Draw(t, "avoidKnown")
	c.Warm = avoid && rec.IsKnown(sigLazyTypes)
	c.NoSchema = avoid && (rec.IsKnown(sigLazyTypes) || rec.IsKnown(sigParserSwap))
	c.NoRedelete = avoid && rec.IsKnown(sigRedeletePanic)
	c.NoIndexMerge = avoid && rec.IsKnown(sigMergeCorruptedIndex)
	c.NoIndex = avoid && (rec.IsKnown(sigIndexWriteSkew) || rec.IsKnown(sigIndexStaleDoc) || rec.IsKnown(sigIndexLostUpdate))
	c.NoRepPush = avoid && rec.IsKnown(sigPushHeadsPanic)
	if avoid && c.SharedTxn && (rec.IsKnown(sigStoreBypass) || rec.IsKnown(sigTxnCallbacks)) {
		// the wrapper's mutex is bypassed on every store access: without it no shared transaction
		c.SharedTxn = false
	}
	c.Disjoint = c.SharedTxn && rapid.Bool().Draw(t, "disjoint")
	if avoid && c.SharedTxn && rec.IsKnown(sigTxnCounter) {
		c.Disjoint = true // users of the shared transaction never write the same document
	}
	if rapid.IntRange(0, 3).Draw(t, "burst?") == 0 {
		c.Burst = rapid.IntRange(6, 24).Draw(t, "burst")
		c.BurstRetries = rapid.IntRange(1, 2).Draw(t, "burstRetries")
		c.BurstPublishers = rapid.IntRange(1, 2).Draw(t, "burstPublishers")
		c.Chain, c.P2P, c.Branchable, c.SharedTxn, c.Disjoint = 0, false, false, false, false
		c.NoIndex, c.NoSchema = true, true
		if c.Docs < 2 {
			c.Docs = 2
		}
	}
	c.SharedCtx = c.SharedTxn && rapid.Bool().Draw(t, "sharedCtx")
	c.TxnUser = make([]bool, c.G)
	if c.SharedTxn {
		n := 0
		for g := 0; g < c.G; g++ {
			c.TxnUser[g] = rapid.IntRange(0, 2).Draw(t, "txnUser") > 0
			if c.TxnUser[g] {
				n++
			}
		}
		if n < 2 { // a shared transaction needs two users
			c.TxnUser[0], c.TxnUser[1] = true, true
		}
	}
	c.Procs = []int{rapid.SampledFrom([]int{2, 4}).Draw(t, "procsLow"), 16}
	c.Lists = make([][]Op, c.G)
	for g := 0; g < c.G; g++ {
		n := rapid.IntRange(5, maxOps).Draw(t, "len")
		ws := kindsFor(c, c.TxnUser[g])
		own := 0
		for i := 0; i < n; i++ {
			op := Op{K: drawKind(t, ws, "kind")}
			op.D = rapid.IntRange(0, 7).Draw(t, "d")
			op.V = rapid.IntRange(0, 5).Draw(t, "v")
			if rapid.IntRange(0, 3).Draw(t, "yield?") == 0 {
				op.Yield = rapid.IntRange(1, 3).Draw(t, "yield")
			}
			switch op.K {
			case kCreate, kCreateC:
				own++
			case kUpdOwn, kIncOwn, kDelOwn, kDelOwnC, kReadOwn:
				if own == 0 { // nothing of its own yet: create instead (construction, not rejection)
					op.K = kCreate
					own++
				}
			case kMerge:
				op.Wait = rapid.IntRange(0, 2).Draw(t, "wait") == 0
			}
			c.Lists[g] = append(c.Lists[g], op)
		}
	}
	return c
}

func (c Case) String() string {
	n := 0
	for _, l := range c.Lists {
		n += len(l)
	}
	if c.Burst > 0 {
		return fmt.Sprintf("MERGE-BURST k=%d retries=%d publishers=%d G=%d docs=%d warm=%v calls=%d procs=%v", c.Burst, c.BurstRetries, c.BurstPublishers, c.G, c.Docs, c.Warm, n, c.Procs)
	}
	return fmt.Sprintf("G=%d docs=%d chain=%d branchable=%v p2p=%v sharedTxn=%v%v disjoint=%v warm=%v calls=%d procs=%v",
		c.G, c.Docs, c.Chain, c.Branchable, c.P2P, c.SharedTxn, c.TxnUser, c.Disjoint, c.Warm, n, c.Procs)
}
