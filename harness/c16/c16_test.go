// Package c16 checks property C16: concurrent use of one node is race-free and loses no
// committed effect. Every case runs in a child process of the race-instrumented test binary
// with its own GORACE log, so that race reports, runtime-fatal errors ("concurrent map
// writes") and panics are attributed to the case that produced them.
package c16

import (
	"bufio"
	"encoding/json"
	"fmt"
	"os"
	"os/exec"
	"path/filepath"
	"regexp"
	"runtime"
	"sort"
	"strings"
	"sync"
	"sync/atomic"
	"testing"
	"time"

	"github.com/sourcenetwork/corelog"
	"pgregory.net/rapid"

	"github.com/sourcenetwork/defradb/event"
	"github.com/sourcenetwork/defradb/verifharness/hx"
)

var rec = hx.NewRecorder("C16",
	"a case is G in {2,4,8} goroutines with fixed call lists (GraphQL and collection-API writes, counter increments, creates/deletes of own documents, reads, CreateIndex/DropIndex, AddSchema, replicator changes, incoming merges published on the event bus for documents that are also written locally; in shared-transaction mode some goroutines issue everything through one NewConcurrentTxn) run against one node under the race detector, once per GOMAXPROCS value; one case in four is a merge burst instead (6..24 sibling commits of ONE document, made on separate nodes, blocks copied first, all Merge events published back to back by one or two goroutines while nobody writes that document locally, MaxTxnRetries 1 or 2, the other goroutines only read); non-trivial = a merge burst, or at least two goroutines acknowledged writes to the same document or shared one transaction, AND a transaction conflict was observed or an incoming merge overlapped a local write of the same document (observed, per repetition)",
	"schedules are those the Go runtime produces (GOMAXPROCS in {2 or 4, 16}, drawn runtime.Gosched points); race detection is happens-before based on the accesses that executed",
	"a call that returned an error other than a transaction conflict may or may not have had an effect",
	"MaxTxnRetries is set above the number of commits of a case, so an incoming merge dropped with a conflict cannot be a legitimately exhausted retry loop",
	"a merge that neither completes nor logs a failure within 75 s ends the run inconclusive, not as a violation",
	"closing the nodes is not part of the schedule: the harness waits (bounded) for replicator pushes and for the replicator peer's merges before closing, and a race report with a node's Close on either side is not judged",
	"in a merge burst the merges are the only writers on the node (all other calls are reads) and the merge queue runs the merges of one document one at a time, so a merge dropped with a transaction conflict there is a violation whatever the retry budget; writes of other documents are excluded because the store can report a conflict between a merge and a write of a neighbouring document",
	"in P2P cases no merges are published by the harness (the replicator peer logs its own merge failures through the same process-wide logger)",
)

func TestMain(m *testing.M) { hx.Main(m) }

// Outcome is what the child process reports for one case.
type Outcome struct {
	Failures []hx.Failure `json:"failures"`
	Labels   []string     `json:"labels"`
	History  string       `json:"history"`
	Harness  string       `json:"harness,omitempty"`
	Done     bool         `json:"done"`
}

var caseSeq atomic.Int64

func workDir() string {
	base := os.Getenv("VERIF_SCRATCH")
	if base == "" {
		base = filepath.Join(os.TempDir(), "c16-scratch")
	}
	dir := filepath.Join(base, fmt.Sprintf("c16-%d-%d", os.Getpid(), caseSeq.Add(1)))
	if err := os.MkdirAll(dir, 0o755); err != nil {
		hx.Harnessf("scratch: %v", err)
	}
	return dir
}

var fatalRe = regexp.MustCompile(`(?m)^(fatal error: .*|panic: .*)$`)

// runCase executes the case in a child process and returns every failure found
// (race reports first), the observed labels and the history.
func runCase(c Case) (fails []*hx.Failure, labels []string, history string) {
	dir := workDir()
	defer os.RemoveAll(dir)
	raw, _ := json.Marshal(c)
	casePath, outPath := filepath.Join(dir, "case.json"), filepath.Join(dir, "out.json")
	if err := os.WriteFile(casePath, raw, 0o644); err != nil {
		hx.Harnessf("write case: %v", err)
	}
	racePrefix := filepath.Join(dir, "race")
	cmd := exec.Command(os.Args[0], "-test.run", "^TestC16Child$", "-test.timeout", "170s", "-test.count", "1")
	var env []string
	for _, e := range os.Environ() {
		if strings.HasPrefix(e, "GORACE=") || strings.HasPrefix(e, "VERIF_STATS=") || strings.HasPrefix(e, "VERIF_REPLAY=") {
			continue
		}
		env = append(env, e)
	}
	env = append(env, "GORACE=halt_on_error=0 exitcode=0 log_path="+racePrefix, "VERIF_C16_CASE="+casePath, "VERIF_C16_OUT="+outPath)
	cmd.Env = env
	stderrPath := filepath.Join(dir, "stderr.txt")
	ef, err := os.Create(stderrPath)
	if err != nil {
		hx.Harnessf("stderr file: %v", err)
	}
	cmd.Stdout = ef
	cmd.Stderr = ef
	runErr := cmd.Run()
	ef.Close()
	stderr, _ := os.ReadFile(stderrPath)

	if os.Getenv("VERIF_C16_SHOW_STDERR") != "" {
		fmt.Printf("---- child stderr\n%s\n", tail(string(stderr), 6000))
	}
	var out Outcome
	if b, err := os.ReadFile(outPath); err == nil {
		_ = json.Unmarshal(b, &out)
	}
	if out.Harness != "" {
		hx.Harnessf("child: %s\n%s", out.Harness, tail(string(stderr), 3000))
	}
	history = out.History
	labels = out.Labels

	reports := readRaceReports(racePrefix)
	seen := map[string]bool{}
	for _, r := range reports {
		if duringClose(r.Stk[0]) || duringClose(r.Stk[1]) {
			labels = append(labels, "race-with-node-shutdown-not-judged")
			continue
		}
		sig := raceSignature(r, c.SharedTxn)
		if seen[sig] {
			continue
		}
		seen[sig] = true
		fails = append(fails, hx.Failf(sig, "data race reported while running %s\n%s\n---- history of the last repetition\n%s", c, trimTo(r.Raw, 6000), trimTo(history, 6000)))
	}
	if len(reports) > 0 {
		labels = append(labels, "race-report")
	}
	if !out.Done {
		// the child died: runtime fatal error, unrecovered panic in a background goroutine, or kill
		st := string(stderr)
		m := fatalRe.FindString(st)
		if m == "" {
			hx.Harnessf("child ended without outcome and without a fatal error: %v\n%s", runErr, tail(st, 4000))
		}
		i := strings.Index(st, m)
		before := st[:i]
		fails = append(fails, hx.Failf(fatalSignature(m, st[i:], c.SharedTxn), "the process died while running %s: %s\n%s\n---- log before\n%s", c, m, trimTo(st[i:], 6000), tail(before, 2500)))
	}
	for i := range out.Failures {
		f := out.Failures[i]
		fails = append(fails, &f)
	}
	return fails, labels, history
}

func tail(s string, n int) string {
	if len(s) > n {
		return "…" + s[len(s)-n:]
	}
	return s
}

// verdict hands the failures of one case to the recorder: every known signature is counted,
// the first unknown one fails the test.
func verdict(t hx.TB, c Case, fails []*hx.Failure) {
	var unknown *hx.Failure
	seen := map[string]bool{}
	for _, f := range fails {
		if seen[f.Sig] {
			continue
		}
		seen[f.Sig] = true
		if rec.IsKnown(f.Sig) {
			saveKnownSample(c, f)
			rec.Check(t, c, f)
		} else if unknown == nil {
			unknown = f
		}
	}
	if unknown != nil {
		fmt.Printf("C16 failing case %s\n%s\n", c, trimTo(unknown.Msg, 12000))
		rec.Check(t, c, unknown)
	}
}

var slugRe = regexp.MustCompile(`[^A-Za-z0-9]+`)

// saveKnownSample keeps the first case that hits each listed signature when VERIF_C16_SAVE_KNOWN
// names a directory (used to produce the replay files under testdata/known).
func saveKnownSample(c Case, f *hx.Failure) {
	dir := os.Getenv("VERIF_C16_SAVE_KNOWN")
	if dir == "" {
		return
	}
	_ = os.MkdirAll(dir, 0o755)
	path := filepath.Join(dir, slugRe.ReplaceAllString(strings.TrimPrefix(f.Sig, "C16/"), "_")+".json")
	raw, _ := json.Marshal(c)
	if old, err := os.ReadFile(path); err == nil {
		var doc struct {
			Case json.RawMessage `json:"case"`
		}
		if json.Unmarshal(old, &doc) == nil && len(doc.Case) > 0 && len(doc.Case) <= len(raw) {
			return // keep the smaller one
		}
	}
	out, _ := json.MarshalIndent(map[string]any{"property": "C16", "signature": f.Sig, "message": trimTo(f.Msg, 12000), "case": json.RawMessage(raw)}, "", " ")
	_ = os.WriteFile(path, out, 0o644)
}

func has(labels []string, l string) bool {
	for _, x := range labels {
		if x == l {
			return true
		}
	}
	return false
}

func nontrivial(labels []string) bool {
	if has(labels, "merge-burst") {
		return true // 6..24 merges of one document published back to back
	}
	return (has(labels, "same-doc-written-by-2+-goroutines") || has(labels, "shared-txn")) &&
		(has(labels, "conflict-observed") || has(labels, "merge-overlaps-local-write"))
}

func TestC16(t *testing.T) {
	maxOps := 30
	if !hx.Thorough() {
		maxOps = 16
	}
	rec.Extra["max_calls_per_goroutine"] = fmt.Sprint(maxOps)
	rapid.Check(t, func(t *rapid.T) {
		c := drawCase(t, maxOps)
		fails, labels, _ := runCase(c)
		labels = append(labels, fmt.Sprintf("G=%d", c.G))
		if c.Warm {
			labels = append(labels, "known-triggers-avoided")
		}
		rec.Eval(c, nontrivial(labels), labels...)
		fmt.Printf("C16 case %s nontrivial=%v failures=%d labels=%v\n", c, nontrivial(labels), len(fails), labels)
		verdict(t, c, fails)
	})
}

func TestReplay(t *testing.T) {
	raw := hx.ReplayCase(t)
	rec.SetReplaying()
	var c Case
	if err := json.Unmarshal(raw, &c); err != nil {
		t.Fatalf("replay case: %v", err)
	}
	// a schedule-dependent failure may need several attempts
	for i := 0; i < 6; i++ {
		fails, labels, hist := runCase(c)
		rec.Eval(c, nontrivial(labels), labels...)
		var sigs []string
		for _, f := range fails {
			sigs = append(sigs, f.Sig)
		}
		fmt.Printf("replay attempt %d signatures: %v\n", i+1, sigs)
		if len(fails) == 0 {
			continue
		}
		if os.Getenv("VERIF_C16_QUIET") == "" {
			fmt.Printf("replay attempt %d: %d failure(s)\n%s\n", i+1, len(fails), trimTo(hist, 8000))
		}
		verdict(t, c, fails)
	}
}

func TestRegress(t *testing.T) {
	hx.Regress(t, "testdata/regress", func(raw []byte) *hx.Failure {
		var c Case
		if err := json.Unmarshal(raw, &c); err != nil {
			hx.Harnessf("regress case: %v", err)
		}
		fails, _, _ := runCase(c)
		for _, f := range fails {
			if !rec.IsKnown(f.Sig) {
				return f
			}
		}
		return nil
	}, rec)
}

// ---------------------------------------------------------------- child side

// logLine is the part of a corelog JSON record the harness needs.
type logLine struct {
	Msg   string `json:"$msg"`
	Err   string `json:"$err"`
	Event *struct {
		DocID string
		Cid   map[string]string
	} `json:"Event"`
}

var selfTestSeen = make(chan struct{}, 4)

// captureLogs routes the error log of defradb through a pipe: "Failed to execute merge" is the
// only signal the asynchronous merge path gives when it drops an incoming merge.
func captureLogs() {
	corelog.SetConfig(corelog.Config{Level: "error", Output: "stderr", Format: "json"})
	pr, pw, err := os.Pipe()
	if err != nil {
		hx.Harnessf("pipe: %v", err)
	}
	real := os.Stderr
	os.Stderr = pw
	go func() {
		sc := bufio.NewScanner(pr)
		sc.Buffer(make([]byte, 1<<20), 1<<24)
		for sc.Scan() {
			line := sc.Text()
			if strings.Contains(line, "Failed to execute merge") {
				var l logLine
				if err := json.Unmarshal([]byte(line), &l); err == nil && l.Event != nil {
					if l.Event.DocID == "selftest" {
						selfTestSeen <- struct{}{}
						continue
					}
					if tr := curTracker.Load(); tr != nil {
						var tick int64
						if tk := curTick.Load(); tk != nil {
							tick = tk.Add(1)
						}
						e := l.Err
						if e == "" {
							e = line
						}
						if tr.failed(mergeKey(l.Event.DocID, l.Event.Cid["/"]), e, tick) {
							continue
						}
						foreignMergeFailures.Add(1)
					}
				}
			}
			fmt.Fprintln(real, line)
		}
	}()
}

// selfTest makes the merge path log a failure and expects to see it through the pipe: if the log
// format changes the harness must stop (inconclusive) rather than silently lose the signal.
func selfTest() {
	n := hx.MustMemNode()
	defer n.Close()
	n.DB.Events().Publish(event.NewMessage(event.MergeName, event.Merge{DocID: "selftest", CollectionID: "no-such-collection"}))
	select {
	case <-selfTestSeen:
	case <-time.After(30 * time.Second):
		hx.Harnessf("log capture self-test: the failure record of a merge did not arrive")
	}
}

func TestC16Child(t *testing.T) {
	casePath, outPath := os.Getenv("VERIF_C16_CASE"), os.Getenv("VERIF_C16_OUT")
	if casePath == "" {
		t.Skip("child entry point")
	}
	var out Outcome
	var mu sync.Mutex
	write := func() {
		mu.Lock()
		defer mu.Unlock()
		b, _ := json.Marshal(out)
		_ = os.WriteFile(outPath+".tmp", b, 0o644)
		_ = os.Rename(outPath+".tmp", outPath)
	}
	watchdog := time.AfterFunc(150*time.Second, func() {
		buf := make([]byte, 1<<21)
		buf = buf[:runtime.Stack(buf, true)]
		mu.Lock()
		out.Harness = "case did not finish within 150s\n" + trimTo(string(buf), 30000)
		mu.Unlock()
		write()
		os.Exit(3)
	})
	defer watchdog.Stop()
	defer func() {
		if p := recover(); p != nil {
			mu.Lock()
			out.Harness = fmt.Sprint(p)
			mu.Unlock()
			write()
		}
	}()
	raw, err := os.ReadFile(casePath)
	if err != nil {
		hx.Harnessf("case file: %v", err)
	}
	var c Case
	if err := json.Unmarshal(raw, &c); err != nil {
		hx.Harnessf("case file: %v", err)
	}
	captureLogs()
	selfTest()
	seen := map[string]bool{}
	labels := map[string]bool{}
	for rep := range c.Procs {
		fails, ls, hist := runOnce(c, rep)
		out.History = hist
		for _, l := range ls {
			labels[l] = true
		}
		for _, f := range fails {
			if !seen[f.Sig] {
				seen[f.Sig] = true
				out.Failures = append(out.Failures, *f)
			}
		}
	}
	for l := range labels {
		out.Labels = append(out.Labels, l)
	}
	sort.Strings(out.Labels)
	out.Done = true
	write()
}
