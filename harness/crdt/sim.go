package crdt

import (
	"crypto/ed25519"
	"encoding/json"
	"fmt"
	"sort"
	"strings"

	"github.com/sourcenetwork/defradb/acp/identity"
	"github.com/sourcenetwork/defradb/client"
	"github.com/sourcenetwork/defradb/crypto"
	coreblock "github.com/sourcenetwork/defradb/internal/core/block"
	"github.com/sourcenetwork/defradb/internal/db"
	"github.com/sourcenetwork/defradb/node"
	"github.com/sourcenetwork/defradb/verifharness/hx"
)

func parseJSON(s string) any { return hx.ParseJSON(s) }

func renderGQL(v any) string {
	switch x := v.(type) {
	case map[string]any:
		keys := make([]string, 0, len(x))
		for k := range x {
			keys = append(keys, k)
		}
		sort.Strings(keys)
		parts := []string{}
		for _, k := range keys {
			parts = append(parts, k+": "+renderGQL(x[k]))
		}
		return "{" + strings.Join(parts, ", ") + "}"
	case []any:
		parts := []string{}
		for _, e := range x {
			parts = append(parts, renderGQL(e))
		}
		return "[" + strings.Join(parts, ", ") + "]"
	default:
		b, _ := json.Marshal(x)
		return string(b)
	}
}

// commit is the model's record of one commit.
type commit struct {
	cid    string
	doc    string // docID, "" for a collection-level commit
	kind   string // create update delete collection
	node   int
	writes map[string]string  // register field -> canonical value
	incs   map[string]float64 // counter field -> increment
	del    bool
	anc    map[string]bool // strict ancestors (closure)
	step   int
}

// model is the causal bookkeeping, independent of the implementation's DAG.
type model struct {
	commits map[string]*commit
	merged  []map[string]bool
	docs    []string // docIDs in order of first creation
}

func newModel(n int) *model {
	m := &model{commits: map[string]*commit{}}
	for i := 0; i < n; i++ {
		m.merged = append(m.merged, map[string]bool{})
	}
	return m
}

func (m *model) docCommits(node int, doc string) []*commit {
	out := []*commit{}
	for c := range m.merged[node] {
		if m.commits[c].doc == doc {
			out = append(out, m.commits[c])
		}
	}
	sort.Slice(out, func(i, j int) bool { return out[i].cid < out[j].cid })
	return out
}

func (m *model) knows(node int, doc string) bool { return len(m.docCommits(node, doc)) > 0 }

func (m *model) deleted(node int, doc string) bool {
	for _, c := range m.docCommits(node, doc) {
		if c.del {
			return true
		}
	}
	return false
}

// addMerged grows merged[node] by c and its ancestors; returns how many were new.
func (m *model) addMerged(node int, cid string) int {
	n := 0
	c := m.commits[cid]
	if !m.merged[node][cid] {
		m.merged[node][cid] = true
		n++
	}
	for a := range c.anc {
		if !m.merged[node][a] {
			m.merged[node][a] = true
			n++
		}
	}
	return n
}

// height is the length of the longest ancestor chain ending in c (genesis = 1).
func (s *sim) height(cid string) int {
	if s.htMemo == nil {
		s.htMemo = map[string]int{}
	}
	if h, ok := s.htMemo[cid]; ok {
		return h
	}
	h := 0
	c := s.m.commits[cid]
	for a := range c.anc {
		if s.m.commits[a].doc != c.doc {
			continue
		}
		if x := s.height(a); x > h {
			h = x
		}
	}
	s.htMemo[cid] = h + 1
	return h + 1
}

// parents returns the maximal strict ancestors of c within its own clock.
func (s *sim) parents(cid string) []string {
	c := s.m.commits[cid]
	out := []string{}
	for a := range c.anc {
		if s.m.commits[a].doc != c.doc {
			continue
		}
		dominated := false
		for b := range c.anc {
			if b != a && s.m.commits[b].doc == c.doc && s.m.commits[b].anc[a] {
				dominated = true
				break
			}
		}
		if !dominated {
			out = append(out, a)
		}
	}
	sort.Strings(out)
	return out
}

// frontier returns the maximal commits of merged[node] for a doc ("" = collection clock).
func (m *model) frontier(node int, doc string) []string {
	cs := m.docCommits(node, doc)
	dominated := map[string]bool{}
	for _, c := range cs {
		for a := range c.anc {
			dominated[a] = true
		}
	}
	out := []string{}
	for _, c := range cs {
		if !dominated[c.cid] {
			out = append(out, c.cid)
		}
	}
	sort.Strings(out)
	return out
}

// expect computes the expected document state on a node.
type expectation struct {
	known    bool
	deleted  bool
	counters map[string]float64
	admiss   map[string]map[string]bool // register -> set of canonical values
	writers  map[string]int
}

func (m *model) expect(node int, doc string) expectation {
	return m.expectOver(m.docCommits(node, doc))
}

// expectAt is the expected state of the document at commit cid: the commit and its ancestors, each once.
func (m *model) expectAt(cid string) expectation {
	c := m.commits[cid]
	cs := []*commit{c}
	for a := range c.anc {
		if m.commits[a].doc == c.doc {
			cs = append(cs, m.commits[a])
		}
	}
	return m.expectOver(cs)
}

func (m *model) expectOver(cs []*commit) expectation {
	e := expectation{known: len(cs) > 0, counters: map[string]float64{}, admiss: map[string]map[string]bool{}, writers: map[string]int{}}
	for _, f := range counterFields {
		e.counters[f] = 0
	}
	for _, c := range cs {
		if c.del {
			e.deleted = true
		}
		for f, inc := range c.incs {
			e.counters[f] += inc
		}
	}
	for _, f := range registerFields {
		set := map[string]bool{}
		var writers []*commit
		for _, c := range cs {
			if _, ok := c.writes[f]; ok {
				writers = append(writers, c)
			}
		}
		e.writers[f] = len(writers)
		for _, w := range writers {
			dominated := false
			for _, w2 := range writers {
				if w2 != w && w2.anc[w.cid] {
					dominated = true
					break
				}
			}
			if !dominated {
				set[w.writes[f]] = true
			}
		}
		if len(writers) == 0 {
			set["null"] = true
		}
		e.admiss[f] = set
	}
	return e
}

func seedKey(kind string, i int) crypto.PrivateKey {
	seed := make([]byte, 32)
	for k := range seed {
		seed[k] = byte(7*i + k + 1)
	}
	var (
		pk  crypto.PrivateKey
		err error
	)
	if kind == "ed25519" {
		pk, err = crypto.PrivateKeyFromBytes(crypto.KeyTypeEd25519, ed25519.NewKeyFromSeed(seed))
	} else {
		pk, err = crypto.PrivateKeyFromBytes(crypto.KeyTypeSecp256k1, seed)
	}
	if err != nil {
		hx.Harnessf("seed key: %v", err)
	}
	return pk
}

func nodeOpts(cfg Config) func(i int) []node.Option {
	return func(i int) []node.Option {
		if cfg.Signing == "" {
			return nil
		}
		k := i
		if cfg.SameSigner {
			k = 0
		}
		ident, err := identity.FromPrivateKey(seedKey(cfg.Signing, k))
		if err != nil {
			hx.Harnessf("identity: %v", err)
		}
		return []node.Option{db.WithNodeIdentity(ident), db.WithEnabledSigning(true)}
	}
}

// sim is one execution of a case.
type sim struct {
	c     Case
	cl    *hx.Cluster
	m     *model
	step  int
	log   []string
	stats simStats
	// per-step hooks
	last   deliveryCtx
	htMemo map[string]int
	// fieldProducers: field-level block cid -> nodes that produced it by a local write. A parentless
	// field block produced independently on two nodes is the trigger of a known head-set defect.
	fieldProducers map[string]map[int]bool
	// lastLocal is the document-level commit produced by the local operation just executed ("" for deliveries).
	lastLocal   string
	noDeletes   bool
	afterChange func(s *sim, node int, docs []string) *hx.Failure
	onMergeErr  func(s *sim, node int, msg hx.Msg, err error) *hx.Failure
	docIDs      map[int]string // template -> docID
	// lastUpdate: document -> the latest local update (node, field writes), replayed by "mirror" steps
	lastUpdate map[string]lastUpdate
}

type lastUpdate struct {
	node int
	ops  []FieldOp
}

// deliveryCtx is the model's view of the receiver just before the last delivery; the
// diagnosers use it to tell known defect shapes from new ones.
type deliveryCtx struct {
	valid          bool
	colMsg         bool
	already        bool
	preMerged      map[string]bool // commits of closure(msg) that the receiver had merged before
	frontierHts    int             // distinct model heights among the receiver's heads of that document
	mixedParentHts bool            // a receiver head has parents at different heights
	lowerThanHead  bool            // delivered commit is lower than a concurrent head of the receiver
}

type simStats struct {
	concurrentWrites   bool // two nodes wrote the same field / doc without having merged each other's write
	oooDelivery        bool // delivery out of causal order / of a non-head ancestor
	dupDelivery        bool // delivery of an already merged commit
	partialAncestors   bool // delivered commit with ancestors partly merged
	headsDiffHeights   bool
	tieEqualHeight     bool
	nullInvolved       bool
	deleteVsUpdate     bool
	sameGenesis        bool
	multiHeads         bool
	mergeErrors        int
	deliveries         int
	localCommits       int
	counterIncs        int
	aeRounds           int
	ttReads            int
	ttQueries          int
	ttNontrivial       int
	ttMultiParent      int
	ttCounter          int
	ttRemote           int
	sharedUpdateBlock  bool // an update on one node produced a field-level block that another node's write produced too
	mirrors            int  // updates that repeated another node's latest field writes
	lateJoin           int  // deliveries to a node that had merged nothing of the document, of a commit with >= 4 ancestors
	lateJoinMerged     int  // ... whose ancestors include a commit with two parents (both branches arrive in one merge)
	filteredUpdates    int  // updates selected by a filter instead of the docID argument
	inListUpdates      int  // ... whose condition lists the old and the new value of i
	indexServedUpdates int  // ... on an indexed collection, by a condition on the indexed field i
}

func (s *sim) logf(format string, args ...any) {
	s.log = append(s.log, fmt.Sprintf("[%d] ", s.step)+fmt.Sprintf(format, args...))
}

func (s *sim) history() string { return strings.Join(s.log, "\n") }

func docIDOfTemplate(n *hx.Node, tpl string) string {
	col, err := n.DB.GetCollectionByName(n.Ctx, "Users")
	if err != nil {
		hx.Harnessf("collection: %v", err)
	}
	d, err := client.NewDocFromJSON([]byte(tpl), col.Definition())
	if err != nil {
		hx.Harnessf("template rejected: %v", err)
	}
	return d.ID().String()
}

// writtenFields decodes which fields a composite commit block links to.
func writtenFields(block []byte) (map[string]bool, *coreblock.Block) {
	b, err := coreblock.GetFromBytes(block)
	if err != nil {
		hx.Harnessf("update event carries an undecodable block: %v", err)
	}
	out := map[string]bool{}
	for _, l := range b.Links {
		out[l.Name] = true
	}
	return out, b
}

// record registers the commits produced by a local operation on node.
func (s *sim) record(nodeIdx int, kind string, doc string, ops []FieldOp, msgs []hx.Msg) *hx.Failure {
	var lastDoc *commit
	docLevel := 0
	for _, msg := range msgs {
		if msg.DocID != "" {
			docLevel++
		}
	}
	if docLevel > 1 {
		return hx.Failf("C02/applied-twice/one-operation-several-commits", "one %s of %s on n%d produced %d document-level commits: the operation was applied more than once", kind, doc, nodeIdx, docLevel)
	}
	for _, msg := range msgs {
		if msg.DocID != "" {
			if msg.DocID != doc {
				return hx.Failf("C20/event-for-other-doc", "operation on %s produced an update event for %s", doc, msg.DocID)
			}
			fields, blk := writtenFields(msg.Block)
			c := &commit{cid: msg.Cid, doc: doc, kind: kind, node: nodeIdx, writes: map[string]string{}, incs: map[string]float64{}, anc: map[string]bool{}, step: s.step}
			for _, prev := range s.m.docCommits(nodeIdx, doc) {
				c.anc[prev.cid] = true
			}
			for _, o := range ops {
				if !fields[o.Field] {
					continue // unchanged value: no field commit
				}
				if isCounter(o.Field) {
					c.incs[o.Field] = o.Inc
					s.stats.counterIncs++
				} else {
					c.writes[o.Field] = hx.CanonValue(parseJSON(o.Set))
					if o.Set == "null" {
						s.stats.nullInvolved = true
					}
				}
			}
			c.del = kind == "delete"
			if s.fieldProducers == nil {
				s.fieldProducers = map[string]map[int]bool{}
			}
			for _, l := range blk.Links {
				k := l.Cid.String()
				if s.fieldProducers[k] == nil {
					s.fieldProducers[k] = map[int]bool{}
				}
				s.fieldProducers[k][nodeIdx] = true
				if kind == "update" && len(s.fieldProducers[k]) >= 2 {
					s.stats.sharedUpdateBlock = true
				}
			}
			if kind == "create" && (s.c.Cfg.Signing == "" || s.c.Cfg.SameSigner) {
				// same initial document, unsigned or same signer: byte-identical genesis commits
				for _, other := range s.m.commits {
					if other.doc == doc && other.kind == "create" && other.cid != c.cid {
						return hx.Failf("C04/genesis-differs", "creating the same document on n%d and n%d (signing=%q same signer=%v) gave different genesis commits %s and %s", other.node, nodeIdx, s.c.Cfg.Signing, s.c.Cfg.SameSigner, other.cid, c.cid)
					}
				}
			}
			if old, ok := s.m.commits[c.cid]; ok {
				// identical operation on two nodes: one commit
				if old.node != nodeIdx {
					s.stats.sameGenesis = s.stats.sameGenesis || kind == "create"
				}
				c = old
			} else {
				s.m.commits[c.cid] = c
			}
			s.m.addMerged(nodeIdx, c.cid)
			s.stats.localCommits++
			s.lastLocal = c.cid
			lastDoc = c
		} else {
			// collection-level commit: ancestors = merged collection commits (closed) + the doc commit just made
			c := &commit{cid: msg.Cid, doc: "", kind: "collection", node: nodeIdx, anc: map[string]bool{}, step: s.step}
			for cid := range s.m.merged[nodeIdx] {
				if s.m.commits[cid].doc == "" {
					c.anc[cid] = true
					for a := range s.m.commits[cid].anc {
						c.anc[a] = true
					}
				}
			}
			if lastDoc != nil {
				c.anc[lastDoc.cid] = true
				for a := range lastDoc.anc {
					c.anc[a] = true
				}
			}
			if _, ok := s.m.commits[c.cid]; !ok {
				s.m.commits[c.cid] = c
			}
			s.m.addMerged(nodeIdx, c.cid)
		}
	}
	return nil
}

func templateOps(tpl string) []FieldOp {
	v := parseJSON(tpl).(map[string]any)
	ops := []FieldOp{}
	for f, val := range v {
		if isCounter(f) {
			x, _ := val.(json.Number).Float64()
			ops = append(ops, FieldOp{Field: f, Inc: x})
		} else {
			b, _ := json.Marshal(val)
			ops = append(ops, FieldOp{Field: f, Set: string(b)})
		}
	}
	sort.Slice(ops, func(i, j int) bool { return ops[i].Field < ops[j].Field })
	return ops
}

// concurrency bookkeeping for the non-triviality rule
func (s *sim) noteConcurrent(nodeIdx int, doc string, c *commit) {
	for _, other := range s.m.commits {
		if other.doc != doc || other.cid == c.cid || other.node == nodeIdx {
			continue
		}
		if c.anc[other.cid] || other.anc[c.cid] {
			continue
		}
		// concurrent commits on the same doc from different nodes
		if c.del != other.del {
			s.stats.deleteVsUpdate = true
		}
		for f := range c.writes {
			if _, ok := other.writes[f]; ok {
				s.stats.concurrentWrites = true
				if len(c.anc) == len(other.anc) {
					s.stats.tieEqualHeight = true
				}
			}
		}
		for f := range c.incs {
			if _, ok := other.incs[f]; ok {
				s.stats.concurrentWrites = true
			}
		}
		if c.del || other.del {
			s.stats.concurrentWrites = true
		}
	}
}

func (s *sim) resolveDoc(idx int) (string, bool) {
	if len(s.m.docs) == 0 {
		return "", false
	}
	return s.m.docs[idx%len(s.m.docs)], true
}

func (s *sim) exec(st Step) *hx.Failure {
	s.lastLocal = ""
	if st.Kind != "deliver" {
		s.last.valid = false
	}
	if st.Kind == "delete" && s.noDeletes {
		return nil
	}
	nodeIdx := st.Node % len(s.cl.Nodes)
	n := s.cl.Nodes[nodeIdx]
	switch st.Kind {
	case "mirror":
		// this node repeats the field writes of the latest update another node made to the document
		// (same fields, same values): when both are at the same state of those fields the two nodes
		// produce the identical field-level commits under different document-level commits
		doc, ok := s.resolveDoc(st.Doc)
		if !ok {
			return nil
		}
		lu, ok := s.lastUpdate[doc]
		if !ok || lu.node == nodeIdx {
			s.logf("n%d mirror skipped (no update of the document by another node yet)", nodeIdx)
			return nil
		}
		s.stats.mirrors++
		return s.exec(Step{Kind: "update", Node: nodeIdx, Doc: st.Doc, Ops: lu.ops})
	case "deliverfrom":
		// the latest document-level notification produced by node st.Msg goes to this node
		src := st.Msg % len(s.cl.Nodes)
		if src < 0 {
			src = -src
		}
		for k := len(s.cl.Msgs) - 1; k >= 0; k-- {
			if m := s.cl.Msgs[k]; m.From == src && m.DocID != "" {
				return s.deliver(m, nodeIdx)
			}
		}
		return nil
	case "create":
		tpl := templates[st.Tpl%len(templates)]
		doc := s.docIDs[st.Tpl%len(templates)]
		if doc == "" {
			doc = docIDOfTemplate(n, tpl)
			s.docIDs[st.Tpl%len(templates)] = doc
		}
		if s.m.knows(nodeIdx, doc) {
			s.logf("n%d create tpl%d skipped (document known)", nodeIdx, st.Tpl)
			return nil
		}
		q := fmt.Sprintf(`mutation { create_Users(input: %s) { _docID } }`, renderGQL(parseJSON(tpl)))
		r := n.Exec(q)
		s.logf("n%d create %s -> err=%q", nodeIdx, tpl, r.Err())
		if r.Panic != "" {
			return hx.Failf("C01/panic/create", "create panicked: %s", r.Panic)
		}
		if !r.OK() {
			hx.Harnessf("create of a fresh template failed: %s", r.Err())
		}
		rows := r.Rows("create_Users")
		if len(rows) != 1 || rows[0]["_docID"] != doc {
			return hx.Failf("C13/docid-route", "create returned %v, NewDocFromJSON id is %s", rows, doc)
		}
		found := false
		for _, d := range s.m.docs {
			found = found || d == doc
		}
		if !found {
			s.m.docs = append(s.m.docs, doc)
		}
		msgs := s.cl.Collect(nodeIdx)
		if f := s.record(nodeIdx, "create", doc, templateOps(tpl), msgs); f != nil {
			return f
		}
		if len(msgs) > 0 {
			s.noteConcurrent(nodeIdx, doc, s.m.commits[msgs[0].Cid])
		}
		return s.changed(nodeIdx, []string{doc})
	case "update", "delete":
		doc, ok := s.resolveDoc(st.Doc)
		if !ok || !s.m.knows(nodeIdx, doc) || s.m.deleted(nodeIdx, doc) {
			s.logf("n%d %s skipped (document unknown or deleted here)", nodeIdx, st.Kind)
			return nil
		}
		var q string
		if st.Kind == "update" {
			if len(st.Ops) == 0 {
				return nil
			}
			q = fmt.Sprintf(`mutation { update_Users(docID: %q, input: %s) { _docID } }`, doc, gqlInput(st.Ops))
			switch st.Via {
			case 1:
				q = fmt.Sprintf(`mutation { update_Users(filter: {_docID: {_eq: %q}}, input: %s) { _docID } }`, doc, gqlInput(st.Ops))
				s.stats.filteredUpdates++
			case 2:
				row, cnt, rr := queryDoc(n, doc)
				if cnt != 1 {
					hx.Harnessf("read of a live known document before a filtered update returned %d rows: %s", cnt, rr.Err())
				}
				cond := "{_eq: null}"
				if row["i"] != nil {
					cond = fmt.Sprintf("{_ge: %s}", hx.CanonValue(row["i"]))
					for _, o := range st.Ops {
						// the value list of an _in is served by one index lookup per value, each seeing the writes made so far
						if o.Field == "i" && o.Set != "null" && o.Set != hx.CanonValue(row["i"]) {
							cond = fmt.Sprintf("{_in: [%s, %s]}", hx.CanonValue(row["i"]), o.Set)
							s.stats.inListUpdates++
						}
					}
				}
				q = fmt.Sprintf(`mutation { update_Users(filter: {i: %s, _docID: {_eq: %q}}, input: %s) { _docID } }`, cond, doc, gqlInput(st.Ops))
				s.stats.filteredUpdates++
				if s.c.Cfg.Indexed {
					s.stats.indexServedUpdates++
				}
			}
		} else {
			q = fmt.Sprintf(`mutation { delete_Users(docID: %q) { _docID } }`, doc)
		}
		r := n.Exec(q)
		s.logf("n%d %s -> err=%q", nodeIdx, q, r.Err())
		if r.Panic != "" {
			return hx.Failf("C01/panic/"+st.Kind, "%s panicked: %s", q, r.Panic)
		}
		if !r.OK() {
			hx.Harnessf("%s on a live known document failed: %s", q, r.Err())
		}
		msgs := s.cl.Collect(nodeIdx)
		if st.Kind == "update" && st.Via != 0 && len(msgs) == 0 {
			// The rows a filtered update returns are filtered again after the update, so they do not tell whether
			// the document was selected; a counter increment always changes the document, so it must have committed.
			for _, o := range st.Ops {
				if isCounter(o.Field) && o.Inc != 0 {
					return hx.Failf("C02/filtered-update/not-applied", "%s: the filter describes the live document %s as the node shows it and the input increments a counter, but no commit was made", q, doc)
				}
			}
		}
		if f := s.record(nodeIdx, st.Kind, doc, st.Ops, msgs); f != nil {
			return f
		}
		if st.Kind == "update" {
			s.lastUpdate[doc] = lastUpdate{node: nodeIdx, ops: st.Ops}
		}
		for _, m := range msgs {
			if m.DocID != "" {
				s.noteConcurrent(nodeIdx, doc, s.m.commits[m.Cid])
			}
		}
		return s.changed(nodeIdx, []string{doc})
	case "ttread":
		doc, ok := s.resolveDoc(st.Doc)
		if !ok || !s.m.knows(nodeIdx, doc) || s.m.deleted(nodeIdx, doc) {
			return nil
		}
		cs := s.m.docCommits(nodeIdx, doc)
		c := cs[st.Msg%len(cs)]
		q := fmt.Sprintf(`query { Users(cid: %q, docID: %q) { _docID s pn } }`, c.cid, doc)
		r := n.Exec(q)
		s.logf("n%d time-travel read of %s at %s (model height %d) -> err=%q", nodeIdx, short(doc), short(c.cid), s.height(c.cid), r.Err())
		if r.Panic != "" {
			return hx.Failf("C03/panic/time-travel", "%s panicked: %s", q, r.Panic)
		}
		s.stats.ttReads++
		if extra := s.cl.Collect(nodeIdx); len(extra) > 0 {
			return hx.Failf("C20/event-for-read", "a time-travel read produced %d update events", len(extra))
		}
		return s.changed(nodeIdx, []string{doc})
	case "deliver":
		if len(s.cl.Msgs) == 0 {
			return nil
		}
		var msg hx.Msg
		if st.Msg < 0 {
			k := len(s.cl.Msgs) + st.Msg
			if k < 0 {
				k = 0
			}
			msg = s.cl.Msgs[k]
		} else {
			msg = s.cl.Msgs[st.Msg%len(s.cl.Msgs)]
		}
		return s.deliver(msg, nodeIdx)
	}
	hx.Harnessf("unknown step kind %q", st.Kind)
	return nil
}

// deliver hands msg to node `to`, updates the model and runs the per-step oracle.
func (s *sim) deliver(msg hx.Msg, to int) *hx.Failure {
	c := s.m.commits[msg.Cid]
	if c == nil {
		hx.Harnessf("message %s has no model record", msg.Cid)
	}
	// classification before the merge
	already := s.m.merged[to][c.cid]
	nAnc, nHave := 0, 0
	for a := range c.anc {
		nAnc++
		if s.m.merged[to][a] {
			nHave++
		}
	}
	if already {
		s.stats.dupDelivery = true
	}
	if nAnc > 0 && nHave > 0 && nHave < nAnc {
		s.stats.partialAncestors = true
	}
	if nHave < nAnc {
		s.stats.oooDelivery = true
	}
	if c.doc != "" {
		hs := s.m.frontier(to, c.doc)
		heights := map[int]bool{}
		for _, h := range hs {
			heights[len(s.m.commits[h].anc)] = true
		}
		if len(hs) > 1 {
			s.stats.multiHeads = true
		}
		if len(heights) > 1 {
			s.stats.headsDiffHeights = true
		}
		if !already {
			for _, h := range hs {
				if !c.anc[h] && !s.m.commits[h].anc[c.cid] && len(s.m.commits[h].anc) > len(c.anc) {
					s.stats.oooDelivery = true // lower than an existing concurrent head
				}
			}
		}
	}
	if c.doc != "" && nHave == 0 && !already && nAnc >= 4 {
		s.stats.lateJoin++
		for a := range c.anc {
			if s.m.commits[a].doc == c.doc && len(s.parents(a)) > 1 {
				s.stats.lateJoinMerged++
				break
			}
		}
		if len(s.parents(c.cid)) > 1 {
			s.stats.lateJoinMerged++
		}
	}
	s.last = deliveryCtx{valid: true, colMsg: c.doc == "", already: already, preMerged: map[string]bool{}}
	if already {
		s.last.preMerged[c.cid] = true
	}
	for a := range c.anc {
		if s.m.merged[to][a] {
			s.last.preMerged[a] = true
		}
	}
	if c.doc != "" {
		hts := map[int]bool{}
		for _, h := range s.m.frontier(to, c.doc) {
			hts[s.height(h)] = true
			ph := map[int]bool{}
			for _, p := range s.parents(h) {
				ph[s.height(p)] = true
			}
			if len(ph) > 1 {
				s.last.mixedParentHts = true
			}
			if !already && !c.anc[h] && !s.m.commits[h].anc[c.cid] && s.height(h) > s.height(c.cid) {
				s.last.lowerThanHead = true
			}
		}
		s.last.frontierHts = len(hts)
	}
	s.stats.deliveries++
	err := s.cl.Deliver(msg, to)
	s.logf("deliver %s (doc %s, from n%d, model-height %d, already=%v, ancestors %d/%d present) -> n%d: err=%v", short(msg.Cid), short(msg.DocID), msg.From, len(c.anc)+1, already, nHave, nAnc, to, err)
	if err != nil {
		s.stats.mergeErrors++
		if s.onMergeErr != nil {
			return s.onMergeErr(s, to, msg, err)
		}
		return &hx.Failure{Sig: "cut/merge-error", Msg: err.Error()}
	}
	s.m.addMerged(to, c.cid)
	// a merge produces no update events; drain anyway
	if extra := s.cl.Collect(to); len(extra) > 0 {
		hx.Harnessf("merge produced %d update events", len(extra))
	}
	docs := []string{}
	if c.doc != "" {
		docs = append(docs, c.doc)
	} else {
		seen := map[string]bool{}
		for a := range c.anc {
			if d := s.m.commits[a].doc; d != "" && !seen[d] {
				seen[d] = true
				docs = append(docs, d)
			}
		}
		sort.Strings(docs)
	}
	return s.changed(to, docs)
}

func (s *sim) changed(nodeIdx int, docs []string) *hx.Failure {
	if s.afterChange != nil {
		f := s.afterChange(s, nodeIdx, docs)
		s.last.valid = false
		return f
	}
	s.last.valid = false
	return nil
}

func short(s string) string {
	if len(s) > 10 {
		return s[len(s)-8:]
	}
	return s
}

// antiEntropy delivers every node's model frontier to every other node until all merged sets agree.
func (s *sim) antiEntropy() *hx.Failure {
	n := len(s.cl.Nodes)
	for round := 0; round <= n+1; round++ {
		all := map[string]bool{}
		for i := 0; i < n; i++ {
			for c := range s.m.merged[i] {
				all[c] = true
			}
		}
		done := true
		for i := 0; i < n; i++ {
			if len(s.m.merged[i]) != len(all) {
				done = false
			}
		}
		if done {
			s.stats.aeRounds = round
			return nil
		}
		for k := 0; k < n; k++ {
			from := (k + s.c.Perm) % n
			clocks := append([]string{}, s.m.docs...)
			if s.c.Cfg.Branchable && (round+s.c.Perm)%2 == 1 {
				// odd rounds exchange collection-level heads (they link the documents)
				clocks = []string{""}
			}
			for _, doc := range clocks {
				for _, h := range s.m.frontier(from, doc) {
					for j := 0; j < n; j++ {
						to := (j + s.c.Perm) % n
						if to == from {
							continue
						}
						colID := s.collectionID(h)
						msg := hx.Msg{From: from, DocID: doc, Cid: h, CollectionID: colID}
						if f := s.deliver(msg, to); f != nil {
							return f
						}
					}
				}
			}
		}
	}
	return hx.Failf("harness/anti-entropy", "model did not converge")
}

func (s *sim) collectionID(cid string) string {
	for _, m := range s.cl.Msgs {
		if m.Cid == cid {
			return m.CollectionID
		}
	}
	hx.Harnessf("no message with cid %s", cid)
	return ""
}

const docFields = "_docID _deleted s i f b t bl j a pn pc pf"

// queryDoc reads one document (deleted or not) on a node.
func queryDoc(n *hx.Node, doc string) (map[string]any, int, hx.Result) {
	r := n.Exec(fmt.Sprintf(`query { Users(docID: %q, showDeleted: true) { %s } }`, doc, docFields))
	rows := r.Rows("Users")
	if len(rows) == 1 {
		return rows[0], 1, r
	}
	return nil, len(rows), r
}

func newSim(c Case) *sim {
	s := &sim{c: c, docIDs: map[int]string{}, lastUpdate: map[string]lastUpdate{}}
	s.cl = hx.NewCluster(c.Cfg.Nodes, sdl(c.Cfg), nodeOpts(c.Cfg))
	s.m = newModel(c.Cfg.Nodes)
	return s
}

func (s *sim) close() { s.cl.Close() }

// runSteps executes the generated history.
func (s *sim) runSteps() *hx.Failure {
	for i, st := range s.c.Steps {
		s.step = i
		if f := s.exec(st); f != nil {
			return f
		}
	}
	s.step = len(s.c.Steps)
	return nil
}

// producedOnTwoNodes reports whether the field-level block was created by local writes on >= 2 nodes.
func (s *sim) producedOnTwoNodes(fieldCid string) bool { return len(s.fieldProducers[fieldCid]) >= 2 }
