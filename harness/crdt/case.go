// Package crdt holds the replica-convergence checks C01, C02, C04 (and C03)
// that share the cluster simulator and the causal model.
package crdt

import (
	"fmt"
	"sort"
	"strings"

	"pgregory.net/rapid"
)

// Config is the collection/cluster configuration of a case.
type Config struct {
	Nodes      int    `json:"nodes"`
	Branchable bool   `json:"branchable,omitempty"`
	Indexed    bool   `json:"indexed,omitempty"`
	Signing    string `json:"signing,omitempty"` // "", "ed25519", "secp256k1"
	SameSigner bool   `json:"same_signer,omitempty"`
}

// FieldOp is a register write (Set is a JSON literal, "null" allowed) or a counter increment.
type FieldOp struct {
	Field string  `json:"f"`
	Set   string  `json:"set,omitempty"`
	Inc   float64 `json:"inc,omitempty"`
}

// Step is one abstract operation. Indices are taken modulo what exists.
type Step struct {
	// Kind: create update delete deliver ttread; mirror (repeat the field writes of the latest update
	// another node made to the document); deliverfrom (deliver the latest document-level notification
	// produced by node Msg)
	Kind string    `json:"k"`
	Node int       `json:"n"`
	Tpl  int       `json:"tpl,omitempty"`
	Doc  int       `json:"doc,omitempty"`
	Ops  []FieldOp `json:"ops,omitempty"`
	Msg  int       `json:"msg,omitempty"`
	// Via (update): 0 = update_Users(docID:), 1 = update_Users(filter: {_docID: {_eq:}}), 2 = a filter on the
	// indexed field i built from the value the node currently shows (a range from it upwards, or _eq: null)
	// together with the _docID condition, so that an indexed collection serves the selection from the index
	// the update may move the entry in
	Via int `json:"via,omitempty"`
}

// Case is a full history.
type Case struct {
	Cfg   Config `json:"cfg"`
	Steps []Step `json:"steps"`
	// Perm rotates the order of the final anti-entropy phase.
	Perm int `json:"perm,omitempty"`
	// Repeat is how often the case is executed (nondeterminism inside defradb: nonces, map order).
	Repeat int `json:"repeat,omitempty"`
}

var registerFields = []string{"s", "i", "f", "b", "t", "bl", "j", "a"}
var counterFields = []string{"pn", "pc", "pf"}
var allFields = append(append([]string{}, registerFields...), counterFields...)

func isCounter(f string) bool { return f == "pn" || f == "pc" || f == "pf" }

var valuePool = map[string][]string{
	"s":  {`"a"`, `"b"`, `""`, `"a\u0000"`, `null`},
	"i":  {`0`, `1`, `-1`, `7`, `2147483647`, `null`},
	"f":  {`0.25`, `-1.5`, `1024.75`, `0`, `null`},
	"b":  {`true`, `false`, `null`},
	"t":  {`"2020-01-02T03:04:05Z"`, `"1969-12-31T23:59:59.000000001Z"`, `null`},
	"bl": {`"00ff"`, `"ab"`, `null`},
	"j":  {`1`, `"x"`, `{"k":[1,{"z":null}]}`, `[]`, `null`},
	"a":  {`[1,2]`, `[]`, `[3,3]`, `null`},
}

var incPool = map[string][]float64{
	"pn": {1, -1, 5, -3, 10},
	"pc": {1, 2, 10},
	"pf": {0.25, -0.5, 2, 1024.75},
}

// templates are the initial documents; the same template on two nodes is the same document.
var templates = []string{
	`{"s":"t0","i":1,"pn":3,"pc":1,"pf":0.5}`,
	`{"f":0.25,"b":true,"t":"2020-01-02T03:04:05Z","bl":"00ff","j":{"k":1},"a":[1,2],"pn":0}`,
	`{"s":"t2","i":null,"j":null}`,
	`{"s":"t3","pc":5,"pf":-0.25,"i":7}`,
}

func sdl(cfg Config) string {
	br := ""
	if cfg.Branchable {
		br = " @branchable"
	}
	idx := ""
	if cfg.Indexed {
		idx = " @index"
	}
	return fmt.Sprintf(`type Users%s {
	s: String%s
	i: Int%s
	f: Float
	b: Boolean
	t: DateTime
	bl: Blob
	j: JSON
	a: [Int!]
	pn: Int @crdt(type: pncounter)
	pc: Int @crdt(type: pcounter)
	pf: Float @crdt(type: pncounter)
}`, br, idx, idx)
}

// gqlLit turns a JSON literal into a GraphQL input literal (object keys unquoted is
// not needed: JSON scalars pass as variables-free literals; JSON-kind values are passed as strings).
func gqlInput(ops []FieldOp) string {
	parts := []string{}
	for _, o := range ops {
		if isCounter(o.Field) {
			parts = append(parts, fmt.Sprintf("%s: %s", o.Field, fmtNum(o.Inc, o.Field == "pf")))
			continue
		}
		lit := o.Set
		if o.Field == "j" && lit != "null" {
			// JSON scalar kind: GraphQL accepts the value as a literal of matching shape; objects need unquoted keys
			lit = jsonToGQL(lit)
		}
		parts = append(parts, fmt.Sprintf("%s: %s", o.Field, lit))
	}
	return "{" + strings.Join(parts, ", ") + "}"
}

func fmtNum(x float64, isFloat bool) string {
	if isFloat {
		s := fmt.Sprintf("%g", x)
		if !strings.ContainsAny(s, ".e") {
			s += ".0"
		}
		return s
	}
	return fmt.Sprintf("%d", int64(x))
}

// jsonToGQL rewrites a JSON text into GraphQL literal syntax (unquoted object keys).
func jsonToGQL(js string) string {
	v := parseJSON(js)
	return renderGQL(v)
}

// drawUpdateOps draws the field writes of one update.
func drawUpdateOps(t *rapid.T, bias string) []FieldOp {
	var ops []FieldOp
	nf := rapid.IntRange(1, 3).Draw(t, "nf")
	used := map[string]bool{}
	for k := 0; k < nf; k++ {
		var f string
		if bias == "counters" && rapid.IntRange(0, 2).Draw(t, "cbias") > 0 {
			f = rapid.SampledFrom(counterFields).Draw(t, "cf")
		} else {
			f = rapid.SampledFrom(allFields).Draw(t, "f")
		}
		if used[f] {
			continue
		}
		used[f] = true
		if isCounter(f) {
			ops = append(ops, FieldOp{Field: f, Inc: rapid.SampledFrom(incPool[f]).Draw(t, "inc")})
		} else {
			ops = append(ops, FieldOp{Field: f, Set: rapid.SampledFrom(valuePool[f]).Draw(t, "val")})
		}
	}
	sort.Slice(ops, func(a, b int) bool { return ops[a].Field < ops[b].Field })
	return ops
}

// drawDiamondSteps draws a structured history: one document created on node 0 and handed to node 1;
// then 1-2 rounds of {a branch phase in which nodes 0 and 1 write concurrently (updates, "mirror"
// updates that repeat the other node's latest field writes so that both produce the same field-level
// commit under different document commits, rarely a delete), a merge phase in which one of them
// receives the other's latest commit and writes on top}; then the late joiner (node 2, which has
// seen nothing, or only the genesis) receives the merger's latest commit, i.e. the whole two-branch
// DAG in ONE merge; then a few free steps. The free generator reaches such shapes only rarely.
func drawDiamondSteps(t *rapid.T, cfg Config, bias string) []Step {
	steps := []Step{{Kind: "create", Node: 0, Tpl: 0}, {Kind: "deliverfrom", Node: 1, Msg: 0}}
	if rapid.IntRange(0, 3).Draw(t, "joinerHasGenesis") == 0 {
		steps = append(steps, Step{Kind: "deliverfrom", Node: 2, Msg: 0})
	}
	rounds := rapid.IntRange(1, 2).Draw(t, "rounds")
	merger := 0
	for r := 0; r < rounds; r++ {
		m := rapid.IntRange(2, 8).Draw(t, "branchOps")
		for i := 0; i < m; i++ {
			node := rapid.IntRange(0, 1).Draw(t, "bnode")
			switch w := rapid.IntRange(0, 99).Draw(t, "bkind"); {
			case w < 30:
				steps = append(steps, Step{Kind: "mirror", Node: node, Doc: 0})
			case w < 33:
				steps = append(steps, Step{Kind: "delete", Node: node, Doc: 0})
			case w < 38:
				// redelivery of something old to one of the writers
				steps = append(steps, Step{Kind: "deliver", Node: node, Msg: rapid.IntRange(0, 1<<16).Draw(t, "msg")})
			default:
				steps = append(steps, Step{Kind: "update", Node: node, Doc: 0, Ops: drawUpdateOps(t, bias)})
			}
		}
		merger = rapid.IntRange(0, 1).Draw(t, "merger")
		steps = append(steps, Step{Kind: "deliverfrom", Node: merger, Msg: 1 - merger})
		if rapid.IntRange(0, 4).Draw(t, "writeOnTop") > 0 {
			steps = append(steps, Step{Kind: "update", Node: merger, Doc: 0, Ops: drawUpdateOps(t, bias)})
		}
	}
	steps = append(steps, Step{Kind: "deliverfrom", Node: 2, Msg: merger})
	return steps
}

func drawCase(t *rapid.T, bias string) Case {
	cfg := Config{Nodes: rapid.IntRange(2, 4).Draw(t, "nodes")}
	cfg.Branchable = rapid.IntRange(0, 3).Draw(t, "branchable") == 0
	cfg.Indexed = rapid.IntRange(0, 2).Draw(t, "indexed") == 0
	switch rapid.IntRange(0, 5).Draw(t, "signing") {
	case 0:
		cfg.Signing = "ed25519"
	case 1:
		cfg.Signing = "secp256k1"
	}
	if cfg.Signing != "" {
		cfg.SameSigner = rapid.Bool().Draw(t, "samesigner")
	}
	c := Case{Cfg: cfg, Perm: rapid.IntRange(0, 3).Draw(t, "perm")}
	n := rapid.IntRange(5, 36).Draw(t, "nsteps")
	ntpl := rapid.IntRange(1, 3).Draw(t, "ntpl")
	// the first steps create documents so that later steps have something to work on
	created := 0
	if cfg.Nodes >= 3 && rapid.IntRange(0, 9).Draw(t, "shape") < 4 {
		c.Steps = drawDiamondSteps(t, cfg, bias)
		created = 1
		n = rapid.IntRange(0, 8).Draw(t, "freeSteps")
	}
	for i := 0; i < n; i++ {
		var s Step
		s.Node = rapid.IntRange(0, cfg.Nodes-1).Draw(t, "node")
		w := rapid.IntRange(0, 99).Draw(t, "kind")
		switch {
		case created == 0 || w < 8:
			s.Kind = "create"
			s.Tpl = rapid.IntRange(0, ntpl-1).Draw(t, "tpl")
			created++
		case w < 46:
			s.Kind = "update"
			s.Doc = rapid.IntRange(0, 3).Draw(t, "doc")
			s.Ops = drawUpdateOps(t, bias)
			s.Via = rapid.SampledFrom([]int{0, 0, 0, 0, 1, 2, 2, 0}).Draw(t, "via")
			if s.Via == 2 && rapid.Bool().Draw(t, "moveIndexed") {
				// the selection field itself moves (upwards for most pairs of pool values)
				ops := []FieldOp{{Field: "i", Set: rapid.SampledFrom(valuePool["i"]).Draw(t, "ival")}}
				for _, o := range s.Ops {
					if o.Field != "i" {
						ops = append(ops, o)
					}
				}
				sort.Slice(ops, func(a, b int) bool { return ops[a].Field < ops[b].Field })
				s.Ops = ops
			}
		case w < 50:
			s.Kind = "mirror"
			s.Doc = rapid.IntRange(0, 3).Draw(t, "doc")
		case w < 56:
			s.Kind = "delete"
			s.Doc = rapid.IntRange(0, 3).Draw(t, "doc")
		case w < 62:
			// a time-travel read of an arbitrary merged commit: reads must not change any state
			s.Kind = "ttread"
			s.Doc = rapid.IntRange(0, 3).Draw(t, "doc")
			s.Msg = rapid.IntRange(0, 1<<10).Draw(t, "commit")
		default:
			s.Kind = "deliver"
			s.Msg = rapid.IntRange(0, 1<<16).Draw(t, "msg")
			if rapid.IntRange(0, 2).Draw(t, "recent") == 0 {
				// bias towards the most recent messages (index from the end)
				s.Msg = -1 - rapid.IntRange(0, 3).Draw(t, "back")
			}
		}
		c.Steps = append(c.Steps, s)
	}
	return c
}
