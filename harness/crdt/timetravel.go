package crdt

import (
	"fmt"
	"sort"

	"github.com/sourcenetwork/defradb/verifharness/hx"
)

// checkTimeTravel reads every merged commit of every document on every node at that commit.
func checkTimeTravel(s *sim, recorded map[string]map[string]any) *hx.Failure {
	for nodeIdx, n := range s.cl.Nodes {
		cids := []string{}
		for c := range s.m.merged[nodeIdx] {
			if s.m.commits[c].doc != "" {
				cids = append(cids, c)
			}
		}
		sort.Strings(cids)
		for _, cid := range cids {
			c := s.m.commits[cid]
			q := fmt.Sprintf(`query { Users(cid: %q, docID: %q) { %s } }`, cid, c.doc, docFields)
			r := n.Exec(q)
			s.stats.ttQueries++
			if r.Panic != "" {
				return hx.Failf("C03/panic/time-travel", "%s panicked: %s\n%s", q, r.Panic, s.history())
			}
			if !r.OK() {
				return hx.Failf("C03/time-travel-error", "n%d %s failed: %s\n%s", nodeIdx, q, r.Err(), s.history())
			}
			rows := r.Rows("Users")
			if len(rows) != 1 {
				return hx.Failf("C03/time-travel-rows", "n%d %s returned %d rows\n%s", nodeIdx, q, len(rows), s.history())
			}
			row := rows[0]
			e := s.m.expectAt(cid)
			// classification
			multiParent := false
			for a := range c.anc {
				if len(s.parents(a)) > 1 {
					multiParent = true
				}
			}
			if len(s.parents(cid)) > 1 {
				multiParent = true
			}
			hasCounter := false
			for _, f := range counterFields {
				if e.counters[f] != 0 {
					hasCounter = true
				}
			}
			if len(c.anc) > 0 && (hasCounter || multiParent) {
				s.stats.ttNontrivial++
			}
			if multiParent {
				s.stats.ttMultiParent++
			}
			if hasCounter && len(c.anc) > 0 {
				s.stats.ttCounter++
			}
			if c.node != nodeIdx {
				s.stats.ttRemote++
			}
			for _, f := range counterFields {
				got, ok := num(row[f])
				if row[f] == nil {
					got, ok = 0, true
				}
				if !ok || got != e.counters[f] {
					kind := "counter"
					if multiParent {
						kind = "counter-below-multi-parent"
					}
					return hx.Failf("C03/"+kind, "n%d document %s at commit %s (model height %d): %s = %v, sum of the increments of that commit and its ancestors is %v\n%s", nodeIdx, short(c.doc), short(cid), s.height(cid), f, row[f], e.counters[f], s.history())
				}
			}
			for _, f := range registerFields {
				got := hx.CanonValue(row[f])
				if !e.admiss[f][got] {
					adm := []string{}
					for v := range e.admiss[f] {
						adm = append(adm, v)
					}
					sort.Strings(adm)
					kind := "register"
					if multiParent {
						kind = "register-below-multi-parent"
					}
					return hx.Failf("C03/"+kind, "n%d document %s at commit %s (model height %d): %s = %s, causally latest writes at that commit are %v\n%s", nodeIdx, short(c.doc), short(cid), s.height(cid), f, got, adm, s.history())
				}
			}
			if del, _ := row["_deleted"].(bool); del {
				return hx.Failf("C03/deleted-flag", "n%d document %s at commit %s shows _deleted although no delete exists", nodeIdx, short(c.doc), short(cid))
			}
			if rec, ok := recorded[cid]; ok {
				for _, f := range allFields {
					if hx.CanonValue(rec[f]) != hx.CanonValue(row[f]) {
						return hx.Failf("C03/differs-from-query-after-commit", "n%d document %s at commit %s: %s = %s, the ordinary query on the writer right after that commit returned %s\n%s", nodeIdx, short(c.doc), short(cid), f, hx.CanonValue(row[f]), hx.CanonValue(rec[f]), s.history())
					}
				}
			}
		}
		// at a single current head the time-travel read equals the ordinary query
		for _, doc := range s.m.docs {
			fr := s.m.frontier(nodeIdx, doc)
			if len(fr) != 1 {
				continue
			}
			cur, cnt, rr := queryDoc(n, doc)
			if cnt != 1 || !rr.OK() {
				continue
			}
			r := n.Exec(fmt.Sprintf(`query { Users(cid: %q, docID: %q) { %s } }`, fr[0], doc, docFields))
			rows := r.Rows("Users")
			if !r.OK() || len(rows) != 1 {
				return hx.Failf("C03/time-travel-error", "n%d read at the current head failed: %s", nodeIdx, r.Err())
			}
			for _, f := range allFields {
				if hx.CanonValue(cur[f]) != hx.CanonValue(rows[0][f]) {
					return hx.Failf("C03/head-differs-from-current", "n%d document %s at its single head %s: %s = %s, ordinary query returns %s\n%s", nodeIdx, short(doc), short(fr[0]), f, hx.CanonValue(rows[0][f]), hx.CanonValue(cur[f]), s.history())
				}
			}
		}
	}
	return nil
}
