package crdt

import (
	"crypto/sha256"
	"encoding/binary"
	"encoding/json"
	"fmt"
	"math"
	"sort"
	"strings"

	"github.com/ipfs/go-cid"
	mh "github.com/multiformats/go-multihash"
	"github.com/sourcenetwork/corekv"

	coreblock "github.com/sourcenetwork/defradb/internal/core/block"
	"github.com/sourcenetwork/defradb/internal/datastore"
	"github.com/sourcenetwork/defradb/internal/keys"
	"github.com/sourcenetwork/defradb/verifharness/hx"
)

// ---------- C02: per-step causal-model oracle ----------

func num(v any) (float64, bool) {
	n, ok := v.(json.Number)
	if !ok {
		return 0, false
	}
	f, err := n.Float64()
	return f, err == nil
}

// checkDocAgainstModel compares one document on one node with the model.
func checkDocAgainstModel(s *sim, nodeIdx int, doc string) *hx.Failure {
	e := s.m.expect(nodeIdx, doc)
	row, n, r := queryDoc(s.cl.Nodes[nodeIdx], doc)
	if r.Panic != "" {
		return hx.Failf("C02/panic/query", "query panicked: %s", r.Panic)
	}
	if !r.OK() {
		return hx.Failf("C02/query-error", "n%d query of %s failed: %s\n%s", nodeIdx, short(doc), r.Err(), s.history())
	}
	if !e.known {
		if n != 0 {
			return hx.Failf("C02/phantom-document", "n%d returns %s although it merged no commit of it\n%s", nodeIdx, short(doc), s.history())
		}
		return nil
	}
	if n != 1 {
		return hx.Failf("C02/lost-document", "n%d returns %d rows for %s, model says the document is known (deleted=%v)\n%s", nodeIdx, n, short(doc), e.deleted, s.history())
	}
	del, _ := row["_deleted"].(bool)
	if del != e.deleted {
		if e.deleted {
			return hx.Failf("C02/resurrected", "n%d shows %s as live although a merged commit deleted it\n%s", nodeIdx, short(doc), s.history())
		}
		return hx.Failf("C02/spurious-delete", "n%d shows %s as deleted although no merged commit deleted it\n%s", nodeIdx, short(doc), s.history())
	}
	for _, f := range counterFields {
		got, ok := num(row[f])
		if row[f] == nil {
			got, ok = 0, true
		}
		if !ok {
			return hx.Failf("C02/counter-type", "n%d %s.%s = %v", nodeIdx, short(doc), f, row[f])
		}
		if got != e.counters[f] {
			return diagnoseCounter(s, nodeIdx, doc, f, got, e.counters[f])
		}
	}
	for _, f := range registerFields {
		got := hx.CanonValue(row[f])
		if !e.admiss[f][got] {
			adm := []string{}
			for v := range e.admiss[f] {
				adm = append(adm, v)
			}
			sort.Strings(adm)
			sig := "C02/register/not-a-latest-write"
			if len(adm) == 1 {
				sig = "C02/register/last-write-lost"
			}
			return hx.Failf(sig, "n%d %s.%s = %s, causally latest writes among merged commits are %v (%d writers)\n%s", nodeIdx, short(doc), f, got, adm, e.writers[f], s.history())
		}
	}
	return nil
}

// diagnoseCounter names the kind of miscount: a surplus that equals the sum of a non-empty
// multiset of already merged increments is a re-application (double count); a deficit that
// equals a subset of merged increments is a lost update.
func diagnoseCounter(s *sim, nodeIdx int, doc, f string, got, want float64) *hx.Failure {
	incs := []float64{}
	for _, c := range s.m.docCommits(nodeIdx, doc) {
		if x, ok := c.incs[f]; ok && x != 0 {
			incs = append(incs, x)
		}
	}
	diff := got - want
	kind := "miscount"
	if subsetSum(incs, diff) {
		kind = "double-count"
		// which already merged increments can the last delivery have re-applied?
		if s.last.valid {
			pre := []float64{}
			for cid := range s.last.preMerged {
				if c := s.m.commits[cid]; c.doc == doc {
					if x, ok := c.incs[f]; ok && x != 0 {
						pre = append(pre, x)
					}
				}
			}
			switch {
			case s.last.colMsg && subsetSum(pre, diff):
				// a collection-level commit links document commits the receiver had merged before
				kind = "double-count/collection-commit-reapplies-merged-document-commits"
			case !s.last.colMsg && subsetSum(pre, diff) && (s.last.frontierHts > 1 || s.last.mixedParentHts):
				// the merge target is assumed to have one uniform height
				kind = "double-count/receiver-heads-at-different-heights"
			}
		}
	} else if subsetSum(incs, -diff) {
		kind = "lost-increment"
	}
	return hx.Failf("C02/counter/"+kind, "n%d %s.%s = %v, sum of the %d merged increments is %v (difference %v)\n%s", nodeIdx, short(doc), f, got, len(incs), want, diff, s.history())
}

func subsetSum(xs []float64, target float64) bool {
	if target == 0 {
		return false
	}
	if len(xs) > 18 {
		xs = xs[:18]
	}
	for mask := 1; mask < 1<<len(xs); mask++ {
		sum := 0.0
		for i, x := range xs {
			if mask&(1<<i) != 0 {
				sum += x
			}
		}
		if sum == target {
			return true
		}
	}
	// a multiset (an increment applied more than once more)
	for _, x := range xs {
		if x != 0 && math.Mod(target, x) == 0 && target/x > 0 {
			return true
		}
	}
	return false
}

// ---------- C04: structural invariants from raw store scans ----------

type rawBlock struct {
	cid   cid.Cid
	raw   []byte
	blk   *coreblock.Block // nil for non-DAG blocks (signatures)
	clock string           // doc + "/" + field ("_C" composite) or "col"
}

type rawState struct {
	byHash map[string]*rawBlock         // multihash -> block (the blockstore is keyed by multihash)
	heads  map[string]map[string]uint64 // clock-key (as stored) -> cid -> height
}

// get looks a block up by the cid string used in links and head keys.
func (st *rawState) get(c string) *rawBlock {
	d, err := cid.Decode(c)
	if err != nil {
		return nil
	}
	return st.byHash[string(d.Hash())]
}

func scanRaw(n *hx.Node) (*rawState, *hx.Failure) {
	st := &rawState{byHash: map[string]*rawBlock{}, heads: map[string]map[string]uint64{}}
	bs := datastore.BlockstoreFrom(n.DB.Rootstore())
	ch, err := bs.AllKeysChan(n.Ctx)
	if err != nil {
		hx.Harnessf("AllKeysChan: %v", err)
	}
	for c := range ch {
		b, err := bs.Get(n.Ctx, c)
		if err != nil {
			return nil, hx.Failf("C04/block-unreadable", "block %s listed but unreadable: %v", c, err)
		}
		rb := &rawBlock{cid: c, raw: b.RawData()}
		if blk, err := coreblock.GetFromBytes(b.RawData()); err == nil {
			rb.blk = blk
			switch {
			case blk.Delta.IsCollection():
				rb.clock = "col"
			case blk.Delta.IsComposite():
				rb.clock = string(blk.Delta.GetDocID()) + "/_C"
			default:
				rb.clock = string(blk.Delta.GetDocID()) + "/" + blk.Delta.GetFieldName()
			}
		}
		st.byHash[string(c.Hash())] = rb
	}
	hs := datastore.HeadstoreFrom(n.DB.Rootstore())
	it, err := hs.Iterator(n.Ctx, corekv.IterOptions{})
	if err != nil {
		hx.Harnessf("headstore iterator: %v", err)
	}
	defer it.Close()
	for {
		ok, err := it.Next()
		if err != nil {
			hx.Harnessf("headstore next: %v", err)
		}
		if !ok {
			break
		}
		k, err := keys.NewHeadstoreKey(string(it.Key()))
		if err != nil {
			return nil, hx.Failf("C04/head-key", "undecodable head key %q: %v", it.Key(), err)
		}
		v, err := it.Value()
		if err != nil {
			hx.Harnessf("headstore value: %v", err)
		}
		h, nn := binary.Uvarint(v)
		if nn <= 0 {
			return nil, hx.Failf("C04/head-height", "undecodable head height for %q", it.Key())
		}
		ks := string(it.Key())
		clockKey := ks[:strings.LastIndex(ks, "/")]
		if st.heads[clockKey] == nil {
			st.heads[clockKey] = map[string]uint64{}
		}
		st.heads[clockKey][k.GetCid().String()] = h
	}
	return st, nil
}

// checkStructure verifies invariants 1-4 of the design on one node.
func checkStructure(s *sim, nodeIdx int) *hx.Failure {
	n := s.cl.Nodes[nodeIdx]
	st, f := scanRaw(n)
	if f != nil {
		return f
	}
	// 1. content addressing
	for _, b := range st.byHash {
		k := b.cid.String()
		sum := sha256.Sum256(b.raw)
		dm, err := mh.Decode(b.cid.Hash())
		if err != nil || dm.Code != mh.SHA2_256 || string(dm.Digest) != string(sum[:]) {
			return hx.Failf("C04/content-address", "n%d block %s is not filed under the hash of its bytes\n%s", nodeIdx, k, s.history())
		}
		if b.blk != nil {
			l, err := b.blk.GenerateLink()
			if err != nil || string(l.Cid.Hash()) != string(b.cid.Hash()) {
				return hx.Failf("C04/content-address-reencode", "n%d block %s re-encodes to %v (%v)\n%s", nodeIdx, k, l.Cid, err, s.history())
			}
		}
	}
	// heads → closure, heights
	reach := map[string]bool{}
	var walk func(c string, from string) *hx.Failure
	walk = func(c string, from string) *hx.Failure {
		if reach[c] {
			return nil
		}
		b := st.get(c)
		if b == nil {
			return hx.Failf("C04/closure", "n%d: block %s linked from %s is not stored\n%s", nodeIdx, c, from, s.history())
		}
		reach[c] = true
		if b.blk == nil {
			return nil
		}
		maxp := uint64(0)
		for _, h := range b.blk.Heads {
			p := st.get(h.Cid.String())
			if p == nil || p.blk == nil {
				return hx.Failf("C04/closure", "n%d: parent %s of %s is not stored\n%s", nodeIdx, h.Cid, c, s.history())
			}
			if p.clock != b.clock {
				return hx.Failf("C04/parent-clock", "n%d: commit %s (%s) names a parent of another clock (%s)", nodeIdx, c, b.clock, p.clock)
			}
			if pr := p.blk.Delta.GetPriority(); pr > maxp {
				maxp = pr
			}
			if f := walk(h.Cid.String(), c); f != nil {
				return f
			}
		}
		if got := b.blk.Delta.GetPriority(); got != maxp+1 {
			return hx.Failf("C04/height", "n%d: commit %s (%s) has height %d, greatest parent height is %d\n%s", nodeIdx, c, b.clock, got, maxp, s.history())
		}
		for _, l := range b.blk.Links {
			if f := walk(l.Cid.String(), c); f != nil {
				return f
			}
		}
		if b.blk.Signature != nil {
			if st.get(b.blk.Signature.Cid.String()) == nil {
				return hx.Failf("C04/closure-signature", "n%d: signature block of %s is not stored", nodeIdx, c)
			}
		}
		return nil
	}
	storedHeads := map[string]map[string]uint64{} // block clock -> cid -> stored height
	for ck, hs := range st.heads {
		for c, h := range hs {
			b := st.get(c)
			if b == nil || b.blk == nil {
				return hx.Failf("C04/head-dangling", "n%d: head %s under %s has no stored commit\n%s", nodeIdx, c, ck, s.history())
			}
			if p := b.blk.Delta.GetPriority(); p != h {
				return hx.Failf("C04/head-height-mismatch", "n%d: head %s stored with height %d, commit height is %d\n%s", nodeIdx, c, h, p, s.history())
			}
			if f := walk(c, "head "+ck); f != nil {
				return f
			}
			if storedHeads[b.clock] == nil {
				storedHeads[b.clock] = map[string]uint64{}
			}
			storedHeads[b.clock][c] = h
		}
	}
	// 4. frontier: expected composite heads from the model; field heads from the merged composites' links
	mergedByClock := map[string]map[string]bool{}
	add := func(clock, c string) {
		if mergedByClock[clock] == nil {
			mergedByClock[clock] = map[string]bool{}
		}
		mergedByClock[clock][c] = true
	}
	for c := range s.m.merged[nodeIdx] {
		b := st.get(c)
		if b == nil || b.blk == nil {
			return hx.Failf("C04/merged-commit-missing", "n%d: merged commit %s is not stored\n%s", nodeIdx, c, s.history())
		}
		add(b.clock, c)
		if b.blk.Delta.IsComposite() {
			for _, l := range b.blk.Links {
				fb := st.get(l.Cid.String())
				if fb == nil || fb.blk == nil {
					return hx.Failf("C04/closure", "n%d: field commit %s of merged commit %s is not stored\n%s", nodeIdx, l.Cid, c, s.history())
				}
				add(fb.clock, l.Cid.String())
			}
		}
	}
	for clock, set := range mergedByClock {
		named := map[string]bool{}
		for c := range set {
			for _, h := range st.get(c).blk.Heads {
				named[h.Cid.String()] = true
			}
		}
		want := []string{}
		for c := range set {
			if !named[c] {
				want = append(want, c)
			}
		}
		sort.Strings(want)
		got := []string{}
		for c := range storedHeads[clock] {
			got = append(got, c)
		}
		sort.Strings(got)
		if fmt.Sprint(got) != fmt.Sprint(want) {
			return diagnoseHeads(s, nodeIdx, clock, got, want, set, named)
		}
	}
	for clock := range storedHeads {
		if mergedByClock[clock] == nil {
			return hx.Failf("C04/heads/unmerged-clock", "n%d: heads exist for %s although no commit of it was merged\n%s", nodeIdx, clock, s.history())
		}
	}
	return nil
}

func diagnoseHeads(s *sim, nodeIdx int, clock string, got, want []string, merged, named map[string]bool) *hx.Failure {
	wantSet := map[string]bool{}
	for _, w := range want {
		wantSet[w] = true
	}
	gotSet := map[string]bool{}
	for _, g := range got {
		gotSet[g] = true
	}
	stale, missing, foreign := 0, 0, 0
	for _, g := range got {
		if !wantSet[g] {
			if merged[g] && named[g] {
				stale++
			} else {
				foreign++
			}
		}
	}
	for _, w := range want {
		if !gotSet[w] {
			missing++
		}
	}
	kind := "mismatch"
	switch {
	case stale > 0 && missing == 0 && foreign == 0:
		kind = "stale-ancestor-listed"
		// known shape: a parentless field commit that two nodes produced independently (identical first
		// write of the field) is re-added as head when it arrives again through another composite
		all := true
		for _, g := range got {
			if !wantSet[g] && !s.producedOnTwoNodes(g) {
				all = false
			}
		}
		if all && clock != "col" && !strings.HasSuffix(clock, "/_C") {
			kind = "stale-ancestor-listed/identical-first-write-on-two-nodes"
		}
	case missing > 0 && stale == 0 && foreign == 0:
		kind = "latest-commit-missing"
	}
	clk := "composite"
	if strings.HasSuffix(clock, "/_C") {
		clk = "composite"
	} else if clock == "col" {
		clk = "collection"
	} else {
		clk = "field"
	}
	return hx.Failf("C04/heads/"+kind+"/"+clk, "n%d clock %s: stored heads %v, merged commits that no merged commit names as parent %v\n%s", nodeIdx, clock, shorts(got), shorts(want), s.history())
}

func shorts(xs []string) []string {
	out := make([]string, len(xs))
	for i, x := range xs {
		out[i] = short(x)
	}
	return out
}

// checkLatestCommits compares the latestCommits API with the model frontier of a document.
func checkLatestCommits(s *sim, nodeIdx int, doc string) *hx.Failure {
	if !s.m.knows(nodeIdx, doc) {
		return nil
	}
	r := s.cl.Nodes[nodeIdx].Exec(fmt.Sprintf(`query { latestCommits(docID: %q) { cid height } }`, doc))
	if r.Panic != "" {
		return hx.Failf("C04/panic/latestCommits", "%s", r.Panic)
	}
	if !r.OK() {
		return hx.Failf("C04/latestCommits-error", "n%d latestCommits(%s): %s\n%s", nodeIdx, short(doc), r.Err(), s.history())
	}
	got := []string{}
	for _, row := range r.Rows("latestCommits") {
		c, _ := row["cid"].(string)
		got = append(got, c)
	}
	sort.Strings(got)
	want := s.m.frontier(nodeIdx, doc)
	if fmt.Sprint(got) != fmt.Sprint(want) {
		return hx.Failf("C04/latestCommits-mismatch", "n%d latestCommits(%s) = %v, merged commits without merged child = %v\n%s", nodeIdx, short(doc), shorts(got), shorts(want), s.history())
	}
	return nil
}

// ---------- C01: convergence at quiescence ----------

func dumpDocs(n *hx.Node) (string, hx.Result) {
	r := n.Exec(fmt.Sprintf(`query { Users(showDeleted: true) { %s } }`, docFields))
	rows := r.Rows("Users")
	sort.Slice(rows, func(i, j int) bool { return fmt.Sprint(rows[i]["_docID"]) < fmt.Sprint(rows[j]["_docID"]) })
	parts := []string{}
	for _, row := range rows {
		parts = append(parts, hx.CanonValue(row))
	}
	return strings.Join(parts, "\n"), r
}

func dumpLive(n *hx.Node) (string, hx.Result) {
	r := n.Exec(fmt.Sprintf(`query { Users { %s } }`, docFields))
	rows := r.Rows("Users")
	sort.Slice(rows, func(i, j int) bool { return fmt.Sprint(rows[i]["_docID"]) < fmt.Sprint(rows[j]["_docID"]) })
	parts := []string{}
	for _, row := range rows {
		parts = append(parts, hx.CanonValue(row))
	}
	return strings.Join(parts, "\n"), r
}

func dumpHeads(n *hx.Node) string {
	st, f := scanRaw(n)
	if f != nil {
		return "scan failed: " + f.Msg
	}
	lines := []string{}
	for ck, hs := range st.heads {
		// the stored clock key carries node-local short ids for fields; use the block's own clock
		for c, h := range hs {
			clock := ck
			if b := st.get(c); b != nil && b.blk != nil {
				clock = b.clock
			}
			lines = append(lines, fmt.Sprintf("%s %s h=%d", clock, c, h))
		}
	}
	sort.Strings(lines)
	return strings.Join(lines, "\n")
}

func checkConvergence(s *sim) *hx.Failure {
	base, r0 := dumpDocs(s.cl.Nodes[0])
	if !r0.OK() {
		return hx.Failf("C01/query-error", "n0 dump failed: %s %s\n%s", r0.Err(), r0.Panic, s.history())
	}
	baseLive, _ := dumpLive(s.cl.Nodes[0])
	baseHeads := dumpHeads(s.cl.Nodes[0])
	for i := 1; i < len(s.cl.Nodes); i++ {
		d, r := dumpDocs(s.cl.Nodes[i])
		if !r.OK() {
			return hx.Failf("C01/query-error", "n%d dump failed: %s %s\n%s", i, r.Err(), r.Panic, s.history())
		}
		if d != base {
			return diagnoseDivergence(s, i, base, d)
		}
		if l, _ := dumpLive(s.cl.Nodes[i]); l != baseLive {
			return hx.Failf("C01/diverged/live-view", "after every node merged every commit the default (non-deleted) listing differs between n0 and n%d:\n n0: %s\n n%d: %s\n%s", i, baseLive, i, l, s.history())
		}
		if h := dumpHeads(s.cl.Nodes[i]); h != baseHeads {
			only0, onlyI := lineDiff(baseHeads, h)
			sig := "C01/diverged/heads"
			allDup := true
			for _, l := range append(append([]string{}, only0...), onlyI...) {
				parts := strings.Fields(l)
				if len(parts) < 2 || strings.HasSuffix(parts[0], "/_C") || parts[0] == "col" || !s.producedOnTwoNodes(parts[1]) {
					allDup = false
				}
			}
			if allDup {
				sig = "C01/diverged/heads/identical-first-field-write-on-two-nodes"
			}
			return hx.Failf(sig, "after every node merged every commit the head sets differ between n0 and n%d:\n only n0: %v\n only n%d: %v\n%s", i, only0, i, onlyI, s.history())
		}
	}
	if s.c.Cfg.Indexed {
		for i, n := range s.cl.Nodes {
			if f := checkIndexConsistency(s, i, n); f != nil {
				return f
			}
		}
	}
	return nil
}

func diagnoseDivergence(s *sim, i int, a, b string) *hx.Failure {
	la, lb := strings.Split(a, "\n"), strings.Split(b, "\n")
	kind := "documents"
	detail := ""
	if len(la) != len(lb) {
		kind = "document-set"
	} else {
		for k := range la {
			if la[k] != lb[k] {
				var ma, mb map[string]any
				_ = json.Unmarshal([]byte(la[k]), &ma)
				_ = json.Unmarshal([]byte(lb[k]), &mb)
				diffs := []string{}
				for f := range ma {
					if hx.CanonValue(ma[f]) != hx.CanonValue(mb[f]) {
						diffs = append(diffs, f)
					}
				}
				sort.Strings(diffs)
				if len(diffs) > 0 {
					switch {
					case diffs[0] == "_deleted":
						kind = "deleted-flag"
					case isCounter(diffs[0]):
						kind = "counter"
					default:
						kind = "register"
					}
				}
				detail = fmt.Sprintf("fields %v\n n0: %s\n n%d: %s", diffs, la[k], i, lb[k])
				break
			}
		}
	}
	return hx.Failf("C01/diverged/"+kind, "after every node merged every commit n0 and n%d disagree: %s\n%s", i, detail, s.history())
}

func checkIndexConsistency(s *sim, i int, n *hx.Node) *hx.Failure {
	r := n.Exec(`query { Users { _docID s i } }`)
	if !r.OK() {
		return hx.Failf("C01/query-error", "n%d listing failed: %s", i, r.Err())
	}
	rows := r.Rows("Users")
	for _, f := range []string{"s", "i"} {
		vals := map[string][]string{}
		for _, row := range rows {
			if row[f] == nil {
				continue
			}
			k := hx.CanonValue(row[f])
			vals[k] = append(vals[k], fmt.Sprint(row["_docID"]))
		}
		for lit, want := range vals {
			q := fmt.Sprintf(`query { Users(filter: {%s: {_eq: %s}}) { _docID } }`, f, lit)
			rr := n.Exec(q)
			if !rr.OK() {
				return hx.Failf("C01/index-query-error", "n%d %s: %s %s", i, q, rr.Err(), rr.Panic)
			}
			got := []string{}
			for _, row := range rr.Rows("Users") {
				got = append(got, fmt.Sprint(row["_docID"]))
			}
			sort.Strings(got)
			sort.Strings(want)
			if fmt.Sprint(got) != fmt.Sprint(want) {
				return hx.Failf("C01/index-out-of-sync", "n%d after merges: index-backed %s returns %v, scan says %v\n%s", i, q, shorts(got), shorts(want), s.history())
			}
		}
	}
	return nil
}

func lineDiff(a, b string) (onlyA, onlyB []string) {
	sa, sb := map[string]bool{}, map[string]bool{}
	for _, l := range strings.Split(a, "\n") {
		sa[l] = true
	}
	for _, l := range strings.Split(b, "\n") {
		sb[l] = true
	}
	for l := range sa {
		if !sb[l] {
			onlyA = append(onlyA, l)
		}
	}
	for l := range sb {
		if !sa[l] {
			onlyB = append(onlyB, l)
		}
	}
	sort.Strings(onlyA)
	sort.Strings(onlyB)
	return
}
