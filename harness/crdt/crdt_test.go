package crdt

import (
	"encoding/json"
	"os"
	"strings"
	"testing"

	"pgregory.net/rapid"

	"github.com/sourcenetwork/defradb/verifharness/hx"
)

func TestMain(m *testing.M) { hx.Main(m) }

const genRule = "histories of 5-36 steps (create of 1-3 shared templates, update of 1-3 register/counter fields incl. null, delete, " +
	"mirror = a node repeats the field writes of another node's latest update (identical field-level commits under different document commits), " +
	"deliver of ANY update notification produced so far - heads, old ancestors, duplicates, collection-level commits - to any node) over 2-4 in-process nodes; " +
	"four cases in ten with >=3 nodes start with a structured two-branch history (nodes 0 and 1 write concurrently incl. mirrored writes, one merges the other and writes on top, 1-2 rounds) whose latest commit is then delivered to a late joiner that merges the whole DAG at once, " +
	"configuration drawn from {plain, branchable, indexed, unsigned / per-node or shared ed25519 / secp256k1 signer}, followed by anti-entropy of model frontiers until every node merged every commit; "

var recC01 = hx.NewRecorder("C01", genRule+
	"non-trivial = two nodes wrote the same field / incremented / deleted the same document concurrently AND at least one delivery was out of causal order, duplicated or of a non-head ancestor; distinct = distinct case",
	"delivery always provides the full ancestor closure (copied between blockstores as syncDAG would)",
	"float counter increments and float registers are multiples of 0.25 so sums are exact in any order",
	"no unique indexes are configured, so no merge may fail",
	"merges run through the verif-tagged synchronous entry point (same code as the asynchronous handler minus goroutine and queue)")

var recC02 = hx.NewRecorder("C02", genRule+
	"after EVERY step the changed node is compared with the causal model (counter = sum of merged increments each once; register in the set of causally latest merged writes; deleted iff a merged commit deleted); "+
	"non-trivial = the history contains a delivery of a commit whose ancestors were partly merged or that was already merged, and a counter with >=2 increments; distinct = distinct case",
	"the model learns ancestry from its own bookkeeping of what each node had merged when it wrote, never from the implementation's DAG; only the set of fields a commit links is read from the announced block",
	"increments are integers or exact binary fractions")

var recC04 = hx.NewRecorder("C04", genRule+
	"after EVERY step the raw block and head stores of the changed node are scanned: content addressing, closure under links, height = max parent height + 1, stored heads = merged commits without merged child (per document, field and collection clock), latestCommits = model frontier, identical genesis for identical unsigned/same-signer creates; "+
	"non-trivial = a state reached after an out-of-order or repeated merge with >=2 heads at some point; distinct = distinct case",
	"encryption-key blocks live in a separate store and are not part of closure (no encryption in these histories)")

var recC03 = hx.NewRecorder("C03", "histories as C01 but without deletes (create, update of registers of every kind incl. null and of three counters, deliveries in any order between 2-4 nodes, unsigned and signed); "+
	"then on every node, for EVERY merged commit c of every document: the time-travel read X(cid:c, docID:d) is compared with (1) the ordinary query result recorded on the writing node right after c was written and (2) the causal model over c and its ancestors (counter = sum of increments, register in the causally-latest writes); at a single current head it must equal the ordinary query; "+
	"non-trivial = the queried commit is not a genesis commit and the document has a counter increment or a multi-parent commit among its ancestors; distinct = distinct case",
	"time travel at or below a delete commit is not generated (result not specified by this property; covered by the no-hang clause of C08)",
	"the state right after a local commit is the state of exactly that commit and its ancestors, because a local commit's parents are all of the writer's heads")

type mode struct {
	rec        *hx.Recorder
	bias       string
	perStepC02 bool
	perStepC04 bool
	finalC01   bool
	timeTravel bool
}

var modes = map[string]mode{
	"C01": {rec: recC01, finalC01: true},
	"C02": {rec: recC02, bias: "counters", perStepC02: true},
	"C04": {rec: recC04, perStepC04: true},
	"C03": {rec: recC03, bias: "counters", timeTravel: true},
}

// runOnce executes the case under one property's oracles.
func runOnce(c Case, id string) (*hx.Failure, simStats) {
	md := modes[id]
	s := newSim(c)
	defer s.close()
	genesisSeen := map[string]string{}
	_ = genesisSeen
	s.onMergeErr = func(s *sim, node int, msg hx.Msg, err error) *hx.Failure {
		if id != "C01" {
			return &hx.Failure{Sig: "cut/merge-error", Msg: err.Error()}
		}
		return diagnoseMergeError(s, node, msg, err)
	}
	recorded := map[string]map[string]any{}
	s.noDeletes = md.timeTravel
	s.afterChange = func(s *sim, node int, docs []string) *hx.Failure {
		if md.timeTravel && s.lastLocal != "" {
			row, n, r := queryDoc(s.cl.Nodes[node], s.m.commits[s.lastLocal].doc)
			if n == 1 && r.OK() {
				recorded[s.lastLocal] = row
			}
		}
		if md.perStepC02 {
			for _, d := range docs {
				if f := checkDocAgainstModel(s, node, d); f != nil {
					return f
				}
			}
		}
		if md.perStepC04 {
			if f := checkStructure(s, node); f != nil {
				return f
			}
			for _, d := range docs {
				if f := checkLatestCommits(s, node, d); f != nil {
					return f
				}
			}
		}
		return nil
	}
	f := s.runSteps()
	if f == nil && md.timeTravel {
		f = checkTimeTravel(s, recorded)
		lastHistory = s.history()
		return f, s.stats
	}
	if f == nil {
		f = s.antiEntropy()
	}
	if f == nil && md.finalC01 {
		f = checkConvergence(s)
	}
	if f == nil && md.perStepC02 {
		// at quiescence every node must match the model for every document
		for i := range s.cl.Nodes {
			for _, d := range s.m.docs {
				if f = checkDocAgainstModel(s, i, d); f != nil {
					break
				}
			}
			if f != nil {
				break
			}
		}
	}
	lastHistory = s.history()
	if f != nil && f.Sig == "cut/merge-error" {
		return nil, s.stats
	}
	return f, s.stats
}

// diagnoseMergeError names the situation in which a merge failed.
func diagnoseMergeError(s *sim, node int, msg hx.Msg, err error) *hx.Failure {
	txt := err.Error()
	c := s.m.commits[msg.Cid]
	sig := "C01/merge-error/other"
	if strings.Contains(txt, "key not found") && c != nil && c.doc != "" {
		// LWW tie at equal height against a locally null register?
		e := s.m.expect(node, c.doc)
		nullLocal := false
		for f := range e.admiss {
			if e.admiss[f]["null"] && e.writers[f] > 0 {
				nullLocal = true
			}
		}
		if nullLocal {
			sig = "C01/merge-error/lww-tie-against-null"
		} else {
			sig = "C01/merge-error/key-not-found"
		}
	}
	return hx.Failf(sig, "merge of %s on n%d failed although its ancestors are available: %v\n%s", short(msg.Cid), node, err, s.history())
}

var lastHistory string

func run(c Case, id string) (*hx.Failure, simStats) {
	rep := c.Repeat
	if rep <= 0 {
		rep = 1
	}
	var st simStats
	for i := 0; i < rep; i++ {
		var f *hx.Failure
		f = hx.Guard(id, func() *hx.Failure {
			ff, s := runOnce(c, id)
			st = s
			return ff
		})
		if f != nil {
			return f, st
		}
	}
	return nil, st
}

func labelsOf(c Case, st simStats) []string {
	l := []string{}
	add := func(b bool, s string) {
		if b {
			l = append(l, s)
		}
	}
	add(c.Cfg.Branchable, "branchable")
	add(c.Cfg.Indexed, "indexed")
	add(c.Cfg.Signing != "", "signed")
	add(st.concurrentWrites, "concurrent-writes")
	add(st.oooDelivery, "out-of-order-delivery")
	add(st.dupDelivery, "duplicate-delivery")
	add(st.partialAncestors, "partial-ancestors")
	add(st.headsDiffHeights, "heads-at-different-heights")
	add(st.tieEqualHeight, "equal-height-tie")
	add(st.nullInvolved, "null-write")
	add(st.deleteVsUpdate, "delete-vs-update")
	add(st.sameGenesis, "same-genesis-on-two-nodes")
	add(st.multiHeads, "multi-heads")
	add(st.mergeErrors > 0, "merge-error")
	add(st.aeRounds > 1, "anti-entropy>1-round")
	add(st.ttReads > 0, "history-contains-time-travel-read")
	add(st.ttMultiParent > 0, "time-travel-below-multi-parent-commit")
	add(st.ttCounter > 0, "time-travel-with-counter")
	add(st.ttRemote > 0, "time-travel-on-non-writer-node")
	add(st.mirrors > 0, "mirrored-update(same-field-writes-on-two-nodes)")
	add(st.sharedUpdateBlock, "field-block-of-an-update-produced-on-two-nodes")
	add(st.lateJoin > 0, "late-joiner-merges-deep-dag-at-once")
	add(st.lateJoinMerged > 0, "late-joiner-merges-two-branch-dag-at-once")
	add(st.filteredUpdates > 0, "update-selected-by-filter")
	add(st.indexServedUpdates > 0, "update-selected-by-condition-on-indexed-field")
	add(st.inListUpdates > 0 && st.indexServedUpdates > 0, "update-selected-by-in-list-of-old-and-new-indexed-value")
	diamond := false
	for _, s := range c.Steps {
		diamond = diamond || s.Kind == "deliverfrom"
	}
	add(diamond, "shape:diamond-with-late-joiner")
	return l
}

func nontrivial(id string, st simStats) bool {
	switch id {
	case "C01":
		return st.concurrentWrites && (st.oooDelivery || st.dupDelivery || st.partialAncestors)
	case "C02":
		return (st.partialAncestors || st.dupDelivery) && st.counterIncs >= 2
	case "C03":
		return st.ttNontrivial > 0
	default:
		return (st.oooDelivery || st.dupDelivery) && st.multiHeads
	}
}

func property(id string) func(t *rapid.T) {
	md := modes[id]
	repeat := hx.EnvInt("VERIF_REPEAT", 2)
	return func(t *rapid.T) {
		c := drawCase(t, md.bias)
		c.Repeat = repeat
		// search past known findings: for half of the cases their trigger is excluded by construction
		avoid := rapid.Bool().Draw(t, "avoid-known-triggers")
		if avoid {
			if md.rec.IsKnown("C01/diverged/heads/identical-first-field-write-on-two-nodes") ||
				md.rec.IsKnown("C04/heads/stale-ancestor-listed/identical-first-write-on-two-nodes/field") {
				// per-node signers make the first field commits of different nodes distinct
				if c.Cfg.Signing == "" {
					c.Cfg.Signing = "ed25519"
				}
				c.Cfg.SameSigner = false
			}
			if md.rec.IsKnown("C02/counter/double-count/collection-commit-reapplies-merged-document-commits") {
				c.Cfg.Branchable = false
			}
		}
		f, st := run(c, id)
		md.rec.Eval(c, nontrivial(id, st), labelsOf(c, st)...)
		md.rec.Check(t, c, f)
	}
}

func TestC01(t *testing.T) { rapid.Check(t, property("C01")) }
func TestC02(t *testing.T) { rapid.Check(t, property("C02")) }
func TestC04(t *testing.T) { rapid.Check(t, property("C04")) }
func TestC03(t *testing.T) { rapid.Check(t, property("C03")) }

func replayID() string {
	if id := os.Getenv("VERIF_PROPERTY"); id != "" {
		return id
	}
	return "C01"
}

func TestReplay(t *testing.T) {
	raw := hx.ReplayCase(t)
	var c Case
	id := replayID()
	modes[id].rec.SetReplaying()
	if sc, ok := subFromRaw(raw); ok {
		f, _ := runSub(sc)
		modes[id].rec.Check(t, sc, f)
		return
	}
	if err := json.Unmarshal(raw, &c); err != nil {
		t.Fatal(err)
	}
	if c.Repeat < 8 {
		c.Repeat = 8
	}
	f, _ := run(c, id)
	if f == nil {
		t.Logf("no violation; history of the last execution:\n%s", lastHistory)
	}
	modes[id].rec.Check(t, c, f)
}

func TestRegress(t *testing.T) {
	id := replayID()
	hx.Regress(t, "testdata/regress/"+id, func(raw []byte) *hx.Failure {
		var c Case
		if err := json.Unmarshal(raw, &c); err != nil {
			return hx.Failf(id+"/regress-file", "%v", err)
		}
		if c.Repeat < 4 {
			c.Repeat = 4
		}
		f, _ := run(c, id)
		return f
	}, modes[id].rec)
}
