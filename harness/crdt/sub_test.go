package crdt

import (
	"context"
	"encoding/json"
	"fmt"
	"testing"
	"time"

	"pgregory.net/rapid"

	"github.com/sourcenetwork/defradb/verifharness/hx"
)

// runSub: single node, linear history, one open GraphQL subscription; every committed local change
// must be reported with the values an ordinary query returns right after it (subscriptions evaluate
// at the commit that triggered them).
func runSub(c Case) (*hx.Failure, int) {
	c.Cfg.Nodes = 1
	c.Cfg.Branchable = false
	s := newSim(c)
	defer s.close()
	s.noDeletes = true
	n := s.cl.Nodes[0]
	ctx, cancel := context.WithCancel(n.Ctx)
	defer cancel()
	res := n.DB.ExecRequest(ctx, fmt.Sprintf(`subscription { Users { %s } }`, docFields))
	if len(res.GQL.Errors) > 0 || res.Subscription == nil {
		hx.Harnessf("subscription request rejected: %v", res.GQL.Errors)
	}
	compared := 0
	var fail *hx.Failure
	s.afterChange = func(s *sim, node int, docs []string) *hx.Failure {
		if s.lastLocal == "" {
			return nil
		}
		row, cnt, r := queryDoc(n, s.m.commits[s.lastLocal].doc)
		if cnt != 1 || !r.OK() {
			hx.Harnessf("query after local commit failed: %v", r.Errors)
		}
		select {
		case got, ok := <-res.Subscription:
			if !ok {
				return hx.Failf("C03/subscription/closed", "subscription channel closed\n%s", s.history())
			}
			if len(got.Errors) > 0 {
				return hx.Failf("C03/subscription/error", "subscription result carries errors %v\n%s", got.Errors, s.history())
			}
			m, _ := hx.Normalize(got.Data).(map[string]any)
			rows, _ := m["Users"].([]any)
			if len(rows) != 1 {
				return hx.Failf("C03/subscription/rows", "subscription result has %d rows for one changed document: %s\n%s", len(rows), hx.Canon(got.Data), s.history())
			}
			sr, _ := rows[0].(map[string]any)
			for _, f := range append([]string{"_docID"}, allFields...) {
				if hx.CanonValue(sr[f]) != hx.CanonValue(row[f]) {
					return hx.Failf("C03/subscription/differs-from-query-after-commit", "subscription reports %s = %s for commit %s, the ordinary query right after that commit returns %s\n%s", f, hx.CanonValue(sr[f]), short(s.lastLocal), hx.CanonValue(row[f]), s.history())
				}
			}
			compared++
		case <-time.After(20 * time.Second):
			// completeness of notifications is C20's subject; here a missing result is only inconclusive
			hx.Harnessf("no subscription result within 20s after a committed change")
		}
		return nil
	}
	fail = s.runSteps()
	return fail, compared
}

func TestC03Sub(t *testing.T) {
	rapid.Check(t, func(t *rapid.T) {
		c := drawCase(t, "counters")
		c.Cfg.Nodes = 1
		c.Cfg.Branchable = false
		var compared int
		f := hx.Guard("C03", func() *hx.Failure {
			ff, n := runSub(c)
			compared = n
			return ff
		})
		key := struct {
			Sub bool `json:"sub"`
			C   Case `json:"c"`
		}{true, c}
		recC03.Eval(key, compared >= 3, "subscription-case")
		recC03.Check(t, key, f)
	})
}

func subFromRaw(raw json.RawMessage) (Case, bool) {
	var k struct {
		Sub bool `json:"sub"`
		C   Case `json:"c"`
	}
	if json.Unmarshal(raw, &k) == nil && k.Sub {
		return k.C, true
	}
	return Case{}, false
}
