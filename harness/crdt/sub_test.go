package crdt

import (
	"context"
	"encoding/json"
	"fmt"
	"sort"
	"testing"
	"time"

	"github.com/sourcenetwork/defradb/client"

	"pgregory.net/rapid"

	"github.com/sourcenetwork/defradb/verifharness/hx"
)

// runSub: single node, linear history, one open GraphQL subscription; every committed local change
// must be reported with the values an ordinary query returns right after it (subscriptions evaluate
// at the commit that triggered them).
func runSub(c Case) (*hx.Failure, int) {
	c.Cfg.Nodes = 1
	c.Cfg.Branchable = false
	s := newSim(c)
	defer s.close()
	s.noDeletes = true
	n := s.cl.Nodes[0]
	ctx, cancel := context.WithCancel(n.Ctx)
	defer cancel()
	res := n.DB.ExecRequest(ctx, fmt.Sprintf(`subscription { Users { %s } }`, docFields))
	if len(res.GQL.Errors) > 0 || res.Subscription == nil {
		hx.Harnessf("subscription request rejected: %v", res.GQL.Errors)
	}
	compared := 0
	var fail *hx.Failure
	s.afterChange = func(s *sim, node int, docs []string) *hx.Failure {
		if s.lastLocal == "" {
			return nil
		}
		row, cnt, r := queryDoc(n, s.m.commits[s.lastLocal].doc)
		if cnt != 1 || !r.OK() {
			hx.Harnessf("query after local commit failed: %v", r.Errors)
		}
		select {
		case got, ok := <-res.Subscription:
			if !ok {
				return hx.Failf("C03/subscription/closed", "subscription channel closed\n%s", s.history())
			}
			if len(got.Errors) > 0 {
				return hx.Failf("C03/subscription/error", "subscription result carries errors %v\n%s", got.Errors, s.history())
			}
			m, _ := hx.Normalize(got.Data).(map[string]any)
			rows, _ := m["Users"].([]any)
			if len(rows) != 1 {
				return hx.Failf("C03/subscription/rows", "subscription result has %d rows for one changed document: %s\n%s", len(rows), hx.Canon(got.Data), s.history())
			}
			sr, _ := rows[0].(map[string]any)
			for _, f := range append([]string{"_docID"}, allFields...) {
				if hx.CanonValue(sr[f]) != hx.CanonValue(row[f]) {
					return hx.Failf("C03/subscription/differs-from-query-after-commit", "subscription reports %s = %s for commit %s, the ordinary query right after that commit returns %s\n%s", f, hx.CanonValue(sr[f]), short(s.lastLocal), hx.CanonValue(row[f]), s.history())
				}
			}
			compared++
		case <-time.After(20 * time.Second):
			// completeness of notifications is C20's subject; here a missing result is only inconclusive
			hx.Harnessf("no subscription result within 20s after a committed change")
		}
		return nil
	}
	// Steps are executed here (not by runSteps) so that runs of consecutive updates can be put into
	// ONE explicit transaction: their notifications are published together at commit, so every result
	// but the last is evaluated when later commits already exist - it must still show the state of
	// its own commit.
	for i := 0; i < len(c.Steps); i++ {
		s.step = i
		st := c.Steps[i]
		if st.Kind == "update" && st.Node%2 == 1 && i+1 < len(c.Steps) && c.Steps[i+1].Kind == "update" {
			j := i + 1
			for j+1 < len(c.Steps) && c.Steps[j+1].Kind == "update" && j-i < 2 {
				j++
			}
			if f := subTxn(s, n, c.Steps[i:j+1], res, &compared); f != nil {
				return f, compared
			}
			i = j
			continue
		}
		if st.Kind == "deliver" || st.Kind == "ttread" {
			continue
		}
		if f := s.exec(st); f != nil {
			return f, compared
		}
	}
	return fail, compared
}

// subTxn runs several updates of one document inside one explicit transaction and compares each
// subscription result with the model state at its own commit.
func subTxn(s *sim, n *hx.Node, steps []Step, res *client.RequestResult, compared *int) *hx.Failure {
	doc, ok := s.resolveDoc(steps[0].Doc)
	if !ok || !s.m.knows(0, doc) {
		return nil
	}
	txn, err := n.DB.NewTxn(n.Ctx, false)
	if err != nil {
		hx.Harnessf("NewTxn: %v", err)
	}
	var applied []Step
	for _, st := range steps {
		if len(st.Ops) == 0 {
			continue
		}
		q := fmt.Sprintf(`mutation { update_Users(docID: %q, input: %s) { _docID } }`, doc, gqlInput(st.Ops))
		r := hx.ExecOn(n.Ctx, txn, q)
		s.logf("txn: %s -> err=%q", q, r.Err())
		if !r.OK() {
			txn.Discard(n.Ctx)
			hx.Harnessf("update inside an explicit transaction failed: %s %s", r.Err(), r.Panic)
		}
		applied = append(applied, st)
	}
	if err := txn.Commit(n.Ctx); err != nil {
		hx.Harnessf("commit of a single uncontended transaction failed: %v", err)
	}
	msgs := s.cl.Collect(0)
	docMsgs := []hx.Msg{}
	for _, m := range msgs {
		if m.DocID != "" {
			docMsgs = append(docMsgs, m)
		}
	}
	if len(docMsgs) > len(applied) {
		return hx.Failf("C20/event/more-events-than-mutations", "transaction with %d updates produced %d document events\n%s", len(applied), len(docMsgs), s.history())
	}
	// updates whose values did not change anything produce no commit: pair events with the model by
	// recording them in order against the last len(docMsgs) applied steps is not sound, so only the
	// unambiguous case is compared
	if len(docMsgs) != len(applied) {
		hx.Harnessf("transaction with %d updates produced %d document events; the model cannot pair them", len(applied), len(docMsgs))
	}
	cids := []string{}
	for k, m := range docMsgs {
		if f := s.record(0, "update", doc, applied[k].Ops, []hx.Msg{m}); f != nil {
			return f
		}
		cids = append(cids, m.Cid)
	}
	s.logf("txn committed with %d commits", len(cids))
	for _, cid := range cids {
		e := s.m.expectAt(cid)
		select {
		case got, ok := <-res.Subscription:
			if !ok {
				return hx.Failf("C03/subscription/closed", "subscription channel closed\n%s", s.history())
			}
			if len(got.Errors) > 0 {
				return hx.Failf("C03/subscription/error", "subscription result carries errors %v\n%s", got.Errors, s.history())
			}
			m, _ := hx.Normalize(got.Data).(map[string]any)
			rows, _ := m["Users"].([]any)
			if len(rows) != 1 {
				return hx.Failf("C03/subscription/rows", "subscription result has %d rows: %s\n%s", len(rows), hx.Canon(got.Data), s.history())
			}
			row, _ := rows[0].(map[string]any)
			for _, f := range counterFields {
				gotv, okn := num(row[f])
				if row[f] == nil {
					gotv, okn = 0, true
				}
				if !okn || gotv != e.counters[f] {
					return hx.Failf("C03/subscription/not-the-state-of-its-commit/counter", "result for commit %s (one of %d commits of one transaction) reports %s = %v, the sum of increments up to that commit is %v\n%s", short(cid), len(cids), f, row[f], e.counters[f], s.history())
				}
			}
			for _, f := range registerFields {
				if !e.admiss[f][hx.CanonValue(row[f])] {
					return hx.Failf("C03/subscription/not-the-state-of-its-commit/register", "result for commit %s (one of %d commits of one transaction) reports %s = %s, the value at that commit is %v\n%s", short(cid), len(cids), f, hx.CanonValue(row[f]), keysOf(e.admiss[f]), s.history())
				}
			}
			*compared++
		case <-time.After(20 * time.Second):
			hx.Harnessf("no subscription result within 20s after a committed transaction")
		}
	}
	return nil
}

func keysOf(m map[string]bool) []string {
	out := []string{}
	for k := range m {
		out = append(out, k)
	}
	sort.Strings(out)
	return out
}

func mergeOps(steps []Step) []FieldOp {
	out := []FieldOp{}
	for _, st := range steps {
		out = append(out, st.Ops...)
	}
	return out
}

func drain(res *client.RequestResult, n int) {
	for i := 0; i < n; i++ {
		select {
		case <-res.Subscription:
		case <-time.After(20 * time.Second):
			hx.Harnessf("no subscription result within 20s")
		}
	}
}

func TestC03Sub(t *testing.T) {
	rapid.Check(t, func(t *rapid.T) {
		c := drawCase(t, "counters")
		c.Cfg.Nodes = 1
		c.Cfg.Branchable = false
		var compared int
		f := hx.Guard("C03", func() *hx.Failure {
			ff, n := runSub(c)
			compared = n
			return ff
		})
		key := struct {
			Sub bool `json:"sub"`
			C   Case `json:"c"`
		}{true, c}
		recC03.Eval(key, compared >= 3, "subscription-case")
		recC03.Check(t, key, f)
	})
}

func subFromRaw(raw json.RawMessage) (Case, bool) {
	var k struct {
		Sub bool `json:"sub"`
		C   Case `json:"c"`
	}
	if json.Unmarshal(raw, &k) == nil && k.Sub {
		return k.C, true
	}
	return Case{}, false
}
