package c07

import (
	"encoding/hex"
	"encoding/json"
	"fmt"
	"os"
	"runtime/debug"
	"sort"
	"strconv"
	"strings"
	"time"

	"github.com/sourcenetwork/corekv"

	"github.com/sourcenetwork/defradb/client"
	"github.com/sourcenetwork/defradb/internal/datastore"
	"github.com/sourcenetwork/defradb/internal/keys"
	"github.com/sourcenetwork/defradb/verifharness/hx"
)

const (
	nodeA = 0 // indexed twin
	nodeB = 1 // twin without indexes
	nodeR = 2 // remote producer of commits
)

const uniqueErrText = "violates unique index"

// mdoc is the harness model of one document of T.
type mdoc struct {
	ID      string
	K       int
	Vals    map[string]any // field name -> parsed JSON value (absent/null = nil); owner -> docID string
	Deleted bool
	// Partial: a partial-document update that did not carry every indexed field was applied
	Partial bool
}

type outcome struct {
	fail   *hx.Failure
	labels []string
	// queries executed / served from an index / non-trivial (index used, result neither empty nor everything)
	nQueries, nIndexServed, nNontrivial int
	cutShort                            string
}

type runner struct {
	c      Case
	cl     *hx.Cluster
	owners []string
	docs   []*mdoc
	byID   map[string]*mdoc
	rdocs  []string
	nextK  int
	exists map[int]bool
	out    *outcome
}

func (r *runner) label(l string) { r.out.labels = append(r.out.labels, l) }

var traceOn = os.Getenv("VERIF_TRACE") != ""

func trace(format string, args ...any) {
	if traceOn {
		fmt.Printf("TRACE "+format+"\n", args...)
	}
}

func (r *runner) node(i int) *hx.Node { return r.cl.Nodes[i] }

func (r *runner) col(i int) client.Collection {
	n := r.node(i)
	col, err := n.DB.GetCollectionByName(n.Ctx, "T")
	if err != nil {
		hx.Harnessf("collection T on node %d: %v", i, err)
	}
	return col
}

// guard converts a panic inside defradb into an error carrying the stack.
type panicErr struct {
	val   any
	stack string
}

func (p *panicErr) Error() string { return fmt.Sprintf("panic: %v", p.val) }

func guard(f func() error) (err error) {
	defer func() {
		if p := recover(); p != nil {
			if he, ok := p.(hx.HarnessError); ok {
				panic(he)
			}
			err = &panicErr{val: p, stack: string(debug.Stack())}
		}
	}()
	return f()
}

// ---------------------------------------------------------------------------
// Schema
// ---------------------------------------------------------------------------

func (c Case) sdl(indexed bool) string {
	var sb strings.Builder
	sb.WriteString("type U {\n name: String")
	if indexed && c.UIndex {
		sb.WriteString(" @index")
	}
	sb.WriteString("\n items: [T]\n}\n")
	sb.WriteString("type T")
	fieldDir := map[string]string{}
	if indexed {
		for _, ix := range c.Idx {
			if !ix.SDL {
				continue
			}
			if ix.FieldLevel && len(ix.Fields) == 1 {
				d := fmt.Sprintf(` @index(name: %q, unique: %v`, ix.Name, ix.Unique)
				if ix.Fields[0].Desc {
					d += ", direction: DESC"
				}
				fieldDir[ix.Fields[0].F] += d + ")"
				continue
			}
			parts := []string{}
			for _, f := range ix.Fields {
				dir := "ASC"
				if f.Desc {
					dir = "DESC"
				}
				parts = append(parts, fmt.Sprintf(`{field: %q, direction: %s}`, f.F, dir))
			}
			fmt.Fprintf(&sb, ` @index(name: %q, unique: %v, includes: [%s])`, ix.Name, ix.Unique, strings.Join(parts, ", "))
		}
	}
	sb.WriteString(" {\n k: Int\n")
	for _, f := range allFields {
		fmt.Fprintf(&sb, " %s: %s%s\n", f.Name, f.GQL, fieldDir[f.Name])
	}
	sb.WriteString("}\n")
	return sb.String()
}

// ---------------------------------------------------------------------------
// Values
// ---------------------------------------------------------------------------

// resolve turns a case value text into a parsed JSON value (owner placeholders become docIDs).
func (r *runner) resolve(text string) any {
	if strings.HasPrefix(text, "@owner") {
		n, _ := strconv.Atoi(strings.TrimPrefix(text, "@owner"))
		return r.owners[n%len(r.owners)]
	}
	return parseJSON(text)
}

func (r *runner) lit(text string) string { return gqlLit(r.resolve(text)) }

func (r *runner) docJSON(k int, d map[string]string) (string, map[string]any) {
	obj := map[string]any{}
	vals := map[string]any{}
	if k >= 0 {
		obj["k"] = json.Number(strconv.Itoa(k))
	}
	names := make([]string, 0, len(d))
	for n := range d {
		names = append(names, n)
	}
	sort.Strings(names)
	for _, n := range names {
		v := r.resolve(d[n])
		obj[fdef(n).selName()] = v
		vals[n] = v
	}
	return jsonText(obj), vals
}

// ---------------------------------------------------------------------------
// Unique-index model
// ---------------------------------------------------------------------------

func tupleOf(ix IndexSpec, vals map[string]any) (string, bool) {
	parts := make([]string, len(ix.Fields))
	for i, f := range ix.Fields {
		s, ok := normScalar(fdef(f.F).Kind, vals[f.F])
		if !ok {
			return "", false
		}
		parts[i] = strconv.Quote(s)
	}
	return strings.Join(parts, "|"), true
}

// conflicts reports the unique indexes (existing on the indexed twin) under which
// a live document other than self already holds the same all-non-null tuple.
func (r *runner) conflicts(vals map[string]any, self string) []string {
	var out []string
	for i, ix := range r.c.Idx {
		if !ix.Unique || !r.exists[i] {
			continue
		}
		tp, ok := tupleOf(ix, vals)
		if !ok {
			continue
		}
		for _, d := range r.docs {
			if d.Deleted || d.ID == self {
				continue
			}
			if o, ok := tupleOf(ix, d.Vals); ok && o == tp {
				out = append(out, ix.Name)
				break
			}
		}
	}
	return out
}

// liveDuplicates lists tuples shared by two live documents under the given index.
func (r *runner) liveDuplicates(ix IndexSpec) []string {
	seen := map[string]string{}
	var out []string
	for _, d := range r.docs {
		if d.Deleted {
			continue
		}
		if tp, ok := tupleOf(ix, d.Vals); ok {
			if o, dup := seen[tp]; dup {
				out = append(out, fmt.Sprintf("%s: %s and %s", tp, o, d.ID))
			}
			seen[tp] = d.ID
		}
	}
	return out
}

func isUniqueErr(err error) bool {
	return err != nil && strings.Contains(err.Error(), uniqueErrText)
}

// ---------------------------------------------------------------------------
// History
// ---------------------------------------------------------------------------

func (r *runner) hasJSONIndex() bool {
	for i, ix := range r.c.Idx {
		if !r.exists[i] {
			continue
		}
		for _, f := range ix.Fields {
			if f.F == "j" {
				return true
			}
		}
	}
	return false
}

// writeFailure classifies an error of a write on the indexed twin that is not a unique rejection.
func (r *runner) panicFailure(what string, jsonNil bool, pe *panicErr) *hx.Failure {
	site := hx.PanicSite(pe.stack)
	if i := strings.LastIndex(what, ") with "); strings.HasPrefix(what, "partial-document update") && i >= 0 && !strings.Contains(what[i:], `"j":`) {
		jsonNil = true // the document handed to the index does not carry the JSON field
	}
	if jsonNil && strings.Contains(pe.stack, "JSONFieldGenerator") {
		return hx.Failf(sigJSONNullPanic, "%s with j: null while a JSON index exists panics in %s: %v", what, site, pe.val)
	}
	if strings.HasPrefix(what, "partial-document update") && strings.Contains(pe.stack, "isUpdatingIndexedFields") {
		return hx.Failf(sigPartialUpdatePanic, "%s panics on the indexed twin: a unique index whose field the document does not carry dereferences the missing value (%v in %s)", what, pe.val, site)
	}
	if strings.HasPrefix(what, "delete of deleted ") && strings.Contains(pe.stack, "deleteIndexedDocWithID") {
		return hx.Failf(sigDeleteDeleted, "%s panics on the indexed twin (the twin without indexes answers with an error): %v in %s", what, pe.val, site)
	}
	return hx.Failf("C07/panic/"+site, "%s panicked on the indexed twin: %v\n%s", what, pe.val, pe.stack)
}

// applyWrite runs a local write on the indexed twin, judges it with the unique model, and
// mirrors it on the plain twin when accepted. It returns whether the write took effect.
func (r *runner) applyWrite(what string, vals map[string]any, self string, checkUnique bool, do func(node int) error) (bool, *hx.Failure) {
	var dup []string
	if checkUnique {
		dup = r.conflicts(vals, self)
	}
	partialOmits := false
	if i := strings.LastIndex(what, ") with "); strings.HasPrefix(what, "partial-document update") && i >= 0 {
		for _, f := range r.indexedFieldNames() {
			if !strings.Contains(what[i:], `"`+fdef(f).selName()+`":`) {
				partialOmits = true
			}
		}
	}
	errA := guard(func() error { return do(nodeA) })
	r.cl.Collect(nodeA)
	trace("%s -> indexed twin: %v (model conflicts %v)", what, errA, dup)
	if pe, ok := errA.(*panicErr); ok {
		return false, r.panicFailure(what, vals["j"] == nil, pe)
	}
	if isUniqueErr(errA) {
		if len(dup) == 0 {
			return false, hx.Failf("C07/unique/rejected-without-duplicate", "%s was rejected (%v) although no live document shares a non-null tuple; model docs: %s", what, errA, r.dumpModel())
		}
		r.label("unique:rejected-as-expected")
		return false, nil
	}
	if errA == nil && len(dup) > 0 && strings.HasPrefix(what, "partial-document update") && partialOmits {
		return false, hx.Failf(sigPartialUpdate, "%s was accepted although unique index %v already holds the resulting tuple: the index sees only the fields the partial document carries", what, dup)
	}
	if errA == nil && len(dup) > 0 {
		return false, hx.Failf("C07/unique/duplicate-accepted", "%s was accepted although unique index %v already holds that tuple on another live document; model docs: %s", what, dup, r.dumpModel())
	}
	errB := guard(func() error { return do(nodeB) })
	r.cl.Collect(nodeB)
	if pe, ok := errB.(*panicErr); ok {
		return false, hx.Failf("C07/twin-panic/"+hx.PanicSite(pe.stack), "%s panicked on the twin WITHOUT indexes: %v\n%s", what, pe.val, pe.stack)
	}
	switch {
	case errA == nil && errB == nil:
		if checkUnique {
			r.label("unique:accepted")
		}
		return true, nil
	case errA != nil && errB != nil:
		r.label("write:error-on-both")
		return false, nil
	case errA != nil:
		if d := r.byID[self]; strings.Contains(errA.Error(), "corrupted index") && d != nil && d.Partial {
			return false, hx.Failf(sigPartialUpdate, "%s fails only on the indexed twin: %v (an earlier partial-document update of this document rewrote the entries of the indexed fields it did not carry)", what, errA)
		}
		if strings.Contains(errA.Error(), "corrupted index") && r.hasJSONIndex() && self != "" && hasDuplicateJSONArrayElements(r.byID[self].Vals["j"]) {
			return false, hx.Failf(sigJSONArrayDupCorrupted, "%s fails only on the indexed twin: %v (the stored JSON value has an array with equal elements: they share one index key, which is written twice and can be deleted only once)", what, errA)
		}
		return false, hx.Failf("C07/write/error-only-with-index", "%s fails only on the indexed twin: %v", what, errA)
	default:
		return false, hx.Failf("C07/write/error-only-twin", "%s fails only on the twin without indexes: %v", what, errB)
	}
}

func (r *runner) dumpModel() string {
	var sb strings.Builder
	for _, d := range r.docs {
		fmt.Fprintf(&sb, "\n  k=%d %s deleted=%v %s", d.K, d.ID, d.Deleted, hx.Canon(d.Vals))
	}
	return sb.String()
}

func (r *runner) create(node int, js string, via int) (string, error) {
	col := r.col(node)
	doc, err := client.NewDocFromJSON([]byte(js), col.Definition())
	if err != nil {
		hx.Harnessf("generator produced a document the input path rejects: %s: %v", js, err)
	}
	switch via {
	case 1:
		r.label("route:CreateMany")
		return doc.ID().String(), col.CreateMany(r.node(node).Ctx, []*client.Document{doc})
	case 2:
		r.label("route:Save(create)")
		return doc.ID().String(), col.Save(r.node(node).Ctx, doc)
	}
	return doc.ID().String(), col.Create(r.node(node).Ctx, doc)
}

// updateVia: the alternative update routes (live documents only).
func (r *runner) updateVia(node int, id, patch string, via int) error {
	col := r.col(node)
	ctx := r.node(node).Ctx
	if via == 2 {
		r.label("route:UpdateWithFilter")
		_, err := col.UpdateWithFilter(ctx, fmt.Sprintf(`{_docID: {_eq: %q}}`, id), patch)
		return err
	}
	did, err := client.NewDocIDFromString(id)
	if err != nil {
		hx.Harnessf("doc id %q: %v", id, err)
	}
	doc, err := col.Get(ctx, did, false)
	if err != nil {
		return err
	}
	if err := doc.SetWithJSON([]byte(patch)); err != nil {
		hx.Harnessf("generator produced a patch the input path rejects: %s: %v", patch, err)
	}
	r.label("route:Save(update)")
	return col.Save(ctx, doc)
}

// deleteVia: Collection.DeleteWithFilter on the document id (live documents only).
func (r *runner) deleteVia(node int, id string) error {
	r.label("route:DeleteWithFilter")
	res, err := r.col(node).DeleteWithFilter(r.node(node).Ctx, fmt.Sprintf(`{_docID: {_eq: %q}}`, id))
	if err == nil && (res == nil || res.Count != 1) {
		return fmt.Errorf("DeleteWithFilter on the id of a live document deleted %v documents", res)
	}
	return err
}

func (r *runner) update(node int, id, patch string) error {
	col := r.col(node)
	ctx := r.node(node).Ctx
	did, err := client.NewDocIDFromString(id)
	if err != nil {
		hx.Harnessf("doc id %q: %v", id, err)
	}
	doc, err := col.Get(ctx, did, false)
	if err != nil {
		return err
	}
	if err := doc.SetWithJSON([]byte(patch)); err != nil {
		hx.Harnessf("generator produced a patch the input path rejects: %s: %v", patch, err)
	}
	return col.Update(ctx, doc)
}

// partialUpdate is the collection-API route with a document that carries only the changed
// fields (Collection.Update: "any field that is nil/empty that hasn't called Clear will be ignored").
func (r *runner) partialUpdate(node int, id, patch string) error {
	col := r.col(node)
	did, err := client.NewDocIDFromString(id)
	if err != nil {
		hx.Harnessf("doc id %q: %v", id, err)
	}
	doc, err := client.NewDocWithID(did, col.Definition())
	if err != nil {
		hx.Harnessf("NewDocWithID: %v", err)
	}
	if err := doc.SetWithJSON([]byte(patch)); err != nil {
		hx.Harnessf("generator produced a patch the input path rejects: %s: %v", patch, err)
	}
	return col.Update(r.node(node).Ctx, doc)
}

func (r *runner) delete(node int, id string) error {
	did, err := client.NewDocIDFromString(id)
	if err != nil {
		hx.Harnessf("doc id %q: %v", id, err)
	}
	_, err = r.col(node).Delete(r.node(node).Ctx, did)
	return err
}

func (r *runner) indexedFieldNames() []string {
	var out []string
	for i, ix := range r.c.Idx {
		if r.exists[i] {
			for _, f := range ix.Fields {
				out = append(out, f.F)
			}
		}
	}
	return out
}

// omittedIndexedFields lists the fields of existing indexes that a patch does not carry.
func (r *runner) omittedIndexedFields(patch map[string]any) []string {
	var out []string
	seen := map[string]bool{}
	for i, ix := range r.c.Idx {
		if !r.exists[i] {
			continue
		}
		for _, f := range ix.Fields {
			if _, ok := patch[f.F]; !ok && !seen[f.F] {
				seen[f.F] = true
				out = append(out, f.F)
			}
		}
	}
	return out
}

// hasDuplicateJSONArrayElements reports whether some array inside the JSON value holds two equal scalars.
func hasDuplicateJSONArrayElements(v any) bool {
	switch x := v.(type) {
	case map[string]any:
		for _, e := range x {
			if hasDuplicateJSONArrayElements(e) {
				return true
			}
		}
	case []any:
		seen := map[string]bool{}
		for _, e := range x {
			switch e.(type) {
			case map[string]any, []any:
				if hasDuplicateJSONArrayElements(e) {
					return true
				}
			default:
				k := hx.Canon(e)
				if seen[k] {
					return true
				}
				seen[k] = true
			}
		}
	}
	return false
}

func overlay(old, patch map[string]any) map[string]any {
	out := map[string]any{}
	for k, v := range old {
		out[k] = v
	}
	for k, v := range patch {
		out[k] = v
	}
	return out
}

func (r *runner) createIndex(i int) *hx.Failure {
	ix := r.c.Idx[i]
	req := client.IndexCreateRequest{Name: ix.Name, Unique: ix.Unique}
	for _, f := range ix.Fields {
		req.Fields = append(req.Fields, client.IndexedFieldDescription{Name: f.F, Descending: f.Desc})
	}
	var dups []string
	if ix.Unique {
		dups = r.liveDuplicates(ix)
	}
	err := guard(func() error {
		_, err := r.col(nodeA).CreateIndex(r.node(nodeA).Ctx, req)
		return err
	})
	if pe, ok := err.(*panicErr); ok {
		jsonNil := false
		for _, d := range r.docs {
			jsonNil = jsonNil || (!d.Deleted && d.Vals["j"] == nil)
		}
		return r.panicFailure(fmt.Sprintf("CreateIndex %+v over existing documents", ix), jsonNil, pe)
	}
	if err != nil {
		if isUniqueErr(err) && len(dups) > 0 {
			r.label("mkindex:unique-rejected-as-expected")
			return nil
		}
		return hx.Failf("C07/create-index/error", "CreateIndex %+v failed: %v (model duplicates: %v)", ix, err, dups)
	}
	if len(dups) > 0 {
		return hx.Failf("C07/unique/index-created-over-duplicates", "unique index %+v was created although live documents share tuples: %v", ix, dups)
	}
	r.exists[i] = true
	r.label("mkindex:after-data")
	return nil
}

func (r *runner) reloadModel() {
	sel := []string{"_docID", "_deleted", "k"}
	for _, f := range allFields {
		sel = append(sel, f.selName())
	}
	q := "query { T(showDeleted: true) { " + strings.Join(sel, " ") + " } }"
	res := r.node(nodeB).Exec(q)
	if !res.OK() {
		hx.Harnessf("dump of the plain twin failed: %v %s", res.Errors, res.Panic)
	}
	rows := res.Rows("T")
	sort.Slice(rows, func(i, j int) bool {
		a, _ := rows[i]["k"].(json.Number)
		b, _ := rows[j]["k"].(json.Number)
		x, _ := a.Int64()
		y, _ := b.Int64()
		return x < y
	})
	seen := map[string]bool{}
	for _, row := range rows {
		id, _ := row["_docID"].(string)
		seen[id] = true
		d := r.byID[id]
		if d == nil {
			kn, _ := row["k"].(json.Number)
			k, _ := kn.Int64()
			d = &mdoc{ID: id, K: int(k)}
			r.byID[id] = d
			r.docs = append(r.docs, d)
		}
		d.Deleted, _ = row["_deleted"].(bool)
		d.Vals = map[string]any{}
		for _, f := range allFields {
			if v := row[f.selName()]; v != nil {
				d.Vals[f.Name] = v
			}
		}
	}
}

// history executes the operations; it returns a failure, or sets out.cutShort when the
// twins legitimately diverge (a merge rejected by a unique index).
func (r *runner) history() *hx.Failure {
	for step, op := range r.c.Ops {
		if op.Kind == "toggleindex" {
			if len(r.c.Idx) == 0 {
				continue
			}
			op.Kind = "mkindex"
			if r.exists[op.N%len(r.c.Idx)] {
				op.Kind = "dropindex"
			}
			r.label("op:index-toggled-between-merges")
		}
		switch op.Kind {
		case "create":
			k := r.nextK
			r.nextK++
			js, vals := r.docJSON(k, op.Doc)
			var id string
			ok, f := r.applyWrite("create "+js, vals, "", true, func(n int) error {
				var err error
				id, err = r.create(n, js, op.Via)
				return err
			})
			if f != nil {
				return f
			}
			if ok {
				d := &mdoc{ID: id, K: k, Vals: vals}
				r.docs = append(r.docs, d)
				r.byID[id] = d
			}
		case "update", "pupdate":
			if len(r.docs) == 0 {
				continue
			}
			d := r.docs[op.N%len(r.docs)]
			patch, pv := r.docJSON(-1, op.Doc)
			nv := overlay(d.Vals, pv)
			route := "update"
			if op.Kind == "pupdate" {
				route = "partial-document update"
			}
			ok, f := r.applyWrite(fmt.Sprintf("%s of k=%d (%s, deleted=%v, was %s) with %s", route, d.K, d.ID, d.Deleted, hx.Canon(d.Vals), patch), nv, d.ID, !d.Deleted, func(n int) error {
				if op.Kind == "pupdate" {
					return r.partialUpdate(n, d.ID, patch)
				}
				if op.Via > 0 && !d.Deleted {
					return r.updateVia(n, d.ID, patch, op.Via)
				}
				return r.update(n, d.ID, patch)
			})
			if f != nil {
				return f
			}
			if ok {
				d.Vals = nv
				r.label("op:" + op.Kind + "-applied")
			}
			if ok && op.Kind == "pupdate" && len(r.omittedIndexedFields(pv)) > 0 {
				d.Partial = true
			}
			if ok && op.Kind == "pupdate" {
				// the index entries must still describe the whole document
				if f := r.checkIndexEntries(); f != nil {
					if omitted := r.omittedIndexedFields(pv); len(omitted) > 0 && strings.HasPrefix(f.Sig, "C07/index-entries/") {
						return hx.Failf(sigPartialUpdate, "Collection.Update with a document carrying only %s rewrites the index entries of the untouched indexed fields %v as null: %s", patch, omitted, f.Msg)
					}
					return f
				}
			}
		case "delete", "redelete":
			// delete targets a live document, redelete any document (also an already deleted one)
			var pool []*mdoc
			for _, d := range r.docs {
				if op.Kind == "redelete" || !d.Deleted {
					pool = append(pool, d)
				}
			}
			if len(pool) == 0 {
				continue
			}
			d := pool[op.N%len(pool)]
			what := "delete of live "
			if d.Deleted {
				what = "delete of deleted "
			}
			ok, f := r.applyWrite(fmt.Sprintf("%sk=%d (%s)", what, d.K, d.ID), d.Vals, d.ID, false, func(n int) error {
				if op.Via > 0 && !d.Deleted {
					return r.deleteVia(n, d.ID)
				}
				return r.delete(n, d.ID)
			})
			if f != nil {
				return f
			}
			if ok && !d.Deleted {
				d.Deleted = true
				r.label("op:delete-applied")
			}
		case "mkindex":
			if len(r.c.Idx) == 0 {
				continue
			}
			i := op.N % len(r.c.Idx)
			if r.exists[i] {
				continue
			}
			if f := r.createIndex(i); f != nil {
				return f
			}
		case "dropindex":
			if len(r.c.Idx) == 0 {
				continue
			}
			i := op.N % len(r.c.Idx)
			if !r.exists[i] {
				continue
			}
			err := guard(func() error { return r.col(nodeA).DropIndex(r.node(nodeA).Ctx, r.c.Idx[i].Name) })
			if err != nil {
				return hx.Failf("C07/drop-index/error", "DropIndex %s failed: %v", r.c.Idx[i].Name, err)
			}
			r.exists[i] = false
			r.label("op:dropindex")
		case "rcreate":
			if !r.c.Remote {
				continue
			}
			k := r.nextK
			r.nextK++
			js, _ := r.docJSON(k, op.Doc)
			var id string
			err := guard(func() error {
				var err error
				id, err = r.create(nodeR, js, 0)
				return err
			})
			r.cl.Collect(nodeR)
			if err == nil {
				r.rdocs = append(r.rdocs, id)
			} else {
				r.label("remote:write-error")
			}
		case "rupdate", "rdelete":
			if !r.c.Remote || len(r.rdocs) == 0 {
				continue
			}
			id := r.rdocs[op.N%len(r.rdocs)]
			var err error
			if op.Kind == "rupdate" {
				patch, _ := r.docJSON(-1, op.Doc)
				err = guard(func() error { return r.update(nodeR, id, patch) })
			} else {
				err = guard(func() error { return r.delete(nodeR, id) })
			}
			r.cl.Collect(nodeR)
			if err != nil {
				r.label("remote:write-error")
			}
		case "pull":
			if !r.c.Remote || len(r.docs) == 0 {
				continue
			}
			d := r.docs[op.N%len(r.docs)]
			var last *hx.Msg
			for i := range r.cl.Msgs {
				if m := &r.cl.Msgs[i]; m.From == nodeA && m.DocID == d.ID {
					last = m
				}
			}
			if last == nil {
				continue
			}
			err := guard(func() error { return r.cl.Deliver(*last, nodeR) })
			if err != nil {
				r.label("remote:pull-merge-error")
				continue
			}
			known := false
			for _, id := range r.rdocs {
				known = known || id == d.ID
			}
			if !known {
				r.rdocs = append(r.rdocs, d.ID)
			}
			r.label("op:pull")
		case "push":
			if !r.c.Remote {
				continue
			}
			var msgs []hx.Msg
			for _, m := range r.cl.Msgs {
				if m.From == nodeR {
					msgs = append(msgs, m)
				}
			}
			if len(msgs) == 0 {
				continue
			}
			m := msgs[op.N%len(msgs)]
			if op.Last {
				m = msgs[len(msgs)-1]
			}
			errA := guard(func() error { return r.cl.Deliver(m, nodeA) })
			errB := guard(func() error { return r.cl.Deliver(m, nodeB) })
			if pe, ok := errB.(*panicErr); ok {
				return hx.Failf("C07/twin-panic/"+hx.PanicSite(pe.stack), "merge of %s panicked on the twin WITHOUT indexes: %v\n%s", m.Cid, pe.val, pe.stack)
			}
			if errB != nil {
				// the merge fails without any index involved: not this property's matter
				r.out.cutShort = "merge-fails-without-index"
				r.label("merge:fails-without-index")
				return nil
			}
			r.reloadModel()
			if pe, ok := errA.(*panicErr); ok {
				d := r.byID[m.DocID]
				return r.panicFailure(fmt.Sprintf("merge of remote commit %s (doc %s)", m.Cid, m.DocID), d == nil || d.Vals["j"] == nil, pe)
			}
			if errA != nil {
				if isUniqueErr(errA) {
					var dups []string
					for i, ix := range r.c.Idx {
						if ix.Unique && r.exists[i] {
							dups = append(dups, r.liveDuplicates(ix)...)
						}
					}
					if len(dups) > 0 {
						// C01 allows the receiver to refuse a document that violates its unique index
						r.out.cutShort = "merge-rejected-by-unique-index"
						r.label("merge:rejected-by-unique-index")
						return nil
					}
					return hx.Failf("C07/merge/unique-rejection-without-duplicate", "step %d: merge of %s (doc %s) was refused by a unique index (%v) although the merged state has no duplicate tuple: %s", step, m.Cid, m.DocID, errA, r.dumpModel())
				}
				if d := r.byID[m.DocID]; d != nil && d.Partial && strings.Contains(errA.Error(), "corrupted index") {
					return hx.Failf(sigPartialUpdate, "step %d: merge of %s (doc %s) fails only on the indexed twin: %v (an earlier partial-document update of this document rewrote the entries of the indexed fields it did not carry)", step, m.Cid, m.DocID, errA)
				}
				return hx.Failf("C07/merge/error-only-with-index", "step %d: merge of %s (doc %s) fails only on the indexed twin: %v", step, m.Cid, m.DocID, errA)
			}
			r.label("op:push-merged")
		}
	}
	return nil
}

// ---------------------------------------------------------------------------
// Structural check: index entries equal what the live documents imply
// ---------------------------------------------------------------------------

func normDecoded(kind string, v any) string {
	switch x := v.(type) {
	case int64:
		return strconv.FormatInt(x, 10)
	case float64:
		if x == 0 {
			x = 0
		}
		if kind == "f32" {
			return strconv.FormatFloat(float64(float32(x)), 'g', -1, 32)
		}
		return strconv.FormatFloat(x, 'g', -1, 64)
	case float32:
		if x == 0 {
			x = 0
		}
		return strconv.FormatFloat(float64(x), 'g', -1, 32)
	case bool:
		return fmt.Sprint(x)
	case string:
		return x
	case []byte:
		return hex.EncodeToString(x)
	case time.Time:
		return strconv.FormatInt(x.Unix(), 10) + "." + strconv.Itoa(x.Nanosecond())
	}
	return fmt.Sprintf("?%T:%v", v, v)
}

func (r *runner) shortID(n *hx.Node, colID string) uint32 {
	key := keys.NewCollectionID(colID)
	raw, err := datastore.SystemstoreFrom(n.DB.Rootstore()).Get(n.Ctx, key.Bytes())
	if err != nil {
		hx.Harnessf("short collection id: %v", err)
	}
	v, err := strconv.ParseUint(string(raw), 10, 32)
	if err != nil {
		hx.Harnessf("short collection id %q: %v", raw, err)
	}
	return uint32(v)
}

func (r *runner) checkIndexEntries() *hx.Failure {
	n := r.node(nodeA)
	col := r.col(nodeA)
	descs, err := col.GetIndexes(n.Ctx)
	if err != nil {
		hx.Harnessf("GetIndexes: %v", err)
	}
	// the set of indexes equals what the history built
	want := []string{}
	for i, ix := range r.c.Idx {
		if r.exists[i] {
			want = append(want, ix.Name)
		}
	}
	got := []string{}
	for _, d := range descs {
		got = append(got, d.Name)
	}
	sort.Strings(want)
	sort.Strings(got)
	if fmt.Sprint(want) != fmt.Sprint(got) {
		return hx.Failf("C07/index-set", "indexes on the indexed twin are %v, the history built %v", got, want)
	}
	short := r.shortID(n, col.Version().CollectionID)
	ds := datastore.DatastoreFrom(n.DB.Rootstore())
	for i, ix := range r.c.Idx {
		if !r.exists[i] {
			continue
		}
		var desc client.IndexDescription
		for _, d := range descs {
			if d.Name == ix.Name {
				desc = d
			}
		}
		var fdefs []client.FieldDefinition
		for _, f := range desc.Fields {
			fd, ok := col.Definition().GetFieldByName(f.Name)
			if !ok {
				hx.Harnessf("index field %s not in definition", f.Name)
			}
			fdefs = append(fdefs, fd)
		}
		prefix := keys.IndexDataStoreKey{CollectionShortID: short, IndexID: desc.ID}
		it, err := ds.Iterator(n.Ctx, corekv.IterOptions{Prefix: append(prefix.Bytes(), '/')})
		if err != nil {
			hx.Harnessf("iterator: %v", err)
		}
		perDoc := map[string]int{}
		var fail *hx.Failure
		for fail == nil {
			ok, err := it.Next()
			if err != nil {
				hx.Harnessf("iterate index: %v", err)
			}
			if !ok {
				break
			}
			raw := append([]byte{}, it.Key()...)
			val, _ := it.Value()
			key, err := keys.DecodeIndexDataStoreKey(raw, &desc, fdefs)
			if err != nil {
				fail = hx.Failf("C07/index-entries/undecodable", "index %s holds a key that does not decode: %q: %v", ix.Name, raw, err)
				break
			}
			if len(key.Fields) < len(ix.Fields) {
				fail = hx.Failf("C07/index-entries/undecodable", "index %s holds a short key %q", ix.Name, raw)
				break
			}
			var docID string
			if len(key.Fields) > len(ix.Fields) {
				docID, _ = key.Fields[len(key.Fields)-1].Value.String()
			} else {
				docID = string(val)
			}
			d := r.byID[docID]
			if d == nil || d.Deleted {
				fail = hx.Failf("C07/index-entries/stale-document", "index %s holds an entry %q for document %q which is not a live document (model: %v)", ix.Name, raw, docID, d)
				break
			}
			perDoc[docID]++
			for fi, f := range ix.Fields {
				fd := fdef(f.F)
				mv := d.Vals[f.F]
				kv := key.Fields[fi].Value
				if fd.Kind == "json" {
					// leaves are not compared one by one, but a nil entry belongs to a null/unset field only
					if kv.IsNil() != (mv == nil) {
						fail = hx.Failf("C07/index-entries/stale-value", "index %s holds an entry for %s (k=%d) whose JSON field %s is nil=%v, the document has %s", ix.Name, docID, d.K, f.F, kv.IsNil(), hx.Canon(mv))
						break
					}
					continue
				}
				match := false
				if fd.Arr {
					arr, isArr := mv.([]any)
					switch {
					case mv == nil:
						match = kv.IsNil()
					case isArr:
						for _, e := range arr {
							if e == nil {
								match = match || kv.IsNil()
							} else if !kv.IsNil() {
								s, _ := normScalar(fd.Kind, e)
								match = match || s == normDecoded(fd.Kind, kv.Unwrap())
							}
						}
					}
				} else if mv == nil {
					match = kv.IsNil()
				} else if !kv.IsNil() {
					s, _ := normScalar(fd.Kind, mv)
					match = s == normDecoded(fd.Kind, kv.Unwrap())
				}
				if !match {
					fail = hx.Failf("C07/index-entries/stale-value", "index %s holds an entry for %s (k=%d) whose field %s is %v, the document has %s", ix.Name, docID, d.K, f.F, kv.Unwrap(), hx.Canon(mv))
					break
				}
			}
		}
		_ = it.Close()
		if fail != nil {
			return fail
		}
		for _, d := range r.docs {
			if d.Deleted {
				continue
			}
			want := 1
			for _, f := range ix.Fields {
				fd := fdef(f.F)
				if fd.Kind == "json" {
					// one entry per distinct leaf; a null/unset JSON field has one nil entry
					if jv := d.Vals[f.F]; jv != nil {
						want *= len(jsonLeafKeys(jv))
					}
					continue
				}
				if !fd.Arr {
					continue
				}
				arr, isArr := d.Vals[f.F].([]any)
				if !isArr {
					// a null array yields no values (ToArrayOfNormalValues), hence no entry at all
					want = 0
					continue
				}
				distinct := map[string]bool{}
				for _, e := range arr {
					s, ok := normScalar(fd.Kind, e)
					if !ok {
						s = "\x00nil"
					}
					distinct[s] = true
				}
				want *= len(distinct)
			}
			if perDoc[d.ID] != want {
				return hx.Failf("C07/index-entries/count", "index %s (%+v) holds %d entries for live document %s (k=%d, %s), its values imply %d", ix.Name, ix.Fields, perDoc[d.ID], d.ID, d.K, hx.Canon(d.Vals), want)
			}
		}
	}
	return nil
}

// checkLiveUnique: no two live documents of the indexed twin share a non-null tuple.
func (r *runner) checkLiveUnique() *hx.Failure {
	sel := []string{"_docID", "k"}
	for _, f := range r.c.Active {
		sel = append(sel, fdef(f).selName())
	}
	res := r.node(nodeA).Exec("query { T { " + strings.Join(sel, " ") + " } }")
	if !res.OK() {
		return hx.Failf("C07/plain-read-error", "unfiltered read of the indexed twin fails: %v %s", res.Errors, res.Panic)
	}
	for i, ix := range r.c.Idx {
		if !ix.Unique || !r.exists[i] {
			continue
		}
		seen := map[string]string{}
		for _, row := range res.Rows("T") {
			vals := map[string]any{}
			for _, f := range ix.Fields {
				vals[f.F] = row[fdef(f.F).selName()]
			}
			if tp, ok := tupleOf(ix, vals); ok {
				id, _ := row["_docID"].(string)
				if o, dup := seen[tp]; dup {
					return hx.Failf("C07/unique/live-duplicates", "unique index %s: live documents %s and %s share the tuple %s", ix.Name, o, id, tp)
				}
				seen[tp] = id
			}
		}
	}
	return nil
}

// ---------------------------------------------------------------------------
// Run
// ---------------------------------------------------------------------------

func runCase(c Case) (out outcome) {
	nNodes := 2
	if c.Remote {
		nNodes = 3
	}
	cl := hx.NewCluster(nNodes, "", nil)
	defer cl.Close()
	r := &runner{c: c, cl: cl, byID: map[string]*mdoc{}, exists: map[int]bool{}, out: &out}
	for i, n := range cl.Nodes {
		sdl := c.sdl(i == nodeA)
		err := guard(func() error {
			_, err := n.DB.AddSchema(n.Ctx, sdl)
			return err
		})
		if err != nil {
			hx.Harnessf("schema rejected on node %d: %v\n%s", i, err, sdl)
		}
		ucol, err := n.DB.GetCollectionByName(n.Ctx, "U")
		if err != nil {
			hx.Harnessf("collection U: %v", err)
		}
		for k, name := range ownerNames {
			doc, err := client.NewDocFromJSON([]byte(fmt.Sprintf(`{"name": %q}`, name)), ucol.Definition())
			if err != nil {
				hx.Harnessf("owner doc: %v", err)
			}
			if err := ucol.Create(n.Ctx, doc); err != nil {
				hx.Harnessf("owner create: %v", err)
			}
			if i == 0 {
				r.owners = append(r.owners, doc.ID().String())
			} else if r.owners[k] != doc.ID().String() {
				hx.Harnessf("owner ids differ between nodes")
			}
		}
		cl.Collect(i)
	}
	for i, ix := range c.Idx {
		if ix.SDL {
			r.exists[i] = true
		}
	}
	if out.fail = r.history(); out.fail != nil || out.cutShort != "" {
		return out
	}
	// every index not yet present is built over the existing data
	for i := range c.Idx {
		if !r.exists[i] {
			if out.fail = r.createIndex(i); out.fail != nil {
				return out
			}
		}
	}
	if out.fail = r.checkLiveUnique(); out.fail != nil {
		return out
	}
	if out.fail = r.checkIndexEntries(); out.fail != nil {
		return out
	}
	for qi, q := range c.Qs {
		if out.fail = r.compare(qi, q); out.fail != nil {
			return out
		}
	}
	for _, q := range debugQueries {
		fmt.Printf("DEBUG %s\n  model: %s\n", q, r.dumpModel())
		for i := 0; i < 2; i++ {
			res := r.node(i).Exec(q)
			fmt.Printf("  node %d: %s %v %.300s\n", i, hx.Canon(res.Data), res.Errors, res.Panic)
		}
	}
	return out
}

var debugQueries []string

func run(c Case) *hx.Failure {
	return hx.Guard("C07", func() *hx.Failure {
		out := runCase(c)
		return out.fail
	})
}
