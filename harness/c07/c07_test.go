package c07

import (
	"encoding/json"
	"os"
	"path/filepath"
	"sort"
	"strings"
	"sync"
	"testing"

	"pgregory.net/rapid"

	"github.com/sourcenetwork/defradb/verifharness/hx"
)

func TestMain(m *testing.M) { hx.Main(m) }

var rec = hx.NewRecorder("C07",
	"a case = an index set (0-4 indexes: single/composite, ASC/DESC, unique, on scalar/array/JSON/relation fields, declared in the SDL or "+
		"built over existing data, dropped and rebuilt) + a history of creates/updates (full and partial documents)/deletes/merged remote "+
		"commits applied to an indexed database and to a twin without indexes + 6-16 queries (filters over every operator, compound "+
		"and/or/not, order, limit with order, showDeleted, docID, aggregates; a third are single-condition probes on an index's first field "+
		"whose operand is a value some document holds); half of the cases avoid the triggers of the listed known findings by construction; "+
		"a case is non-trivial when at least one query was served from an index "+
		"(@explain(type: execute) indexFetches > 0) and returned neither nothing nor everything; distinct = distinct case",
	"limit/offset are only generated together with an order (a bare limit legitimately depends on scan order); with an order and a limit only the sort-key sequence and the row count are compared",
	"_like patterns are restricted to the shapes the matchers define (%x%, %x, x%, a%b, x)",
	"a merge that the indexed twin refuses because the merged state violates a unique index ends the case (the receiver may refuse such a document)",
	"a merge that fails on the twin without indexes ends the case (not an index matter)",
	"GraphQL Int literals are 32-bit: filter constants are clamped, stored values span int64 (written through the collection API)",
	"aggregates compared are _count and _sum/_min/_max over the small integer row id (exact in float64 whatever the fetch order)",
)

var (
	extraMu         sync.Mutex
	qTotal, qServed int
)

func labelsOf(c Case) []string {
	ls := []string{}
	if len(c.Avoid) > 0 {
		ls = append(ls, "gen:known-triggers-avoided")
	} else {
		ls = append(ls, "gen:known-triggers-allowed")
	}
	if c.Remote {
		ls = append(ls, "case:remote-node")
	}
	seen := map[string]bool{}
	add := func(l string) {
		if !seen[l] {
			seen[l] = true
			ls = append(ls, l)
		}
	}
	for _, ix := range c.Idx {
		if len(ix.Fields) > 1 {
			add("idx:composite")
		}
		if ix.Unique {
			add("idx:unique")
		}
		if !ix.SDL {
			add("idx:created-after-data")
		}
		for _, f := range ix.Fields {
			if f.Desc {
				add("idx:desc")
			}
			fd := fdef(f.F)
			switch {
			case fd.Arr:
				add("idx:array")
			case fd.Kind == "json":
				add("idx:json")
			case fd.Kind == "rel":
				add("idx:relation")
			default:
				add("idx:kind-" + fd.Kind)
			}
		}
	}
	if len(c.Idx) == 0 {
		add("idx:none")
	}
	return ls
}

func evalCase(t hx.TB, c Case) {
	var out outcome
	f := hx.Guard("C07", func() *hx.Failure {
		out = runCase(c)
		return out.fail
	})
	labels := append(labelsOf(c), out.labels...)
	if out.cutShort != "" {
		labels = append(labels, "cut-short:"+out.cutShort)
	}
	rec.Eval(c, out.nNontrivial > 0, labels...)
	for i := 0; i < out.nQueries; i++ {
		rec.Label("q:total")
	}
	for i := 0; i < out.nNontrivial; i++ {
		rec.Label("q:nontrivial")
	}
	extraMu.Lock()
	qTotal += out.nQueries
	qServed += out.nIndexServed
	rec.Extra["queries_compared"] = qTotal
	rec.Extra["queries_index_served"] = qServed
	extraMu.Unlock()
	rec.Check(t, c, f)
}

func TestC07(t *testing.T) {
	rapid.Check(t, func(t *rapid.T) {
		evalCase(t, drawCase(t))
	})
}

func TestReplay(t *testing.T) {
	raw := hx.ReplayCase(t)
	rec.SetReplaying()
	var c Case
	if err := json.Unmarshal(raw, &c); err != nil {
		t.Fatalf("replay case: %v", err)
	}
	rec.Check(t, c, run(c))
}

func TestRegress(t *testing.T) {
	hx.Regress(t, "testdata/regress", func(raw []byte) *hx.Failure {
		var c Case
		if err := json.Unmarshal(raw, &c); err != nil {
			hx.Harnessf("regress case: %v", err)
		}
		return run(c)
	}, rec)
}

// TestDebug replays the history of $VERIF_REPLAY and runs the ';'-separated requests of
// $VERIF_QUERIES on both twins (a development aid; skipped otherwise).
func TestDebug(t *testing.T) {
	qs := os.Getenv("VERIF_QUERIES")
	if qs == "" {
		t.Skip("no VERIF_QUERIES")
	}
	raw := hx.ReplayCase(t)
	var c Case
	if err := json.Unmarshal(raw, &c); err != nil {
		t.Fatalf("replay case: %v", err)
	}
	c.Qs = nil
	debugQueries = strings.Split(qs, ";")
	defer func() { debugQueries = nil }()
	out := runCase(c)
	if out.fail != nil {
		t.Logf("history failed: %v", out.fail)
	}
}

// TestKnown replays every testdata/known/*.json: a case whose signature is listed as known must
// produce it, one whose signature is not (repaired, status fixed) must produce no failure
// (development aid, not part of the driver phases).
func TestKnown(t *testing.T) {
	files, _ := filepath.Glob("testdata/known/*.json")
	sort.Strings(files)
	for _, f := range files {
		raw, err := os.ReadFile(f)
		if err != nil {
			t.Fatal(err)
		}
		var doc struct {
			Signature string `json:"signature"`
			Case      Case   `json:"case"`
		}
		if err := json.Unmarshal(raw, &doc); err != nil {
			t.Fatalf("%s: %v", f, err)
		}
		got := "<no failure>"
		if fail := run(doc.Case); fail != nil {
			got = fail.Sig
		}
		// a finding listed as known must reproduce; one that is not (fixed) must be gone
		want := doc.Signature
		listed := "known"
		if !rec.IsKnown(doc.Signature) {
			want, listed = "<no failure>", "fixed"
		}
		status := "ok(" + listed + ")"
		if got != want {
			status = "DIFFERENT(" + listed + ")"
			t.Errorf("%s: listed as %s, recorded %s, produced %s", filepath.Base(f), listed, doc.Signature, got)
		}
		t.Logf("%-16s %s: recorded %s, produced %s", status, filepath.Base(f), doc.Signature, got)
	}
}
