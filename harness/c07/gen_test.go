package c07

import (
	"encoding/json"
	"fmt"
	"math"
	"strconv"
	"strings"
	"time"

	"pgregory.net/rapid"
)

// Signatures of known findings that have a generator switch (see Case.Avoid).
const (
	sigJSONNullPanic          = "C07/panic/json-index-null-json"
	sigAllEmptyArray          = "C07/rows-missing/all-on-empty-array"
	sigInDuplicates           = "C07/rows-duplicated/in-list-duplicates"
	sigNlikeNull              = "C07/rows-missing/nlike-null"
	sigJSONPathScanErr        = "C07/error-differs/json-path-on-non-object"
	sigOrBranch               = "C07/rows-missing/or-branch-ignored"
	sigInListOrder            = "C07/order-not-sorted/in-list-order"
	sigDeleteDeleted          = "C07/panic/delete-of-deleted-document-with-index"
	sigInUnclosed             = "C07/query-panic/in-iterator-left-open"
	sigBlobMatcher            = "C07/error-only-indexed/null-blob-value-matcher"
	sigRelNe                  = "C07/rows-missing/relation-filter-with-index"
	sigJSONRootOnLeaves       = "C07/rows-missing/json-root-condition-matched-on-leaves"
	sigCompositeArrayEmpty    = "C07/rows-missing/composite-index-multivalue-field-without-entry"
	sigInNullUnique           = "C07/rows-missing/in-null-on-unique-index"
	sigCompositeArrayDup      = "C07/rows-duplicated/composite-index-multivalue-field-order-only"
	sigInvertedJoinDropsConds = "C07/rows-extra/inverted-join-drops-sibling-conditions"
	sigShowDeletedOrder       = "C07/order-not-sorted/show-deleted-with-index-order"
	sigPartialUpdate          = "C07/index-entries/partial-document-update-nulls-untouched-indexed-field"
	sigPartialUpdatePanic     = "C07/panic/partial-document-update-with-unique-index"
	sigJSONNullDocMissing     = "C07/rows-missing/json-condition-on-absent-path-or-null-json"
	sigJSONRootScalarMatcher  = "C07/error-only-indexed/json-root-condition-scalar-matcher"
	sigIlikeInfixCase         = "C07/rows-missing/ilike-infix-pattern-case"
	sigInEmptyList            = "C07/query-panic/in-empty-list"
	sigJSONNlikeNonString     = "C07/rows-missing/json-nlike-non-string-value"
	sigRangeNullOperand       = "C07/rows-missing/range-operator-null-operand"
	sigJSONArrayDupCorrupted  = "C07/write/corrupted-index-json-array-duplicate-elements"
	sigJSONRootScalarEq       = "C07/rows-missing/json-root-scalar-equality-never-matches"
)

var switchSigs = []string{sigJSONNullPanic, sigAllEmptyArray, sigInDuplicates, sigNlikeNull, sigJSONPathScanErr,
	sigOrBranch, sigInListOrder, sigDeleteDeleted, sigInUnclosed, sigBlobMatcher, sigRelNe, sigScanOrderLaterKey, sigJSONRootOnLeaves, sigCompositeArrayEmpty, sigCompositeArrayDup, sigInvertedJoinDropsConds, sigInNullUnique, sigShowDeletedOrder, sigPartialUpdate, sigPartialUpdatePanic, sigJSONNullDocMissing, sigJSONRootScalarMatcher, sigIlikeInfixCase, sigJSONArrayDupCorrupted, sigInEmptyList, sigJSONNlikeNonString, sigRangeNullOperand, sigJSONRootScalarEq}

func pick[T any](t *rapid.T, label string, xs []T) T {
	return xs[rapid.IntRange(0, len(xs)-1).Draw(t, label)]
}

func chance(t *rapid.T, label string, percent int) bool {
	return rapid.IntRange(0, 99).Draw(t, label) < percent
}

// weighted field choice for index members
var indexableWeighted = []string{
	"s", "s", "s", "i", "i", "i", "i", "f", "f", "g", "b", "t", "t", "bl", "j", "j", "j", "j", "ai", "ai", "an", "as", "ab", "af", "owner", "owner",
}

func uniqueable(f FieldDef) bool { return !f.Arr && f.Kind != "json" }

func drawIndexes(t *rapid.T, avoid func(string) bool) []IndexSpec {
	n := pick(t, "nidx", []int{1, 1, 1, 2, 2, 2, 3, 3, 4, 0})
	out := []IndexSpec{}
	for k := 0; k < n; k++ {
		nf := pick(t, "nfields", []int{1, 1, 1, 1, 1, 1, 2, 2, 2, 3})
		spec := IndexSpec{}
		seen := map[string]bool{}
		for len(spec.Fields) < nf {
			f := pick(t, "ifield", indexableWeighted)
			if seen[f] {
				continue
			}
			if nf > 1 && (fdef(f).Arr || f == "j") && (avoid(sigCompositeArrayEmpty) || avoid(sigCompositeArrayDup)) {
				continue
			}
			if f == "bl" && avoid(sigBlobMatcher) {
				continue
			}
			seen[f] = true
			spec.Fields = append(spec.Fields, IdxField{F: f, Desc: chance(t, "desc", 35)})
		}
		canUnique := true
		for _, f := range spec.Fields {
			if !uniqueable(fdef(f.F)) {
				canUnique = false
			}
		}
		if canUnique {
			spec.Unique = chance(t, "unique", 30)
		}
		spec.SDL = chance(t, "sdl", 50)
		if spec.SDL && nf == 1 {
			spec.FieldLevel = chance(t, "fieldlevel", 50)
		}
		// the planner takes the candidate index with the smallest name: vary the order
		spec.Name = pick(t, "iname", []string{"a", "m", "z"}) + "x" + strconv.Itoa(k)
		out = append(out, spec)
	}
	return out
}

type gen struct {
	t      *rapid.T
	c      *Case
	active []FieldDef
	// first fields of indexes / later fields of composite indexes, for biasing the filters
	first []string
	later []string
}

func (g *gen) avoid(sig string) bool { return g.c.avoids(sig) }

func (g *gen) hasJSONIndex() bool {
	for _, ix := range g.c.Idx {
		for _, f := range ix.Fields {
			if f.F == "j" {
				return true
			}
		}
	}
	return false
}

// value draws a JSON text for the field (possibly null).
func (g *gen) value(f FieldDef, nullPercent int) string {
	t := g.t
	if f.Kind == "rel" {
		if chance(t, "ownernull", nullPercent) {
			return "null"
		}
		return "@owner" + strconv.Itoa(rapid.IntRange(0, len(ownerNames)-1).Draw(t, "owner"))
	}
	if chance(t, "null", nullPercent) {
		if f.Kind == "json" && (g.avoid(sigJSONNullPanic) || g.avoid(sigJSONNullDocMissing)) && g.hasJSONIndex() {
			return `{"h":1}`
		}
		return "null"
	}
	p := pools[f.Name]
	var v string
	if chance(t, "common", 70) {
		v = p.vals[rapid.IntRange(0, p.common-1).Draw(t, "cv")]
	} else {
		v = p.vals[rapid.IntRange(0, len(p.vals)-1).Draw(t, "pv")]
	}
	if f.Kind == "json" && g.avoid(sigJSONPathScanErr) {
		// keep every stored JSON value an object
		if _, ok := parseJSON(v).(map[string]any); !ok {
			v = `{"h":2,"n":"x"}`
		}
	}
	if f.Kind == "json" && g.avoid(sigJSONArrayDupCorrupted) && g.hasJSONIndex() && v == `{"arr":[2,2,3]}` {
		v = `{"h":1,"arr":[1,2]}`
	}
	if f.Arr && g.avoid(sigAllEmptyArray) && v == "[]" {
		v = p.vals[0]
	}
	return v
}

func (g *gen) doc(create bool) map[string]string {
	d := map[string]string{}
	if create {
		for _, f := range g.active {
			jsonMustBeSet := f.Kind == "json" && g.hasJSONIndex() &&
				(g.avoid(sigJSONNullPanic) || g.avoid(sigJSONNullDocMissing))
			if chance(g.t, "absent", 20) && !jsonMustBeSet {
				continue
			}
			d[f.Name] = g.value(f, 12)
		}
		return d
	}
	n := pick(g.t, "npatch", []int{1, 1, 2, 3})
	for k := 0; k < n; k++ {
		f := pick(g.t, "pfield", g.active)
		d[f.Name] = g.value(f, 20)
	}
	return d
}

func (g *gen) ops() []Op {
	t := g.t
	n := rapid.IntRange(4, 22).Draw(t, "nops")
	kinds := []string{"create", "create", "create", "create", "create", "create", "update", "update", "update", "update", "update", "delete", "delete", "mkindex", "dropindex"}
	if !g.avoid(sigDeleteDeleted) {
		kinds = append(kinds, "redelete")
	}
	if !g.avoid(sigPartialUpdate) && !g.avoid(sigPartialUpdatePanic) {
		kinds = append(kinds, "pupdate", "pupdate")
	}
	if g.c.Remote {
		kinds = append(kinds, "rcreate", "rcreate", "rupdate", "rupdate", "rdelete", "pull", "pull", "push", "push", "push")
	}
	out := []Op{}
	for k := 0; k < n; k++ {
		kind := pick(t, "opkind", kinds)
		if k < 2 {
			kind = "create"
		}
		op := Op{Kind: kind}
		switch kind {
		case "create", "update", "delete":
			op.Via = []int{0, 0, 0, 1, 2, 1}[rapid.IntRange(0, 5).Draw(t, "via")]
		}
		switch kind {
		case "create", "rcreate":
			op.Doc = g.doc(true)
		case "update", "rupdate", "pupdate":
			op.N = rapid.IntRange(0, 30).Draw(t, "target")
			op.Doc = g.doc(false)
		default:
			op.N = rapid.IntRange(0, 30).Draw(t, "target")
		}
		out = append(out, op)
	}
	if g.c.Remote && len(g.c.Idx) > 0 && chance(t, "mergeIndexMerge", 25) {
		// structured tail: a remote commit is merged, an index is created or dropped, further remote commits are merged
		// (the index list is part of what a node may cache per collection between merges)
		out = append(out, Op{Kind: "rcreate", Doc: g.doc(true)}, Op{Kind: "push", Last: true},
			Op{Kind: "toggleindex", N: rapid.IntRange(0, 30).Draw(t, "tailIndex")})
		for k, n := 0, rapid.IntRange(1, 3).Draw(t, "tailWrites"); k < n; k++ {
			if chance(t, "tailCreate", 40) {
				out = append(out, Op{Kind: "rcreate", Doc: g.doc(true)})
			} else {
				out = append(out, Op{Kind: "rupdate", N: rapid.IntRange(0, 30).Draw(t, "target"), Doc: g.doc(false)})
			}
			out = append(out, Op{Kind: "push", Last: true})
		}
	}
	return out
}

// ---------------------------------------------------------------------------
// Filters
// ---------------------------------------------------------------------------

func opsFor(f FieldDef) []string {
	switch f.Kind {
	case "str", "blob":
		return []string{"_eq", "_eq", "_ne", "_in", "_nin", "_like", "_nlike", "_ilike", "_nilike"}
	case "int", "f64", "f32", "time":
		return []string{"_eq", "_eq", "_ne", "_gt", "_ge", "_lt", "_le", "_in", "_nin"}
	case "bool", "rel":
		return []string{"_eq", "_ne", "_in", "_nin"}
	}
	panic(f.Kind)
}

// scalarConst draws a constant near the stored values of the kind.
func (g *gen) scalarConst(kind, poolName string, allowNull bool) string {
	t := g.t
	if allowNull && chance(t, "cnull", 10) {
		return "null"
	}
	if kind == "rel" {
		return "@owner" + strconv.Itoa(rapid.IntRange(0, len(ownerNames)-1).Draw(t, "cowner"))
	}
	p := pools[poolName]
	src := p.vals
	if chance(t, "ccommon", 65) {
		// mostly the values that the documents mostly hold, so that bounds hit stored values
		src = p.vals[:p.common]
	}
	var vals []string
	if kind != fdef(poolName).Kind || fdef(poolName).Arr {
		// element pool of an array field: flatten
		for _, a := range src {
			for _, e := range parseJSON(a).([]any) {
				if e != nil {
					vals = append(vals, jsonText(e))
				}
			}
		}
		if len(vals) == 0 {
			vals = []string{pools[poolName].vals[0][1 : len(pools[poolName].vals[0])-1]}
		}
	} else {
		vals = src
	}
	base := pick(t, "cbase", vals)
	mode := rapid.IntRange(0, 9).Draw(t, "cmode")
	if mode < 6 {
		if kind == "int" {
			n, _ := parseJSON(base).(json.Number).Int64()
			return strconv.FormatInt(clampInt32(n), 10)
		}
		return base
	}
	// neighbour in value order
	up := mode%2 == 0
	switch kind {
	case "int":
		n, _ := parseJSON(base).(json.Number).Int64()
		n = clampInt32(n)
		if up && n < math.MaxInt32 {
			n++
		} else if !up && n > math.MinInt32 {
			n--
		}
		return strconv.FormatInt(n, 10)
	case "f64":
		x, _ := strconv.ParseFloat(base, 64)
		if up {
			x = math.Nextafter(x, math.Inf(1))
		} else {
			x = math.Nextafter(x, math.Inf(-1))
		}
		return strconv.FormatFloat(x, 'g', -1, 64)
	case "f32":
		x, _ := strconv.ParseFloat(base, 32)
		y := float32(x)
		if up {
			y = math.Nextafter32(y, float32(math.Inf(1)))
		} else {
			y = math.Nextafter32(y, float32(math.Inf(-1)))
		}
		if math.IsInf(float64(y), 0) {
			y = float32(x)
		}
		return strconv.FormatFloat(float64(y), 'g', -1, 32)
	case "str":
		s := parseJSON(base).(string)
		if up {
			s += "\x00"
		} else if len(s) > 0 {
			s = s[:len(s)-1]
			if !validUTF8(s) {
				s = "a"
			}
		}
		return jsonText(s)
	case "time":
		tm, _ := time.Parse(time.RFC3339Nano, parseJSON(base).(string))
		if up {
			tm = tm.Add(time.Nanosecond)
		} else {
			tm = tm.Add(-time.Nanosecond)
		}
		return jsonText(tm.UTC().Format(time.RFC3339Nano))
	case "blob":
		if up {
			return jsonText(parseJSON(base).(string) + "00")
		}
		return base
	}
	return base
}

func validUTF8(s string) bool {
	for _, r := range s {
		if r == '�' {
			return false
		}
	}
	return true
}

// likePattern builds a pattern of one of the shapes the matcher defines.
func (g *gen) likePattern(kind string) string {
	t := g.t
	var frags []string
	if kind == "blob" {
		frags = []string{"00", "ff", "0", "a", "ab", "f"}
	} else {
		frags = []string{"a", "b", "ab", "A", "B", "", "c", "é", "x", "1"}
	}
	x := pick(t, "frag", frags)
	switch rapid.IntRange(0, 4).Draw(t, "shape") {
	case 0:
		return jsonText("%" + x + "%")
	case 1:
		return jsonText("%" + x)
	case 2:
		return jsonText(x + "%")
	case 3:
		return jsonText(x + "%" + pick(t, "frag2", frags))
	default:
		return jsonText(x)
	}
}

func isLike(op string) bool { return strings.HasSuffix(op, "like") }

// fillCmp sets Cmp/Val/Vals (and sometimes Cmp2/Val2) for a scalar block.
func (g *gen) fillCmp(leaf *F, kind, poolName string, ops []string) {
	t := g.t
	leaf.Cmp = pick(t, "cmp", ops)
	if (leaf.Cmp == "_nlike" || leaf.Cmp == "_nilike") && (g.avoid(sigNlikeNull) || (leaf.Field == "j" && g.avoid(sigJSONNlikeNonString))) {
		leaf.Cmp = "_like"
	}
	switch {
	case isLike(leaf.Cmp):
		leaf.Val = g.likePattern(kind)
		if leaf.Cmp == "_ilike" && g.avoid(sigIlikeInfixCase) {
			leaf.Val = strings.ToLower(leaf.Val)
		}
	case leaf.Cmp == "_in" || leaf.Cmp == "_nin":
		n := pick(t, "nin", []int{0, 1, 2, 2, 3, 4})
		for k := 0; k < n; k++ {
			v := g.scalarConst(kind, poolName, !(leaf.Cmp == "_in" && g.avoid(sigInNullUnique)))
			if leaf.Cmp == "_in" && g.avoid(sigInDuplicates) {
				dup := false
				for _, o := range leaf.Vals {
					if o == v {
						dup = true
					}
				}
				if dup {
					continue
				}
			}
			leaf.Vals = append(leaf.Vals, v)
		}
		if len(leaf.Vals) == 0 && leaf.Cmp == "_in" && g.avoid(sigInEmptyList) {
			leaf.Vals = []string{g.scalarConst(kind, poolName, false)}
		}
		if leaf.Vals == nil {
			leaf.Vals = []string{}
		}
	case leaf.Cmp == "_eq" || leaf.Cmp == "_ne":
		leaf.Val = g.scalarConst(kind, poolName, true)
	default:
		// range operators: null operand only rarely
		leaf.Val = g.scalarConst(kind, poolName, chance(t, "rangenull", 20) && !g.avoid(sigRangeNullOperand))
		if chance(t, "second", 25) {
			leaf.Cmp2 = pick(t, "cmp2", []string{"_gt", "_ge", "_lt", "_le", "_ne"})
			if leaf.Cmp2 == leaf.Cmp {
				leaf.Cmp2 = ""
			} else {
				leaf.Val2 = g.scalarConst(kind, poolName, false)
			}
		}
	}
}

var jsonPaths = [][]string{{"h"}, {"h"}, {"n"}, {"arr"}, {"o", "p"}, {"o"}, {"zz"}}

func (g *gen) leaf() *F {
	t := g.t
	var name string
	r := rapid.IntRange(0, 99).Draw(t, "fieldsel")
	switch {
	case r < 60 && len(g.first) > 0:
		name = pick(t, "ffirst", g.first)
	case r < 75 && len(g.later) > 0:
		name = pick(t, "flater", g.later)
	default:
		name = pick(t, "fany", g.active).Name
	}
	f := fdef(name)
	leaf := &F{Op: "leaf", Field: name}
	switch {
	case f.Kind == "rel":
		if chance(t, "viarel", 30) {
			leaf.Path = []string{"name"}
			leaf.Cmp = pick(t, "relcmp", []string{"_eq", "_ne", "_in"})
			if leaf.Cmp == "_in" && g.avoid(sigInUnclosed) {
				leaf.Cmp = "_eq"
			}
			if g.avoid(sigRelNe) {
				leaf.Cmp = "_eq"
			}
			if leaf.Cmp == "_in" {
				leaf.Vals = []string{jsonText(pick(t, "on", ownerNames)), jsonText(pick(t, "on2", ownerNames))}
				if g.avoid(sigInDuplicates) && leaf.Vals[0] == leaf.Vals[1] {
					leaf.Vals = leaf.Vals[:1]
				}
			} else {
				leaf.Val = jsonText(pick(t, "on", append([]string{"zz"}, ownerNames...)))
			}
			return leaf
		}
		g.fillCmp(leaf, "rel", name, opsFor(f))
	case f.Arr:
		leaf.Arr = pick(t, "arrop", []string{"_any", "_any", "_any", "_all", "_all", "_none"})
		if leaf.Arr == "_all" && g.avoid(sigAllEmptyArray) {
			leaf.Arr = "_any"
		}
		g.fillCmp(leaf, f.Kind, name, opsFor(FieldDef{Kind: f.Kind}))
		leaf.Cmp2, leaf.Val2 = "", ""
		if !f.ElemNull {
			// [X!]: null is not a valid element operand
			if leaf.Val == "null" {
				leaf.Val = pools[name].vals[0][1 : len(pools[name].vals[0])-1]
			}
			vs := leaf.Vals[:0]
			for _, v := range leaf.Vals {
				if v != "null" {
					vs = append(vs, v)
				}
			}
			if leaf.Vals != nil {
				leaf.Vals = vs
			}
		}
	case f.Kind == "json":
		if !chance(t, "jsonroot", 25) {
			leaf.Path = pick(t, "jpath", jsonPaths)
		}
		kind := pick(t, "jkind", []string{"int", "int", "str", "bool", "f64"})
		poolName := map[string]string{"int": "i", "str": "s", "bool": "b", "f64": "f"}[kind]
		if len(leaf.Path) == 1 && leaf.Path[0] == "arr" && chance(t, "jarr", 70) {
			leaf.Arr = pick(t, "arrop", []string{"_any", "_any", "_all", "_none"})
			if leaf.Arr == "_all" && g.avoid(sigAllEmptyArray) {
				leaf.Arr = "_any"
			}
		}
		ops := opsFor(FieldDef{Kind: kind})
		g.fillCmp(leaf, kind, poolName, ops)
		if kind == "int" {
			// JSON numbers in the pool are small
			small := []string{"1", "2", "3", "0", "1.5"}
			if leaf.Val != "null" && leaf.Val != "" {
				leaf.Val = pick(t, "jsmall", small)
			}
			for k := range leaf.Vals {
				if leaf.Vals[k] != "null" {
					leaf.Vals[k] = pick(t, "jsmallv", small)
				}
			}
			if leaf.Val2 != "" {
				leaf.Val2 = pick(t, "jsmall2", small)
			}
			if leaf.Cmp == "_in" && g.avoid(sigInDuplicates) {
				leaf.Vals = dedupe(leaf.Vals)
			}
		}
		if len(leaf.Path) == 0 && leaf.Arr == "" && (g.avoid(sigJSONRootOnLeaves) || g.avoid(sigJSONRootScalarMatcher)) && leaf.Cmp != "_eq" && leaf.Cmp != "_in" {
			// only equality on the JSON value itself (JSON is never a later composite field in this mode)
			leaf.Cmp, leaf.Cmp2, leaf.Val2 = "_eq", "", ""
			if leaf.Val == "" {
				leaf.Val = "1"
			}
		}
		if len(leaf.Path) == 0 && leaf.Arr == "" && g.avoid(sigJSONRootScalarEq) {
			// no condition on the JSON value itself at all: equality with a scalar never matches through the index
			leaf.Path = []string{"h"}
		}
		if len(leaf.Path) == 0 && leaf.Arr == "" && chance(t, "jsonwhole", 40) && (leaf.Cmp == "_eq" || leaf.Cmp == "_ne") {
			// compare the whole JSON value
			leaf.Val = g.value(f, 10)
		}
	default:
		g.fillCmp(leaf, f.Kind, name, opsFor(f))
	}
	return leaf
}

func hasRelIn(f *F) bool {
	found := false
	walkLeaves(f, false, func(l *F, underNot bool) {
		found = found || (l.Cmp == "_in" && !underNot && fdef(l.Field).Kind == "rel" && len(l.Path) > 0)
	})
	return found
}

func hasIn(f *F) bool {
	found := false
	walkLeaves(f, false, func(l *F, underNot bool) { found = found || (l.Cmp == "_in" && !underNot) })
	return found
}

func dedupe(xs []string) []string {
	out := []string{}
	seen := map[string]bool{}
	for _, x := range xs {
		if !seen[x] {
			seen[x] = true
			out = append(out, x)
		}
	}
	return out
}

func (g *gen) filter(depth int) *F {
	t := g.t
	if depth < 3 && chance(t, "compound", 30-5*depth) {
		op := pick(t, "bool", []string{"and", "and", "or", "or", "not"})
		f := &F{Op: op}
		n := 1
		if op != "not" {
			n = pick(t, "nkids", []int{2, 2, 2, 3, 1})
		}
		for k := 0; k < n; k++ {
			f.Kids = append(f.Kids, g.filter(depth+1))
		}
		if op == "and" {
			distinct := true
			seen := map[string]bool{}
			for _, k := range f.Kids {
				if k.Op != "leaf" || seen[k.Field] {
					distinct = false
				}
				seen[k.Field] = true
			}
			f.Implicit = distinct && chance(t, "implicit", 60)
		}
		return f
	}
	return g.leaf()
}

var orderable = map[string]bool{"s": true, "i": true, "f": true, "g": true, "b": true, "t": true, "bl": true}

// probe is a plain single-condition query on the first field of an index whose operand is
// taken from a stored document: the shape that exercises one range bound / one operator exactly.
func (g *gen) probe() (Query, bool) {
	t := g.t
	var cands []string
	for _, f := range g.first {
		fd := fdef(f)
		if fd.Kind != "json" && fd.Kind != "rel" {
			cands = append(cands, f)
		}
	}
	if len(cands) == 0 {
		return Query{}, false
	}
	fd := fdef(pick(t, "pfield", cands))
	leaf := &F{Op: "leaf", Field: fd.Name}
	ops := opsFor(FieldDef{Kind: fd.Kind})
	var scalarOps []string
	for _, o := range ops {
		if o != "_in" && o != "_nin" && !isLike(o) {
			scalarOps = append(scalarOps, o)
		}
	}
	leaf.Cmp = pick(t, "pcmp", scalarOps)
	if fd.Arr {
		leaf.Arr = pick(t, "parr", []string{"_any", "_any", "_all"})
		if leaf.Arr == "_all" && g.avoid(sigAllEmptyArray) {
			leaf.Arr = "_any"
		}
	}
	leaf.Val = g.scalarConst(fd.Kind, fd.Name, false)
	leaf.FromDoc = 1 + rapid.IntRange(0, 30).Draw(t, "pdoc")
	q := Query{Filter: leaf}
	if orderable[fd.Name] && chance(t, "pord", 30) {
		q.Order = []Ord{{F: fd.Name, Desc: chance(t, "porddesc", 50)}}
	}
	return q, true
}

func (g *gen) query() Query {
	t := g.t
	if chance(t, "probe", 35) {
		if q, ok := g.probe(); ok {
			return q
		}
	}
	q := Query{}
	if !chance(t, "nofilter", 12) {
		q.Filter = g.filter(0)
	}
	var ordFields []string
	for _, f := range g.active {
		if orderable[f.Name] {
			ordFields = append(ordFields, f.Name)
		}
	}
	// bias towards index fields so that the index takes over the ordering
	var ordIdx []string
	for _, f := range append(append([]string{}, g.first...), g.later...) {
		if orderable[f] {
			ordIdx = append(ordIdx, f)
		}
	}
	if len(ordFields) > 0 && chance(t, "ordered", 45) {
		n := pick(t, "nord", []int{1, 1, 1, 2})
		if g.avoid(sigScanOrderLaterKey) {
			n = 1
		}
		seen := map[string]bool{}
		for k := 0; k < n; k++ {
			var f string
			if len(ordIdx) > 0 && chance(t, "ordidx", 70) {
				f = pick(t, "ordf", ordIdx)
			} else {
				f = pick(t, "ordf2", ordFields)
			}
			if seen[f] {
				continue
			}
			seen[f] = true
			q.Order = append(q.Order, Ord{F: f, Desc: chance(t, "orddesc", 45)})
		}
		if chance(t, "limit", 40) {
			q.Limit = rapid.IntRange(1, 4).Draw(t, "limitn")
			if chance(t, "offset", 40) {
				q.Offset = rapid.IntRange(1, 3).Draw(t, "offsetn")
			}
		}
	}
	if q.Filter != nil && chance(t, "orderByDocID", 12) {
		// the document id as the only order key, next to a (possibly index-served) filter
		q.Order = []Ord{{F: "_docID", Desc: chance(t, "docIDdesc", 30)}}
	}
	q.ShowDeleted = chance(t, "showdeleted", 10)
	if chance(t, "docids", 8) {
		n := rapid.IntRange(1, 3).Draw(t, "ndocids")
		for k := 0; k < n; k++ {
			q.DocIDs = append(q.DocIDs, rapid.IntRange(0, 30).Draw(t, "docid"))
		}
	}
	if q.Filter != nil && len(q.Order) == 0 && len(q.DocIDs) == 0 && !q.ShowDeleted && chance(t, "agg", 15) {
		q.Agg = pick(t, "aggkind", []string{"count", "count", "sumk", "mink", "maxk"})
	}
	return q
}

func drawCase(t *rapid.T) Case {
	c := Case{}
	if rapid.Bool().Draw(t, "avoidKnown") {
		for _, s := range switchSigs {
			if rec.IsKnown(s) {
				c.Avoid = append(c.Avoid, s)
			}
		}
	}
	c.Idx = drawIndexes(t, c.avoids)
	c.Remote = chance(t, "remote", 40)
	g := &gen{t: t, c: &c}
	seen := map[string]bool{}
	add := func(name string) {
		if !seen[name] {
			seen[name] = true
			c.Active = append(c.Active, name)
		}
	}
	for _, ix := range c.Idx {
		for k, f := range ix.Fields {
			add(f.F)
			if k == 0 {
				g.first = append(g.first, f.F)
			} else {
				g.later = append(g.later, f.F)
			}
		}
	}
	extra := rapid.IntRange(1, 3).Draw(t, "nextra")
	for k := 0; k < extra; k++ {
		add(pick(t, "extra", allFields).Name)
	}
	for _, n := range c.Active {
		g.active = append(g.active, fdef(n))
		if n == "owner" {
			c.UIndex = chance(t, "uindex", 50)
		}
	}
	c.Ops = g.ops()
	nq := rapid.IntRange(6, 16).Draw(t, "nq")
	for k := 0; k < nq; k++ {
		q := g.query()
		g.sanitize(&q)
		c.Qs = append(c.Qs, q)
	}
	return c
}

// sanitize applies the generator switches of the known findings to a query, and keeps queries
// that carry the trigger shape of a known finding in plain row mode so that the diagnosers
// see the rows (aggregates and limits hide which rows differ).
func (g *gen) sanitize(q *Query) {
	isFirst := map[string]bool{}
	for _, f := range g.first {
		isFirst[fdef(f).selName()] = true
	}
	trigger := false
	var fix func(f *F, underOr bool)
	fix = func(f *F, underOr bool) {
		if f == nil {
			return
		}
		if f.Op == "leaf" {
			if underOr && isFirst[leafKey(f)] {
				trigger = true
			}
			if f.Arr == "_all" || f.Cmp == "_nlike" || f.Cmp == "_nilike" {
				trigger = true
			}
			if f.Cmp == "_in" && len(dedupe(f.Vals)) != len(f.Vals) {
				trigger = true
			}
			return
		}
		if f.Op == "not" && len(f.Kids) == 1 && f.Kids[0].Op != "leaf" && g.avoid(sigOrBranch) {
			// no negated compounds: keep the operand
			*f = *f.Kids[0]
			fix(f, underOr)
			return
		}
		if f.Op == "or" && len(f.Kids) > 1 && g.avoid(sigOrBranch) {
			mentionsFirst := false
			walkLeaves(f, false, func(l *F, _ bool) { mentionsFirst = mentionsFirst || isFirst[leafKey(l)] })
			if mentionsFirst {
				f.Op = "and"
			}
		}
		for _, k := range f.Kids {
			fix(k, underOr || (f.Op == "or" && len(f.Kids) > 1))
		}
	}
	fix(q.Filter, false)
	if g.avoid(sigInvertedJoinDropsConds) {
		// an explicit _and keeps the planner from inverting the join
		rel := false
		walkLeaves(q.Filter, false, func(l *F, _ bool) { rel = rel || (fdef(l.Field).Kind == "rel" && len(l.Path) > 0) })
		if rel {
			var explicit func(f *F)
			explicit = func(f *F) {
				if f == nil {
					return
				}
				f.Implicit = false
				for _, k := range f.Kids {
					explicit(k)
				}
			}
			explicit(q.Filter)
		}
	}
	if len(q.Order) > 0 {
		inOnOrderKey := false
		walkLeaves(q.Filter, false, func(l *F, _ bool) {
			if l.Cmp == "_in" && leafKey(l) == q.Order[0].F {
				inOnOrderKey = true
			}
		})
		if inOnOrderKey {
			if g.avoid(sigInListOrder) {
				q.Order, q.Limit, q.Offset = nil, 0, 0
			} else {
				trigger = true
			}
		}
	}
	if trigger {
		q.Agg, q.Limit, q.Offset = "", 0, 0
	}
	if g.avoid(sigShowDeletedOrder) && len(q.Order) > 0 {
		q.ShowDeleted = false
	}
	if g.avoid(sigInUnclosed) && hasIn(q.Filter) {
		q.Limit, q.Offset = 0, 0
	}
}

var _ = fmt.Sprint
