package c07

import (
	"bytes"
	"encoding/json"
	"fmt"
	"math"
	"sort"
	"strconv"
	"strings"
	"time"
)

// ---------------------------------------------------------------------------
// Schema: one collection T with a field of every indexable kind and a relation
// to U. The indexed twin and the plain twin differ only in the index set.
// ---------------------------------------------------------------------------

// FieldDef describes one field of T.
type FieldDef struct {
	Name     string
	GQL      string
	Kind     string // str int f64 f32 bool time blob json rel
	Arr      bool
	ElemNull bool
}

var allFields = []FieldDef{
	{Name: "s", GQL: "String", Kind: "str"},
	{Name: "i", GQL: "Int", Kind: "int"},
	{Name: "f", GQL: "Float64", Kind: "f64"},
	{Name: "g", GQL: "Float32", Kind: "f32"},
	{Name: "b", GQL: "Boolean", Kind: "bool"},
	{Name: "t", GQL: "DateTime", Kind: "time"},
	{Name: "bl", GQL: "Blob", Kind: "blob"},
	{Name: "j", GQL: "JSON", Kind: "json"},
	{Name: "ai", GQL: "[Int!]", Kind: "int", Arr: true},
	{Name: "an", GQL: "[Int]", Kind: "int", Arr: true, ElemNull: true},
	{Name: "as", GQL: "[String!]", Kind: "str", Arr: true},
	{Name: "ab", GQL: "[Boolean!]", Kind: "bool", Arr: true},
	{Name: "af", GQL: "[Float64!]", Kind: "f64", Arr: true},
	{Name: "owner", GQL: "U", Kind: "rel"},
}

func fdef(name string) FieldDef {
	if name == "_docID" {
		// only as an order key
		return FieldDef{Name: "_docID", Kind: "str"}
	}
	for _, f := range allFields {
		if f.Name == name {
			return f
		}
	}
	panic("unknown field " + name)
}

// selName is the name under which the field is selected / written.
func (f FieldDef) selName() string {
	if f.Kind == "rel" {
		return f.Name + "_id"
	}
	return f.Name
}

// pools: JSON texts per field; the first `common` entries are drawn most often so that
// equal values, ties and duplicates (unique indexes) happen.
type pool struct {
	vals   []string
	common int
}

var pools = map[string]pool{
	"s":  {[]string{`"a"`, `"b"`, `"ab"`, `""`, `"A"`, `"B"`, `"ba"`, `"abc"`, `"a%"`, `"a_b"`, `"aé"`, `"a/b"`, `"a\u0000"`, `"日本"`}, 4},
	"i":  {[]string{`1`, `2`, `5`, `0`, `-1`, `3`, `2147483647`, `-2147483648`, `9007199254740993`, `9223372036854775807`, `-9223372036854775808`}, 4},
	"f":  {[]string{`1.5`, `2`, `-1.5`, `0`, `0.1`, `1e300`, `-1e-300`, `5e-324`, `1.0000000000000002`, `1`}, 4},
	"g":  {[]string{`1.5`, `2`, `-1.5`, `0`, `0.1`, `3.4028235e38`, `1`}, 4},
	"b":  {[]string{`true`, `false`}, 2},
	"t":  {[]string{`"2020-01-01T00:00:00Z"`, `"2021-06-01T12:30:00Z"`, `"1969-12-31T23:59:59Z"`, `"2020-01-01T00:00:00.000000001Z"`, `"9999-12-31T23:59:59Z"`, `"0001-01-02T00:00:00Z"`, `"2020-01-01T00:00:01Z"`}, 3},
	"bl": {[]string{`"00"`, `"ff"`, `"00ff"`, `"abcd"`, `"0a"`, `""`}, 3},
	"j": {[]string{`{"h":1}`, `{"h":2,"n":"x"}`, `{"h":1,"arr":[1,2]}`, `1`, `"a"`, `true`, `{"h":null}`, `{"h":"1"}`, `{"arr":[]}`, `{"arr":[2,2,3]}`,
		`{"o":{"p":1}}`, `{"o":{"p":"x"},"h":3}`, `[1,2]`, `[]`, `{}`, `1.5`, `{"h":1.5,"n":"ab"}`, `{"n":"a","arr":["a",1,null]}`, `false`, `{"h":true}`}, 4},
	"ai": {[]string{`[1]`, `[1,2]`, `[]`, `[2,2]`, `[3,1,2]`, `[0]`, `[5,5,5]`, `[2147483647,-1]`}, 4},
	"an": {[]string{`[1]`, `[1,null]`, `[]`, `[null]`, `[1,2]`, `[null,null]`, `[2,null,2]`}, 4},
	"as": {[]string{`["a"]`, `["a","b"]`, `[]`, `["b","b"]`, `[""]`, `["ab","a"]`, `["a%"]`}, 4},
	"ab": {[]string{`[true]`, `[true,false]`, `[]`, `[false,false]`, `[false]`}, 3},
	"af": {[]string{`[1.5]`, `[1.5,2]`, `[]`, `[0.1,0.1]`, `[-1.5,1e300]`}, 3},
}

// Owner documents (collection U) are created identically on every node.
var ownerNames = []string{"o1", "o2", "o3"}

// ---------------------------------------------------------------------------
// Case
// ---------------------------------------------------------------------------

// IdxField is one field of an index.
type IdxField struct {
	F    string `json:"f"`
	Desc bool   `json:"desc,omitempty"`
}

// IndexSpec is one secondary index of the indexed twin.
type IndexSpec struct {
	Name   string     `json:"name"`
	Fields []IdxField `json:"fields"`
	Unique bool       `json:"unique,omitempty"`
	// SDL: declared in the schema; otherwise created by a mkindex op or, at the latest, after the history.
	SDL bool `json:"sdl,omitempty"`
	// FieldLevel: single-field SDL index written as a field directive instead of a type directive.
	FieldLevel bool `json:"field_level,omitempty"`
}

// Op is one step of the history.
type Op struct {
	// create update delete | rcreate rupdate rdelete pull push | mkindex dropindex toggleindex (drop if it exists, else create)
	Kind string `json:"kind"`
	// N selects the target (document, message or index) modulo what exists.
	N int `json:"n,omitempty"`
	// Doc holds field -> JSON text (create: the document; update: the patch).
	Doc map[string]string `json:"doc,omitempty"`
	// Via (create update delete, on live documents): 0 Collection.Create/Update/Delete;
	// 1 CreateMany / Save / DeleteWithFilter on _docID; 2 Save / UpdateWithFilter on _docID / as 1.
	Via int `json:"via,omitempty"`
	// Last (push): the latest commit of the remote node instead of message N.
	Last bool `json:"last,omitempty"`
}

// F is a filter expression.
type F struct {
	Op   string `json:"op"` // and or not leaf
	Kids []*F   `json:"kids,omitempty"`
	// Implicit renders an `and` of leaves on distinct fields as one object {a:{..}, b:{..}}.
	Implicit bool `json:"implicit,omitempty"`

	Field string   `json:"field,omitempty"`
	Path  []string `json:"path,omitempty"` // JSON sub-path, or ["name"] for the relation
	Arr   string   `json:"arr,omitempty"`  // _any _all _none
	Cmp   string   `json:"cmp,omitempty"`
	Val   string   `json:"val,omitempty"`  // JSON text
	Vals  []string `json:"vals,omitempty"` // _in / _nin
	// Cmp2/Val2: a second operator in the same block, e.g. {_gt: 1, _lt: 5}.
	Cmp2 string `json:"cmp2,omitempty"`
	Val2 string `json:"val2,omitempty"`
	// FromDoc > 0: the operand Val is replaced at run time by the value that document
	// (FromDoc-1 modulo the documents) holds in the field, when it holds a usable scalar
	// (so that bounds hit stored values exactly whatever the history did).
	FromDoc int `json:"from_doc,omitempty"`
}

// Ord is one order key.
type Ord struct {
	F    string `json:"f"`
	Desc bool   `json:"desc,omitempty"`
}

// Query is one read compared between the twins.
type Query struct {
	Filter      *F    `json:"filter,omitempty"`
	Order       []Ord `json:"order,omitempty"`
	Limit       int   `json:"limit,omitempty"`  // 0 = none
	Offset      int   `json:"offset,omitempty"` // 0 = none
	ShowDeleted bool  `json:"show_deleted,omitempty"`
	DocIDs      []int `json:"doc_ids,omitempty"`
	// Agg: "" rows | count | sumk | mink | maxk
	Agg string `json:"agg,omitempty"`
}

// Case is one generated history plus queries.
type Case struct {
	// Avoid lists the known-finding signatures whose trigger the generator avoided by construction.
	Avoid  []string    `json:"avoid,omitempty"`
	Active []string    `json:"active"` // fields written and queried in this case
	Remote bool        `json:"remote,omitempty"`
	UIndex bool        `json:"u_index,omitempty"` // U.name indexed on the indexed twin
	Idx    []IndexSpec `json:"idx"`
	Ops    []Op        `json:"ops"`
	Qs     []Query     `json:"qs"`
}

func (c Case) avoids(sig string) bool {
	for _, s := range c.Avoid {
		if s == sig {
			return true
		}
	}
	return false
}

// ---------------------------------------------------------------------------
// JSON text helpers
// ---------------------------------------------------------------------------

func parseJSON(text string) any {
	dec := json.NewDecoder(strings.NewReader(text))
	dec.UseNumber()
	var v any
	if err := dec.Decode(&v); err != nil {
		panic(fmt.Sprintf("bad JSON text %q: %v", text, err))
	}
	return v
}

func jsonText(v any) string {
	var buf bytes.Buffer
	enc := json.NewEncoder(&buf)
	enc.SetEscapeHTML(false)
	if err := enc.Encode(v); err != nil {
		panic(err)
	}
	return strings.TrimSpace(buf.String())
}

// gqlLit renders a JSON value as a GraphQL literal (object keys unquoted).
func gqlLit(v any) string {
	switch x := v.(type) {
	case nil:
		return "null"
	case bool:
		if x {
			return "true"
		}
		return "false"
	case json.Number:
		return x.String()
	case string:
		b, _ := json.Marshal(x)
		return string(b)
	case []any:
		parts := make([]string, len(x))
		for i, e := range x {
			parts[i] = gqlLit(e)
		}
		return "[" + strings.Join(parts, ", ") + "]"
	case map[string]any:
		keys := make([]string, 0, len(x))
		for k := range x {
			keys = append(keys, k)
		}
		sort.Strings(keys)
		parts := make([]string, len(keys))
		for i, k := range keys {
			parts[i] = k + ": " + gqlLit(x[k])
		}
		return "{" + strings.Join(parts, ", ") + "}"
	}
	panic(fmt.Sprintf("gqlLit: %T", v))
}

func gqlText(text string) string { return gqlLit(parseJSON(text)) }

// normScalar gives a canonical comparable string for a scalar of the given kind
// (nil for null). It is the value equality the unique-index model uses.
func normScalar(kind string, v any) (string, bool) {
	if v == nil {
		return "", false
	}
	switch kind {
	case "int":
		n, ok := v.(json.Number)
		if !ok {
			return fmt.Sprintf("?%v", v), true
		}
		if i, err := n.Int64(); err == nil {
			return strconv.FormatInt(i, 10), true
		}
		f, _ := n.Float64()
		return strconv.FormatInt(int64(f), 10), true
	case "f64":
		n, _ := v.(json.Number)
		f, _ := strconv.ParseFloat(n.String(), 64)
		if f == 0 {
			f = 0 // -0 == +0
		}
		return strconv.FormatFloat(f, 'g', -1, 64), true
	case "f32":
		n, _ := v.(json.Number)
		f, _ := strconv.ParseFloat(n.String(), 32)
		g := float32(f)
		if g == 0 {
			g = 0
		}
		return strconv.FormatFloat(float64(g), 'g', -1, 32), true
	case "bool":
		return fmt.Sprint(v), true
	case "time":
		s, _ := v.(string)
		tm, err := time.Parse(time.RFC3339Nano, s)
		if err != nil {
			return "?" + s, true
		}
		return strconv.FormatInt(tm.Unix(), 10) + "." + strconv.Itoa(tm.Nanosecond()), true
	case "blob":
		s, _ := v.(string)
		return strings.ToLower(s), true
	default:
		s, _ := v.(string)
		return s, true
	}
}

// cmpScalar orders two non-null scalars of one kind (the order of the values themselves).
func cmpScalar(kind string, a, b any) int {
	switch kind {
	case "int":
		x, _ := a.(json.Number).Int64()
		y, _ := b.(json.Number).Int64()
		switch {
		case x < y:
			return -1
		case x > y:
			return 1
		}
		return 0
	case "f64", "f32":
		x, _ := strconv.ParseFloat(a.(json.Number).String(), 64)
		y, _ := strconv.ParseFloat(b.(json.Number).String(), 64)
		switch {
		case x < y:
			return -1
		case x > y:
			return 1
		}
		return 0
	case "bool":
		x, y := a.(bool), b.(bool)
		switch {
		case !x && y:
			return -1
		case x && !y:
			return 1
		}
		return 0
	case "time":
		x, _ := time.Parse(time.RFC3339Nano, a.(string))
		y, _ := time.Parse(time.RFC3339Nano, b.(string))
		return x.Compare(y)
	default:
		return strings.Compare(a.(string), b.(string))
	}
}

// neighbourInt clamps to the 32-bit range of GraphQL Int literals.
func clampInt32(i int64) int64 {
	if i > math.MaxInt32 {
		return math.MaxInt32
	}
	if i < math.MinInt32 {
		return math.MinInt32
	}
	return i
}
