package c07

import (
	"testing"

	"pgregory.net/rapid"
)

// The operator matrix: a fixed clean data set (every document carries every field, JSON values are objects
// whose "arr" is a non-empty array of numbers and whose "h" is a number, arrays are non-empty) against which
// EVERY combination of {array condition} x {operator} x {operand} is asked for the drawn field and index
// direction. In the free generator most of these shapes meet data that triggers a listed finding first
// (scalar JSON roots, absent paths, empty arrays), so a defect of the plain operator could hide behind it.

var matrixDocs = []map[string]string{
	{"i": `1`, "s": `"a"`, "f": `1.5`, "ai": `[1,2]`, "as": `["a","b"]`, "j": `{"h":1,"n":"a","arr":[1,2]}`},
	{"i": `2`, "s": `"ab"`, "f": `2`, "ai": `[1,3]`, "as": `["a"]`, "j": `{"h":2,"n":"ab","arr":[1,3]}`},
	{"i": `3`, "s": `"b"`, "f": `-1.5`, "ai": `[2]`, "as": `["b","b"]`, "j": `{"h":3,"n":"b","arr":[2]}`},
	{"i": `0`, "s": `"ba"`, "f": `0`, "ai": `[3,0]`, "as": `["ab","a"]`, "j": `{"h":0,"n":"ba","arr":[3,0]}`},
	{"i": `2`, "s": `"a"`, "f": `2`, "ai": `[2,1]`, "as": `["a"]`, "j": `{"h":2,"n":"a","arr":[2,1]}`},
	{"i": `-1`, "s": `"A"`, "f": `0.1`, "ai": `[5,5,5]`, "as": `["A"]`, "j": `{"h":-1,"n":"A","arr":[5]}`},
}

type matrixTarget struct {
	field string
	path  []string
	kind  string // int str f64
	arr   bool
}

var matrixTargets = []matrixTarget{
	{"i", nil, "int", false}, {"s", nil, "str", false}, {"f", nil, "f64", false},
	{"ai", nil, "int", true}, {"as", nil, "str", true},
	{"j", []string{"h"}, "int", false}, {"j", []string{"n"}, "str", false}, {"j", []string{"arr"}, "int", true},
}

var matrixOperands = map[string][]string{
	"int": {`1`, `2`, `4`},
	"str": {`"a"`, `"b"`, `"zz"`},
	"f64": {`2`, `0.1`, `7.5`},
}

var matrixLists = map[string][][]string{
	"int": {{`1`, `2`}, {`2`}, {`4`, `3`}, {}},
	"str": {{`"a"`, `"b"`}, {`"ab"`}, {`"zz"`}, {}},
	"f64": {{`2`, `0.1`}, {`7.5`}, {}},
}

func matrixCase(tg matrixTarget, desc, built bool, orderBy int) Case {
	c := Case{Active: []string{"i", "s", "f", "ai", "as", "j"}}
	c.Idx = []IndexSpec{{Name: "mx", Fields: []IdxField{{F: tg.field, Desc: desc}}, SDL: !built}}
	for _, d := range matrixDocs {
		c.Ops = append(c.Ops, Op{Kind: "create", Doc: d})
	}
	arrOps := []string{""}
	if tg.arr {
		arrOps = []string{"_any", "_all", "_none"}
	}
	cmps := []string{"_eq", "_ne", "_gt", "_ge", "_lt", "_le"}
	if tg.kind == "str" {
		// as in the free generator (opsFor): the range operators are not defined for strings
		cmps = []string{"_eq", "_ne", "_like", "_nlike", "_ilike", "_nilike"}
	}
	add := func(f *F) {
		q := Query{Filter: f}
		switch {
		case orderBy == 1 && !tg.arr && tg.path == nil:
			q.Order = []Ord{{F: tg.field}}
		case orderBy == 2 && !tg.arr && tg.path == nil:
			q.Order = []Ord{{F: tg.field, Desc: true}}
		case orderBy == 3:
			q.Order = []Ord{{F: "_docID"}}
		}
		c.Qs = append(c.Qs, q)
	}
	for _, ao := range arrOps {
		for _, cmp := range cmps {
			for _, v := range matrixOperands[tg.kind] {
				if cmp == "_like" || cmp == "_nlike" || cmp == "_ilike" || cmp == "_nilike" {
					for _, pat := range []string{`"a%"`, `"%b"`, `"%a%"`, `"a"`} {
						add(&F{Op: "leaf", Field: tg.field, Path: tg.path, Arr: ao, Cmp: cmp, Val: pat})
					}
					break
				}
				add(&F{Op: "leaf", Field: tg.field, Path: tg.path, Arr: ao, Cmp: cmp, Val: v})
			}
		}
		for _, cmp := range []string{"_in", "_nin"} {
			for _, l := range matrixLists[tg.kind] {
				vals := append([]string{}, l...)
				add(&F{Op: "leaf", Field: tg.field, Path: tg.path, Arr: ao, Cmp: cmp, Vals: vals})
			}
		}
	}
	return c
}

// TestC07Matrix draws the target field, the index direction, whether the index is declared or built over
// the data, and the order clause; the queries of a case are the full operator matrix for that target.
func TestC07Matrix(t *testing.T) {
	rapid.Check(t, func(t *rapid.T) {
		tg := matrixTargets[rapid.IntRange(0, len(matrixTargets)-1).Draw(t, "target")]
		c := matrixCase(tg, rapid.Bool().Draw(t, "desc"), rapid.Bool().Draw(t, "built"), rapid.IntRange(0, 3).Draw(t, "orderBy"))
		evalCase(t, c)
	})
}
