package c07

import (
	"encoding/json"
	"fmt"
	"sort"
	"strings"

	"github.com/sourcenetwork/defradb/verifharness/hx"
)

// ---------------------------------------------------------------------------
// Rendering
// ---------------------------------------------------------------------------

func (r *runner) leafInner(f *F) string {
	var block string
	if f.Cmp == "_in" || f.Cmp == "_nin" {
		parts := make([]string, len(f.Vals))
		for i, v := range f.Vals {
			parts[i] = r.lit(v)
		}
		block = "{" + f.Cmp + ": [" + strings.Join(parts, ", ") + "]}"
	} else {
		block = "{" + f.Cmp + ": " + r.operand(f)
		if f.Cmp2 != "" {
			block += ", " + f.Cmp2 + ": " + r.lit(f.Val2)
		}
		block += "}"
	}
	if f.Arr != "" {
		block = "{" + f.Arr + ": " + block + "}"
	}
	for i := len(f.Path) - 1; i >= 0; i-- {
		block = "{" + f.Path[i] + ": " + block + "}"
	}
	return block
}

// operand renders the operand of a scalar leaf, taking it from a stored document when asked to.
func (r *runner) operand(f *F) string {
	if f.FromDoc > 0 && len(r.docs) > 0 && len(f.Path) == 0 {
		fd := fdef(f.Field)
		v := r.docs[(f.FromDoc-1)%len(r.docs)].Vals[f.Field]
		if arr, ok := v.([]any); ok && fd.Arr && len(arr) > 0 {
			v = arr[0]
		}
		switch x := v.(type) {
		case json.Number:
			if fd.Kind == "int" {
				if i, err := x.Int64(); err != nil || i != clampInt32(i) {
					break // not expressible as a GraphQL Int literal
				}
			}
			if fd.Kind == "int" || fd.Kind == "f64" || fd.Kind == "f32" {
				return gqlLit(x)
			}
		case string:
			if fd.Kind == "str" || fd.Kind == "time" || fd.Kind == "blob" || fd.Kind == "rel" {
				return gqlLit(x)
			}
		case bool:
			if fd.Kind == "bool" {
				return gqlLit(x)
			}
		}
	}
	return r.lit(f.Val)
}

func leafKey(f *F) string {
	fd := fdef(f.Field)
	if fd.Kind == "rel" && len(f.Path) == 0 {
		return fd.Name + "_id"
	}
	return fd.Name
}

func (r *runner) renderF(f *F) string {
	switch f.Op {
	case "leaf":
		return "{" + leafKey(f) + ": " + r.leafInner(f) + "}"
	case "not":
		return "{_not: " + r.renderF(f.Kids[0]) + "}"
	case "and", "or":
		if f.Op == "and" && f.Implicit {
			parts := make([]string, len(f.Kids))
			for i, k := range f.Kids {
				parts[i] = leafKey(k) + ": " + r.leafInner(k)
			}
			return "{" + strings.Join(parts, ", ") + "}"
		}
		parts := make([]string, len(f.Kids))
		for i, k := range f.Kids {
			parts[i] = r.renderF(k)
		}
		return "{_" + f.Op + ": [" + strings.Join(parts, ", ") + "]}"
	}
	panic("filter op " + f.Op)
}

func (r *runner) selection(q Query) []string {
	sel := []string{"_docID", "k"}
	for _, f := range r.c.Active {
		sel = append(sel, fdef(f).selName())
	}
	if q.ShowDeleted {
		sel = append(sel, "_deleted")
	}
	return sel
}

func (r *runner) renderQuery(q Query, explain bool) string {
	var args []string
	if q.Filter != nil {
		args = append(args, "filter: "+r.renderF(q.Filter))
	}
	head := "query"
	if explain {
		head = "query @explain(type: execute)"
	}
	if q.Agg != "" {
		switch q.Agg {
		case "count":
			return fmt.Sprintf("%s { _count(T: {%s}) }", head, strings.Join(args, ", "))
		case "sumk":
			return fmt.Sprintf("%s { _sum(T: {field: k, %s}) }", head, strings.Join(args, ", "))
		case "mink":
			return fmt.Sprintf("%s { _min(T: {field: k, %s}) }", head, strings.Join(args, ", "))
		case "maxk":
			return fmt.Sprintf("%s { _max(T: {field: k, %s}) }", head, strings.Join(args, ", "))
		}
		panic("agg " + q.Agg)
	}
	if len(q.Order) > 0 {
		parts := make([]string, len(q.Order))
		for i, o := range q.Order {
			dir := "ASC"
			if o.Desc {
				dir = "DESC"
			}
			parts[i] = "{" + o.F + ": " + dir + "}"
		}
		if len(parts) == 1 {
			args = append(args, "order: "+parts[0])
		} else {
			args = append(args, "order: ["+strings.Join(parts, ", ")+"]")
		}
	}
	if q.Limit > 0 {
		args = append(args, fmt.Sprintf("limit: %d", q.Limit))
	}
	if q.Offset > 0 {
		args = append(args, fmt.Sprintf("offset: %d", q.Offset))
	}
	if q.ShowDeleted {
		args = append(args, "showDeleted: true")
	}
	if len(q.DocIDs) > 0 && len(r.docs) > 0 {
		ids := make([]string, len(q.DocIDs))
		for i, n := range q.DocIDs {
			ids[i] = fmt.Sprintf("%q", r.docs[n%len(r.docs)].ID)
		}
		args = append(args, "docID: ["+strings.Join(ids, ", ")+"]")
	}
	a := ""
	if len(args) > 0 {
		a = "(" + strings.Join(args, ", ") + ")"
	}
	return fmt.Sprintf("%s { T%s { %s } }", head, a, strings.Join(r.selection(q), " "))
}

// ---------------------------------------------------------------------------
// Which index the planner takes, and which condition drives it (for signatures)
// ---------------------------------------------------------------------------

func walkLeaves(f *F, underNot bool, fn func(l *F, underNot bool)) {
	if f == nil {
		return
	}
	if f.Op == "leaf" {
		fn(f, underNot)
		return
	}
	for _, k := range f.Kids {
		walkLeaves(k, underNot || f.Op == "not", fn)
	}
}

func hasOr(f *F) bool {
	if f == nil {
		return false
	}
	if f.Op == "or" && len(f.Kids) > 1 {
		return true
	}
	for _, k := range f.Kids {
		if hasOr(k) {
			return true
		}
	}
	return false
}

// chosenIndex mirrors findIndexByFilteringField / findIndexByOrderingField: the candidate
// with the smallest name among indexes whose first field the filter mentions, else the
// first index on the first order key.
func (r *runner) chosenIndex(q Query) (int, bool) {
	mentioned := map[string]bool{}
	walkLeaves(q.Filter, false, func(l *F, _ bool) {
		// the planner walks the filter down to scalar operands: an empty _in/_nin list has none
		if (l.Cmp == "_in" || l.Cmp == "_nin") && len(l.Vals) == 0 {
			return
		}
		mentioned[leafKey(l)] = true
	})
	best := -1
	for i, ix := range r.c.Idx {
		if !r.exists[i] {
			continue
		}
		if mentioned[fdef(ix.Fields[0].F).selName()] {
			if best < 0 || ix.Name < r.c.Idx[best].Name {
				best = i
			}
		}
	}
	if best >= 0 {
		return best, true
	}
	return -1, false
}

// candidateIndexes lists the indexes the planner may have taken for q: the one chosen by the
// filter, else every existing index whose first field is the first order key.
func (r *runner) candidateIndexes(q Query) []int {
	if i, ok := r.chosenIndex(q); ok {
		return []int{i}
	}
	var out []int
	if len(q.Order) > 0 {
		for i, ix := range r.c.Idx {
			if r.exists[i] && fdef(ix.Fields[0].F).selName() == q.Order[0].F {
				out = append(out, i)
			}
		}
	}
	return out
}

// indexProvidesOrder mirrors CanBeOrderedByIndex for the candidate indexes.
func (r *runner) indexProvidesOrder(q Query) bool {
	return r.someIndexProvidesOrder(q, r.candidateIndexes(q))
}

// anyIndexProvidesOrder: some existing index could supply the order (used where the planner's
// choice is not modelled exactly, e.g. with relation conditions in the filter).
func (r *runner) anyIndexProvidesOrder(q Query) bool {
	var all []int
	for i := range r.c.Idx {
		if r.exists[i] {
			all = append(all, i)
		}
	}
	return r.someIndexProvidesOrder(q, all)
}

func (r *runner) someIndexProvidesOrder(q Query, candidates []int) bool {
	for _, i := range candidates {
		ix := r.c.Idx[i]
		if len(q.Order) == 0 || len(q.Order) > len(ix.Fields) {
			continue
		}
		mismatch, ok := 0, true
		for k, o := range q.Order {
			if fdef(ix.Fields[k].F).selName() != o.F {
				ok = false
				break
			}
			if ix.Fields[k].Desc != o.Desc {
				mismatch++
			}
		}
		if ok && (mismatch == 0 || mismatch == len(q.Order)) {
			return true
		}
	}
	return false
}

// driver names the operator of the condition on the chosen index's first field.
func (r *runner) driver(q Query) (string, []*F) {
	i, ok := r.chosenIndex(q)
	if !ok {
		if len(q.Order) > 0 {
			return "order-only", nil
		}
		return "none", nil
	}
	first := fdef(r.c.Idx[i].Fields[0].F).selName()
	var ls []*F
	walkLeaves(q.Filter, false, func(l *F, underNot bool) {
		if leafKey(l) == first && !underNot {
			ls = append(ls, l)
		}
	})
	if len(ls) == 0 {
		return "under-not", nil
	}
	if len(ls) > 1 {
		return "multi", ls
	}
	l := ls[0]
	op := l.Cmp
	if l.Cmp2 != "" {
		op = "range-pair"
	}
	if l.Arr != "" {
		op = l.Arr + op
	}
	if fdef(l.Field).Kind == "json" {
		op = "json" + op
	}
	return op, ls
}

// ---------------------------------------------------------------------------
// Comparison
// ---------------------------------------------------------------------------

func sumIndexFetches(v any) int64 {
	var n int64
	switch x := v.(type) {
	case map[string]any:
		for k, e := range x {
			if k == "indexFetches" {
				if num, ok := e.(json.Number); ok {
					i, _ := num.Int64()
					n += i
				}
				continue
			}
			n += sumIndexFetches(e)
		}
	case []any:
		for _, e := range x {
			n += sumIndexFetches(e)
		}
	}
	return n
}

func keyTuples(rows []map[string]any, order []Ord) []string {
	out := make([]string, len(rows))
	for i, row := range rows {
		parts := make([]any, len(order))
		for k, o := range order {
			parts[k] = row[o.F]
		}
		out[i] = hx.Canon(parts)
	}
	return out
}

type rowDiff struct {
	missing, extra, duplicated []map[string]any
}

func diffRows(a, b []map[string]any) rowDiff {
	ca, cb := map[string]int{}, map[string]int{}
	for _, r := range a {
		ca[hx.Canon(r)]++
	}
	for _, r := range b {
		cb[hx.Canon(r)]++
	}
	var d rowDiff
	seen := map[string]bool{}
	for _, r := range b {
		k := hx.Canon(r)
		if seen[k] {
			continue
		}
		seen[k] = true
		if ca[k] == 0 {
			d.missing = append(d.missing, r)
		}
	}
	seen = map[string]bool{}
	for _, r := range a {
		k := hx.Canon(r)
		if seen[k] {
			continue
		}
		seen[k] = true
		if cb[k] == 0 {
			d.extra = append(d.extra, r)
		} else if ca[k] > cb[k] {
			d.duplicated = append(d.duplicated, r)
		} else if ca[k] < cb[k] {
			d.missing = append(d.missing, r)
		}
	}
	return d
}

func (d rowDiff) empty() bool { return len(d.missing)+len(d.extra)+len(d.duplicated) == 0 }

func showRows(rows []map[string]any) string {
	s := make([]string, len(rows))
	for i, r := range rows {
		s[i] = hx.Canon(r)
	}
	return "[" + strings.Join(s, "\n   ") + "]"
}

// sortedByKeys reports whether the rows follow the requested order on every key
// (nulls first ascending, last descending).
func sortedByKeys(rows []map[string]any, order []Ord, nKeys int) bool {
	for i := 1; i < len(rows); i++ {
		for k := 0; k < nKeys; k++ {
			o := order[k]
			a, b := rows[i-1][o.F], rows[i][o.F]
			var w int
			switch {
			case a == nil && b == nil:
				w = 0
			case a == nil:
				w = -1
			case b == nil:
				w = 1
			default:
				w = cmpScalar(fdef(o.F).Kind, a, b)
			}
			if o.Desc {
				w = -w
			}
			if w < 0 {
				break
			}
			if w > 0 {
				return false
			}
		}
	}
	return true
}

func sortedWithoutDeleted(rows []map[string]any, order []Ord) bool {
	var live []map[string]any
	nDeleted := 0
	for _, row := range rows {
		if del, _ := row["_deleted"].(bool); del {
			nDeleted++
			continue
		}
		live = append(live, row)
	}
	return nDeleted > 0 && sortedByKeys(live, order, len(order))
}

func (r *runner) compare(qi int, q Query) *hx.Failure {
	text := r.renderQuery(q, false)
	ra := r.node(nodeA).Exec(text)
	rb := r.node(nodeB).Exec(text)
	r.out.nQueries++
	drv, leaves := r.driver(q)
	ctx := func() string {
		var idx []string
		for i, ix := range r.c.Idx {
			if r.exists[i] {
				idx = append(idx, fmt.Sprintf("%+v", ix))
			}
		}
		return fmt.Sprintf("query #%d %s\n indexes: %s\n documents: %s", qi, text, strings.Join(idx, "; "), r.dumpModel())
	}
	if ra.Panic != "" {
		emptyIn := false
		walkLeaves(q.Filter, false, func(l *F, underNot bool) { emptyIn = emptyIn || (l.Cmp == "_in" && len(l.Vals) == 0 && !underNot) })
		if emptyIn && strings.Contains(ra.Panic, "index out of range") && strings.Contains(ra.Panic, "createIteratorForNextValue") {
			return hx.Failf(sigInEmptyList, "an empty _in list on a field of the chosen index makes the index iterator read its first value out of range: %s", ctx())
		}
		if strings.Contains(ra.Panic, "Unclosed iterator at time of Txn.Discard") && hasIn(q.Filter) && (q.Limit > 0 || hasRelIn(q.Filter)) {
			return hx.Failf(sigInUnclosed, "an _in condition served from an index and not read to its end (a limit stops early, or a join restarts it) leaves the current index iterator open; the request panics at commit: %s", ctx())
		}
		return hx.Failf("C07/query-panic/"+hx.PanicSite(ra.Panic), "the indexed twin panics: %s\n%s", ctx(), ra.Panic)
	}
	if rb.Panic != "" {
		return hx.Failf("C07/twin-query-panic/"+hx.PanicSite(rb.Panic), "the twin WITHOUT indexes panics: %s\n%s", ctx(), rb.Panic)
	}
	if !ra.OK() && !rb.OK() {
		r.label("q:error-on-both")
		return nil
	}
	if !ra.OK() {
		if sig := r.diagnoseScanError(q, ra); sig != "" {
			return hx.Failf(sig, "only the indexed twin answers with an error %v (it evaluates the filter on other documents than the twin): %s", ra.Errors, ctx())
		}
		if sig := r.diagnoseIndexError(q, ra, leaves); sig != "" {
			return hx.Failf(sig, "only the indexed twin answers with an error %v: %s", ra.Errors, ctx())
		}
		return hx.Failf("C07/error-only-indexed/"+drv, "only the indexed twin answers with an error %v: %s", ra.Errors, ctx())
	}
	if !rb.OK() {
		if sig := r.diagnoseScanError(q, rb); sig != "" {
			return hx.Failf(sig, "only the twin without indexes answers with an error %v (the index path answers): %s", rb.Errors, ctx())
		}
		return hx.Failf("C07/error-only-twin/"+drv, "only the twin without indexes answers with an error %v: %s", rb.Errors, ctx())
	}

	// was the index used?
	ex := r.node(nodeA).Exec(r.renderQuery(q, true))
	served := ex.OK() && sumIndexFetches(ex.Data) > 0
	if served {
		r.out.nIndexServed++
		r.label("q:index-served")
		r.label("drv:" + drv)
	}

	// a discrepancy seen through an aggregate or a limit is attributed to what the same query
	// shows in plain row mode (limit and aggregate are applied after the fetch)
	rowMode := func() *hx.Failure {
		q2 := q
		q2.Agg, q2.Limit, q2.Offset = "", 0, 0
		if f := r.compare(qi, q2); f != nil {
			f.Msg = "seen through the limit/aggregate of " + text + ": " + f.Msg
			return f
		}
		return nil
	}
	if q.Agg != "" {
		if hx.Canon(ra.Data) != hx.Canon(rb.Data) {
			if f := rowMode(); f != nil {
				return f
			}
			return hx.Failf("C07/aggregate-differs/"+drv, "indexed twin %s, plain twin %s: %s", hx.Canon(ra.Data), hx.Canon(rb.Data), ctx())
		}
		if served {
			r.label("q:agg-index-served")
		}
		return nil
	}

	rowsA, rowsB := ra.Rows("T"), rb.Rows("T")
	if served && len(rowsB) > 0 {
		live := 0
		for _, d := range r.docs {
			if !d.Deleted || q.ShowDeleted {
				live++
			}
		}
		if len(rowsB) < live || q.Limit > 0 {
			r.out.nNontrivial++
		}
	}
	if len(q.Order) > 0 {
		ka, kb := keyTuples(rowsA, q.Order), keyTuples(rowsB, q.Order)
		if strings.Join(ka, "\n") != strings.Join(kb, "\n") {
			if q.Limit > 0 {
				// first see what the same query shows without the limit
				if f := rowMode(); f != nil {
					return f
				}
			}
			// which side is wrong? an order the rows themselves contradict
			okA := sortedByKeys(rowsA, q.Order, len(q.Order))
			okB := sortedByKeys(rowsB, q.Order, len(q.Order))
			d := diffRows(rowsA, rowsB)
			firstKeySame := strings.Join(keyTuples(rowsA, q.Order[:1]), "\n") == strings.Join(keyTuples(rowsB, q.Order[:1]), "\n")
			sig := "C07/order-keys-differ/" + drv
			switch {
			case q.Limit == 0 && !d.empty():
				// a membership difference: reported below with its own diagnosis
				sig = ""
			case len(q.Order) > 1 && firstKeySame && (q.Limit > 0 || d.empty()) &&
				sortedByKeys(rowsA, q.Order, 1) && sortedByKeys(rowsB, q.Order, 1) &&
				((okA && !okB) || !r.indexProvidesOrder(q) || q.ShowDeleted):
				// (with showDeleted the planner keeps the order node since 2481332; rows that are in
				// first-key order on both sides rule out the concatenation defect repaired there)
				// the order node compares the first key only (ties keep their arrival order); it is
				// in the plan of the twin without indexes, and of the indexed twin unless the index
				// supplies the order
				sig = sigScanOrderLaterKey
			case !okA && q.ShowDeleted && d.empty() && sortedWithoutDeleted(rowsA, q.Order) && r.anyIndexProvidesOrder(q) &&
				(okB || (len(q.Order) > 1 && sortedByKeys(rowsB, q.Order, 1))):
				// deleted documents are appended by a second fetcher; with the order node dropped
				// (index order) the concatenation is not sorted
				sig = sigShowDeletedOrder
			case !okA && okB:
				sig = "C07/order-not-sorted/" + drv
				if r.inListOrder(q, leaves) && (q.Limit > 0 || d.empty()) {
					sig = sigInListOrder
				}
			}
			if sig != "" {
				return hx.Failf(sig, "sort-key sequence differs (indexed rows sorted=%v, plain rows sorted=%v)\n indexed: %v\n plain:   %v\n %s", okA, okB, ka, kb, ctx())
			}
		}
		if served {
			r.label("q:ordered-index-served")
		}
	}
	if q.Limit > 0 {
		if len(rowsA) != len(rowsB) {
			if f := rowMode(); f != nil {
				return f
			}
			return hx.Failf("C07/limit-count-differs/"+drv, "indexed twin returns %d rows, plain twin %d: %s", len(rowsA), len(rowsB), ctx())
		}
		return nil
	}
	d := diffRows(rowsA, rowsB)
	if d.empty() {
		return nil
	}
	if sig := r.diagnoseRows(q, d, leaves); sig != "" {
		return hx.Failf(sig, "rows differ: missing on the indexed twin %s\n extra %s\n duplicated %s\n %s", showRows(d.missing), showRows(d.extra), showRows(d.duplicated), ctx())
	}
	kind := "rows-missing"
	switch {
	case len(d.extra) > 0:
		kind = "rows-extra"
	case len(d.missing) > 0:
		kind = "rows-missing"
	default:
		kind = "rows-duplicated"
	}
	return hx.Failf("C07/"+kind+"/"+drv, "rows differ: missing on the indexed twin %s\n extra %s\n duplicated %s\n %s", showRows(d.missing), showRows(d.extra), showRows(d.duplicated), ctx())
}

// ---------------------------------------------------------------------------
// Diagnosers: is a concrete discrepancy fully explained by a listed finding?
// Conservative: when in doubt they return "" and the generic signature is used.
// ---------------------------------------------------------------------------

const sigScanOrderLaterKey = "C07/order-keys-differ/scan-ignores-later-order-key"

func jsonAt(v any, path []string) (any, bool) {
	for _, p := range path {
		m, ok := v.(map[string]any)
		if !ok {
			return nil, false
		}
		v, ok = m[p]
		if !ok {
			return nil, false
		}
	}
	return v, true
}

// inListOrder: the index's first field carries an _in condition and is the first order key; the
// index then yields the rows in list order while the planner has dropped the order node.
func (r *runner) inListOrder(q Query, driving []*F) bool {
	if len(q.Order) == 0 {
		return false
	}
	for _, l := range driving {
		if l.Cmp == "_in" && l.Arr == "" && leafKey(l) == q.Order[0].F && len(l.Vals) > 1 {
			return true
		}
	}
	return false
}

// underMultiOr reports whether leaf l sits below an _or with at least two branches.
func underMultiOr(f *F, l *F, under bool) bool {
	if f == nil {
		return false
	}
	if f == l {
		return under
	}
	for _, k := range f.Kids {
		if underMultiOr(k, l, under || (f.Op == "or" && len(f.Kids) > 1)) {
			return true
		}
	}
	return false
}

// diagnoseIndexError explains an "unexpected type value" answer of the index path:
//   - a null (or unset) Blob value in the index met a string / like matcher;
//   - a condition on the JSON value itself (no path) other than _eq/_in is turned into a scalar
//     matcher that is then handed the JSON leaves.
func (r *runner) diagnoseIndexError(q Query, ra hx.Result, driving []*F) string {
	if !strings.Contains(ra.Err(), "unexpected type value") {
		return ""
	}
	i, ok := r.chosenIndex(q)
	if !ok {
		return ""
	}
	blobInIndex, jsonInIndex := false, false
	for _, f := range r.c.Idx[i].Fields {
		blobInIndex = blobInIndex || f.F == "bl"
		jsonInIndex = jsonInIndex || f.F == "j"
	}
	nullDoc := func(field string) bool {
		for _, d := range r.docs {
			if !d.Deleted && d.Vals[field] == nil {
				return true
			}
		}
		return false
	}
	onField := func(field string) bool {
		found := false
		walkLeaves(q.Filter, false, func(l *F, underNot bool) { found = found || (l.Field == field && !underNot) })
		return found
	}
	if blobInIndex && onField("bl") && nullDoc("bl") {
		return sigBlobMatcher
	}
	if jsonInIndex && onField("j") {
		rootCond := false
		jFirst := r.c.Idx[i].Fields[0].F == "j"
		walkLeaves(q.Filter, false, func(l *F, underNot bool) {
			// on a later field of a composite index every operator goes through a matcher
			if l.Field == "j" && !underNot && len(l.Path) == 0 && l.Arr == "" && (!jFirst || (l.Cmp != "_eq" && l.Cmp != "_in")) {
				rootCond = true
			}
			// ... also a condition on a path: the matcher built from the scalar operand is handed every
			// JSON leaf of the entries the leading fields select, whatever its path and type
			if l.Field == "j" && !underNot && !jFirst && l.Arr == "" && len(l.Path) > 0 {
				rootCond = true
			}
		})
		if rootCond {
			return sigJSONRootScalarMatcher
		}
	}
	return ""
}

func emptyOrNullArray(v any) bool {
	if v == nil {
		return true
	}
	arr, ok := v.([]any)
	return ok && len(arr) == 0
}

// diagnoseRows explains a row difference part by part (missing, extra, duplicated rows). It
// returns a known-finding signature only when every non-empty part is explained by one.
// underNegatedCompound reports whether leaf l sits below a _not whose operand is a compound.
func underNegatedCompound(f *F, l *F, under bool) bool {
	if f == nil {
		return false
	}
	if f == l {
		return under
	}
	for _, k := range f.Kids {
		if underNegatedCompound(k, l, under || (f.Op == "not" && k.Op != "leaf")) {
			return true
		}
	}
	return false
}

func (r *runner) diagnoseRows(q Query, d rowDiff, driving []*F) string {
	var sigs []string
	if len(d.missing) > 0 {
		s := r.explainMissing(q, d.missing, driving)
		if s == "" {
			return ""
		}
		sigs = append(sigs, s)
	}
	if len(d.extra) > 0 {
		s := r.explainExtra(q, d.extra)
		if s == "" {
			return ""
		}
		sigs = append(sigs, s)
	}
	if len(d.duplicated) > 0 {
		s := r.explainDuplicated(q, d.duplicated, driving)
		if s == "" {
			return ""
		}
		sigs = append(sigs, s)
	}
	if len(sigs) == 0 {
		return ""
	}
	return sigs[0]
}

// indexArrayFields lists the array fields of composite candidate indexes.
func (r *runner) compositeArrayFields(q Query) []FieldDef {
	var out []FieldDef
	// every index the planner may have taken: its first field is mentioned by the filter or is the
	// first order key (the planner's choice is not modelled exactly when relations are involved)
	mentioned := map[string]bool{}
	walkLeaves(q.Filter, false, func(l *F, _ bool) { mentioned[leafKey(l)] = true })
	if len(q.Order) > 0 {
		mentioned[q.Order[0].F] = true
	}
	for i, ix := range r.c.Idx {
		if !r.exists[i] || !mentioned[fdef(ix.Fields[0].F).selName()] {
			continue
		}
		if len(ix.Fields) < 2 {
			continue
		}
		for _, f := range ix.Fields {
			if fd := fdef(f.F); fd.Arr || fd.Kind == "json" {
				out = append(out, fd)
			}
		}
	}
	return out
}

// entryValues counts the index values a multi-valued field yields: distinct elements of an
// array, leaves of a JSON value (null array / unset: none).
func entryValues(fd FieldDef, v any) int {
	if fd.Arr {
		arr, ok := v.([]any)
		if !ok {
			return 0
		}
		distinct := map[string]bool{}
		for _, e := range arr {
			distinct[hx.Canon(e)] = true
		}
		return len(distinct)
	}
	if v == nil {
		return 0
	}
	return len(jsonLeafKeys(v))
}

// jsonLeafKeys lists the distinct index keys a JSON value yields: one per leaf, where the
// position of an array element is not part of the key (equal elements share one) and
// containers inside arrays are not descended into.
func jsonLeafKeys(v any) map[string]bool {
	out := map[string]bool{}
	var walk func(path string, v any)
	walk = func(path string, v any) {
		switch x := v.(type) {
		case map[string]any:
			for k, e := range x {
				walk(path+"/"+k, e)
			}
		case []any:
			for _, e := range x {
				switch e.(type) {
				case map[string]any, []any:
				default:
					out[path+"/[]="+hx.Canon(e)] = true
				}
			}
		default:
			out[path+"="+hx.Canon(x)] = true
		}
	}
	walk("", v)
	return out
}

// rowExplainer: a listed finding that accounts for a missing row when pred holds for it.
type rowExplainer struct {
	sig  string
	pred func(row map[string]any) bool
}

// explainMissing attributes every missing row to a finding. Several findings may share one
// query (e.g. a null JSON document and a non-string value under _nilike); the difference is
// explained only if each row is. A signature that is not listed as known (e.g. one that has
// been repaired) takes precedence in the answer, so that its return is reported.
func (r *runner) explainMissing(q Query, missing []map[string]any, driving []*F) string {
	always := func(map[string]any) bool { return true }
	var ex []rowExplainer
	add := func(sig string, pred func(row map[string]any) bool) { ex = append(ex, rowExplainer{sig, pred}) }

	// a document that went through a partial-document update not carrying every indexed field:
	// its entries were rewritten from the partial document
	add(sigPartialUpdate, func(row map[string]any) bool {
		id, _ := row["_docID"].(string)
		d := r.byID[id]
		return d != nil && d.Partial
	})
	// an index with an array field holds no entry at all for a document whose array is null or
	// empty: whatever the query, such documents cannot come out of that index
	if afs := r.compositeArrayFields(q); len(afs) > 0 {
		add(sigCompositeArrayEmpty, func(row map[string]any) bool {
			for _, fd := range afs {
				if entryValues(fd, row[fd.selName()]) == 0 {
					return true
				}
			}
			return false
		})
	}
	// a condition on the related document with an index on either side of the relation
	relCond := false
	walkLeaves(q.Filter, false, func(l *F, underNot bool) {
		relCond = relCond || (fdef(l.Field).Kind == "rel" && len(l.Path) > 0 && !underNot)
	})
	ownerIndexed := r.c.UIndex
	for i, ix := range r.c.Idx {
		ownerIndexed = ownerIndexed || (r.exists[i] && ix.Fields[0].F == "owner")
	}
	if relCond && ownerIndexed {
		add(sigRelNe, always)
	}
	chosen, hasChosen := r.chosenIndex(q)
	// a JSON condition that "nothing there" satisfies on the scan path (h: {_eq: null}, _ne, _nin,
	// _nlike ... on a document without that path, or whose JSON value is null): the index looks
	// under the path prefix, where such a document has no entry
	if hasChosen && r.c.Idx[chosen].Fields[0].F == "j" && len(driving) > 0 {
		add(sigJSONNullDocMissing, func(row map[string]any) bool {
			if row["j"] == nil {
				return true
			}
			for _, l := range driving {
				if len(l.Path) > 0 {
					v, found := jsonAt(row["j"], l.Path)
					if !found {
						return true
					}
					// an array or object at the path has index entries only BELOW the path, none at it:
					// for a condition that such a value satisfies on the scan path (a negated operator
					// without array quantifier) the document is as absent from the index as one without the path
					if l.Arr == "" && (l.Cmp == "_ne" || l.Cmp == "_nin" || l.Cmp == "_nlike" || l.Cmp == "_nilike") {
						switch v.(type) {
						case map[string]any, []any:
							return true
						}
					}
				}
			}
			return false
		})
	}
	// _in with null on a unique index: the null is looked up as an exact key, but entries with a
	// null field carry the docID in the key
	if hasChosen && r.c.Idx[chosen].Unique {
		for _, l := range driving {
			if l.Cmp != "_in" || l.Arr != "" {
				continue
			}
			hasNull := false
			for _, v := range l.Vals {
				hasNull = hasNull || v == "null"
			}
			if hasNull {
				key := leafKey(l)
				add(sigInNullUnique, func(row map[string]any) bool { return row[key] == nil })
			}
		}
	}
	if hasChosen {
		inIndex := map[string]bool{}
		for _, f := range r.c.Idx[chosen].Fields {
			inIndex[fdef(f.F).selName()] = true
		}
		// a condition on a field of the chosen index below a multi-branch _or: the index fetches only
		// the rows of that one condition, the rows of the other branches are missing
		found := false
		walkLeaves(q.Filter, false, func(l *F, underNot bool) {
			if !underNot && inIndex[leafKey(l)] && underMultiOr(q.Filter, l, false) {
				found = true
			}
			// a negated compound (_not over _and/_or/_not) is rewritten by the same copy-and-normalise
			// step, which can turn a condition of an index field inside it into a positive one
			if underNot && inIndex[leafKey(l)] && underNegatedCompound(q.Filter, l, false) {
				found = true
			}
		})
		if found {
			add(sigOrBranch, always)
		}
		// a range operator with a null operand on an index field: the index matcher reads it as
		// "is not null", the scan path lets null satisfy _le / _ge null
		walkLeaves(q.Filter, false, func(l *F, underNot bool) {
			if underNot || !inIndex[leafKey(l)] {
				return
			}
			for _, c := range [][2]string{{l.Cmp, l.Val}, {l.Cmp2, l.Val2}} {
				if (c[0] == "_le" || c[0] == "_ge" || c[0] == "_lt" || c[0] == "_gt") && c[1] == "null" {
					key := leafKey(l)
					add(sigRangeNullOperand, func(row map[string]any) bool { return row[key] == nil })
				}
			}
		})
	}
	for _, l := range driving {
		l := l
		fd := fdef(l.Field)
		sel := fd.selName()
		// _all on an indexed array: rows with an empty array satisfy _all vacuously on the scan
		// path but have no index entries
		if l.Arr == "_all" {
			add(sigAllEmptyArray, func(row map[string]any) bool {
				v := row[sel]
				if fd.Kind == "json" {
					v, _ = jsonAt(v, l.Path)
				}
				arr, ok := v.([]any)
				return ok && len(arr) == 0
			})
		}
		// _ilike with a pattern x%y: the index lowers the value but splits the pattern before
		// lowering it, so the two halves keep their case
		if l.Cmp == "_ilike" && l.Arr == "" && len(l.Path) == 0 {
			pat, _ := r.resolve(l.Val).(string)
			if i := strings.Index(pat, "%"); i > 0 && i < len(pat)-1 && pat != strings.ToLower(pat) {
				add(sigIlikeInfixCase, always)
			}
		}
		negLike := l.Cmp == "_nlike" || l.Cmp == "_nilike"
		// _nlike / _nilike on an indexed string: rows whose value is null
		if negLike && l.Arr == "" && fd.Kind != "json" {
			add(sigNlikeNull, func(row map[string]any) bool { return row[sel] == nil })
		}
		// JSON conditions evaluated against index leaves instead of the value the filter names
		// the same like matcher under _any / _all: an array at the path holding a non-string element
		if fd.Kind == "json" && (l.Arr == "_any" || l.Arr == "_all") && negLike {
			add(sigJSONNlikeNonString, func(row map[string]any) bool {
				v, found := jsonAt(row["j"], l.Path)
				arr, ok := v.([]any)
				if !found || !ok {
					return false
				}
				for _, e := range arr {
					switch e.(type) {
					case string, map[string]any, []any:
					default:
						return true
					}
				}
				return false
			})
		}
		if fd.Kind == "json" && l.Arr == "" {
			// a condition on the JSON value itself (no path) other than equality: the operand is
			// encoded as a plain scalar and matched against every leaf at any path
			if len(l.Path) == 0 && l.Cmp != "_eq" && l.Cmp != "_in" {
				add(sigJSONRootOnLeaves, func(row map[string]any) bool { return row["j"] != nil })
			}
			// equality (_eq / _in) of the JSON value itself with a scalar: the operand is encoded as a plain
			// scalar, not as a JSON leaf at the empty path, so documents whose JSON value is that scalar are
			// never found through the index
			if len(l.Path) == 0 && (l.Cmp == "_eq" || l.Cmp == "_in") {
				add(sigJSONRootScalarEq, func(row map[string]any) bool {
					switch row["j"].(type) {
					case nil, map[string]any, []any:
						return false
					}
					return true
				})
			}
			// _nlike / _nilike: the like matcher answers "no match" for any leaf that is not a string,
			// whatever the negation, so documents holding a non-string scalar there are dropped
			if negLike {
				add(sigJSONNlikeNonString, func(row map[string]any) bool {
					v, found := jsonAt(row["j"], l.Path)
					if !found || row["j"] == nil {
						return false
					}
					switch v.(type) {
					case map[string]any, []any, string:
						return false
					}
					return true
				})
			}
		}
	}

	return attribute(missing, ex)
}

// explainExtra: rows the filter excludes can only come out when the filter is not applied:
// the inverted join (index on the related collection's field) drops the conditions that stand
// next to the relation condition in one filter object.
func (r *runner) explainExtra(q Query, extra []map[string]any) string {
	relLeaf, others := false, false
	walkLeaves(q.Filter, false, func(l *F, underNot bool) {
		if fdef(l.Field).Kind == "rel" && len(l.Path) > 0 && !underNot {
			relLeaf = true
		} else {
			others = true
		}
	})
	if relLeaf && others && r.c.UIndex {
		return sigInvertedJoinDropsConds
	}
	return ""
}

func (r *runner) explainDuplicated(q Query, dup []map[string]any, driving []*F) string {
	always := func(map[string]any) bool { return true }
	var ex []rowExplainer
	// a composite index with an array or JSON field read without a usable condition on its first
	// field (none at all, or only below _or / _not, which the index does not use): it is walked in
	// index order without the de-duplicating iterator, one row per entry
	firstFieldCondition := false
	if i, ok := r.chosenIndex(q); ok {
		first := fdef(r.c.Idx[i].Fields[0].F).selName()
		walkLeaves(q.Filter, false, func(l *F, underNot bool) {
			// a negated operator (or an empty list) gives the index nothing to seek by: the index is
			// still walked entry by entry in its own order
			// (an _in list is served by its own iterator, one index scan per listed value, which is not
			// wrapped by the de-duplicating iterator either)
			negated := l.Cmp == "_ne" || l.Cmp == "_nin" || l.Cmp == "_nlike" || l.Cmp == "_nilike" || l.Cmp == "_in"
			if leafKey(l) == first && !underNot && !negated && !underMultiOr(q.Filter, l, false) {
				firstFieldCondition = true
			}
		})
	}
	if afs := r.compositeArrayFields(q); len(afs) > 0 && !firstFieldCondition {
		ex = append(ex, rowExplainer{sigCompositeArrayDup, func(row map[string]any) bool {
			for _, fd := range afs {
				if entryValues(fd, row[fd.selName()]) > 1 {
					return true
				}
			}
			return false
		}})
	}
	// _in with a repeated list element: the row comes back once per repetition
	inDup := false
	walkLeaves(q.Filter, false, func(l *F, underNot bool) {
		if l.Cmp != "_in" || underNot {
			return
		}
		seen := map[string]bool{}
		for _, v := range l.Vals {
			k := hx.Canon(r.resolve(v))
			inDup = inDup || seen[k]
			seen[k] = true
		}
	})
	if inDup {
		ex = append(ex, rowExplainer{sigInDuplicates, always})
	}
	return attribute(dup, ex)
}

// attribute assigns every row to a finding: to a listed (known) one if one accounts for it, else
// to an unlisted one (e.g. a repaired defect coming back, which is then reported). It returns ""
// if some row has no explanation.
func attribute(rows []map[string]any, ex []rowExplainer) string {
	var first, unlisted string
	for _, row := range rows {
		sig := ""
		for _, wantKnown := range []bool{true, false} {
			for _, e := range ex {
				if sig == "" && rec.IsKnown(e.sig) == wantKnown && e.pred(row) {
					sig = e.sig
				}
			}
		}
		if sig == "" {
			return ""
		}
		if !rec.IsKnown(sig) {
			unlisted = sig
		}
		if first == "" {
			first = sig
		}
	}
	if unlisted != "" {
		return unlisted
	}
	return first
}

// diagnoseScanError: a JSON path condition errors on the scan path when some document's
// JSON value is not an object.
func (r *runner) diagnoseScanError(q Query, rb hx.Result) string {
	if !strings.Contains(rb.Err(), "field or alias not found") {
		return ""
	}
	hasPath := false
	walkLeaves(q.Filter, false, func(l *F, _ bool) {
		if fdef(l.Field).Kind == "json" && len(l.Path) > 0 {
			hasPath = true
		}
	})
	if !hasPath {
		return ""
	}
	for _, d := range r.docs {
		if v := d.Vals["j"]; v != nil {
			if _, ok := v.(map[string]any); !ok {
				return sigJSONPathScanErr
			}
		}
	}
	return ""
}

var _ = sort.Strings
