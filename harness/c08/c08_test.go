package c08

import (
	"encoding/json"
	"fmt"
	"regexp"
	"strings"
	"testing"

	"pgregory.net/rapid"

	"github.com/sourcenetwork/defradb/verifharness/hx"
)

func TestMain(m *testing.M) { hx.Main(m) }

var rec = hx.NewRecorder("C08",
	"(a)+(b): 0-25 documents over {s,i,f,b,t} from small value pools (nulls, ties, 32-bit edges, exact floats) and one query drawn as a program: "+
		"filter tree of depth<=3 over the operators read by introspection, 0-3 order keys with mixed directions (optionally _docID last), limit/offset, "+
		"optional groupBy (1-2 fields) with a _group selection and up to 3 aggregates (_count _sum _avg _min _max) each with own filter/order/limit; "+
		"non-trivial = the filter keeps some but not all documents, or >=2 order keys with a tie on the first key decided by a later key, or an aggregate over >=2 values, or >=2 groups sharing members. "+
		"(c): request strings from the query/commits/latestCommits/_version/time-travel/explain/introspection/relation/mutation grammars with 0-3 token mutations against a database with signed commits, "+
		"a deleted document, a branchable collection and an index; non-trivial = the request got past parsing and validation (planner reached). distinct = distinct case",
	"null is a value equal only to null; ordering comparisons (_gt _ge _lt _le) on a null field are false; with a null operand null is the smallest value (_gt:null = is not null, _ge:null = true, _lt:null = false, _le:null = is null)",
	"negated operators (_ne _nin _nlike _nilike) and _not are exact complements (a null field satisfies them)",
	"null sorts first ascending and last descending; strings order by code point; false < true",
	"_sum of nothing is 0, _avg of nothing is 0, _min/_max of nothing is null; _sum of Int is an Int; _avg/_min/_max skip nulls; _count counts documents",
	"_like/_ilike are SQL LIKE with '%' as the only wildcard; patterns with a lone or doubled '%' are not generated",
	"for _avg with limit/offset it is not documented whether nulls are dropped before or after the slice: both are accepted",
	"a slice (limit/offset) of an order with ties is compared on sort keys; an aggregate over such a slice is checked only when the tied documents agree on the aggregated value; without any order the slice is compared with the enumeration of the same request without limit",
	"limit 0, negative limit/offset and ordering of groups by non-group fields are outside the documented semantics and only exercised by the no-panic sub-check",
	"float values are multiples of 2^-10 below 2^21 and ints are within ±2^40 (main domain), so every sum is exact in float64 and == is used; integers beyond 2^53 form a separately signed sub-domain",
	"a hang is reported only when the request goroutine is found blocked after 30 s; a still-running request is inconclusive",
)

var operandTokRe = regexp.MustCompile(`"(?:\\.|[^"\\])*"|-?\d+(?:\.\d+)?|null|true|false|[A-Za-z_][A-Za-z0-9_]*|[{}\[\]:,]`)

// operandDiff counts the tokens in which two rendered filters differ; -1 when their shapes differ
// (different length, or a difference in a field/operator name or punctuation).
func operandDiff(a, b string) int {
	ta, tb := operandTokRe.FindAllString(a, -1), operandTokRe.FindAllString(b, -1)
	if len(ta) != len(tb) {
		return -1
	}
	isOperand := func(s string) bool {
		c := s[0]
		return c == '"' || c == '-' || (c >= '0' && c <= '9') || s == "null" || s == "true" || s == "false"
	}
	d := 0
	for i := range ta {
		if ta[i] != tb[i] {
			if !isOperand(ta[i]) || !isOperand(tb[i]) {
				return -1
			}
			d++
		}
	}
	return d
}

func evalLabels(c Case) []string {
	l := []string{"eval"}
	q := c.Q
	if q.Grouped {
		l = append(l, fmt.Sprintf("shape:grouped-by-%d", len(q.GroupBy)))
		if q.Member != nil {
			l = append(l, "group:member-selection")
			if q.Member.Limit > 0 || q.Member.Offset > 0 {
				l = append(l, "group:member-limit")
			}
			if len(q.Member.Order) > 0 {
				l = append(l, fmt.Sprintf("group:member-order-keys-%d", len(q.Member.Order)))
			}
		}
	} else {
		l = append(l, "shape:rows")
	}
	l = append(l, fmt.Sprintf("order-keys:%d", len(q.Order)))
	if q.Limit > 0 || q.Offset > 0 {
		l = append(l, "limit-or-offset")
	}
	l = append(l, fmt.Sprintf("filter-depth:%d", q.Filter.depth()))
	ops := map[string]bool{}
	q.Filter.walk(func(f *Filter) {
		if f.Kind == "leaf" {
			ops[f.Op] = true
			if (f.Val != nil && f.Val.isNull()) || func() bool {
				for _, v := range f.Vals {
					if v.isNull() {
						return true
					}
				}
				return false
			}() {
				ops["null-operand"] = true
			}
		} else {
			ops["_"+f.Kind] = true
		}
	})
	for o := range ops {
		l = append(l, "op:"+o)
	}
	for _, a := range q.Aggs {
		l = append(l, "agg:"+a.Fn)
		if a.Sub.Limit > 0 || a.Sub.Offset > 0 {
			l = append(l, "agg:with-limit")
		}
		if len(a.Sub.Order) > 0 {
			l = append(l, "agg:with-order")
		}
		if a.Sub.Filter != nil {
			l = append(l, "agg:with-filter")
		}
	}
	if q.Grouped {
		// consumers of _group: the rendered selection and every aggregate
		type consumer struct {
			f       string
			args    string
			isCount bool
		}
		cons := []consumer{}
		argsOf := func(s Sub, count bool) string {
			if count {
				s.Order = nil
			}
			s.Filter = nil
			return strings.Join(s.args(), ",")
		}
		if q.Member != nil {
			cons = append(cons, consumer{q.Member.Filter.gql(), argsOf(*q.Member, false), false})
		}
		for _, a := range q.Aggs {
			cons = append(cons, consumer{a.Sub.Filter.gql(), argsOf(a.Sub, a.Fn == "_count"), a.Fn == "_count"})
		}
		almost, same := false, false
		for i := range cons {
			for j := i + 1; j < len(cons); j++ {
				if cons[i].args != cons[j].args {
					continue
				}
				switch d := operandDiff(cons[i].f, cons[j].f); {
				case d == 0:
					same = true
				case d == 1:
					almost = true
				}
			}
		}
		if almost {
			l = append(l, "sibling-filters-differ-in-one-operand")
		}
		if same {
			l = append(l, "sibling-filters-identical")
		}
	}
	if c.Big {
		l = append(l, "domain:int-beyond-2^53")
	}
	if c.Avoid {
		l = append(l, "known-finding-triggers-avoided")
	}
	switch n := len(c.Docs); {
	case n == 0:
		l = append(l, "docs:0")
	case n <= 3:
		l = append(l, "docs:1-3")
	case n <= 10:
		l = append(l, "docs:4-10")
	default:
		l = append(l, "docs:11-25")
	}
	return l
}

func TestC08(t *testing.T) {
	fieldOps()
	rapid.Check(t, func(t *rapid.T) {
		c := drawCase(t)
		var r *evalRun
		f := hx.Guard("C08", func() *hx.Failure {
			var f *hx.Failure
			r, f = runEval(c)
			return f
		})
		labels := evalLabels(c)
		nt := false
		if r != nil {
			nt = r.nontriv
			for l := range r.labels {
				labels = append(labels, l)
			}
			rec.AddEvals(r.queries - 1)
		}
		rec.Eval(c, nt, labels...)
		if rec.Check(t, AnyCase{Eval: &c}, f) {
			return
		}
	})
}

// AnyCase wraps the case shapes for replay files.
type AnyCase struct {
	Eval *Case    `json:"eval,omitempty"`
	Req  *ReqCase `json:"req,omitempty"`
}

func runAny(c AnyCase) *hx.Failure {
	return hx.Guard("C08", func() *hx.Failure {
		switch {
		case c.Eval != nil:
			_, f := runEval(*c.Eval)
			return f
		case c.Req != nil:
			_, f := runReq(*c.Req)
			return f
		}
		return nil
	})
}

func TestReplay(t *testing.T) {
	raw := hx.ReplayCase(t)
	rec.SetReplaying()
	var c AnyCase
	if err := json.Unmarshal(raw, &c); err != nil {
		t.Fatal(err)
	}
	if c.Eval != nil {
		t.Logf("request: %s", c.Eval.Q.gql())
	}
	if c.Req != nil {
		t.Logf("request: %s", c.Req.render(sharedFixture()))
	}
	rec.Check(t, c, runAny(c))
}

func TestRegress(t *testing.T) {
	hx.Regress(t, "testdata/regress", func(raw []byte) *hx.Failure {
		var c AnyCase
		if err := json.Unmarshal(raw, &c); err != nil {
			return hx.Failf("C08/regress-file", "%v", err)
		}
		return runAny(c)
	}, rec)
}
