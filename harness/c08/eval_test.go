package c08

// Sub-checks (a) reference evaluator and (b) metamorphic relations.

import (
	"encoding/json"
	"fmt"
	"math"
	"os"
	"regexp"
	"sort"
	"strconv"
	"strings"
	"time"

	"github.com/sourcenetwork/defradb/client"
	"github.com/sourcenetwork/defradb/verifharness/hx"
)

func docJSON(k int, d Doc) string {
	parts := []string{fmt.Sprintf(`"k": %d`, k)}
	for _, f := range fieldNames {
		parts = append(parts, fmt.Sprintf("%q: %s", f, d.field(f).gql()))
	}
	return "{" + strings.Join(parts, ", ") + "}"
}

// aggNotRe recognises an aggregate whose own filter object starts with _not.
var aggNotRe = regexp.MustCompile(`_(count|sum|avg|min|max)\((Users|_group): \{[^()]*filter: \{_not:`)

type evalRun struct {
	// aggs is the aggregate list of the selection being checked (for the shared-dependency model)
	aggs []Agg
	c    Case
	n    *hx.Node
	e    *env
	all  []int
	// observations for labels / non-triviality
	labels    map[string]bool
	nontriv   bool
	queries   int
	skippedAg int
}

func (r *evalRun) label(l string) { r.labels[l] = true }

func boot(c Case) *evalRun {
	n := hx.MustMemNode()
	if _, err := n.DB.AddSchema(n.Ctx, evalSchema); err != nil {
		n.Close()
		hx.Harnessf("schema rejected: %v", err)
	}
	col, err := n.DB.GetCollectionByName(n.Ctx, "Users")
	if err != nil {
		n.Close()
		hx.Harnessf("collection: %v", err)
	}
	e := &env{docs: c.Docs}
	all := []int{}
	for k, d := range c.Docs {
		js := docJSON(k, d)
		doc, err := client.NewDocFromJSON([]byte(js), col.Definition())
		if err != nil {
			n.Close()
			hx.Harnessf("generator produced a document the input path rejects: %s: %v", js, err)
		}
		if err := col.Create(n.Ctx, doc); err != nil {
			n.Close()
			hx.Harnessf("create of %s failed: %v", js, err)
		}
		e.docIDs = append(e.docIDs, doc.ID().String())
		all = append(all, k)
	}
	return &evalRun{c: c, n: n, e: e, all: all, labels: map[string]bool{}}
}

// exec runs a generated (valid) query: a panic or an error is a violation of the property.
func (r *evalRun) exec(q string) (hx.Result, *hx.Failure) {
	r.queries++
	res := r.n.Exec(q)
	if res.Panic != "" {
		return res, hx.Failf(panicSig(res.Panic), "%s panicked: %.1500s", q, res.Panic)
	}
	if !res.OK() {
		if res.Err() == "key not found" && aggNotRe.MatchString(q) {
			return res, hx.Failf(sigAggNot, "an aggregate whose filter object has _not at its top is answered with an error: %s -> %s", q, res.Err())
		}
		return res, hx.Failf("C08/eval/valid-query-error", "%s answered with an error: %s", q, res.Err())
	}
	return res, nil
}

func kOf(row map[string]any) (int, bool) {
	n, ok := row["k"].(json.Number)
	if !ok {
		return 0, false
	}
	i, err := strconv.Atoi(n.String())
	return i, err == nil
}

// parseField converts a returned JSON value of a field into a Lit.
func parseField(field string, v any) (Lit, bool) {
	if v == nil {
		return Lit{Null: true}, true
	}
	switch field {
	case "s":
		s, ok := v.(string)
		return Lit{S: &s}, ok
	case "i":
		n, ok := v.(json.Number)
		if !ok {
			return Lit{}, false
		}
		i, err := strconv.ParseInt(n.String(), 10, 64)
		return Lit{I: &i}, err == nil
	case "f":
		n, ok := v.(json.Number)
		if !ok {
			return Lit{}, false
		}
		f, err := strconv.ParseFloat(n.String(), 64)
		return Lit{F: &f}, err == nil
	case "b":
		b, ok := v.(bool)
		return Lit{B: &b}, ok
	case "t":
		s, ok := v.(string)
		if !ok {
			return Lit{}, false
		}
		tm, err := time.Parse(time.RFC3339Nano, s)
		if err != nil {
			return Lit{}, false
		}
		for i := range timeVals {
			if timeVals[i].Equal(tm) {
				return Lit{T: &i}, true
			}
		}
		return Lit{}, false
	}
	return Lit{}, false
}

// rowKs extracts the keys of returned rows and, when the row carries the stored fields, checks
// that they are the stored values.
func (r *evalRun) rowKs(q string, rows []map[string]any) ([]int, *hx.Failure) {
	ks := []int{}
	for _, row := range rows {
		k, ok := kOf(row)
		if !ok || k < 0 || k >= len(r.c.Docs) {
			return nil, hx.Failf("C08/rows/unknown-row", "%s returned a row that is no stored document: %s", q, hx.Canon(row))
		}
		for _, f := range fieldNames {
			v, present := row[f]
			if !present {
				continue
			}
			got, ok := parseField(f, v)
			if !ok || got.key() != r.c.Docs[k].field(f).key() {
				return nil, hx.Failf("C08/rows/field-value", "%s returned %s=%v for document k=%d, stored %s", q, f, v, k, r.c.Docs[k].field(f).gql())
			}
		}
		ks = append(ks, k)
	}
	return ks, nil
}

func fmtKs(ks []int) string { return fmt.Sprint(ks) }

// checkSeq compares a returned sequence of items (document keys; for groups the representative
// member) with the documented sequence: members of the universe, no duplicates, the documented
// length, and — when an order is given — position by position the sort-key tuple of the documented
// order (rows with equal sort keys may come in any order).
func (r *evalRun) checkSeq(ctx, q string, universe []int, s Sub, got []int) *hx.Failure {
	e := r.e
	inU := map[int]bool{}
	for _, k := range universe {
		inU[k] = true
	}
	seen := map[int]bool{}
	for _, k := range got {
		if !inU[k] {
			return hx.Failf("C08/"+ctx+"/membership", "%s returned item k=%d that does not satisfy the request (expected a subset of %s, got %s); docs=%s", q, k, fmtKs(universe), fmtKs(got), r.docsStr())
		}
		if seen[k] {
			return hx.Failf("C08/"+ctx+"/duplicate", "%s returned item k=%d twice: %s", q, k, fmtKs(got))
		}
		seen[k] = true
	}
	want := slice(e.sorted(universe, s.Order), s.Limit, s.Offset)
	if len(got) != len(want) {
		sig := "C08/" + ctx + "/length"
		if s.Limit == 0 && s.Offset == 0 {
			sig = "C08/" + ctx + "/missing"
		}
		return hx.Failf(sig, "%s returned %d items %s, documented semantics give %d (%s of %d candidates); docs=%s", q, len(got), fmtKs(got), len(want), fmtKs(want), len(universe), r.docsStr())
	}
	if len(s.Order) == 0 {
		return nil
	}
	for i := range got {
		if cur.laterKey && len(s.Order) >= 2 {
			// the defect model predicts the exact sequence of rows (ties stay in document-id order);
			// the enumeration order of groups is not modelled, so groups are compared on the first key
			if ctx == "groups" {
				if e.tuple(got[i], s.Order[:1]) != e.tuple(want[i], s.Order[:1]) {
					return hx.Failf("C08/"+ctx+"/order", "%s: result %s is not ordered by the first key either", q, fmtKs(got))
				}
				continue
			}
			if got[i] != want[i] {
				return hx.Failf("C08/"+ctx+"/order", "%s: result %s differs from the first-key-only model %s", q, fmtKs(got), fmtKs(want))
			}
			continue
		}
		if e.tuple(got[i], s.Order) != e.tuple(want[i], s.Order) {
			sig := "C08/" + ctx + "/order"
			if s.Limit > 0 || s.Offset > 0 {
				sig = "C08/" + ctx + "/order-limit-slice"
			}
			return hx.Failf(sig, "%s: position %d has sort keys %s, documented order %s gives %s (got %s, want %s up to ties); docs=%s",
				q, i, e.tuple(got[i], s.Order), orderGQL(s.Order), e.tuple(want[i], s.Order), fmtKs(got), fmtKs(want), r.docsStr())
		}
	}
	return nil
}

func (r *evalRun) docsStr() string {
	parts := []string{}
	for k, d := range r.c.Docs {
		parts = append(parts, docJSON(k, d)+"@"+r.e.docIDs[k][4:10])
	}
	return "[" + strings.Join(parts, " ") + "]"
}

// sliceDetermined reports whether the documents selected by order+limit/offset out of cand are
// determined up to the value of field (ties that straddle a slice boundary must agree on it).
func (r *evalRun) sliceDetermined(cand []int, s Sub, field string) bool {
	if s.Limit == 0 && s.Offset == 0 {
		return true
	}
	e := r.e
	sorted := e.sorted(cand, s.Order)
	bounds := []int{s.Offset}
	if s.Limit > 0 {
		bounds = append(bounds, s.Offset+s.Limit)
	}
	for _, b := range bounds {
		if b <= 0 || b >= len(sorted) {
			continue
		}
		if e.cmpKeys(sorted[b-1], sorted[b], s.Order) != 0 {
			continue
		}
		// tie group around b
		lo, hi := b-1, b
		for lo > 0 && e.cmpKeys(sorted[lo-1], sorted[b], s.Order) == 0 {
			lo--
		}
		for hi+1 < len(sorted) && e.cmpKeys(sorted[hi+1], sorted[b], s.Order) == 0 {
			hi++
		}
		if field == "" {
			continue // a count does not depend on which tied document is taken
		}
		v := e.docs[sorted[lo]].field(field).key()
		for i := lo + 1; i <= hi; i++ {
			if e.docs[sorted[i]].field(field).key() != v {
				return false
			}
		}
	}
	return true
}

// neOverwritten returns the filter as the observed defect evaluates it for _avg: a top-level
// `field: {_ne: x}` of the aggregate's own filter object becomes `field: {_ne: null}`.
func neOverwritten(f *Filter, field string) (*Filter, bool) {
	if f == nil {
		return nil, false
	}
	null := Lit{Null: true}
	switch f.Kind {
	case "leaf":
		if f.Field == field && f.Op == "_ne" && !f.Val.isNull() {
			return &Filter{Kind: "leaf", Field: field, Op: "_ne", Val: &null}, true
		}
	case "obj":
		out := Filter{Kind: "obj"}
		hit := false
		for _, k := range f.Kids {
			if k.Field == field && k.Op == "_ne" && !k.Val.isNull() {
				k = Filter{Kind: "leaf", Field: field, Op: "_ne", Val: &null}
				hit = true
			}
			out.Kids = append(out.Kids, k)
		}
		return &out, hit
	}
	return nil, false
}

// checkAgg compares one aggregate value with the arithmetic over the listed values.
// members: the documents the aggregate ranges over before its own filter; scan: the same in the
// order the database enumerates them (document-id order), used by diagnosers only.
func (r *evalRun) checkAgg(ctx, q string, members []int, a Agg, alias string, gotRaw any, topLevel bool) *hx.Failure {
	e := r.e
	got, ok := parseNum(gotRaw)
	if !ok {
		return hx.Failf("C08/agg/not-a-number", "%s: %s is %v", q, alias, gotRaw)
	}
	s := a.Sub
	if a.Fn == "_count" {
		s.Order = nil
	}
	if cur.avgShared && a.Fn == "_avg" {
		// the first _avg of the selection with the same field and filter decides
		for _, b := range r.aggs {
			if b.Fn == "_avg" && b.Field == a.Field && b.Sub.Filter.gql() == a.Sub.Filter.gql() {
				s = b.Sub
				break
			}
		}
	}
	if r.c.Big && a.Fn == "_avg" && a.Field == "i" {
		// the mean of integers beyond 2^53 is inexact in float64 by nature: not judged
		r.skippedAg++
		r.label("agg:avg-of-big-ints-skipped")
		return nil
	}
	flt := s.Filter
	if cur.avgNe && a.Fn == "_avg" {
		if f2, hit := neOverwritten(flt, a.Field); hit {
			flt = f2
		}
	}
	cand := e.filterKs(members, flt)
	hasSlice := s.Limit > 0 || s.Offset > 0
	var listed []int
	switch {
	case !hasSlice:
		listed = cand
		if len(s.Order) > 0 {
			listed = e.sorted(cand, s.Order)
		} else {
			listed = e.firstKeyOnly(cand, nil) // enumeration order (matters to the min/max defect model only)
		}
	case !topLevel && cur.groupOffsetAll && s.Limit == 0:
		listed = []int{}
	case a.Fn == "_count":
		listed = slice(cand, s.Limit, s.Offset)
	case len(s.Order) > 0:
		if !r.sliceDetermined(cand, s, a.Field) && !(cur.laterKey && len(s.Order) >= 2) {
			r.skippedAg++
			r.label("agg:slice-ambiguous-skipped")
			return nil
		}
		listed = slice(e.sorted(cand, s.Order), s.Limit, s.Offset)
	case topLevel:
		// no order: the slice is taken from the enumeration order of the database; metamorphic
		// reference: the rows the same arguments select
		res, f := r.exec("query { Users(" + strings.Join(s.args(), ", ") + ") { k } }")
		if f != nil {
			return f
		}
		ks, f := r.rowKs(q, res.Rows("Users"))
		if f != nil {
			return f
		}
		listed = ks
		r.label("agg:unordered-slice-vs-rows")
	default:
		r.skippedAg++
		r.label("agg:unordered-slice-in-group-skipped")
		return nil
	}
	want := e.aggOver(a.Fn, a.Field, listed)
	nvals := 0
	for _, k := range listed {
		if a.Fn == "_count" || !e.docs[k].field(a.Field).isNull() {
			nvals++
		}
	}
	if nvals >= 2 {
		r.nontriv = true
		r.label("agg:over>=2-values")
	}
	if numEqual(want, got) {
		return nil
	}
	if a.Fn == "_avg" && hasSlice {
		// whether nulls are dropped before or after the slice is not documented: accept both
		nn := []int{}
		for _, k := range cand {
			if !e.docs[k].field(a.Field).isNull() {
				nn = append(nn, k)
			}
		}
		if len(nn) != len(cand) {
			if len(s.Order) == 0 || !r.sliceDetermined(nn, s, a.Field) {
				r.skippedAg++
				r.label("agg:avg-slice-with-nulls-skipped")
				return nil
			}
			if alt := e.aggOver(a.Fn, a.Field, slice(e.sorted(nn, s.Order), s.Limit, s.Offset)); numEqual(alt, got) {
				r.label("agg:avg-nulls-dropped-before-slice")
				return nil
			}
		}
	}
	where := "top-level"
	if !topLevel {
		where = "group"
	}
	return hx.Failf("C08/agg/"+a.Fn+"/"+where, "%s: %s = %s, arithmetic over the listed values gives %s (listed documents %s of members %s); docs=%s", q, alias, got, want, fmtKs(listed), fmtKs(members), r.docsStr())
}

// groupKey renders the group-by value tuple of a document.
func (r *evalRun) groupKey(k int, fields []string) string {
	parts := []string{}
	for _, f := range fields {
		parts = append(parts, r.e.docs[k].field(f).key())
	}
	return strings.Join(parts, "|")
}

func (r *evalRun) checkRows(q Query) *hx.Failure {
	e := r.e
	qs := q.gql()
	res, f := r.exec(qs)
	if f != nil {
		return f
	}
	got, f := r.rowKs(qs, res.Rows("Users"))
	if f != nil {
		return f
	}
	match := e.filterKs(r.all, q.Filter)
	if len(match) > 0 && len(match) < len(r.all) {
		r.nontriv = true
		r.label("filter:partial")
	} else if len(match) == 0 {
		r.label("filter:none-match")
	} else {
		r.label("filter:all-match")
	}
	if len(q.Order) >= 2 {
		s := e.sorted(match, q.Order[:1])
		for i := 1; i < len(s); i++ {
			if e.cmpKeys(s[i-1], s[i], q.Order[:1]) == 0 && e.cmpKeys(s[i-1], s[i], q.Order) != 0 {
				r.nontriv = true
				r.label("order:tie-on-first-key-decided-later")
				break
			}
		}
	}
	if f := r.checkSeq("rows", qs, match, q.Sub, got); f != nil {
		return f
	}
	if len(q.Order) == 0 && (q.Limit > 0 || q.Offset > 0) {
		// the unordered sequence is whatever the same request without limit/offset enumerates
		u := q
		u.Limit, u.Offset, u.Aggs = 0, 0, nil
		res2, f := r.exec(u.gql())
		if f != nil {
			return f
		}
		full, f := r.rowKs(u.gql(), res2.Rows("Users"))
		if f != nil {
			return f
		}
		if want := slice(full, q.Limit, q.Offset); fmtKs(want) != fmtKs(got) {
			return hx.Failf("C08/rows/limit-slice-of-unlimited", "%s returned %s; the same request without limit/offset enumerates %s, whose slice is %s", qs, fmtKs(got), fmtKs(full), fmtKs(want))
		}
	}
	r.aggs = q.Aggs
	for i, a := range q.Aggs {
		alias := fmt.Sprintf("a%d", i)
		if f := r.checkAgg("top", qs, r.all, a, alias, res.Data[alias], true); f != nil {
			return f
		}
	}
	return nil
}

func (r *evalRun) checkGroups(q Query) *hx.Failure {
	e := r.e
	qs := q.gql()
	res, f := r.exec(qs)
	if f != nil {
		return f
	}
	match := e.filterKs(r.all, q.Filter)
	// partition; representative = member with the smallest document id (first enumerated)
	groups := map[string][]int{}
	for _, k := range match {
		key := r.groupKey(k, q.GroupBy)
		groups[key] = append(groups[key], k)
	}
	rep := map[string]int{}
	reps := []int{}
	for key, ms := range groups {
		best := ms[0]
		for _, k := range ms {
			if e.docIDs[k] < e.docIDs[best] {
				best = k
			}
		}
		rep[key] = best
		reps = append(reps, best)
	}
	sort.Ints(reps)
	if len(groups) >= 2 && len(groups) < len(match) {
		r.nontriv = true
		r.label("groups:>=2-with-shared-membership")
	}
	rows := res.Rows("Users")
	gotReps := []int{}
	for _, row := range rows {
		parts := []string{}
		for _, gf := range q.GroupBy {
			l, ok := parseField(gf, row[gf])
			if !ok {
				return hx.Failf("C08/groups/field-value", "%s returned group field %s=%v", qs, gf, row[gf])
			}
			parts = append(parts, l.key())
		}
		key := strings.Join(parts, "|")
		k, ok := rep[key]
		if !ok {
			return hx.Failf("C08/groups/membership", "%s returned a group %s that no matching document belongs to (groups: %d); docs=%s", qs, key, len(groups), r.docsStr())
		}
		gotReps = append(gotReps, k)
	}
	if f := r.checkSeq("groups", qs, reps, q.Sub, gotReps); f != nil {
		return f
	}
	for ri, row := range rows {
		var key string
		{
			parts := []string{}
			for _, gf := range q.GroupBy {
				parts = append(parts, r.e.docs[gotReps[ri]].field(gf).key())
			}
			key = strings.Join(parts, "|")
		}
		members := groups[key]
		if q.Member != nil {
			raw, _ := row["_group"].([]any)
			mrows := []map[string]any{}
			for _, x := range raw {
				if m, ok := x.(map[string]any); ok {
					mrows = append(mrows, m)
				}
			}
			gotKs, f := r.rowKs(qs, mrows)
			if f != nil {
				return f
			}
			universe := e.filterKs(members, q.Member.Filter)
			msub := *q.Member
			if cur.groupLimitLost && len(q.Order) > 0 {
				msub.Limit, msub.Offset = 0, 0
			}
			if cur.groupOffsetAll && msub.Limit == 0 && msub.Offset > 0 {
				universe = []int{}
				msub.Offset = 0
			}
			if f := r.checkSeq("members", qs+" group "+key, universe, msub, gotKs); f != nil {
				return f
			}
		}
		r.aggs = q.Aggs
		for i, a := range q.Aggs {
			alias := fmt.Sprintf("a%d", i)
			if f := r.checkAgg("group", qs+" group "+key, members, a, alias, row[alias], false); f != nil {
				return f
			}
		}
	}
	return nil
}

func setOf(ks []int) map[int]bool {
	m := map[int]bool{}
	for _, k := range ks {
		m[k] = true
	}
	return m
}

func sortedKs(ks []int) []int {
	out := append([]int{}, ks...)
	sort.Ints(out)
	return out
}

func (r *evalRun) rowsOf(args []string, sel string) ([]int, string, *hx.Failure) {
	q := "query { Users"
	if len(args) > 0 {
		q += "(" + strings.Join(args, ", ") + ")"
	}
	q += " { " + sel + " } }"
	res, f := r.exec(q)
	if f != nil {
		return nil, q, f
	}
	ks, f := r.rowKs(q, res.Rows("Users"))
	return ks, q, f
}

func filterArg(f *Filter) []string {
	if f == nil {
		return nil
	}
	return []string{"filter: " + f.gql()}
}

// checkMeta runs the metamorphic relations of sub-check (b); they do not depend on the
// null/ordering conventions of the reference evaluator.
func (r *evalRun) checkMeta() *hx.Failure {
	c := r.c
	F := c.Q.Filter
	if F == nil {
		// no filter: a tautology (is null or is not null) stands in, so that F can be combined
		null := Lit{Null: true}
		F = &Filter{Kind: "or", Kids: []Filter{{Kind: "leaf", Field: "i", Op: "_eq", Val: &null}, {Kind: "leaf", Field: "i", Op: "_ne", Val: &null}}}
	}
	G := &c.G
	all, q0, f := r.rowsOf(nil, "k")
	if f != nil {
		return f
	}
	if fmtKs(sortedKs(all)) != fmtKs(r.all) {
		return hx.Failf("C08/meta/all-rows", "%s returned %s, stored keys are %s", q0, fmtKs(sortedKs(all)), fmtKs(r.all))
	}
	rf, qf, f := r.rowsOf(filterArg(F), "k")
	if f != nil {
		return f
	}
	notF := &Filter{Kind: "not", Kids: []Filter{*F}}
	rnf, qnf, f := r.rowsOf(filterArg(notF), "k")
	if f != nil {
		return f
	}
	sf, snf := setOf(rf), setOf(rnf)
	for _, k := range r.all {
		if sf[k] == snf[k] {
			return hx.Failf("C08/meta/not-partition", "document k=%d is in both or neither of %s -> %s and %s -> %s; docs=%s", k, qf, fmtKs(rf), qnf, fmtKs(rnf), r.docsStr())
		}
	}
	if len(rf)+len(rnf) != len(r.all) {
		return hx.Failf("C08/meta/not-partition", "%s -> %s and %s -> %s do not partition %d documents", qf, fmtKs(rf), qnf, fmtKs(rnf), len(r.all))
	}
	rg, qg, f := r.rowsOf(filterArg(G), "k")
	if f != nil {
		return f
	}
	sg := setOf(rg)
	and := &Filter{Kind: "and", Kids: []Filter{*F, *G}}
	or := &Filter{Kind: "or", Kids: []Filter{*F, *G}}
	rand, qand, f := r.rowsOf(filterArg(and), "k")
	if f != nil {
		return f
	}
	ror, qor, f := r.rowsOf(filterArg(or), "k")
	if f != nil {
		return f
	}
	sand, sor := setOf(rand), setOf(ror)
	for _, k := range r.all {
		if sand[k] != (sf[k] && sg[k]) {
			return hx.Failf("C08/meta/and-intersection", "document k=%d: %s -> %s but %s -> %s and %s -> %s; docs=%s", k, qand, fmtKs(rand), qf, fmtKs(rf), qg, fmtKs(rg), r.docsStr())
		}
		if sor[k] != (sf[k] || sg[k]) {
			return hx.Failf("C08/meta/or-union", "document k=%d: %s -> %s but %s -> %s and %s -> %s; docs=%s", k, qor, fmtKs(ror), qf, fmtKs(rf), qg, fmtKs(rg), r.docsStr())
		}
	}
	if len(rand) != len(sand) || len(ror) != len(sor) {
		return hx.Failf("C08/meta/duplicate-rows", "%s -> %s / %s -> %s contain duplicates", qand, fmtKs(rand), qor, fmtKs(ror))
	}
	// _count with filter F = len rows(F); _sum = _avg × _count of non-null values
	{
		nn := func(field string) string {
			return (&Filter{Kind: "and", Kids: []Filter{*F, {Kind: "leaf", Field: field, Op: "_ne", Val: &Lit{Null: true}}}}).gql()
		}
		q := fmt.Sprintf("query { c: _count(Users: {filter: %s}) si: _sum(Users: {field: i, filter: %s}) ai: _avg(Users: {field: i, filter: %s}) ci: _count(Users: {filter: %s}) sf: _sum(Users: {field: f, filter: %s}) af: _avg(Users: {field: f, filter: %s}) cf: _count(Users: {filter: %s}) }",
			F.gql(), F.gql(), F.gql(), nn("i"), F.gql(), F.gql(), nn("f"))
		res, f := r.exec(q)
		if f != nil {
			return f
		}
		cnt, ok := parseNum(res.Data["c"])
		if !ok || !cnt.isInt || int(cnt.i) != len(rf) {
			return hx.Failf("C08/meta/count-len", "%s: c=%v but %s returned %d rows", q, res.Data["c"], qf, len(rf))
		}
		if !c.Big {
			for _, fld := range []string{"i", "f"} {
				s, ok1 := parseNum(res.Data["s"+fld])
				a, ok2 := parseNum(res.Data["a"+fld])
				n, ok3 := parseNum(res.Data["c"+fld])
				if !ok1 || !ok2 || !ok3 || s.null || a.null || n.null {
					return hx.Failf("C08/meta/sum-avg-count", "%s: non-numeric aggregate: %s", q, hx.Canon(res.Data))
				}
				sv, av := s.f, a.f
				if s.isInt {
					sv = float64(s.i)
				}
				if a.isInt {
					av = float64(a.i)
				}
				if d := math.Abs(sv - av*float64(n.i)); d > 1e-9*math.Max(1, math.Abs(sv)) {
					if f2, hit := neOverwritten(F, fld); hit && cur.avgNe {
						if m := r.e.aggOver("_avg", fld, r.e.filterKs(r.all, f2)); numEqual(m, a) {
							continue
						}
					}
					return hx.Failf("C08/meta/sum-avg-count", "%s: _sum(%s)=%v but _avg×_count(non-null)=%v×%v; docs=%s", q, fld, sv, av, n.i, r.docsStr())
				}
			}
		}
	}
	// order reversal and prefix slices
	O := c.Q.Order
	if c.Q.Grouped || len(O) == 0 {
		O = []OrderKey{{Field: "i"}, {Field: "s", Desc: true}}
		if c.Avoid && rec.IsKnown(sigLaterKey) {
			O = O[:1]
		}
	}
	rev := make([]OrderKey, len(O))
	for i, k := range O {
		rev[i] = OrderKey{Field: k.Field, Desc: !k.Desc}
	}
	fwd, qfwd, f := r.rowsOf(append(filterArg(F), "order: "+orderGQL(O)), "k")
	if f != nil {
		return f
	}
	bwd, qbwd, f := r.rowsOf(append(filterArg(F), "order: "+orderGQL(rev)), "k")
	if f != nil {
		return f
	}
	if len(fwd) != len(rf) || len(bwd) != len(rf) {
		return hx.Failf("C08/meta/order-changes-rows", "%s -> %s, %s -> %s, unordered %s", qfwd, fmtKs(fwd), qbwd, fmtKs(bwd), fmtKs(rf))
	}
	for i := range fwd {
		if r.e.tuple(fwd[i], O) != r.e.tuple(bwd[len(bwd)-1-i], O) {
			if cur.laterKey && len(O) >= 2 && fmtKs(fwd) == fmtKs(r.e.firstKeyOnly(rf, O)) && fmtKs(bwd) == fmtKs(r.e.firstKeyOnly(rf, rev)) {
				break
			}
			return hx.Failf("C08/meta/order-reverse", "reversing every direction does not reverse the sort-key sequence: %s -> %s, %s -> %s; docs=%s", qfwd, fmtKs(fwd), qbwd, fmtKs(bwd), r.docsStr())
		}
	}
	lim, off := c.Q.Limit, c.Q.Offset
	if lim == 0 && off == 0 {
		lim, off = 2, 1
	}
	sub := Sub{Filter: F, Order: O, Limit: lim, Offset: off}
	part, qpart, f := r.rowsOf(sub.args(), "k")
	if f != nil {
		return f
	}
	wantPart := slice(fwd, lim, off)
	bad := len(part) != len(wantPart)
	for i := 0; !bad && i < len(part); i++ {
		bad = r.e.tuple(part[i], O) != r.e.tuple(wantPart[i], O)
	}
	if bad {
		return hx.Failf("C08/meta/limit-slice", "%s -> %s is not the [%d,%d) slice of %s -> %s; docs=%s", qpart, fmtKs(part), off, off+lim, qfwd, fmtKs(fwd), r.docsStr())
	}
	// grouping partitions the filtered rows
	gf := "b"
	if len(c.Q.GroupBy) > 0 {
		gf = c.Q.GroupBy[0]
	}
	qgr := "query { Users(" + strings.Join(append(filterArg(F), "groupBy: ["+gf+"]"), ", ") + ") { " + gf + " _group { k " + gf + " } } }"
	res, f := r.exec(qgr)
	if f != nil {
		return f
	}
	seen := map[int]bool{}
	keys := map[string]bool{}
	for _, row := range res.Rows("Users") {
		gv, ok := parseField(gf, row[gf])
		if !ok || keys[gv.key()] {
			return hx.Failf("C08/meta/group-partition", "%s: group value %v unreadable or repeated: %s", qgr, row[gf], hx.Canon(res.Data))
		}
		keys[gv.key()] = true
		raw, _ := row["_group"].([]any)
		if len(raw) == 0 {
			return hx.Failf("C08/meta/group-partition", "%s: empty group %v", qgr, row[gf])
		}
		for _, x := range raw {
			m, _ := x.(map[string]any)
			k, ok := kOf(m)
			if !ok || seen[k] || !sf[k] {
				return hx.Failf("C08/meta/group-partition", "%s: member %v of group %v is repeated or not a row of the filter (%s); docs=%s", qgr, m, row[gf], fmtKs(rf), r.docsStr())
			}
			seen[k] = true
			mv, ok := parseField(gf, m[gf])
			if !ok || mv.key() != gv.key() || r.e.docs[k].field(gf).key() != gv.key() {
				return hx.Failf("C08/meta/group-partition", "%s: member k=%d has %s=%v inside group %v", qgr, k, gf, m[gf], row[gf])
			}
		}
	}
	if len(seen) != len(rf) {
		return hx.Failf("C08/meta/group-partition", "%s: groups hold %d documents, the filter returns %d (%s); docs=%s", qgr, len(seen), len(rf), fmtKs(rf), r.docsStr())
	}
	return nil
}

// knownModels lists, per signature with a defect model, how to switch the model on.
var knownModels = []struct {
	sig string
	set func(*model)
}{
	{sigLaterKey, func(m *model) { m.laterKey = true }},
	{sigMinMaxNull, func(m *model) { m.minmaxReset = true }},
	{sigAvgNe, func(m *model) { m.avgNe = true }},
	{sigLikeInfix, func(m *model) { m.likeOverlap = true }},
	{sigSumBig, func(m *model) { m.sumFloat = true }},
	{sigGroupLimit, func(m *model) { m.groupLimitLost = true }},
	{sigGroupOffset, func(m *model) { m.groupOffsetAll = true }},
	{sigAvgShared, func(m *model) { m.avgShared = true }},
}

func (r *evalRun) checkAll() *hx.Failure {
	var f *hx.Failure
	if r.c.Q.Grouped {
		f = r.checkGroups(r.c.Q)
	} else {
		f = r.checkRows(r.c.Q)
	}
	if f != nil {
		return f
	}
	return r.checkMeta()
}

// runEval is the pure run of one evaluation case: the documented semantics first; on a
// discrepancy the diagnosers re-evaluate under the defect models of the findings listed as known
// (single models, then pairs, then all): if the observations agree exactly with such a model the
// failure carries that finding's signature, otherwise the generic signature of the failed clause.
func runEval(c Case) (*evalRun, *hx.Failure) {
	r := boot(c)
	defer r.n.Close()
	cur = model{}
	defer func() { cur = model{} }()
	f0 := r.checkAll()
	if f0 == nil || f0.Sig == sigAggNot || strings.HasPrefix(f0.Sig, "C08/panic/") {
		return r, f0
	}
	idx := []int{}
	for i, km := range knownModels {
		if rec.IsKnown(km.sig) {
			idx = append(idx, i)
		}
	}
	try := func(sel []int) *hx.Failure {
		cur = model{}
		names := []string{}
		for _, i := range sel {
			knownModels[i].set(&cur)
			names = append(names, knownModels[i].sig)
		}
		f := r.checkAll()
		cur = model{}
		if f != nil && os.Getenv("VERIF_DEBUG") != "" {
			fmt.Printf("DEBUG under %v: %s: %.300s\n", names, f.Sig, f.Msg)
		}
		if f != nil && f.Sig == sigAggNot && rec.IsKnown(sigAggNot) {
			// under the model the evaluation gets as far as another listed finding that ends it
			names = append(names, sigAggNot)
			f = nil
		}
		if f == nil {
			return hx.Failf(names[0], "explained by the known finding(s) %v: %s", names, f0.Msg)
		}
		return nil
	}
	for _, i := range idx {
		if f := try([]int{i}); f != nil {
			return r, f
		}
	}
	for a := 0; a < len(idx); a++ {
		for b := a + 1; b < len(idx); b++ {
			if f := try([]int{idx[a], idx[b]}); f != nil {
				return r, f
			}
		}
	}
	if len(idx) > 2 {
		if f := try(idx); f != nil {
			return r, f
		}
	}
	return r, f0
}
