package c08

// Data model of the C08 check: documents, filter trees, order keys, aggregates, their GraphQL
// rendering, and the reference evaluator written from docs/website/references/query-specification.

import (
	"encoding/json"
	"fmt"
	"math"
	"sort"
	"strconv"
	"strings"
	"time"
)

// timePool holds the DateTime values documents and literals draw from (index = Doc.T / Lit.T).
var timePool = []string{
	"2020-01-01T00:00:00Z",
	"2020-01-01T00:00:00.5Z",
	"2020-01-01T00:00:01Z",
	"1969-12-31T23:59:59Z",
	"2021-06-15T12:30:00Z",
	"1999-12-31T23:59:59.999999999Z",
	// outside the range of int64 nanoseconds since 1970 (1677-09-21 .. 2262-04-11)
	"9999-12-31T23:59:59Z",
	"1582-10-15T00:00:00Z",
	"0001-01-02T00:00:00Z",
	"2262-04-11T23:47:16.854775808Z",
}

var timeVals = func() []time.Time {
	out := make([]time.Time, len(timePool))
	for i, s := range timePool {
		t, err := time.Parse(time.RFC3339Nano, s)
		if err != nil {
			panic(err)
		}
		out[i] = t
	}
	return out
}()

var fieldNames = []string{"s", "i", "f", "b", "t"}

// Doc is one document of collection Users; its key k is its index in Case.Docs.
type Doc struct {
	S *string  `json:"s,omitempty"`
	I *int64   `json:"i,omitempty"`
	F *float64 `json:"f,omitempty"`
	B *bool    `json:"b,omitempty"`
	T *int     `json:"t,omitempty"`
}

// Lit is a literal of a filter (or a field value): exactly one member set, or Null.
type Lit struct {
	Null bool     `json:"null,omitempty"`
	S    *string  `json:"s,omitempty"`
	I    *int64   `json:"i,omitempty"`
	F    *float64 `json:"f,omitempty"`
	B    *bool    `json:"b,omitempty"`
	T    *int     `json:"t,omitempty"`
}

func (d Doc) field(name string) Lit {
	switch name {
	case "s":
		if d.S != nil {
			return Lit{S: d.S}
		}
	case "i":
		if d.I != nil {
			return Lit{I: d.I}
		}
	case "f":
		if d.F != nil {
			return Lit{F: d.F}
		}
	case "b":
		if d.B != nil {
			return Lit{B: d.B}
		}
	case "t":
		if d.T != nil {
			return Lit{T: d.T}
		}
	default:
		panic("field " + name)
	}
	return Lit{Null: true}
}

func (l Lit) isNull() bool {
	return l.Null || (l.S == nil && l.I == nil && l.F == nil && l.B == nil && l.T == nil)
}

func fmtFloat(f float64) string {
	s := strconv.FormatFloat(f, 'f', -1, 64)
	if !strings.Contains(s, ".") {
		s += ".0"
	}
	return s
}

// gql renders the literal as a GraphQL value (also valid JSON).
func (l Lit) gql() string {
	switch {
	case l.isNull():
		return "null"
	case l.S != nil:
		b, _ := json.Marshal(*l.S)
		return string(b)
	case l.I != nil:
		return strconv.FormatInt(*l.I, 10)
	case l.F != nil:
		return fmtFloat(*l.F)
	case l.B != nil:
		return strconv.FormatBool(*l.B)
	default:
		return strconv.Quote(timePool[*l.T%len(timePool)])
	}
}

// key renders a canonical comparison key of the value (equal values ⇔ equal keys).
func (l Lit) key() string {
	switch {
	case l.isNull():
		return "null"
	case l.S != nil:
		return "s:" + *l.S
	case l.I != nil:
		return "i:" + strconv.FormatInt(*l.I, 10)
	case l.F != nil:
		f := *l.F
		if f == 0 {
			f = 0
		}
		return "f:" + strconv.FormatFloat(f, 'g', -1, 64)
	case l.B != nil:
		return "b:" + strconv.FormatBool(*l.B)
	default:
		return "t:" + timeVals[*l.T%len(timePool)].UTC().Format(time.RFC3339Nano)
	}
}

// cmpLit orders two values of one field kind; null sorts first (documented as assumption).
func cmpLit(a, b Lit) int {
	an, bn := a.isNull(), b.isNull()
	if an || bn {
		switch {
		case an && bn:
			return 0
		case an:
			return -1
		default:
			return 1
		}
	}
	switch {
	case a.S != nil && b.S != nil:
		return strings.Compare(*a.S, *b.S)
	case a.I != nil && b.I != nil:
		return cmpOrd(*a.I, *b.I)
	case a.F != nil && b.F != nil:
		return cmpOrd(*a.F, *b.F)
	case a.I != nil && b.F != nil:
		return cmpOrd(float64(*a.I), *b.F)
	case a.F != nil && b.I != nil:
		return cmpOrd(*a.F, float64(*b.I))
	case a.B != nil && b.B != nil:
		x, y := 0, 0
		if *a.B {
			x = 1
		}
		if *b.B {
			y = 1
		}
		return cmpOrd(x, y)
	case a.T != nil && b.T != nil:
		return timeVals[*a.T%len(timePool)].Compare(timeVals[*b.T%len(timePool)])
	}
	panic(fmt.Sprintf("cmpLit of different kinds: %s vs %s", a.key(), b.key()))
}

func cmpOrd[T int | int64 | float64](a, b T) int {
	if a < b {
		return -1
	}
	if a > b {
		return 1
	}
	return 0
}

// Filter is a filter tree.
//
//	kind "leaf": {Field: {Op: Val}} or {Field: {Op: [Vals]}} for _in/_nin
//	kind "and"/"or": {_and: [Kids...]}; kind "not": {_not: Kids[0]}
//	kind "obj": one object with several leaves on distinct fields (implicit AND)
type Filter struct {
	Kind  string   `json:"kind"`
	Kids  []Filter `json:"kids,omitempty"`
	Field string   `json:"field,omitempty"`
	Op    string   `json:"op,omitempty"`
	Val   *Lit     `json:"val,omitempty"`
	Vals  []Lit    `json:"vals,omitempty"`
}

func (f *Filter) gql() string {
	if f == nil {
		return "{}"
	}
	switch f.Kind {
	case "leaf":
		return "{" + f.leafBody() + "}"
	case "obj":
		parts := []string{}
		for i := range f.Kids {
			parts = append(parts, f.Kids[i].leafBody())
		}
		return "{" + strings.Join(parts, ", ") + "}"
	case "and", "or":
		parts := []string{}
		for i := range f.Kids {
			parts = append(parts, f.Kids[i].gql())
		}
		return "{_" + f.Kind + ": [" + strings.Join(parts, ", ") + "]}"
	case "not":
		return "{_not: " + f.Kids[0].gql() + "}"
	}
	panic("filter kind " + f.Kind)
}

func (f *Filter) leafBody() string {
	if f.Op == "_in" || f.Op == "_nin" {
		parts := []string{}
		for _, v := range f.Vals {
			parts = append(parts, v.gql())
		}
		return fmt.Sprintf("%s: {%s: [%s]}", f.Field, f.Op, strings.Join(parts, ", "))
	}
	return fmt.Sprintf("%s: {%s: %s}", f.Field, f.Op, f.Val.gql())
}

func (f *Filter) depth() int {
	if f == nil {
		return 0
	}
	d := 0
	for i := range f.Kids {
		if x := f.Kids[i].depth(); x > d {
			d = x
		}
	}
	return d + 1
}

// walk visits every node.
func (f *Filter) walk(fn func(*Filter)) {
	if f == nil {
		return
	}
	fn(f)
	for i := range f.Kids {
		f.Kids[i].walk(fn)
	}
}

// model selects deviations from the documented semantics, one flag per listed known finding.
// The zero model is the documented semantics. Diagnosers re-evaluate a failed case under the
// flags of the findings listed as known: a discrepancy counts as explained by a finding only when
// the observed results agree exactly with the reference evaluator altered by that flag.
type model struct {
	laterKey       bool // order by >=2 keys = stable sort of the enumeration (document id) order by the first key alone
	minmaxReset    bool // running _min/_max is dropped at every null value
	avgNe          bool // _avg: a top-level `field: {_ne: x}` on the aggregated field is evaluated as `_ne: null`
	likeOverlap    bool // `x%y` matches when x is a prefix and y a suffix, even if they overlap
	sumFloat       bool // integer _sum is accumulated in float64
	groupLimitLost bool // limit/offset of the rendered _group selection is ignored when the grouped selection is ordered
	groupOffsetAll bool // inside groups offset without limit selects nothing
	avgShared      bool // a later _avg with the field and filter of an earlier one reuses its internal sum/count (limit, offset, order ignored)
}

// cur is the model in force (set by the diagnoser loop only; the run is single-threaded).
var cur model

// likeMatch is SQL LIKE restricted to the '%' wildcard (any run of characters, possibly empty).
func likeMatch(pattern, s string) bool {
	parts := strings.Split(pattern, "%")
	if len(parts) == 1 {
		return pattern == s
	}
	if cur.likeOverlap && len(parts) == 2 {
		return strings.HasPrefix(s, parts[0]) && strings.HasSuffix(s, parts[1])
	}
	if !strings.HasPrefix(s, parts[0]) {
		return false
	}
	s = s[len(parts[0]):]
	last := parts[len(parts)-1]
	for _, p := range parts[1 : len(parts)-1] {
		i := strings.Index(s, p)
		if i < 0 {
			return false
		}
		s = s[i+len(p):]
	}
	return len(s) >= len(last) && strings.HasSuffix(s, last)
}

// matches is the documented filter semantics over one document. Conventions the docs leave open
// (listed as assumptions in the evidence): null is a value equal only to null; an ordering
// comparison on a null field is false; with a null operand null counts as the smallest value.
func (f *Filter) matches(d Doc) bool {
	if f == nil {
		return true
	}
	switch f.Kind {
	case "and", "obj":
		for i := range f.Kids {
			if !f.Kids[i].matches(d) {
				return false
			}
		}
		return true
	case "or":
		for i := range f.Kids {
			if f.Kids[i].matches(d) {
				return true
			}
		}
		return false
	case "not":
		return !f.Kids[0].matches(d)
	}
	v := d.field(f.Field)
	eq := func(l Lit) bool {
		if l.isNull() || v.isNull() {
			return l.isNull() && v.isNull()
		}
		return cmpLit(v, l) == 0
	}
	in := func() bool {
		for _, l := range f.Vals {
			if eq(l) {
				return true
			}
		}
		return false
	}
	switch f.Op {
	case "_eq":
		return eq(*f.Val)
	case "_ne":
		return !eq(*f.Val)
	case "_in":
		return in()
	case "_nin":
		return !in()
	case "_gt":
		if f.Val.isNull() {
			return !v.isNull()
		}
		return !v.isNull() && cmpLit(v, *f.Val) > 0
	case "_ge":
		if f.Val.isNull() {
			return true
		}
		return !v.isNull() && cmpLit(v, *f.Val) >= 0
	case "_lt":
		if f.Val.isNull() {
			return false
		}
		return !v.isNull() && cmpLit(v, *f.Val) < 0
	case "_le":
		if f.Val.isNull() {
			return v.isNull()
		}
		return !v.isNull() && cmpLit(v, *f.Val) <= 0
	case "_like":
		return !v.isNull() && likeMatch(*f.Val.S, *v.S)
	case "_nlike":
		return v.isNull() || !likeMatch(*f.Val.S, *v.S)
	case "_ilike":
		return !v.isNull() && likeMatch(strings.ToLower(*f.Val.S), strings.ToLower(*v.S))
	case "_nilike":
		return v.isNull() || !likeMatch(strings.ToLower(*f.Val.S), strings.ToLower(*v.S))
	}
	panic("operator " + f.Op)
}

// OrderKey is one element of an order list. Field "_docID" orders by document id.
type OrderKey struct {
	Field string `json:"field"`
	Desc  bool   `json:"desc,omitempty"`
}

func orderGQL(o []OrderKey) string {
	parts := []string{}
	for _, k := range o {
		dir := "ASC"
		if k.Desc {
			dir = "DESC"
		}
		parts = append(parts, fmt.Sprintf("{%s: %s}", k.Field, dir))
	}
	if len(parts) == 1 {
		return parts[0]
	}
	return "[" + strings.Join(parts, ", ") + "]"
}

// Sub is the argument set of a (sub-)selection: filter, order, limit, offset. Limit 0 = absent.
type Sub struct {
	Filter *Filter    `json:"filter,omitempty"`
	Order  []OrderKey `json:"order,omitempty"`
	Limit  int        `json:"limit,omitempty"`
	Offset int        `json:"offset,omitempty"`
}

func (s Sub) args(extra ...string) []string {
	out := append([]string{}, extra...)
	if s.Filter != nil {
		out = append(out, "filter: "+s.Filter.gql())
	}
	if len(s.Order) > 0 {
		out = append(out, "order: "+orderGQL(s.Order))
	}
	if s.Limit > 0 {
		out = append(out, "limit: "+strconv.Itoa(s.Limit))
	}
	if s.Offset > 0 {
		out = append(out, "offset: "+strconv.Itoa(s.Offset))
	}
	return out
}

// Agg is one aggregate: _count/_sum/_avg/_min/_max over the collection (top level) or over _group.
type Agg struct {
	Fn    string `json:"fn"`
	Field string `json:"field,omitempty"` // i or f; empty for _count
	Sub   Sub    `json:"sub"`
}

func (a Agg) gql(alias, target string) string {
	extra := []string{}
	if a.Fn != "_count" {
		extra = append(extra, "field: "+a.Field)
	}
	s := a.Sub
	if a.Fn == "_count" {
		s.Order = nil
	}
	return fmt.Sprintf("%s: %s(%s: {%s})", alias, a.Fn, target, strings.Join(s.args(extra...), ", "))
}

// Query is one generated request.
type Query struct {
	Sub              // filter/order/limit/offset of the root selection
	GroupBy []string `json:"group_by,omitempty"` // nil = plain rows
	Grouped bool     `json:"grouped,omitempty"`
	Member  *Sub     `json:"member,omitempty"` // arguments of the rendered _group selection (grouped only)
	Aggs    []Agg    `json:"aggs,omitempty"`   // top-level aggregates (rows) or per-group aggregates (grouped)
	// Siblings marks a query whose _group consumers were generated as almost-equal siblings.
	Siblings bool `json:"siblings,omitempty"`
}

const rowSel = "k s i f b t"

func (q Query) gql() string {
	if !q.Grouped {
		parts := []string{}
		root := "Users"
		if a := q.Sub.args(); len(a) > 0 {
			root += "(" + strings.Join(a, ", ") + ")"
		}
		parts = append(parts, root+" { "+rowSel+" }")
		for i, a := range q.Aggs {
			parts = append(parts, a.gql(fmt.Sprintf("a%d", i), "Users"))
		}
		return "query { " + strings.Join(parts, " ") + " }"
	}
	args := q.Sub.args("groupBy: [" + strings.Join(q.GroupBy, ", ") + "]")
	sel := append([]string{}, q.GroupBy...)
	if q.Member != nil {
		g := "_group"
		if a := q.Member.args(); len(a) > 0 {
			g += "(" + strings.Join(a, ", ") + ")"
		}
		sel = append(sel, g+" { k }")
	}
	for i, a := range q.Aggs {
		sel = append(sel, a.gql(fmt.Sprintf("a%d", i), "_group"))
	}
	return "query { Users(" + strings.Join(args, ", ") + ") { " + strings.Join(sel, " ") + " } }"
}

// ---- reference evaluation ----

// env is the document list plus the ids the database assigned.
type env struct {
	docs   []Doc
	docIDs []string
}

func (e *env) keyOf(k int, field string) Lit {
	if field == "_docID" {
		s := e.docIDs[k]
		return Lit{S: &s}
	}
	return e.docs[k].field(field)
}

func (e *env) cmpKeys(a, b int, order []OrderKey) int {
	for _, o := range order {
		c := cmpLit(e.keyOf(a, o.Field), e.keyOf(b, o.Field))
		if o.Desc {
			c = -c
		}
		if c != 0 {
			return c
		}
	}
	return 0
}

func (e *env) tuple(k int, order []OrderKey) string {
	parts := []string{}
	for _, o := range order {
		parts = append(parts, e.keyOf(k, o.Field).key())
	}
	return strings.Join(parts, "|")
}

// filterKs returns the members of ks that satisfy f, in the given order.
func (e *env) filterKs(ks []int, f *Filter) []int {
	out := []int{}
	for _, k := range ks {
		if f.matches(e.docs[k]) {
			out = append(out, k)
		}
	}
	return out
}

// sorted returns ks ordered by the documented multi-key order (ties in input order).
func (e *env) sorted(ks []int, order []OrderKey) []int {
	if cur.laterKey && len(order) >= 2 {
		return e.firstKeyOnly(ks, order)
	}
	out := e.firstKeyOnly(ks, nil) // ties stay in enumeration order (free under the documented semantics)
	sort.SliceStable(out, func(i, j int) bool { return e.cmpKeys(out[i], out[j], order) < 0 })
	return out
}

// firstKeyOnly models observation "later order keys are ignored": a stable sort of the scan
// order (document id order) by the first key alone. Used only by the diagnoser.
func (e *env) firstKeyOnly(ks []int, order []OrderKey) []int {
	out := append([]int{}, ks...)
	sort.SliceStable(out, func(i, j int) bool { return e.docIDs[out[i]] < e.docIDs[out[j]] })
	if len(order) > 0 {
		sort.SliceStable(out, func(i, j int) bool { return e.cmpKeys(out[i], out[j], order[:1]) < 0 })
	}
	return out
}

func slice(ks []int, limit, offset int) []int {
	if offset >= len(ks) {
		return []int{}
	}
	ks = ks[offset:]
	if limit > 0 && limit < len(ks) {
		ks = ks[:limit]
	}
	return ks
}

// orderTotal reports whether the order determines the sequence of ks completely.
func (e *env) orderTotal(ks []int, order []OrderKey) bool {
	s := e.sorted(ks, order)
	for i := 1; i < len(s); i++ {
		if e.cmpKeys(s[i-1], s[i], order) == 0 {
			return false
		}
	}
	return true
}

// num is an aggregate value: exact integer or float.
type num struct {
	isInt bool
	i     int64
	f     float64
	null  bool
}

func (n num) String() string {
	switch {
	case n.null:
		return "null"
	case n.isInt:
		return strconv.FormatInt(n.i, 10)
	default:
		return strconv.FormatFloat(n.f, 'g', -1, 64)
	}
}

// aggOver computes fn(field) over the listed documents (already filtered, ordered and sliced).
// Documented arithmetic: count = number of documents; sum/avg/min/max over the non-null values;
// assumptions: sum of nothing = 0, avg of nothing = 0, min/max of nothing = null, int sum is an int.
func (e *env) aggOver(fn, field string, ks []int) num {
	if fn == "_count" {
		return num{isInt: true, i: int64(len(ks))}
	}
	isInt := field == "i"
	var si int64
	var sf, sif float64
	n := 0
	var best *Lit
	for _, k := range ks {
		v := e.docs[k].field(field)
		if v.isNull() {
			if cur.minmaxReset {
				best = nil
			}
			continue
		}
		n++
		if isInt {
			si += *v.I
			sif += float64(*v.I)
		} else {
			sf += *v.F
		}
		if best == nil || (fn == "_min" && cmpLit(v, *best) < 0) || (fn == "_max" && cmpLit(v, *best) > 0) {
			vv := v
			best = &vv
		}
	}
	switch fn {
	case "_sum":
		if isInt && cur.sumFloat {
			return num{isInt: true, i: int64(sif)}
		}
		if isInt {
			return num{isInt: true, i: si}
		}
		return num{f: sf}
	case "_avg":
		if n == 0 {
			return num{f: 0}
		}
		if isInt {
			return num{f: float64(si) / float64(n)}
		}
		return num{f: sf / float64(n)}
	case "_min", "_max":
		if best == nil {
			return num{null: true}
		}
		if isInt {
			return num{isInt: true, i: *best.I}
		}
		return num{f: *best.F}
	}
	panic("aggregate " + fn)
}

// parseNum reads a JSON aggregate value.
func parseNum(v any) (num, bool) {
	switch x := v.(type) {
	case nil:
		return num{null: true}, true
	case json.Number:
		if i, err := strconv.ParseInt(x.String(), 10, 64); err == nil {
			return num{isInt: true, i: i, f: float64(i)}, true
		}
		f, err := strconv.ParseFloat(x.String(), 64)
		if err != nil {
			return num{}, false
		}
		return num{f: f}, true
	}
	return num{}, false
}

func numEqual(want, got num) bool {
	if want.null || got.null {
		return want.null && got.null
	}
	if want.isInt && got.isInt {
		return want.i == got.i
	}
	if want.isInt && !got.isInt && (want.i > 1<<53 || want.i < -(1<<53)) {
		// an integer result beyond 2^53 must come back as an exact integer
		return false
	}
	wf, gf := want.f, got.f
	if want.isInt {
		wf = float64(want.i)
	}
	if got.isInt {
		gf = float64(got.i)
	}
	return wf == gf && !math.IsNaN(wf)
}
