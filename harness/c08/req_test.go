package c08

// Sub-check (c): no request, well-formed or not, makes the database panic or hang.

import (
	"bytes"
	"context"
	"encoding/json"
	"fmt"
	"os"
	"os/exec"
	"regexp"
	"runtime"
	"runtime/debug"
	"strconv"
	"strings"
	"sync"
	"testing"
	"time"

	"pgregory.net/rapid"

	"github.com/sourcenetwork/defradb/acp/identity"
	"github.com/sourcenetwork/defradb/crypto"
	"github.com/sourcenetwork/defradb/internal/db"
	"github.com/sourcenetwork/defradb/verifharness/hx"
)

const reqSchema = `type Users @branchable {
	s: String @index
	i: Int
	f: Float
	b: Boolean
	t: DateTime
	k: Int
	j: JSON
	a: [Int]
	books: [Book]
}
type Book {
	title: String
	rating: Float
	author: Users
}`

// fixture is the database the request strings run against: signed commits (node identity),
// a branchable collection with an index, a relation, updated documents and a deleted one.
type fixture struct {
	n      *hx.Node
	docIDs []string // Users, including the deleted one
	books  []string
	cids   []string // commits that existed before the delete
	// delCids are the commits the delete added (document-level delete commit and the collection-level
	// commit above it): a time-travel read at them replays the delete.
	delCids []string
}

func nodeIdentity() identity.Identity {
	seed := make([]byte, 32)
	for i := range seed {
		seed[i] = byte(i + 1)
	}
	pk, err := crypto.PrivateKeyFromBytes(crypto.KeyTypeSecp256k1, seed)
	if err != nil {
		hx.Harnessf("private key: %v", err)
	}
	ident, err := identity.FromPrivateKey(pk)
	if err != nil {
		hx.Harnessf("identity: %v", err)
	}
	return ident
}

func newFixture() *fixture {
	n := hx.MustMemNode(db.WithNodeIdentity(nodeIdentity()))
	fx := &fixture{n: n}
	if _, err := n.DB.AddSchema(n.Ctx, reqSchema); err != nil {
		n.Close()
		hx.Harnessf("fixture schema rejected: %v", err)
	}
	must := func(q string) hx.Result {
		r := n.Exec(q)
		if !r.OK() {
			n.Close()
			hx.Harnessf("fixture request failed: %s: %s %.500s", q, r.Err(), r.Panic)
		}
		return r
	}
	r := must(`mutation { create_Users(input: [
		{k: 0, s: "a", i: 1, f: 1.5, b: true, t: "2020-01-01T00:00:00Z", j: {x: 1, y: [1, 2]}, a: [1, 2, 3]},
		{k: 1, s: "a", i: 2, f: -0.5, b: false, t: "2021-06-15T12:30:00Z", j: 7, a: []},
		{k: 2, s: "b", i: null, f: null, b: null, t: null, j: null, a: null},
		{k: 3, s: null, i: 2, f: 2.25, j: "str", a: [5]},
		{k: 4, s: "ab", i: -1}
	]) { _docID k } }`)
	byK := map[int]string{}
	for _, row := range r.Rows("create_Users") {
		k, _ := kOf(row)
		byK[k], _ = row["_docID"].(string)
	}
	for k := 0; k < 5; k++ {
		fx.docIDs = append(fx.docIDs, byK[k])
	}
	r = must(fmt.Sprintf(`mutation { create_Book(input: [
		{title: "t0", rating: 4.5, author: %q}, {title: "t1", rating: 1.0, author: %q}, {title: "t2", rating: null, author: %q}, {title: "t3"}
	]) { _docID } }`, fx.docIDs[0], fx.docIDs[0], fx.docIDs[1]))
	for _, row := range r.Rows("create_Book") {
		id, _ := row["_docID"].(string)
		fx.books = append(fx.books, id)
	}
	must(fmt.Sprintf(`mutation { update_Users(docID: %q, input: {i: 5, s: "c"}) { k } }`, fx.docIDs[0]))
	must(fmt.Sprintf(`mutation { update_Users(docID: %q, input: {i: 6}) { k } }`, fx.docIDs[0]))
	must(fmt.Sprintf(`mutation { update_Users(docID: %q, input: {f: 3.0, j: {z: null}}) { k } }`, fx.docIDs[1]))
	r = must(`query { commits { cid signature { type } } }`)
	signed := 0
	before := map[string]bool{}
	for _, row := range r.Rows("commits") {
		c, _ := row["cid"].(string)
		fx.cids = append(fx.cids, c)
		before[c] = true
		if row["signature"] != nil {
			signed++
		}
	}
	must(fmt.Sprintf(`mutation { delete_Users(docID: %q) { k } }`, fx.docIDs[4]))
	r = must(`query { commits { cid signature { type } } }`)
	for _, row := range r.Rows("commits") {
		if c, _ := row["cid"].(string); !before[c] {
			fx.delCids = append(fx.delCids, c)
		}
	}
	if signed == 0 || len(fx.cids) < 10 || len(fx.delCids) == 0 {
		n.Close()
		hx.Harnessf("fixture has %d commits, %d signed, %d from the delete: expected signed commits and a delete commit", len(fx.cids), signed, len(fx.delCids))
	}
	return fx
}

var (
	sharedMu sync.Mutex
	shared   *fixture
)

// sharedFixture is used by requests that cannot write (no `mutation` keyword in the string).
func sharedFixture() *fixture {
	sharedMu.Lock()
	defer sharedMu.Unlock()
	if shared == nil {
		shared = newFixture()
	}
	return shared
}

func dropSharedFixture() {
	sharedMu.Lock()
	defer sharedMu.Unlock()
	if shared != nil {
		shared.n.Close()
		shared = nil
	}
}

// abandonSharedFixture forgets the shared node without closing it (after a hang Close may block too).
func abandonSharedFixture() {
	sharedMu.Lock()
	defer sharedMu.Unlock()
	shared = nil
}

// Mut is one mutation of the token list of a request string.
type Mut struct {
	Kind string `json:"kind"` // del dup swap name value brace
	Pos  int    `json:"pos"`
	Arg  int    `json:"arg,omitempty"`
}

// ReqCase is one request of sub-check (c).
type ReqCase struct {
	Tpl string `json:"tpl"`
	// P are the parameter draws the template consumes in order (modulo the choices it has).
	P []int `json:"p,omitempty"`
	// Q is the query of template "eval" (the grammar of sub-check (a)).
	Q    *Query `json:"q,omitempty"`
	Muts []Mut  `json:"muts,omitempty"`
	// Raw is a literal request (hostile constants, fuzz inputs).
	Raw string `json:"raw,omitempty"`
	// Sig forces `signature` into commit selections (switch that avoids the signature panic).
	Sig bool `json:"sig,omitempty"`
	// Observe runs the request even if it is the trigger of the listed hang.
	Observe bool `json:"observe,omitempty"`
	// Avoid: cids added by the delete are not used (switch for the time-travel-at-delete hang).
	Avoid bool `json:"avoid,omitempty"`
}

type params struct {
	p []int
	i int
}

func (p *params) next(n int) int {
	if n <= 0 {
		return 0
	}
	v := 0
	if p.i < len(p.p) {
		v = p.p[p.i]
	}
	p.i++
	if v < 0 {
		v = -v
	}
	return v % n
}

func (p *params) pick(xs ...string) string { return xs[p.next(len(xs))] }

func (p *params) subset(xs ...string) []string {
	out := []string{}
	for _, x := range xs {
		if p.next(2) == 1 {
			out = append(out, x)
		}
	}
	return out
}

func (p *params) chance(pct int) bool { return p.next(100) < pct }

var templates = []string{"eval", "eval", "commits", "commits", "latestCommits", "version", "timetravel", "explain", "introspect", "relation", "array", "json", "mutation", "subscription", "misc", "hostile"}

func commitFields(p *params, sig bool) string {
	fs := p.subset("cid", "height", "fieldName", "docID", "schemaVersionId", "delta", "links { cid name }", "signature { type identity value }", "__typename", "_count(field: links)")
	if sig {
		fs = append(fs, "signature { type }")
	}
	if len(fs) == 0 {
		fs = []string{"cid"}
	}
	return strings.Join(fs, " ")
}

func (fx *fixture) docID(p *params) string {
	switch p.next(8) {
	case 0:
		return "bae-00000000-0000-0000-0000-000000000000"
	case 1:
		return fx.books[p.next(len(fx.books))]
	default:
		return fx.docIDs[p.next(len(fx.docIDs))]
	}
}

func (fx *fixture) cid(p *params, avoidDelete bool) string {
	switch p.next(10) {
	case 0:
		return "bafybeid57gpbwi4i6bg7g35hhhhhhhhhhhhhhhhhhhhhhhdoesnotexist"
	case 1:
		return "notacid"
	case 2, 3:
		c := fx.delCids[p.next(len(fx.delCids))]
		if avoidDelete && rec.IsKnown(sigDeleteHang) {
			c = fx.cids[p.next(len(fx.cids))]
		}
		return c
	default:
		return fx.cids[p.next(len(fx.cids))]
	}
}

func valueOf(p *params, field string) string {
	switch field {
	case "s":
		return p.pick(`"a"`, `"b"`, `""`, `"a%"`, `null`, `"c"`)
	case "i", "k":
		return p.pick("0", "1", "2", "-1", "5", "null", "2147483647")
	case "f":
		return p.pick("1.5", "0", "-0.5", "null", "1e3")
	case "b":
		return p.pick("true", "false", "null")
	case "t":
		return p.pick(`"2020-01-01T00:00:00Z"`, `"2021-06-15T12:30:00Z"`, `null`, `"nonsense"`)
	}
	return "null"
}

func simpleFilter(p *params) string {
	f := p.pick("s", "i", "f", "b", "t", "k")
	op := p.pick("_eq", "_ne", "_gt", "_lt", "_in", "_like", "_ge", "_nin")
	v := valueOf(p, f)
	if op == "_in" || op == "_nin" {
		v = "[" + v + ", " + valueOf(p, f) + "]"
	}
	leaf := fmt.Sprintf("{%s: {%s: %s}}", f, op, v)
	switch p.next(6) {
	case 0:
		return "{_not: " + leaf + "}"
	case 1:
		return "{_or: [" + leaf + ", {k: {_lt: 3}}]}"
	case 2:
		return "{_and: [" + leaf + "]}"
	}
	return leaf
}

func (c ReqCase) base(fx *fixture) string {
	p := &params{p: c.P}
	switch c.Tpl {
	case "eval":
		if c.Q == nil {
			return "query { Users { k } }"
		}
		q := c.Q.gql()
		sel := p.pick("k s i f b t", "k _docID _deleted", "k _version { cid }", "k _version { cid height links { cid name } }", "_docID __typename j a", "k books { title }")
		if c.Sig {
			sel = strings.ReplaceAll(sel, "_version { cid", "_version { signature { type } cid")
		}
		q = strings.Replace(q, "{ "+rowSel+" }", "{ "+sel+" }", 1)
		if p.chance(25) {
			q = strings.Replace(q, "Users(", "Users(showDeleted: true, ", 1)
		}
		return q
	case "commits":
		args := []string{}
		if p.chance(50) {
			args = append(args, fmt.Sprintf("docID: %q", fx.docID(p)))
		}
		if p.chance(30) {
			args = append(args, fmt.Sprintf("cid: %q", fx.cid(p, c.Avoid)))
		}
		if p.chance(30) {
			args = append(args, "fieldName: "+p.pick(`"i"`, `"_C"`, `"s"`, `"nope"`, `null`, `"books"`))
		}
		if p.chance(25) {
			args = append(args, "depth: "+p.pick("0", "1", "2", "100", "null"))
		}
		if p.chance(35) {
			args = append(args, "order: "+p.pick("{height: ASC}", "{height: DESC}", "{cid: ASC}", "{docID: DESC}", "[{height: DESC}, {cid: ASC}]", "{fieldName: ASC}"))
		}
		if p.chance(30) {
			args = append(args, "limit: "+p.pick("1", "2", "0", "50"))
		}
		if p.chance(20) {
			args = append(args, "offset: "+p.pick("1", "3", "0", "50"))
		}
		fields := commitFields(p, c.Sig)
		if p.chance(25) {
			args = append(args, "groupBy: "+p.pick("[height]", "[fieldName]", "[docID]", "[cid]", "[height, fieldName]"))
			fields = p.pick("height", "fieldName", "docID", "cid") + " _group { " + fields + " }"
		}
		a := ""
		if len(args) > 0 {
			a = "(" + strings.Join(args, ", ") + ")"
		}
		return "query { commits" + a + " { " + fields + " } }"
	case "latestCommits":
		args := []string{fmt.Sprintf("docID: %q", fx.docID(p))}
		if p.chance(40) {
			args = append(args, "fieldName: "+p.pick(`"i"`, `"_C"`, `"s"`, `"1"`, `"nope"`))
		}
		return "query { latestCommits(" + strings.Join(args, ", ") + ") { " + commitFields(p, c.Sig) + " } }"
	case "version":
		root := "Users"
		if p.chance(50) {
			root += "(filter: " + simpleFilter(p) + ")"
		}
		return "query { " + root + " { k _version { " + commitFields(p, c.Sig) + " } } }"
	case "timetravel":
		args := []string{fmt.Sprintf("cid: %q", fx.cid(p, c.Avoid))}
		if p.chance(60) {
			args = append(args, fmt.Sprintf("docID: %q", fx.docID(p)))
		}
		if p.chance(20) {
			args = append(args, "filter: "+simpleFilter(p))
		}
		sel := p.pick("k s i", "k _deleted _docID", "k _version { "+commitFields(p, c.Sig)+" }", "_docID s i f b t j a", "k books { title }")
		return "query { " + p.pick("Users", "Users", "Book") + "(" + strings.Join(args, ", ") + ") { " + strings.Replace(sel, "books { title }", p.pick("books { title }", "k"), 1) + " } }"
	case "explain":
		inner := ReqCase{Tpl: p.pick("eval", "commits", "version", "timetravel", "relation", "array", "mutation"), P: c.P[min(len(c.P), 3):], Q: c.Q, Sig: c.Sig, Avoid: c.Avoid}
		s := inner.base(fx)
		kind := p.pick("@explain", "@explain(type: simple)", "@explain(type: execute)", "@explain(type: debug)", "@explain(type: predict)")
		for _, op := range []string{"query", "mutation"} {
			if strings.HasPrefix(s, op+" {") {
				return op + " " + kind + s[len(op):]
			}
		}
		return s
	case "introspect":
		name := p.pick("Users", "Book", "UsersFilterArg", "Commit", "Query", "Mutation", "Subscription", "IntOperatorBlock", "UsersOrderArg", "Users__NumericSelector", "Ordering", "nope", "__Schema", "UsersMutationInputArg")
		return p.pick(
			fmt.Sprintf(`query { __type(name: %q) { name kind fields { name args { name type { name kind ofType { name kind } } } type { name kind } } inputFields { name type { name } } enumValues { name } interfaces { name } possibleTypes { name } } }`, name),
			`query { __schema { queryType { name fields { name } } mutationType { name fields { name args { name } } } subscriptionType { name } directives { name locations args { name } } types { name kind } } }`,
			`query { __schema { types { name fields(includeDeprecated: true) { name isDeprecated deprecationReason type { ofType { ofType { ofType { name } } } } } } } }`,
			fmt.Sprintf(`query { __typename __type(name: %q) { description } Users { __typename k } }`, name),
		)
	case "relation":
		return p.pick(
			"query { Users(filter: {books: {rating: "+p.pick("{_gt: 1.0}", "{_eq: null}", "{_ne: 4.5}")+"}}) { k books(filter: "+p.pick("{}", "{rating: {_gt: 1}}", "{title: {_like: \"t%\"}}")+", order: {rating: "+p.pick("ASC", "DESC")+"}, limit: "+p.pick("1", "2", "0")+") { title rating } }}",
			"query { Users { k _count(books: {"+p.pick("", "filter: {rating: {_gt: 1}}", "limit: 1", "offset: 1")+"}) _sum(books: {field: rating"+p.pick("", ", filter: {title: {_ne: \"t0\"}}", ", limit: 1, order: {rating: DESC}")+"}) _avg(books: {field: rating}) _max(books: {field: rating}) _min(books: {field: rating}) } }",
			"query { Book(filter: {author: {"+p.pick("s: {_eq: \"c\"}", "i: {_gt: 1}", "_docID: {_eq: \""+fx.docID(p)+"\"}")+"}}, order: {author: {"+p.pick("i", "s", "k")+": "+p.pick("ASC", "DESC")+"}}) { title author { k s } } }",
			"query { Book(groupBy: [author]) { author { k } _group { title } _count(_group: {}) _avg(_group: {field: rating}) } }",
			"query { Users(order: {books: {rating: ASC}}) { k } }",
			"query { Users(groupBy: [s]) { s _group { k books { title } } _sum(_group: {field: _count}) } }",
			"query { Book(filter: {author_id: {_eq: \""+fx.docID(p)+"\"}}) { title author_id } }",
			"query { Users(filter: {_not: {books: {title: {_eq: \"t0\"}}}}) { k } _count(Book: {filter: {author: {k: {_lt: 1}}}}) }",
		)
	case "array":
		return p.pick(
			"query { Users { k a _count(a: {"+p.pick("", "filter: {_gt: 1}", "limit: 1", "offset: 1", "limit: 1, offset: 5")+"}) _sum(a: {"+p.pick("", "filter: {_ne: 2}", "limit: 2, order: DESC", "offset: 1")+"}) _avg(a: {}) _min(a: {"+p.pick("", "filter: {_gt: 1}")+"}) _max(a: {}) } }",
			"query { Users(filter: {a: {"+p.pick("_any", "_all", "_none")+": {"+p.pick("_eq: 1", "_gt: 2", "_in: [1, 5]", "_eq: null")+"}}}) { k a } }",
			"query { Users(filter: {a: {_eq: "+p.pick("[1, 2, 3]", "[]", "null", "[5]")+"}}) { k } }",
			"query { Users(order: {a: ASC}) { k } }",
			"query { Users(groupBy: [a]) { a _count(_group: {}) } }",
		)
	case "json":
		return p.pick(
			"query { Users(filter: {j: {"+p.pick("x: {_eq: 1}", "_eq: 7", "_eq: {x: 1, y: [1, 2]}", "_ne: null", "y: {_any: {_eq: 1}}", "z: {_eq: null}", "_in: [7, \"str\"]", "x: {y: {z: {_gt: 1}}}", "_like: \"s%\"", "_gt: 1")+"}}) { k j } }",
			"query { Users(order: {j: ASC}) { k j } }",
			"query { Users(groupBy: [j]) { j _count(_group: {}) } }",
			"query { _count(Users: {filter: {j: {x: {_eq: 1}}}}) }",
		)
	case "mutation":
		id := fx.docID(p)
		return p.pick(
			"mutation { create_Users(input: {k: "+p.pick("10", "11", "0")+", s: "+valueOf(p, "s")+", i: "+valueOf(p, "i")+", j: "+p.pick("null", "{a: 1}", "[1]", "1")+", a: "+p.pick("null", "[]", "[1, 2]")+"}) { _docID k _version { cid } } }",
			"mutation { create_Users(input: [{k: 20}, {k: 21, s: \"a\"}]) { k } }",
			"mutation { update_Users(docID: \""+id+"\", input: {i: "+valueOf(p, "i")+", s: "+valueOf(p, "s")+"}) { k i s _version { height } } }",
			"mutation { update_Users(filter: "+simpleFilter(p)+", input: {f: "+valueOf(p, "f")+"}) { k f } }",
			"mutation { delete_Users(docID: \""+id+"\") { k _deleted } }",
			"mutation { delete_Users(filter: "+simpleFilter(p)+") { _docID } }",
			"mutation { upsert_Users(filter: {k: {_eq: "+p.pick("0", "50")+"}}, create: {k: 50, s: \"u\"}, update: {s: \"v\"}) { k s } }",
			"mutation { create_Book(input: {title: \"n\", author: \""+id+"\"}) { title author { k } } }",
			"mutation { update_Users(docID: [\""+id+"\", \""+fx.docID(p)+"\"], input: {b: true}) { k } }",
			"mutation { create_Users(input: {k: 1, s: \"a\", i: 1, f: 1.5, b: true, t: \"2020-01-01T00:00:00Z\", j: {x: 1, y: [1, 2]}, a: [1, 2, 3]}) { k } }",
		)
	case "subscription":
		return "subscription { Users" + p.pick("", "(filter: "+simpleFilter(p)+")") + " { k s " + p.pick("", "_version { cid }", "books { title }", "_count(books: {})") + " } }"
	case "misc":
		return p.pick(
			"query($f: UsersFilterArg, $l: Int) { Users(filter: $f, limit: $l) { k } }",
			"query Q($o: [UsersOrderArg]) { Users(order: $o) { k } }",
			"query A { Users { k } } query B { Book { title } }",
			"query { Users { ...F } } fragment F on Users { k s ...G } fragment G on Users { i }",
			"query { Users { ...F } } fragment F on Users { k ...F }",
			"query { x: Users(limit: 1) { k } y: Users(offset: 1) { kk: k k } _count(Users: {}) }",
			"query { Users(filter: {_alias: {x: {_eq: 1}}}, order: {_alias: {x: ASC}}) { x: i } }",
			"query { Users { k @include(if: true) s @skip(if: true) } }",
			"query { Users(docID: \""+fx.docID(p)+"\") { k } }",
			"query { Users(docID: [\""+fx.docID(p)+"\", \"x\"], showDeleted: true) { k _deleted } }",
			"{ Users { k } }",
			"query { Users(filter: {_docID: {_in: [\""+fx.docID(p)+"\"]}}) { k } }",
			"query { _avg(Users: {field: _avg}) }",
			"query { Users(groupBy: [s]) { s _group(groupBy: [b]) { b _group { k } _count(_group: {}) } _sum(_group: {field: _count}) _max(_group: {field: _avg}) } }",
			"query { Users(groupBy: []) { _count(_group: {}) _group { k } } }",
			"query { Users(limit: -1, offset: -1) { k } }",
			"query { Users(order: {_docID: DESC}, limit: 2147483647, offset: 2147483647) { k } }",
			"query { Users(filter: {i: {_ge: 1, _le: 5}, _and: [], _or: []}) { k } }",
			"query { Users(filter: {s: {_like: null}}) { k } }",
			"query { Users(filter: {t: {_gt: \"x\"}}) { k } }",
		)
	case "hostile":
		return hostile[p.next(len(hostile))]
	}
	return c.Raw
}

var hostile = []string{
	"", " ", "{", "}", "query", "query {", "query { }", "{ Users }", "query { Users { } }", "query { Users { k } ", "query { Users { k } } }",
	"query { Users(filter: ) { k } }", "query { Users(filter: {i: {_eq: }}) { k } }", "query { Users(: 1) { k } }",
	"query { Users(limit: 99999999999999999999) { k } }", "query { Users(limit: 1.5) { k } }", "query { Users(limit: \"1\") { k } }",
	"query { Users(filter: {i: {_eq: 99999999999999999999}}) { k } }", "query { Users(filter: {f: {_eq: 1e999}}) { k } }",
	"query { Users(filter: {s: {_eq: \"\\u0000\"}}) { k } }", "query { Users(filter: {s: {_eq: \"\\ud800\"}}) { k } }", "query { Users(filter: {s: {_like: \"%%%\"}}) { k } }",
	"query { Users(filter: {s: {_eq: \"\xff\xfe\"}}) { k } }", "\xef\xbb\xbfquery { Users { k } }", "query { Users { k } } # comment", "query { Users,,, { k,,, } }",
	"query { Users(filter: {s: {_eq: \"\"\"block\"\"\"}}) { k } }", "query { Users { k k k k } }", "query { Users { k: s } }",
	"query { Users(filter: {_and: " + strings.Repeat("[{_and: ", 200) + "[]" + strings.Repeat("}]", 200) + "}) { k } }",
	"query { Users(filter: " + strings.Repeat("{_not: ", 300) + "{}" + strings.Repeat("}", 300) + ") { k } }",
	"query { Users" + strings.Repeat(" { books { author", 6) + " { k }" + strings.Repeat(" } }", 6) + " }",
	"query { " + strings.Repeat("Users { k } ", 300) + "}",
	"query { Users(filter: {i: {_in: [" + strings.Repeat("1, ", 3000) + "1]}}) { k } }",
	"query { commits(cid: \"\") { cid } }", "query { commits(docID: \"\") { cid } }", "query { commits(depth: -1) { cid } }", "query { commits(limit: -5, offset: -5) { cid } }",
	"query { latestCommits { cid } }", "query { latestCommits(docID: null) { cid } }", "query { commits { links { links { cid } } } }",
	"query { Users(cid: \"\") { k } }", "query { Users(cid: \"bafybeid57gpbwi4i6bg7g35hhhhhhhhhhhhhhhhhhhhhhhdoesnotexist\", docID: \"bae-x\") { k } }",
	"query { Users { _version { _version { cid } } } }", "query { Users { _group { k } } }", "query { _count }", "query { _count(Users: {}, Book: {}) }", "query { _sum(Users: {}) }",
	"query { _sum(Users: {field: s}) }", "query { _avg(Users: {field: k, limit: 0}) }", "query { Users(groupBy: [k, k, k]) { k } }", "query { Users(groupBy: [nope]) { k } }",
	"query { Users(order: {nope: ASC}) { k } }", "query { Users(order: {k: SIDEWAYS}) { k } }", "query { Users(order: [{}, {}]) { k } }", "query { Users(order: {k: null}) { k } }",
	"query @explain(type: nope) { Users { k } }", "query @explain @explain { Users { k } }", "query @nope { Users { k } }", "mutation @explain { Users { k } }",
	"mutation { }", "mutation { create_Users }", "mutation { create_Users(input: {}) { k } }", "mutation { create_Users(input: []) { k } }", "mutation { create_Users(input: null) { k } }",
	"mutation { create_Users(input: {nope: 1}) { k } }", "mutation { create_Users(input: {k: \"x\"}) { k } }", "mutation { update_Users(input: {}) { k } }", "mutation { update_Users(docID: \"x\", filter: {}, input: {k: 1}) { k } }",
	"mutation { delete_Users { k } }", "mutation { delete_Users(docID: null) { k } }", "mutation { create_Users(input: {k: 1}, encrypt: true) { k } }", "mutation { create_Users(input: {k: 1}, encryptFields: [s]) { k } }",
	"mutation { update_Users(filter: {}, input: {a: [null]}) { k } }", "mutation { update_Users(filter: {}, input: {t: \"yesterday\"}) { k } }", "mutation { update_Users(filter: {}, input: {j: \"{\"}) { k } }",
	"mutation { upsert_Users(filter: {}, create: {k: 9}, update: {k: 9}) { k } }", "mutation { create_Book(input: {author: \"bae-x\"}) { title } }", "mutation { create_Book(input: {author_id: 5}) { title } }",
	"subscription { }", "subscription { Users }", "subscription { commits { cid } }", "subscription { Users { k } Book { title } }", "subscription { Users(docID: \"x\") { k } }",
	"query { __type { name } }", "query { __type(name: 1) { name } }", "query { __schema { nope } }", "query { __typename }", "query { ... on Query { Users { k } } }", "query { ... { Users { k } } }",
	"fragment F on Users { k }", "query { Users { ...Nope } }", "query ($a: Nope) { Users { k } }", "query ($a: Int = \"x\") { Users(limit: $a) { k } }", "query ($a: Int!) { Users(limit: $a) { k } }",
	"query { Users(filter: {k: {_eq: $x}}) { k } }", "query { Users(filter: {_alias: 1}) { k } }", "query { Users(filter: {_alias: {nope: {_eq: 1}}}) { k } }", "query { Users(order: {_alias: {nope: ASC}}) { k } }",
	"query { Users(filter: {j: {_eq: {}}}) { k } }", "query { Users(filter: {j: {a: {b: {c: {d: {_eq: 1}}}}}}) { k } }", "query { Users(filter: {a: {_any: {}}}) { k } }", "query { Users(filter: {a: {_all: null}}) { k } }",
	"query { Users(filter: {books: {_eq: null}}) { k } }", "query { Users(filter: {books: {author: {books: {author: {k: {_eq: 1}}}}}}) { k } }", "query { Book(filter: {author: null}) { title } }", "query { Book(order: {author: ASC}) { title } }",
	"query { Users { books(groupBy: [title]) { title _group { rating } } } }", "query { Users { k _count(books: {}) _count(books: {filter: {}}) } }", "query { Users { _sum(a: {field: x}) } }", "query { Users { _similarity(a: {vector: [1]}) } }",
}

var tokenRe = regexp.MustCompile(`"""(?s:.*?)"""|"(?:\\.|[^"\\])*"|[A-Za-z_$@][A-Za-z0-9_]*|-?\d+(?:\.\d+)?(?:[eE][+-]?\d+)?|\.\.\.|[{}()\[\]:,!=|&]|\S`)

var nameRe = regexp.MustCompile(`^[A-Za-z_][A-Za-z0-9_]*$`)

var namePool = []string{"filter", "order", "limit", "offset", "groupBy", "docID", "cid", "field", "_group", "_count", "_sum", "_avg", "_min", "_max", "_version", "_docID", "_deleted",
	"commits", "latestCommits", "Users", "Book", "k", "s", "i", "f", "b", "t", "j", "a", "books", "author", "author_id", "_and", "_or", "_not", "_eq", "_ne", "_in", "_nin", "_gt", "_like", "_any", "_all", "_none", "_alias",
	"ASC", "DESC", "null", "true", "false", "links", "signature", "height", "depth", "fieldName", "showDeleted", "input", "create_Users", "update_Users", "delete_Users", "upsert_Users", "query", "mutation", "subscription", "type", "execute", "__typename", "rating", "title", "delta", "x"}

var valuePool = []string{"null", "true", "1", "-1", "0", "1.5", `"x"`, "[]", "{}", "[1]", "{a: 1}", "$v", "ASC", "99999999999", `""`, `"bae-x"`, "1e999", "[null]", "[[1]]", `"2020-01-01T00:00:00Z"`, "{_eq: 1}", "-0", "0.0"}

var bracePool = []string{"{", "}", "(", ")", "[", "]", ":", ",", "!", "...", "@", "$", "\"", "#"}

func isValueTok(t string) bool {
	if t == "" {
		return false
	}
	c := t[0]
	return c == '"' || c == '-' || (c >= '0' && c <= '9') || t == "true" || t == "false" || t == "null" || t == "ASC" || t == "DESC"
}

// mutate applies the token mutations to the request string.
func mutate(s string, muts []Mut) string {
	if len(muts) == 0 {
		return s
	}
	toks := tokenRe.FindAllString(s, -1)
	for _, m := range muts {
		if len(toks) == 0 {
			toks = []string{"{"}
		}
		pos := m.Pos % len(toks)
		if pos < 0 {
			pos = -pos
		}
		arg := m.Arg
		if arg < 0 {
			arg = -arg
		}
		switch m.Kind {
		case "del":
			toks = append(toks[:pos:pos], toks[pos+1:]...)
		case "dup":
			toks = append(toks[:pos+1:pos+1], toks[pos:]...)
		case "swap":
			if pos+1 < len(toks) {
				toks[pos], toks[pos+1] = toks[pos+1], toks[pos]
			}
		case "name":
			// the next name token at or after pos becomes another name
			for i := 0; i < len(toks); i++ {
				j := (pos + i) % len(toks)
				if nameRe.MatchString(toks[j]) {
					toks[j] = namePool[arg%len(namePool)]
					break
				}
			}
		case "value":
			for i := 0; i < len(toks); i++ {
				j := (pos + i) % len(toks)
				if isValueTok(toks[j]) {
					toks[j] = valuePool[arg%len(valuePool)]
					break
				}
			}
		case "brace":
			b := bracePool[arg%len(bracePool)]
			if arg%2 == 0 {
				toks = append(toks[:pos:pos], append([]string{b}, toks[pos:]...)...)
			} else {
				// remove the next bracket at or after pos
				for i := 0; i < len(toks); i++ {
					j := (pos + i) % len(toks)
					if strings.ContainsAny(toks[j], "{}()[]") && len(toks[j]) == 1 {
						toks = append(toks[:j:j], toks[j+1:]...)
						break
					}
				}
			}
		}
	}
	return strings.Join(toks, " ")
}

func (c ReqCase) render(fx *fixture) string {
	if c.Tpl == "" || c.Tpl == "raw" {
		return mutate(c.Raw, c.Muts)
	}
	return mutate(c.base(fx), c.Muts)
}

var validationRe = regexp.MustCompile(`^(Syntax Error|Cannot query field|Unknown argument|Argument "|Unknown type|Unknown fragment|Unknown directive|Field "|Fields "|Fragment |Variable "|Expected type|This anonymous operation|There can be only one|Directive "|Cannot spread fragment|Must provide|Subscription|Schema is not configured|Operation name|Cannot use|Undefined variable)|must have a sub selection|Must provide an operation|is never used|Unknown operation`)

// classify names the stage a response came from.
func classify(r hx.Result) string {
	if len(r.Errors) == 0 {
		return "data"
	}
	e := r.Errors[0]
	switch {
	case strings.HasPrefix(e, "Syntax Error"):
		return "syntax-error"
	case validationRe.MatchString(e):
		return "validation-error"
	default:
		return "planner-error"
	}
}

var hangAfter = time.Duration(hx.EnvInt("VERIF_HANG_S", 30)) * time.Second

var selfFrame = regexp.MustCompile(`c08\.execGuarded\.func1`)

// execGuarded runs one request with its own cancellable context; a panic is recovered; a request
// that has not returned after hangAfter is classified by the state of its goroutine.
func execGuarded(fx *fixture, q string) (hx.Result, *hx.Failure) {
	ctx, cancel := context.WithCancel(fx.n.Ctx)
	defer cancel()
	type out struct {
		res hx.Result
	}
	ch := make(chan out, 1)
	go func() {
		var o out
		defer func() {
			if p := recover(); p != nil {
				o.res.Panic = fmt.Sprintf("%v\n%s", p, debug.Stack())
			}
			ch <- o
		}()
		r := fx.n.DB.ExecRequest(ctx, q)
		for _, e := range r.GQL.Errors {
			o.res.Errors = append(o.res.Errors, e.Error())
		}
		if r.GQL.Data != nil {
			if m, ok := hx.Normalize(r.GQL.Data).(map[string]any); ok {
				o.res.Data = m
			} else {
				o.res.Data = map[string]any{"_": true}
			}
		}
		if r.Subscription != nil {
			cancel()
			for range r.Subscription {
			}
			if o.res.Data == nil {
				o.res.Data = map[string]any{"subscription": true}
			}
		}
	}()
	finish := func(o out) (hx.Result, *hx.Failure) {
		if o.res.Panic != "" {
			return o.res, hx.Failf(panicSig(o.res.Panic), "request %q panicked: %.2500s", q, o.res.Panic)
		}
		return o.res, nil
	}
	// Wait. Every 2 s look at the request goroutine: three consecutive looks that find it blocked
	// (mutex/channel wait) in the same place are a hang (nothing else runs on this node that could
	// release it); a request that is still computing gets hangAfter.
	deadline := time.After(hangAfter)
	tick := time.NewTicker(2 * time.Second)
	defer tick.Stop()
	lastBlocked, sameBlocked := "", 0
wait:
	for {
		select {
		case o := <-ch:
			return finish(o)
		case <-tick.C:
			st, fns, dump := blockedState()
			if st != "blocked" {
				lastBlocked, sameBlocked = "", 0
				continue
			}
			if fns == lastBlocked {
				sameBlocked++
			} else {
				lastBlocked, sameBlocked = fns, 1
			}
			if sameBlocked >= 3 {
				cancel()
				ended := false
				select {
				case <-ch:
					ended = true
				case <-time.After(2 * time.Second):
				}
				return hx.Result{}, hx.Failf("C08/hang/blocked/"+hx.PanicSite(dump), "request %q has not returned after %d s and its goroutine stays blocked in the same place (ended after cancel: %v): %.3000s", q, 2*sameBlocked, ended, dump)
			}
		case <-deadline:
			break wait
		}
	}
	// Not returned. Take two snapshots of the request goroutine: blocked (channel/mutex wait) is a hang;
	// a stack of more than 50 000 frames that keeps growing through the same function is unbounded recursion (also a hang: it ends
	// in a fatal stack overflow of the whole process); anything else still running is inconclusive.
	snap := func() (state string, elided int, site string, dump string) {
		buf := make([]byte, 1<<22)
		buf = buf[:runtime.Stack(buf, true)]
		for _, g := range strings.Split(string(buf), "\n\n") {
			if !selfFrame.MatchString(g) {
				continue
			}
			head := strings.SplitN(g, "\n", 2)[0]
			state = "blocked"
			if strings.Contains(head, "[running") || strings.Contains(head, "[runnable") {
				state = "running"
			}
			if m := elidedRe.FindStringSubmatch(g); m != nil {
				elided, _ = strconv.Atoi(m[1])
			}
			// the function that dominates the visible frames
			counts := map[string]int{}
			for _, line := range strings.Split(g, "\n") {
				if strings.HasPrefix(line, "github.com/sourcenetwork/") && !strings.Contains(line, "verifharness") {
					if i := strings.LastIndex(line, "("); i > 0 {
						line = line[:i]
					}
					counts[strings.TrimPrefix(strings.TrimPrefix(line, "github.com/sourcenetwork/defradb/"), "github.com/sourcenetwork/")]++
				}
			}
			best := 0
			for fn, n := range counts {
				if n > best || (n == best && fn < site) {
					best, site = n, fn
				}
			}
			if best < 10 {
				site = hx.PanicSite(g)
			}
			return state, elided, site, g
		}
		return "gone", 0, "", ""
	}
	// up to 12 further looks, one second apart: the request may still finish (slow, not hung); three
	// consecutive looks with a strictly growing stack of thousands of frames through the same
	// function are unbounded recursion; three looks blocked are a hang.
	var prevEl, grow, blocked int
	var prevSite, dump string
	for round := 0; round < 12; round++ {
		select {
		case o := <-ch:
			return finish(o)
		case <-time.After(time.Second):
		}
		st, el, site, d := snap()
		if d != "" {
			dump = d
		}
		switch {
		case st == "gone":
			continue
		case st == "blocked":
			blocked++
			grow = 0
		case el > 5000 && el > prevEl && (site == prevSite || prevSite == ""):
			grow++
			blocked = 0
		default:
			grow, blocked = 0, 0
		}
		prevEl, prevSite = el, site
		if grow >= 3 || blocked >= 3 {
			break
		}
	}
	cancel()
	ended := false
	select {
	case <-ch:
		ended = true
	case <-time.After(2 * time.Second):
	}
	switch {
	case blocked >= 3:
		return hx.Result{}, hx.Failf("C08/hang/blocked/"+hx.PanicSite(dump), "request %q has not returned after %s and its goroutine is blocked (ended after cancel: %v): %.3000s", q, hangAfter, ended, dump)
	case grow >= 3:
		return hx.Result{}, hx.Failf("C08/hang/unbounded-recursion/"+prevSite, "request %q has not returned after %s: its stack grows without bound through %s (%d frames and growing; ended after cancel: %v): %.2000s", q, hangAfter, prevSite, prevEl, ended, dump)
	}
	hx.Harnessf("request %q still running %d s after %s (not blocked, no runaway recursion; ended after cancel: %v): inconclusive\n%.3000s", q, 12, hangAfter, ended, dump)
	return hx.Result{}, nil
}

// panicSig names a recovered panic by its first defradb frame and the kind of runtime error.
func panicSig(text string) string {
	first := strings.SplitN(text, "\n", 2)[0]
	kind := "other"
	switch {
	case strings.Contains(first, "nil pointer dereference"):
		kind = "nil-deref"
	case strings.Contains(first, "index out of range"), strings.Contains(first, "slice bounds out of range"):
		kind = "index-out-of-range"
	case strings.Contains(first, "interface conversion"):
		kind = "interface-conversion"
	case strings.Contains(first, "Unclosed iterator"):
		kind = "unclosed-iterator"
	case strings.Contains(first, "nil map"):
		kind = "nil-map"
	}
	return "C08/panic/" + hx.PanicSite(text) + "/" + kind
}

// blockedState reports whether the request goroutine is blocked, and the functions on its stack.
func blockedState() (state, fns, dump string) {
	buf := make([]byte, 1<<22)
	buf = buf[:runtime.Stack(buf, true)]
	for _, g := range strings.Split(string(buf), "\n\n") {
		if !selfFrame.MatchString(g) {
			continue
		}
		head := strings.SplitN(g, "\n", 2)[0]
		state = "blocked"
		if strings.Contains(head, "[running") || strings.Contains(head, "[runnable") || strings.Contains(head, "[syscall") || strings.Contains(head, "[GC ") {
			state = "running"
		}
		names := []string{head}
		for _, line := range strings.Split(g, "\n")[1:] {
			if !strings.HasPrefix(line, "\t") {
				if i := strings.LastIndex(line, "("); i > 0 {
					line = line[:i]
				}
				names = append(names, line)
			}
		}
		return state, strings.Join(names, ";"), g
	}
	return "gone", "", ""
}

var elidedRe = regexp.MustCompile(`\.\.\.(\d+) frames elided\.\.\.`)

type reqRun struct {
	req   string
	class string
	fresh bool
	child bool
}

const sigFragmentCycle = "C08/crash/stack-overflow/graphql-go.(*overlappingFieldsCanBeMergedRule).collectConflictsBetweenFieldsAndFragment"

// fatalRisk names the listed finding whose trigger shape the request has ("" if none): a fragment
// definition together with a spread (a fragment cycle overflows the stack inside request validation) or a commits selection
// given both cid and fieldName (unbounded recursion in dagScanNode.Next).
func fatalRisk(q string) string {
	switch {
	case strings.Contains(q, "...") && strings.Contains(q, "fragment"):
		return sigFragmentCycle
	case commitsCidFieldRe.MatchString(q):
		return sigCommitsRecursion
	}
	return ""
}

type childOut struct {
	Class string `json:"class"`
	Sig   string `json:"sig,omitempty"`
	Msg   string `json:"msg,omitempty"`
}

const childMarker = "C08CHILD:"

// TestC08Child is the body of the child process: one request on a fresh fixture.
func TestC08Child(t *testing.T) {
	q, ok := os.LookupEnv("C08_CHILD_REQ")
	if !ok {
		t.Skip("child-process entry point")
	}
	hangAfter = time.Duration(hx.EnvInt("C08_CHILD_HANG_S", 3)) * time.Second
	debug.SetMaxStack(hx.EnvInt("C08_CHILD_MAXSTACK_MB", 512) << 20)
	fx := newFixture()
	res, f := execGuarded(fx, q)
	if f != nil && strings.HasPrefix(f.Sig, "C08/hang/unbounded-recursion/") {
		// A stack that grows without bound ends in a fatal stack overflow sooner or later (sooner on an
		// idle machine, where this point is never reached). Wait for it, so that one defect has one
		// signature (C08/crash/stack-overflow/<site>, written by the parent) however fast the machine is;
		// only a recursion that survives the wait is reported as a hang.
		time.Sleep(100 * time.Second)
	}
	out := childOut{Class: classify(res)}
	if f != nil {
		out.Class, out.Sig, out.Msg = "panic-or-hang", f.Sig, f.Msg
	}
	raw, _ := json.Marshal(out)
	fmt.Printf("\n%s%s\n", childMarker, raw)
	os.Exit(0) // at once: a runaway request goroutine may still be eating the stack
}

var crashFrameRe = regexp.MustCompile(`(?m)^(github\.com/[^\s(]+(?:\(\*[^)]+\))?[^\s(]*)\(`)

// runInChild executes the request in a child process and reads its verdict; a child that dies of
// a fatal runtime error is a violation (the request killed the database process).
func runInChild(q string) (string, *hx.Failure) {
	cmd := exec.Command(os.Args[0], "-test.run", "^TestC08Child$", "-test.timeout", "120s")
	env := []string{}
	for _, e := range os.Environ() {
		if !strings.HasPrefix(e, "VERIF_STATS=") && !strings.HasPrefix(e, "VERIF_REPLAY=") {
			env = append(env, e)
		}
	}
	cmd.Env = append(env, "C08_CHILD_REQ="+q)
	var buf bytes.Buffer
	cmd.Stdout, cmd.Stderr = &buf, &buf
	if err := cmd.Start(); err != nil {
		hx.Harnessf("cannot start child process: %v", err)
	}
	done := make(chan error, 1)
	go func() { done <- cmd.Wait() }()
	select {
	case <-done:
	case <-time.After(150 * time.Second):
		_ = cmd.Process.Kill()
		<-done
		hx.Harnessf("child process for %q did not end in 150 s", q)
	}
	text := buf.String()
	if i := strings.LastIndex(text, childMarker); i >= 0 {
		line := strings.SplitN(text[i+len(childMarker):], "\n", 2)[0]
		var out childOut
		if err := json.Unmarshal([]byte(line), &out); err != nil {
			hx.Harnessf("child verdict unreadable: %q", line)
		}
		if out.Sig != "" {
			return out.Class, &hx.Failure{Sig: out.Sig, Msg: out.Msg}
		}
		return out.Class, nil
	}
	if i := strings.Index(text, "fatal error: "); i >= 0 {
		kind := strings.SplitN(text[i+len("fatal error: "):], "\n", 2)[0]
		site := "unknown"
		if j := strings.Index(text[i:], "[running]:"); j >= 0 {
			block := strings.SplitN(text[i+j:], "\n\n", 2)[0]
			counts, best := map[string]int{}, 0
			for _, m := range crashFrameRe.FindAllStringSubmatch(block, -1) {
				fn := m[1]
				for _, pre := range []string{"github.com/sourcenetwork/defradb/", "github.com/sourcenetwork/"} {
					fn = strings.TrimPrefix(fn, pre)
				}
				counts[fn]++
				if counts[fn] > best || (counts[fn] == best && fn < site) {
					best, site = counts[fn], fn
				}
			}
		}
		return "crash", hx.Failf("C08/crash/"+strings.ReplaceAll(kind, " ", "-")+"/"+site, "request %q killed the process: fatal error: %s\n%.2500s", q, kind, text[i:])
	}
	hx.Harnessf("child process for %q ended without verdict: %.2000s", q, text)
	return "", nil
}

const sigDeleteHang = "C08/hang/blocked/internal/core/crdt.DocComposite.deleteWithPrefix"

const sigCommitsRecursion = "C08/hang/unbounded-recursion/internal/planner.(*dagScanNode).Next"

// commitsCidFieldRe recognises the trigger of the listed hang: a commits selection (commits or a
// time-travel read) given both a cid and a fieldName.
var commitsCidFieldRe = regexp.MustCompile(`(?s)\(\s*[^()]*\bcid\b[^()]*\bfieldName\b[^()]*\)|\(\s*[^()]*\bfieldName\b[^()]*\bcid\b[^()]*\)`)

// runReq is the pure run of one request case.
func runReq(c ReqCase) (*reqRun, *hx.Failure) {
	fx := sharedFixture()
	q := c.render(fx)
	r := &reqRun{req: q}
	closeFresh := true
	if kind := fatalRisk(q); kind != "" {
		// Requests of these shapes can end in a fatal stack overflow, which no recover() survives: they
		// are executed alone in a child process. While the corresponding finding is listed as known,
		// nineteen cases in twenty (Avoid) are not executed at all, because each observation costs seconds.
		if c.Avoid && !c.Observe && rec.IsKnown(kind) {
			r.class = "skipped(known-fatal-trigger)"
			return r, nil
		}
		r.child = true
		var f *hx.Failure
		r.class, f = runInChild(q)
		return r, f
	}
	if strings.Contains(q, "mutation") {
		// the request may write: it gets its own database (same content, same ids)
		fx = newFixture()
		defer func() {
			if closeFresh {
				fx.n.Close()
			}
		}()
		r.fresh = true
		q = c.render(fx)
		r.req = q
	}
	res, f := execGuarded(fx, q)
	if f != nil {
		hang := strings.HasPrefix(f.Sig, "C08/hang/")
		switch {
		case hang && r.fresh:
			closeFresh = false // abandoned: after a hang Close may block too
		case hang:
			abandonSharedFixture()
		case !r.fresh:
			dropSharedFixture()
		}
		r.class = "panic-or-hang"
		return r, f
	}
	r.class = classify(res)
	return r, nil
}

func drawMuts(t *rapid.T) []Mut {
	n := rapid.SampledFrom([]int{0, 0, 0, 0, 0, 1, 1, 1, 2, 3}).Draw(t, "nmut")
	out := []Mut{}
	for i := 0; i < n; i++ {
		out = append(out, Mut{
			Kind: rapid.SampledFrom([]string{"del", "dup", "swap", "name", "name", "value", "value", "brace"}).Draw(t, "mkind"),
			Pos:  rapid.IntRange(0, 400).Draw(t, "mpos"),
			Arg:  rapid.IntRange(0, 200).Draw(t, "marg"),
		})
	}
	return out
}

func drawReq(t *rapid.T) ReqCase {
	c := ReqCase{Tpl: rapid.SampledFrom(templates).Draw(t, "tpl")}
	c.P = rapid.SliceOfN(rapid.IntRange(0, 999), 24, 24).Draw(t, "p")
	if c.Tpl == "eval" || c.Tpl == "explain" {
		q := drawQuery(t)
		c.Q = &q
	}
	c.Muts = drawMuts(t)
	// the hang at delete commits costs several seconds per observation: while it is listed as a known
	// finding nineteen cases in twenty stay away from it
	c.Avoid = rapid.IntRange(0, 19).Draw(t, "avoid") != 0
	return c
}

func TestC08Requests(t *testing.T) {
	defer dropSharedFixture()
	rapid.Check(t, func(t *rapid.T) {
		c := drawReq(t)
		var r *reqRun
		f := hx.Guard("C08", func() *hx.Failure {
			var f *hx.Failure
			r, f = runReq(c)
			return f
		})
		labels := []string{"req", "req:tpl:" + c.Tpl, fmt.Sprintf("req:mutations:%d", len(c.Muts))}
		nt := false
		if r != nil {
			labels = append(labels, "req:class:"+r.class)
			nt = r.class == "data" || r.class == "planner-error"
			if r.fresh {
				labels = append(labels, "req:may-write(fresh-db)")
			}
			if r.child {
				labels = append(labels, "req:run-in-child-process")
			}
		}
		rec.Eval(c, nt, labels...)
		if f != nil && os.Getenv("VERIF_COLLECT") != "" && !rec.IsKnown(f.Sig) {
			// discovery mode (development aid): list distinct failure signatures with the shortest request
			collectMu.Lock()
			if old, ok := collected[f.Sig]; !ok || len(r.req) < len(old) {
				collected[f.Sig] = r.req
				fmt.Printf("COLLECT %s :: %s\n", f.Sig, r.req)
			}
			collectMu.Unlock()
			return
		}
		if rec.Check(t, AnyCase{Req: &c}, f) {
			return
		}
	})
}

var (
	collectMu sync.Mutex
	collected = map[string]string{}
)

// jsonString is used by the fuzz corpus replay to embed raw requests into cases.
func jsonString(s string) string {
	b, _ := json.Marshal(s)
	return string(b)
}
