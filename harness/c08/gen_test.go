package c08

// Generators of the C08 check (documents, filter trees, order lists, aggregates, queries).

import (
	"fmt"
	"sort"
	"sync"

	"pgregory.net/rapid"

	"github.com/sourcenetwork/defradb/verifharness/hx"
)

const evalSchema = "type Users { s: String \n i: Int \n f: Float \n b: Boolean \n t: DateTime \n k: Int }"

// refOps are the operators the reference evaluator has semantics for.
var refOps = map[string]bool{
	"_eq": true, "_ne": true, "_gt": true, "_ge": true, "_lt": true, "_le": true, "_in": true, "_nin": true,
	"_like": true, "_nlike": true, "_ilike": true, "_nilike": true,
}

var (
	opsOnce  sync.Once
	opsTable map[string][]string
)

// fieldOps reads the operator blocks of the generated UsersFilterArg by introspection and
// intersects them with refOps. A field without a usable operator is a generator health error.
func fieldOps() map[string][]string {
	opsOnce.Do(func() {
		n := hx.MustMemNode()
		defer n.Close()
		if _, err := n.DB.AddSchema(n.Ctx, evalSchema); err != nil {
			hx.Harnessf("schema rejected: %v", err)
		}
		r := n.Exec(`query { __type(name: "UsersFilterArg") { inputFields { name type { name } } } }`)
		if !r.OK() {
			hx.Harnessf("introspection of UsersFilterArg failed: %s %s", r.Err(), r.Panic)
		}
		blocks := map[string]string{}
		ty, _ := r.Data["__type"].(map[string]any)
		fs, _ := ty["inputFields"].([]any)
		for _, f := range fs {
			m, _ := f.(map[string]any)
			name, _ := m["name"].(string)
			tm, _ := m["type"].(map[string]any)
			bn, _ := tm["name"].(string)
			blocks[name] = bn
		}
		opsTable = map[string][]string{}
		unmodelled := 0
		for _, f := range fieldNames {
			bn := blocks[f]
			if bn == "" {
				hx.Harnessf("field %s has no operator block in UsersFilterArg (%v)", f, blocks)
			}
			r := n.Exec(fmt.Sprintf(`query { __type(name: %q) { inputFields { name } } }`, bn))
			if !r.OK() {
				hx.Harnessf("introspection of %s failed: %s", bn, r.Err())
			}
			ty, _ := r.Data["__type"].(map[string]any)
			fs, _ := ty["inputFields"].([]any)
			for _, x := range fs {
				m, _ := x.(map[string]any)
				op, _ := m["name"].(string)
				if refOps[op] {
					opsTable[f] = append(opsTable[f], op)
				} else {
					unmodelled++
				}
			}
			sort.Strings(opsTable[f])
			if len(opsTable[f]) == 0 {
				hx.Harnessf("no operator with reference semantics for field %s (block %s)", f, bn)
			}
		}
		for _, need := range []string{"_and", "_or", "_not"} {
			if _, ok := blocks[need]; !ok {
				hx.Harnessf("UsersFilterArg lacks %s", need)
			}
		}
		rec.Extra["operators_without_reference_semantics"] = unmodelled
	})
	return opsTable
}

var (
	strPool     = []string{"", "a", "b", "ab", "ba", "aa", "aba", "A", "Ab", "a%", "é"}
	likeAtoms   = []string{"a", "b", "ab", "A", "é", "ba"}
	intPool     = []int64{-2, -1, 0, 1, 2, 3, 7}
	intEdgePool = []int64{2147483647, -2147483648, 1 << 40, -(1 << 40), 1<<40 + 1}
	intLitPool  = []int64{-2, -1, 0, 1, 2, 3, 7, 2147483647, -2147483648}
	// beyond 2^53, sized so that six of them cannot overflow int64
	intBigPool = []int64{1<<60 + 1, 1 << 60, -(1<<60 + 1), 1<<53 + 1, 1<<53 + 3, -(1<<53 + 1), 1<<55 + 1, 1, 0, -1}
	// multiples of 2^-10 with magnitude ≤ 2^21: any sum of ≤ 25 of them is exact in float64
	floatPool = []float64{-1.5, -0.5, 0, 0.5, 1, 1.5, 2.25, 3, 1024.0009765625, -1048576.5, 0.0009765625}
)

func ptr[T any](v T) *T { return &v }

func drawValue(t *rapid.T, field string, big bool) Lit {
	switch field {
	case "s":
		return Lit{S: ptr(rapid.SampledFrom(strPool).Draw(t, "s"))}
	case "i":
		if big {
			return Lit{I: ptr(rapid.SampledFrom(intBigPool).Draw(t, "ibig"))}
		}
		if rapid.IntRange(0, 9).Draw(t, "iedge") == 0 {
			return Lit{I: ptr(rapid.SampledFrom(intEdgePool).Draw(t, "i"))}
		}
		return Lit{I: ptr(rapid.SampledFrom(intPool).Draw(t, "i"))}
	case "f":
		return Lit{F: ptr(rapid.SampledFrom(floatPool).Draw(t, "f"))}
	case "b":
		return Lit{B: ptr(rapid.Bool().Draw(t, "b"))}
	case "t":
		return Lit{T: ptr(rapid.IntRange(0, len(timePool)-1).Draw(t, "t"))}
	}
	panic(field)
}

func drawDoc(t *rapid.T, big bool) Doc {
	d := Doc{}
	for _, f := range fieldNames {
		if rapid.IntRange(0, 4).Draw(t, "null") == 0 {
			continue
		}
		v := drawValue(t, f, big)
		d.S, d.I, d.F, d.B, d.T = pick(d.S, v.S), pick(d.I, v.I), pick(d.F, v.F), pick(d.B, v.B), pick(d.T, v.T)
	}
	return d
}

func pick[T any](old, new *T) *T {
	if new != nil {
		return new
	}
	return old
}

// drawOperand draws a filter operand for the field: GraphQL Int literals are 32-bit.
func drawOperand(t *rapid.T, field string, nullPct int) Lit {
	if nullPct > 0 && rapid.IntRange(0, 99).Draw(t, "nullop") < nullPct {
		return Lit{Null: true}
	}
	if field == "i" {
		return Lit{I: ptr(rapid.SampledFrom(intLitPool).Draw(t, "ilit"))}
	}
	return drawValue(t, field, false)
}

func drawLikePattern(t *rapid.T) string {
	x := rapid.SampledFrom(likeAtoms).Draw(t, "x")
	switch rapid.IntRange(0, 4).Draw(t, "form") {
	case 0:
		return x
	case 1:
		return x + "%"
	case 2:
		return "%" + x
	case 3:
		return "%" + x + "%"
	default:
		return x + "%" + rapid.SampledFrom(likeAtoms).Draw(t, "y")
	}
}

func drawLeaf(t *rapid.T, fields []string) Filter {
	ops := fieldOps()
	field := rapid.SampledFrom(fields).Draw(t, "field")
	op := rapid.SampledFrom(ops[field]).Draw(t, "op")
	f := Filter{Kind: "leaf", Field: field, Op: op}
	switch op {
	case "_in", "_nin":
		n := rapid.IntRange(0, 3).Draw(t, "nvals")
		f.Vals = []Lit{}
		for i := 0; i < n; i++ {
			f.Vals = append(f.Vals, drawOperand(t, field, 12))
		}
	case "_like", "_nlike", "_ilike", "_nilike":
		f.Val = &Lit{S: ptr(drawLikePattern(t))}
	case "_eq", "_ne":
		v := drawOperand(t, field, 15)
		f.Val = &v
	default:
		v := drawOperand(t, field, 5)
		f.Val = &v
	}
	return f
}

func drawFilter(t *rapid.T, depth int) Filter {
	if depth <= 1 || rapid.IntRange(0, 9).Draw(t, "leaf") < 4 {
		return drawLeaf(t, fieldNames)
	}
	switch rapid.IntRange(0, 6).Draw(t, "kind") {
	case 0, 1:
		return Filter{Kind: "and", Kids: drawKids(t, depth-1)}
	case 2, 3:
		return Filter{Kind: "or", Kids: drawKids(t, depth-1)}
	case 4, 5:
		return Filter{Kind: "not", Kids: []Filter{drawFilter(t, depth-1)}}
	default:
		// one object with leaves on distinct fields
		perm := rapid.Permutation(fieldNames).Draw(t, "objfields")
		n := rapid.IntRange(2, 3).Draw(t, "nobj")
		kids := []Filter{}
		for _, f := range perm[:n] {
			kids = append(kids, drawLeaf(t, []string{f}))
		}
		return Filter{Kind: "obj", Kids: kids}
	}
}

func drawKids(t *rapid.T, depth int) []Filter {
	n := rapid.SampledFrom([]int{1, 2, 2, 2, 2, 3, 3}).Draw(t, "nkids")
	kids := []Filter{}
	for i := 0; i < n; i++ {
		kids = append(kids, drawFilter(t, depth))
	}
	return kids
}

func drawOptFilter(t *rapid.T, pct, depth int) *Filter {
	if rapid.IntRange(0, 99).Draw(t, "hasfilter") >= pct {
		return nil
	}
	f := drawFilter(t, depth)
	return &f
}

// drawOrder draws 0–3 order keys over the given fields; with docID a final _docID key may follow.
func drawOrder(t *rapid.T, pct int, fields []string, docID bool) []OrderKey {
	if rapid.IntRange(0, 99).Draw(t, "hasorder") >= pct || len(fields) == 0 {
		return nil
	}
	n := rapid.SampledFrom([]int{1, 1, 1, 2, 2, 2, 2, 2, 3, 3}).Draw(t, "nkeys")
	out := []OrderKey{}
	for i := 0; i < n; i++ {
		out = append(out, OrderKey{Field: rapid.SampledFrom(fields).Draw(t, "okey"), Desc: rapid.Bool().Draw(t, "desc")})
	}
	if docID && rapid.IntRange(0, 3).Draw(t, "bydocid") == 0 {
		out = append(out, OrderKey{Field: "_docID", Desc: rapid.Bool().Draw(t, "desc")})
	}
	return out
}

func drawLimit(t *rapid.T, pct int) (limit, offset int) {
	if rapid.IntRange(0, 99).Draw(t, "haslimit") >= pct {
		return 0, 0
	}
	switch rapid.IntRange(0, 3).Draw(t, "limkind") {
	case 0:
		return rapid.IntRange(1, 6).Draw(t, "limit"), 0
	case 1:
		return 0, rapid.IntRange(1, 6).Draw(t, "offset")
	default:
		return rapid.IntRange(1, 6).Draw(t, "limit"), rapid.IntRange(0, 6).Draw(t, "offset")
	}
}

func drawAgg(t *rapid.T) Agg {
	a := Agg{Fn: rapid.SampledFrom([]string{"_count", "_sum", "_avg", "_min", "_max"}).Draw(t, "fn")}
	if a.Fn != "_count" {
		a.Field = rapid.SampledFrom([]string{"i", "f"}).Draw(t, "aggfield")
	}
	a.Sub.Filter = drawOptFilter(t, 50, 2)
	a.Sub.Limit, a.Sub.Offset = drawLimit(t, 35)
	if a.Fn != "_count" {
		pct := 15
		if a.Sub.Limit > 0 || a.Sub.Offset > 0 {
			pct = 75
		}
		a.Sub.Order = drawOrder(t, pct, fieldNames, true)
	}
	return a
}

func drawQuery(t *rapid.T) Query {
	q := Query{}
	q.Filter = drawOptFilter(t, 75, 3)
	q.Grouped = rapid.IntRange(0, 9).Draw(t, "grouped") < 4
	nAggs := rapid.SampledFrom([]int{0, 1, 1, 2, 2, 3}).Draw(t, "naggs")
	if !q.Grouped {
		q.Order = drawOrder(t, 75, fieldNames, true)
		q.Limit, q.Offset = drawLimit(t, 45)
	} else {
		perm := rapid.Permutation(fieldNames).Draw(t, "gfields")
		q.GroupBy = append([]string{}, perm[:rapid.IntRange(1, 2).Draw(t, "ngroup")]...)
		q.Order = drawOrder(t, 50, q.GroupBy, false)
		q.Limit, q.Offset = drawLimit(t, 30)
		if rapid.IntRange(0, 9).Draw(t, "member") < 7 {
			m := Sub{Filter: drawOptFilter(t, 40, 2)}
			m.Order = drawOrder(t, 55, fieldNames, true)
			m.Limit, m.Offset = drawLimit(t, 35)
			q.Member = &m
		}
		if q.Member == nil && nAggs == 0 {
			nAggs = 1
		}
	}
	for i := 0; i < nAggs; i++ {
		q.Aggs = append(q.Aggs, drawAgg(t))
	}
	if q.Grouped && rapid.IntRange(0, 9).Draw(t, "siblings") < 5 {
		drawSiblings(t, &q)
	}
	return q
}

// cloneFilter deep-copies a filter tree.
func cloneFilter(f Filter) Filter {
	c := f
	if f.Val != nil {
		v := *f.Val
		c.Val = &v
	}
	if f.Vals != nil {
		c.Vals = append([]Lit{}, f.Vals...)
	}
	if f.Kids != nil {
		c.Kids = make([]Filter, len(f.Kids))
		for i := range f.Kids {
			c.Kids[i] = cloneFilter(f.Kids[i])
		}
	}
	return c
}

// perturb returns a copy of the filter in which exactly one operand differs: one constant of one
// leaf, or one element of an _in/_nin list (the list keeps its length). Operator tree, fields and
// operators stay the same.
func perturb(t *rapid.T, f Filter) Filter {
	c := cloneFilter(f)
	leaves := []*Filter{}
	c.walk(func(n *Filter) {
		if n.Kind == "leaf" && !((n.Op == "_in" || n.Op == "_nin") && len(n.Vals) == 0) {
			leaves = append(leaves, n)
		}
	})
	if len(leaves) == 0 {
		return c
	}
	n := leaves[rapid.IntRange(0, len(leaves)-1).Draw(t, "pleaf")]
	for try := 0; try < 6; try++ {
		switch n.Op {
		case "_in", "_nin":
			i := rapid.IntRange(0, len(n.Vals)-1).Draw(t, "pelem")
			v := drawOperand(t, n.Field, 10)
			if v.key() != n.Vals[i].key() {
				n.Vals[i] = v
				return c
			}
		case "_like", "_nlike", "_ilike", "_nilike":
			pat := drawLikePattern(t)
			if pat != *n.Val.S {
				n.Val = &Lit{S: &pat}
				return c
			}
		default:
			v := drawOperand(t, n.Field, 10)
			if v.key() != n.Val.key() {
				n.Val = &v
				return c
			}
		}
	}
	return c
}

// drawListLeaf draws `field: {_in|_nin: [2-3 values]}` over a field whose pool is small enough
// for the list to select some but not all members.
func drawListLeaf(t *rapid.T) Filter {
	ops := fieldOps()
	field := rapid.SampledFrom([]string{"i", "i", "s", "f", "t", "b"}).Draw(t, "lfield")
	cands := []string{}
	for _, op := range ops[field] {
		if op == "_in" || op == "_nin" {
			cands = append(cands, op)
		}
	}
	if len(cands) == 0 {
		return drawLeaf(t, []string{field})
	}
	f := Filter{Kind: "leaf", Field: field, Op: rapid.SampledFrom(cands).Draw(t, "lop"), Vals: []Lit{}}
	n := rapid.IntRange(1, 3).Draw(t, "llen")
	for i := 0; i < n; i++ {
		f.Vals = append(f.Vals, drawOperand(t, field, 10))
	}
	return f
}

// drawSiblings rewrites the consumers of _group (the rendered _group selection and the aggregates)
// into "almost equal" siblings: the same filter tree, limit, offset and order, except for one
// operand (a constant or one element of an equal-length list) — the class in which a planner that
// shares one source between consumers it takes for identical goes wrong. Some siblings keep the
// identical filter (control: sharing is right there).
func drawSiblings(t *rapid.T, q *Query) {
	var base Filter
	switch rapid.IntRange(0, 9).Draw(t, "sbase") {
	case 0, 1, 2, 3:
		base = drawListLeaf(t)
	case 4:
		base = Filter{Kind: "not", Kids: []Filter{drawListLeaf(t)}}
	case 5:
		base = Filter{Kind: rapid.SampledFrom([]string{"and", "or"}).Draw(t, "sconn"), Kids: []Filter{drawListLeaf(t), drawLeaf(t, fieldNames)}}
	case 6:
		base = Filter{Kind: "and", Kids: []Filter{drawLeaf(t, fieldNames), {Kind: "or", Kids: []Filter{drawListLeaf(t), drawLeaf(t, fieldNames)}}}}
	case 7, 8:
		base = drawLeaf(t, fieldNames)
	default:
		base = drawFilter(t, 2)
	}
	// shared arguments. Aggregates over an unordered slice inside a group cannot be judged (except
	// _count), and _count takes no order: three modes keep every sibling judgeable and colliding.
	shared := Sub{}
	mode := rapid.IntRange(0, 3).Draw(t, "smode")
	switch mode {
	case 2:
		shared.Order = []OrderKey{{Field: rapid.SampledFrom(fieldNames).Draw(t, "sokey"), Desc: rapid.Bool().Draw(t, "sodesc")}, {Field: "_docID"}}
		shared.Limit, shared.Offset = rapid.IntRange(1, 4).Draw(t, "slimit"), rapid.IntRange(0, 2).Draw(t, "soffset")
	case 3:
		shared.Limit, shared.Offset = rapid.IntRange(1, 4).Draw(t, "slimit"), rapid.IntRange(0, 2).Draw(t, "soffset")
	}
	variant := func() *Filter {
		var f Filter
		if rapid.IntRange(0, 4).Draw(t, "same") == 0 {
			f = cloneFilter(base)
		} else {
			f = perturb(t, base)
		}
		return &f
	}
	if rapid.IntRange(0, 9).Draw(t, "smember") < 7 {
		m := shared
		b := cloneFilter(base)
		m.Filter = &b
		q.Member = &m
	} else {
		q.Member = nil
	}
	n := rapid.IntRange(1, 3).Draw(t, "snaggs")
	if q.Member == nil && n < 2 {
		n = 2
	}
	q.Aggs = nil
	for i := 0; i < n; i++ {
		fns := []string{"_count", "_sum", "_min", "_max", "_avg"}
		if mode == 3 {
			fns = []string{"_count"}
		}
		a := Agg{Fn: rapid.SampledFrom(fns).Draw(t, "sfn"), Sub: shared}
		if a.Fn != "_count" {
			a.Field = rapid.SampledFrom([]string{"i", "f"}).Draw(t, "sfield")
		}
		a.Sub.Filter = variant()
		q.Aggs = append(q.Aggs, a)
	}
	q.Siblings = true
}

// Case is one evaluation case of sub-checks (a) and (b).
type Case struct {
	Docs []Doc `json:"docs"`
	// Big marks the separately-signed sub-domain with integers beyond 2^53.
	Big bool  `json:"big,omitempty"`
	Q   Query `json:"q"`
	// G is the second filter of the metamorphic relations.
	G Filter `json:"g"`
	// Avoid records that the triggers of the listed known findings were removed by construction.
	Avoid bool `json:"avoid,omitempty"`
}

func drawCase(t *rapid.T) Case {
	c := Case{}
	c.Big = rapid.IntRange(0, 11).Draw(t, "big") == 0
	maxDocs := 25
	if c.Big {
		maxDocs = 6
	}
	n := rapid.SampledFrom([]int{0, 2, 3, 4, 5, 6, 6, 7, 8, 8, 9, 10, 10, 12, 14, 18, 25}).Draw(t, "ndocs")
	if n > maxDocs {
		n = maxDocs
	}
	c.Docs = []Doc{}
	for i := 0; i < n; i++ {
		c.Docs = append(c.Docs, drawDoc(t, c.Big))
	}
	c.Q = drawQuery(t)
	c.G = drawFilter(t, 2)
	c.Avoid = rapid.Bool().Draw(t, "avoid")
	if c.Avoid {
		applyAvoid(&c)
	}
	return c
}

// Signatures with a generator switch ("search past a defect"): the switch is applied only while the
// signature is listed as a known finding; once a finding is repaired the trigger is generated always.
const (
	sigLaterKey    = "C08/order/later-key-ignored"
	sigMinMaxNull  = "C08/agg/minmax-forgets-values-before-null"
	sigAvgNe       = "C08/agg/avg-overwrites-ne-filter"
	sigLikeInfix   = "C08/filter/like-infix-overlap"
	sigSumBig      = "C08/agg/int-sum-through-float64"
	sigGroupLimit  = "C08/group/member-limit-with-parent-order"
	sigAggNot      = "C08/agg/not-at-top-of-aggregate-filter"
	sigGroupOffset = "C08/group/offset-without-limit-selects-nothing"
	sigAvgShared   = "C08/agg/avg-shares-sum-count-across-limits"
)

func truncOrder(o []OrderKey) []OrderKey {
	if len(o) > 1 {
		return o[:1]
	}
	return o
}

func applyAvoid(c *Case) {
	if rec.IsKnown(sigLaterKey) {
		c.Q.Order = truncOrder(c.Q.Order)
		if c.Q.Member != nil {
			c.Q.Member.Order = truncOrder(c.Q.Member.Order)
		}
		for i := range c.Q.Aggs {
			c.Q.Aggs[i].Sub.Order = truncOrder(c.Q.Aggs[i].Sub.Order)
		}
	}
	if rec.IsKnown(sigAvgShared) {
		seen := map[string]bool{}
		for i := range c.Q.Aggs {
			if a := &c.Q.Aggs[i]; a.Fn == "_avg" {
				if seen[a.Field] {
					a.Fn = "_sum"
				}
				seen[a.Field] = true
			}
		}
	}
	if rec.IsKnown(sigMinMaxNull) {
		for i := range c.Q.Aggs {
			if a := &c.Q.Aggs[i]; a.Fn == "_min" || a.Fn == "_max" {
				a.Fn = "_sum"
			}
		}
	}
	fixLeaf := func(f *Filter) {
		f.walk(func(n *Filter) {
			if n.Kind != "leaf" {
				return
			}
			if rec.IsKnown(sigAvgNe) && n.Op == "_ne" && (n.Field == "i" || n.Field == "f") {
				n.Op = "_eq"
			}
			if rec.IsKnown(sigLikeInfix) && n.Val != nil && n.Val.S != nil {
				switch n.Op {
				case "_like", "_nlike", "_ilike", "_nilike":
					s := *n.Val.S
					for i := 1; i < len(s)-1; i++ {
						if s[i] == '%' {
							n.Val = &Lit{S: ptr(s[:i+1])}
							break
						}
					}
				}
			}
		})
	}
	fixLeaf(c.Q.Filter)
	fixLeaf(&c.G)
	if c.Q.Member != nil {
		fixLeaf(c.Q.Member.Filter)
	}
	for i := range c.Q.Aggs {
		fixLeaf(c.Q.Aggs[i].Sub.Filter)
	}
	if rec.IsKnown(sigAggNot) {
		for i := range c.Q.Aggs {
			if f := c.Q.Aggs[i].Sub.Filter; f != nil && f.Kind == "not" {
				c.Q.Aggs[i].Sub.Filter = &Filter{Kind: "and", Kids: []Filter{*f}}
			}
		}
		if f := c.Q.Filter; f != nil && f.Kind == "not" {
			// the metamorphic relations use the root filter inside aggregates
			c.Q.Filter = &Filter{Kind: "and", Kids: []Filter{*f}}
		}
	}
	if rec.IsKnown(sigSumBig) {
		c.Big = false
		for i := range c.Docs {
			if c.Docs[i].I != nil && (*c.Docs[i].I > 1<<53 || *c.Docs[i].I < -(1<<53)) {
				c.Docs[i].I = ptr(int64(i))
			}
		}
	}
	if rec.IsKnown(sigGroupLimit) && c.Q.Grouped && c.Q.Member != nil && len(c.Q.Order) > 0 {
		c.Q.Member.Limit, c.Q.Member.Offset = 0, 0
	}
	if rec.IsKnown(sigGroupOffset) && c.Q.Grouped {
		if m := c.Q.Member; m != nil && m.Limit == 0 {
			m.Offset = 0
		}
		for i := range c.Q.Aggs {
			if a := &c.Q.Aggs[i]; a.Sub.Limit == 0 {
				a.Sub.Offset = 0
			}
		}
	}
}
