package c08

// Native fuzz target of sub-check (c) and the replay of its seed corpus.

import (
	"fmt"
	"os"
	"path/filepath"
	"regexp"
	"sort"
	"strings"
	"testing"

	"github.com/sourcenetwork/defradb/verifharness/hx"
)

var requestLiteralRe = regexp.MustCompile("(?s)Request:\\s*`([^`]*)`")

// harvestRequests collects the request strings of the repository's integration tests.
func harvestRequests() []string {
	root := os.Getenv("VERIF_REPO")
	if root == "" {
		root = "/repo"
	}
	seen := map[string]bool{}
	out := []string{}
	_ = filepath.Walk(filepath.Join(root, "tests", "integration"), func(p string, info os.FileInfo, err error) error {
		if err != nil || info.IsDir() || !strings.HasSuffix(p, "_test.go") {
			return nil
		}
		raw, err := os.ReadFile(p)
		if err != nil {
			return nil
		}
		for _, m := range requestLiteralRe.FindAllStringSubmatch(string(raw), -1) {
			s := strings.Join(strings.Fields(m[1]), " ")
			if s != "" && len(s) < 4000 && !seen[s] {
				seen[s] = true
				out = append(out, s)
			}
		}
		return nil
	})
	sort.Strings(out)
	return out
}

// seedCorpus: every template rendered with a few parameter vectors, the hostile constants, and the
// harvested requests of the repository's own tests (retargeted at the fixture's collection).
func seedCorpus(harvestEvery int) []string {
	fx := sharedFixture()
	out := []string{}
	seen := map[string]bool{}
	add := func(s string) {
		if !seen[s] {
			seen[s] = true
			out = append(out, s)
		}
	}
	for _, h := range hostile {
		add(h)
	}
	// regression seeds of findings: commits on signed commits without `signature`, time travel at the delete commit
	add("query { commits { cid } }")
	add(fmt.Sprintf("query { latestCommits(docID: %q) { cid height } }", fx.docIDs[0]))
	add("query { Users { k _version { cid } } }")
	add(fmt.Sprintf("query { Users(cid: %q) { _docID } }", fx.delCids[0]))
	avoid := true
	q := Query{Sub: Sub{Filter: &Filter{Kind: "leaf", Field: "i", Op: "_gt", Val: &Lit{I: ptr(int64(1))}}, Order: []OrderKey{{Field: "s"}, {Field: "i", Desc: true}}, Limit: 2, Offset: 1},
		Aggs: []Agg{{Fn: "_sum", Field: "i", Sub: Sub{Limit: 2, Order: []OrderKey{{Field: "f"}}}}, {Fn: "_count"}}}
	g := Query{Grouped: true, GroupBy: []string{"s", "b"}, Member: &Sub{Limit: 1, Order: []OrderKey{{Field: "i"}}}, Aggs: []Agg{{Fn: "_avg", Field: "f"}, {Fn: "_max", Field: "i", Sub: Sub{Filter: &Filter{Kind: "not", Kids: []Filter{{Kind: "leaf", Field: "b", Op: "_eq", Val: &Lit{B: ptr(true)}}}}}}}}
	seenTpl := map[string]bool{}
	for _, tpl := range templates {
		if seenTpl[tpl] || tpl == "hostile" {
			continue
		}
		seenTpl[tpl] = true
		for v := 0; v < 12; v++ {
			p := make([]int, 24)
			for i := range p {
				p[i] = (v*7 + i*13 + v*i) % 101
			}
			c := ReqCase{Tpl: tpl, P: p, Avoid: avoid}
			if tpl == "eval" || tpl == "explain" {
				c.Q = &q
				if v%2 == 1 {
					c.Q = &g
				}
			}
			add(c.render(fx))
		}
	}
	if harvestEvery > 0 {
		for i, s := range harvestRequests() {
			if i%harvestEvery == 0 {
				add(s)
				// the repository's tests use their own schemas: also aim the request at the fixture
				add(strings.NewReplacer("Author", "Users", "Book", "Book", "name", "s", "age", "i", "Age", "i", "Name", "s", "points", "f", "verified", "b", "published", "books", "rating", "rating").Replace(s))
			}
		}
	}
	return out
}

// fuzzOne is the oracle of one raw request string.
func fuzzOne(s string) (*reqRun, ReqCase, *hx.Failure) {
	c := ReqCase{Tpl: "raw", Raw: s}
	var r *reqRun
	f := hx.Guard("C08", func() *hx.Failure {
		var f *hx.Failure
		r, f = runReq(c)
		return f
	})
	return r, c, f
}

// TestC08FuzzCorpus replays the seed corpus of FuzzRequest through the no-panic/no-hang oracle.
func TestC08FuzzCorpus(t *testing.T) {
	defer dropSharedFixture()
	every := 8
	if hx.Thorough() {
		every = 1
	}
	shard, shards := hx.EnvInt("VERIF_SHARD", 0), hx.EnvInt("VERIF_SHARDS", 1)
	corpus := seedCorpus(every)
	for i, s := range corpus {
		if i%shards != shard {
			continue
		}
		r, c, f := fuzzOne(s)
		labels := []string{"req", "req:corpus"}
		nt := false
		if r != nil {
			labels = append(labels, "req:class:"+r.class)
			nt = r.class == "data" || r.class == "planner-error"
		}
		rec.Eval(c, nt, labels...)
		rec.Check(t, AnyCase{Req: &c}, f)
	}
	rec.Extra["fuzz_seed_corpus_size"] = len(corpus)
}

// FuzzRequest is the native fuzz target (thorough tier): any byte string as a request.
// A failing input is saved as a replay file by the recorder before the target fails.
func FuzzRequest(f *testing.F) {
	// every third harvested request: gathering baseline coverage costs about 0.1 s per seed
	for _, s := range seedCorpus(3) {
		f.Add(s)
	}
	f.Fuzz(func(t *testing.T, s string) {
		if len(s) > 20000 {
			return
		}
		_, c, fail := fuzzOne(s)
		if fail == nil {
			return
		}
		if rec.IsKnown(fail.Sig) {
			if strings.HasPrefix(fail.Sig, "C08/hang/") || strings.HasPrefix(fail.Sig, "C08/panic/") {
				dropSharedFixture()
			}
			return
		}
		rec.Check(t, AnyCase{Req: &c}, fail)
		t.Fatalf("%s", fmt.Sprint(fail))
	})
}
