package c08

import (
	"encoding/json"
	"fmt"
	"os"
	"strings"
	"testing"

	"github.com/sourcenetwork/defradb/verifharness/hx"
)

// TestProbe: PROBE_REPLAY=file PROBE_Q='q1;;q2' runs queries on the documents of a replay file;
// PROBE_RAW='q1;;q2' runs requests on the request fixture.
func TestProbe(t *testing.T) {
	if raw := os.Getenv("PROBE_RAW"); raw != "" {
		fx := newFixture()
		defer fx.n.Close()
		for _, q := range strings.Split(raw, ";;") {
			res, f := execGuarded(fx, q)
			sig := ""
			if f != nil {
				sig = f.Sig
			}
			fmt.Printf("%s\n   -> %.400s %v %s\n", q, hx.Canon(res.Data), res.Errors, sig)
		}
		return
	}
	p := os.Getenv("PROBE_REPLAY")
	if p == "" {
		t.Skip()
	}
	raw, _ := os.ReadFile(p)
	var doc struct {
		Case AnyCase `json:"case"`
	}
	if err := json.Unmarshal(raw, &doc); err != nil {
		t.Fatal(err)
	}
	r := boot(*doc.Case.Eval)
	defer r.n.Close()
	fmt.Println("docs:", r.docsStr())
	fmt.Println("query:", doc.Case.Eval.Q.gql())
	for _, q := range strings.Split(os.Getenv("PROBE_Q"), ";;") {
		if strings.TrimSpace(q) == "" {
			continue
		}
		res := r.n.Exec(q)
		fmt.Printf("%s\n   -> %s %v %.300s\n", q, hx.Canon(res.Data), res.Errors, res.Panic)
	}
}

func TestProbeHang(t *testing.T) {
	raw := os.Getenv("PROBE_RAW")
	if raw == "" {
		t.Skip()
	}
	fx := newFixture()
	_, f := execGuarded(fx, raw)
	if f != nil {
		fmt.Println(f.Sig)
		fmt.Println(f.Msg)
	}
}

func TestProbeChild(t *testing.T) {
	raw := os.Getenv("PROBE_RAW")
	if raw == "" {
		t.Skip()
	}
	for _, q := range strings.Split(raw, ";;") {
		class, f := runInChild(q)
		fmt.Printf("%s\n  -> %s", q, class)
		if f != nil {
			fmt.Printf(" %s: %.600s", f.Sig, f.Msg)
		}
		fmt.Println()
	}
}

func lit(v any) *Lit {
	switch x := v.(type) {
	case nil:
		return &Lit{Null: true}
	case string:
		return &Lit{S: &x}
	case int:
		i := int64(x)
		return &Lit{I: &i}
	case float64:
		return &Lit{F: &x}
	case bool:
		return &Lit{B: &x}
	}
	panic("lit")
}

func leaf(field, op string, v any) Filter { return Filter{Kind: "leaf", Field: field, Op: op, Val: lit(v)} }

// TestMakeKnown writes testdata/known/*.json: one minimal case per listed finding (development aid).
func TestMakeKnown(t *testing.T) {
	if os.Getenv("MAKE_KNOWN") == "" {
		t.Skip()
	}
	i64 := func(x int64) *int64 { return &x }
	g := leaf("b", "_eq", true)
	evals := map[string]Case{
		"later-key-ignored": {Docs: []Doc{{S: ptr("a"), I: i64(1)}, {S: ptr("b"), I: i64(1)}, {S: ptr("c"), I: i64(1)}}, Q: Query{Sub: Sub{Order: []OrderKey{{Field: "i"}, {Field: "s", Desc: true}}}}, G: g},
		"minmax-null":       {Docs: []Doc{{I: i64(1)}, {I: i64(5)}, {}, {I: i64(3)}, {I: i64(2)}, {}}, Q: Query{Aggs: []Agg{{Fn: "_max", Field: "i"}, {Fn: "_min", Field: "i"}}}, G: g},
		"avg-ne":            {Docs: []Doc{{I: i64(1)}, {I: i64(5)}, {I: i64(3)}}, Q: Query{Aggs: []Agg{{Fn: "_avg", Field: "i", Sub: Sub{Filter: ptr(leaf("i", "_ne", 1))}}}}, G: g},
		"like-infix":        {Docs: []Doc{{S: ptr("a")}, {S: ptr("aa")}, {S: ptr("aba")}, {S: ptr("b")}}, Q: Query{Sub: Sub{Filter: ptr(leaf("s", "_like", "a%a")), Order: []OrderKey{{Field: "s"}}}}, G: g},
		"sum-big":           {Big: true, Docs: []Doc{{I: i64(1<<53 + 1)}, {I: i64(1)}}, Q: Query{Aggs: []Agg{{Fn: "_sum", Field: "i"}}}, G: g},
		"group-limit":       {Docs: []Doc{{S: ptr("a"), I: i64(1)}, {S: ptr("a"), I: i64(2)}, {S: ptr("a"), I: i64(3)}}, Q: Query{Grouped: true, GroupBy: []string{"s"}, Sub: Sub{Order: []OrderKey{{Field: "s"}}}, Member: &Sub{Limit: 1}}, G: g},
		"agg-not":           {Docs: []Doc{{I: i64(1)}, {I: i64(5)}}, Q: Query{Aggs: []Agg{{Fn: "_count", Sub: Sub{Filter: &Filter{Kind: "not", Kids: []Filter{leaf("i", "_eq", 1)}}}}}}, G: g},
		"group-offset":      {Docs: []Doc{{S: ptr("a"), I: i64(1)}, {S: ptr("a"), I: i64(2)}, {S: ptr("a"), I: i64(3)}}, Q: Query{Grouped: true, GroupBy: []string{"s"}, Member: &Sub{Offset: 1}, Aggs: []Agg{{Fn: "_count", Sub: Sub{Offset: 1}}}}, G: g},
	}
	fx := sharedFixture()
	reqs := map[string]string{
		"panic-order-version":            `query { Users(order: {i: ASC}) { k _version { cid } } }`,
		"panic-commits-group-subselect":  `query { commits(groupBy: [height]) { height _group { links { cid } } } }`,
		"panic-group-relation-aggregate": `query { Users(groupBy: [s]) { s _group { _count(books: {}) } } }`,
		"panic-order-json":               `query { Users(order: {j: ASC}) { k j } }`,
		"panic-json-path-filter":         `query { Users(filter: {j: {a: {b: {c: {d: {_eq: 1}}}}}}) { k } }`,
		"panic-relation-filter-null":     `query { Book(filter: {author: null}) { title } }`,
		"panic-timetravel-version":       fmt.Sprintf(`query { Users(cid: %q) { k _version { cid } } }`, fx.cids[0]),
		"panic-unclosed-iterator":        `query { Users(groupBy: [i], filter: {s: {_in: ["a", "b"]}}, limit: 1) { i _count(_group: {}) } }`,
		"panic-parser-variable":          `query ( $f : UsersFilterArg , $l : ) { Users ( filter : $f , limit : $l ) { k } }`,
		"hang-timetravel-delete":         fmt.Sprintf(`query { Users(cid: %q) { _docID } }`, fx.delCids[0]),
		"crash-fragment-cycle":           `query { Users { ...F } } fragment F on Users { k ...F }`,
		"commits-recursion":              fmt.Sprintf(`query { commits(cid: %q, fieldName: "nope") { cid } }`, fx.cids[0]),
		"panic-alias-operator-name":      os.Getenv("EXTRA_REQ"),
	}
	_ = os.MkdirAll("testdata/known", 0o755)
	write := func(name string, c AnyCase) {
		f := runAny(c)
		sig, msg := "<none>", ""
		if f != nil {
			sig, msg = f.Sig, f.Msg
		}
		fmt.Printf("%-34s %s\n      %.300s\n", name, sig, msg)
		if f == nil {
			return
		}
		out, _ := json.MarshalIndent(map[string]any{"property": "C08", "signature": sig, "message": msg[:min(len(msg), 600)], "case": c}, "", " ")
		_ = os.WriteFile("testdata/known/"+name+".json", out, 0o644)
	}
	for name, c := range evals {
		c := c
		write(name, AnyCase{Eval: &c})
	}
	for name, q := range reqs {
		if q == "" {
			continue
		}
		write(name, AnyCase{Req: &ReqCase{Tpl: "raw", Raw: q, Observe: true}})
	}
}
