package c08

import (
	"encoding/json"
	"fmt"
	"os"
	"strings"
	"testing"

	"github.com/sourcenetwork/defradb/verifharness/hx"
)

// TestProbe: PROBE_REPLAY=file PROBE_Q='q1;;q2' runs queries on the documents of a replay file;
// PROBE_RAW='q1;;q2' runs requests on the request fixture.
func TestProbe(t *testing.T) {
	if raw := os.Getenv("PROBE_RAW"); raw != "" {
		fx := newFixture()
		defer fx.n.Close()
		for _, q := range strings.Split(raw, ";;") {
			res, f := execGuarded(fx, q)
			sig := ""
			if f != nil {
				sig = f.Sig
			}
			fmt.Printf("%s\n   -> %.400s %v %s\n", q, hx.Canon(res.Data), res.Errors, sig)
		}
		return
	}
	p := os.Getenv("PROBE_REPLAY")
	if p == "" {
		t.Skip()
	}
	raw, _ := os.ReadFile(p)
	var doc struct {
		Case AnyCase `json:"case"`
	}
	if err := json.Unmarshal(raw, &doc); err != nil {
		t.Fatal(err)
	}
	r := boot(*doc.Case.Eval)
	defer r.n.Close()
	fmt.Println("docs:", r.docsStr())
	fmt.Println("query:", doc.Case.Eval.Q.gql())
	for _, q := range strings.Split(os.Getenv("PROBE_Q"), ";;") {
		if strings.TrimSpace(q) == "" {
			continue
		}
		res := r.n.Exec(q)
		fmt.Printf("%s\n   -> %s %v %.300s\n", q, hx.Canon(res.Data), res.Errors, res.Panic)
	}
}

func TestProbeHang(t *testing.T) {
	raw := os.Getenv("PROBE_RAW")
	if raw == "" {
		t.Skip()
	}
	fx := newFixture()
	_, f := execGuarded(fx, raw)
	if f != nil {
		fmt.Println(f.Sig)
		fmt.Println(f.Msg)
	}
}

func TestProbeChild(t *testing.T) {
	raw := os.Getenv("PROBE_RAW")
	if raw == "" {
		t.Skip()
	}
	for _, q := range strings.Split(raw, ";;") {
		class, f := runInChild(q)
		fmt.Printf("%s\n  -> %s", q, class)
		if f != nil {
			fmt.Printf(" %s: %.600s", f.Sig, f.Msg)
		}
		fmt.Println()
	}
}
