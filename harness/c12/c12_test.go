package c12

import (
	"encoding/json"
	"fmt"
	"testing"

	"pgregory.net/rapid"

	"github.com/sourcenetwork/defradb/verifharness/hx"
)

func TestMain(m *testing.M) { hx.Main(m) }

// Ident names one seeded key pair.
type Ident struct {
	KeyType string `json:"key_type"` // secp256k1 | ed25519
	Seed    int    `json:"seed"`     // 0..nSeeds-1
}

func (i Ident) String() string { return fmt.Sprintf("%s#%d", i.KeyType, i.Seed) }

// Author is one writing node; Ident nil = the node has no identity (only request identities sign).
type Author struct {
	Ident *Ident `json:"ident"`
}

// FieldOp sets a register (Val = JSON literal) or increments a counter (Val = increment).
type FieldOp struct {
	Field string `json:"field"`
	Val   string `json:"val"`
}

// Op is one local operation on an author node. Indices are taken modulo what exists; a create of
// an existing document becomes an update and vice versa, operations on a deleted document are skipped.
type Op struct {
	Node   int       `json:"node"`
	Kind   string    `json:"kind"` // create update delete fork (fork: concurrent update on the other author, merged back, then a two-head commit)
	Doc    int       `json:"doc"`
	Fields []FieldOp `json:"fields"`
	Req    *Ident    `json:"req"` // request identity (with private key) or nil
	// Encrypt / EncFields take effect when the operation creates the document: doc-level encryption and/or encryptFields.
	Encrypt   bool     `json:"encrypt,omitempty"`
	EncFields []string `json:"enc_fields,omitempty"`
	Sync      bool     `json:"sync"` // afterwards merge the produced document commit into the other author node
}

// Tamper selects one signed block below (or equal to) the pushed one and one mutation.
type Tamper struct {
	Target int   `json:"target"` // index modulo the signed blocks of the pushed block's closure, breadth-first
	Kind   int   `json:"kind"`   // selects (after mixing) one of the mutations applicable to that block
	Arg    int   `json:"arg"`    // position / replacement selector
	Resign Ident `json:"resign"` // key that validly re-signs the blocks above the tampered one
}

// Push is what is delivered to the receivers.
type Push struct {
	MsgFromEnd  int    `json:"msg_from_end"` // update notification counted from the last one, modulo
	Pre         int    `json:"pre"`          // -1: fresh receiver; else an earlier notification (modulo) pushed honestly first
	Replicator  bool   `json:"replicator"`
	FromSeed    int    `json:"from_seed"`
	CreatorSeed int    `json:"creator_seed"`
	Post        bool   `json:"post"`   // after the rejected push, push the honest commit to the same receiver
	Replay      bool   `json:"replay"` // after the rejected push, push the honest block under the forged commit's cid
	Tamper      Tamper `json:"tamper"`
	// KeyLess: the receivers are not given the key blocks of encrypted documents (their key requests are answered empty).
	KeyLess bool `json:"key_less,omitempty"`
}

// Case is one generated scenario.
type Case struct {
	Branchable bool     `json:"branchable"`
	Authors    []Author `json:"authors"`
	Ops        []Op     `json:"ops"`
	Push       Push     `json:"push"`
	// AvoidKnown switches on the generator/oracle switches that step around known findings (search past a defect).
	AvoidKnown bool `json:"avoid_known"`
}

const nSeeds = 4

var keyTypes = []string{"secp256k1", "ed25519"}

func genIdent() *rapid.Generator[Ident] {
	return rapid.Custom(func(t *rapid.T) Ident {
		return Ident{KeyType: rapid.SampledFrom(keyTypes).Draw(t, "key_type"), Seed: rapid.IntRange(0, nSeeds-1).Draw(t, "seed")}
	})
}

var registerFields = []string{"s", "i", "b"}
var counterFields = []string{"pn", "pf", "pc"}

func isCounter(f string) bool { return f == "pn" || f == "pf" || f == "pc" }

func genFieldOp(forCreate bool) *rapid.Generator[FieldOp] {
	return rapid.Custom(func(t *rapid.T) FieldOp {
		f := rapid.SampledFrom([]string{"s", "s", "i", "b", "pn", "pn", "pf", "pc"}).Draw(t, "field")
		var v string
		switch f {
		case "s":
			v = rapid.SampledFrom([]string{`"a"`, `"b"`, `""`, `"xéy"`, `null`}).Draw(t, "sv")
		case "i":
			v = rapid.SampledFrom([]string{`0`, `1`, `-1`, `7`, `2147483647`, `null`}).Draw(t, "iv")
		case "b":
			v = rapid.SampledFrom([]string{`true`, `false`, `null`}).Draw(t, "bv")
		case "pn":
			v = rapid.SampledFrom([]string{`1`, `3`, `-2`, `10`}).Draw(t, "pnv")
		case "pf":
			v = rapid.SampledFrom([]string{`0.5`, `-1.25`, `2.0`}).Draw(t, "pfv")
		case "pc":
			v = rapid.SampledFrom([]string{`1`, `2`, `5`}).Draw(t, "pcv")
		}
		return FieldOp{Field: f, Val: v}
	})
}

func drawCase(t *rapid.T) Case {
	c := Case{Branchable: rapid.IntRange(0, 9).Draw(t, "branchable") < 2}
	nAuthors := 1
	if rapid.IntRange(0, 9).Draw(t, "two_authors") < 4 {
		nAuthors = 2
	}
	for i := 0; i < nAuthors; i++ {
		a := Author{}
		if rapid.IntRange(0, 9).Draw(t, "node_ident") < 9 {
			id := genIdent().Draw(t, "author")
			a.Ident = &id
		}
		c.Authors = append(c.Authors, a)
	}
	nOps := rapid.IntRange(1, 9).Draw(t, "n_ops")
	for i := 0; i < nOps; i++ {
		o := Op{
			Node: rapid.IntRange(0, nAuthors-1).Draw(t, "node"),
			Kind: rapid.SampledFrom([]string{"update", "update", "update", "update", "update", "update", "create", "create", "fork", "fork", "fork", "delete"}).Draw(t, "kind"),
			Doc:  rapid.SampledFrom([]int{0, 0, 0, 1}).Draw(t, "doc"),
			Sync: rapid.IntRange(0, 9).Draw(t, "sync") < 6,
		}
		nf := rapid.IntRange(1, 3).Draw(t, "n_fields")
		seen := map[string]bool{}
		for k := 0; k < nf; k++ {
			fo := genFieldOp(o.Kind == "create").Draw(t, "fo")
			if seen[fo.Field] {
				continue
			}
			seen[fo.Field] = true
			o.Fields = append(o.Fields, fo)
		}
		switch rapid.IntRange(0, 11).Draw(t, "encryption") {
		case 0, 1:
			o.Encrypt = true
		case 2, 3:
			o.EncFields = []string{rapid.SampledFrom([]string{"s", "pn", "i"}).Draw(t, "enc_field")}
		case 4:
			o.Encrypt = true
			o.EncFields = []string{rapid.SampledFrom([]string{"s", "pn", "i"}).Draw(t, "enc_field")}
		case 5:
			o.EncFields = []string{"s", "pn"}
		}
		if rapid.IntRange(0, 9).Draw(t, "req_ident") < 3 {
			id := genIdent().Draw(t, "req")
			o.Req = &id
		}
		c.Ops = append(c.Ops, o)
	}
	p := Push{
		MsgFromEnd:  rapid.SampledFrom([]int{0, 0, 0, 0, 1, 1, 2, 3, 5, 8}).Draw(t, "msg_from_end"),
		Pre:         -1,
		Replicator:  rapid.Bool().Draw(t, "replicator"),
		FromSeed:    rapid.IntRange(0, 2).Draw(t, "from_seed"),
		CreatorSeed: rapid.IntRange(0, 2).Draw(t, "creator_seed"),
	}
	if rapid.IntRange(0, 9).Draw(t, "pre") < 4 {
		p.Pre = rapid.IntRange(0, 7).Draw(t, "pre_idx")
	}
	switch rapid.IntRange(0, 9).Draw(t, "followup") {
	case 0, 1, 2, 3:
		p.Post = true
	case 4, 5, 6:
		p.Replay = true
	}
	p.Tamper = Tamper{
		// small targets are near the pushed block; bias to both the pushed block and deep ones
		Target: rapid.SampledFrom([]int{0, 0, 0, 1, 1, 2, 3, 4, 5, 6, 7, 9, 11, 14, 17}).Draw(t, "target"),
		Kind:   rapid.IntRange(0, 1023).Draw(t, "tamper_kind"),
		Arg:    rapid.IntRange(0, 255).Draw(t, "tamper_arg"),
		Resign: genIdent().Draw(t, "resign"),
	}
	p.KeyLess = rapid.IntRange(0, 9).Draw(t, "key_less") < 2
	c.Push = p
	c.AvoidKnown = rapid.Bool().Draw(t, "avoid_known")
	return c
}

const rule = "1-2 author nodes (node identity secp256k1/ed25519 from fixed seeds, or none) execute 1-9 create/update/delete operations on 1-2 documents " +
	"(registers and three counters, documents created plain, with doc-level encryption, with encryptFields or both, optional request identity per operation, optional merge into the other author so that multi-signer and multi-head DAGs arise, optionally a branchable collection); " +
	"(1) every block written is checked on its author: signed iff the design says so, DB.VerifySignature and VerifyBlockSignatureWithKey accept exactly the effective signer's key and an independent verifier (stdlib ed25519 / decred ecdsa over the re-marshalled block without signature link) agrees; " +
	"(2) one update notification is pushed through the real push-log handler to a fresh (or honestly pre-fed) receiver: honestly (control) and with ONE mutation of ONE signed block at any depth below it (content field, head/link, encryption link, or signature block), the blocks above re-pointed and validly re-signed by the attacker's key; " +
	"non-trivial = the forged DAG decodes, every link and signature link of it resolves in the receiver's blockstore, every block above the target verifies and the target's attached signature does not (independent verifier), so only the signature check can reject it; distinct = distinct case"

var rec = hx.NewRecorder("C12", rule,
	"key blocks are not part of the DAG sync: receivers get them up front (legitimate recipient) or not at all (key-less, requests answered empty); a forged block's encryption link need not resolve",
	"a forged commit without signature link is outside the statement and is not generated as the target",
	"field commits of height > 1 are unsigned by design and never chosen as the target; they are re-pointed like any other block on the path",
	"a block re-signed consistently with another key is a valid commit of that key (the receive path has no author policy) and is used only to carry a forged block below it",
	"a mutated signature value that the independent verifier still accepts is not a forgery and is not asserted",
	"the receiver's blockstore may retain rejected blocks; state = documents, commits query, raw data/head/system stores",
	"crypto primitives (crypto/ed25519, decred secp256k1 ecdsa, sha256) and dag-cbor encoding are trusted")

func evaluate(c Case) (*hx.Failure, *info) {
	inf := &info{}
	f := hx.Guard("C12", func() *hx.Failure { return run(c, inf) })
	return f, inf
}

func TestC12(t *testing.T) {
	rapid.Check(t, func(t *rapid.T) {
		c := drawCase(t)
		f, inf := evaluate(c)
		rec.Eval(c, inf.nontrivial, inf.labels()...)
		rec.Check(t, c, f)
	})
}

func TestReplay(t *testing.T) {
	raw := hx.ReplayCase(t)
	rec.SetReplaying()
	var c Case
	if err := json.Unmarshal(raw, &c); err != nil {
		t.Fatal(err)
	}
	f, inf := evaluate(c)
	t.Logf("labels: %v", inf.labels())
	rec.Check(t, c, f)
}

func TestRegress(t *testing.T) {
	hx.Regress(t, "testdata/regress", func(raw []byte) *hx.Failure {
		var c Case
		if err := json.Unmarshal(raw, &c); err != nil {
			return hx.Failf("C12/regress-file", "%v", err)
		}
		f, _ := evaluate(c)
		return f
	}, rec)
}
