package c12

import (
	"bytes"
	"context"
	"crypto/sha256"
	"encoding/hex"
	"fmt"
	"runtime/debug"
	"sort"
	"strings"
	"sync"
	"time"

	blocks "github.com/ipfs/go-block-format"
	"github.com/ipfs/go-cid"
	"github.com/ipld/go-ipld-prime/linking"
	cidlink "github.com/ipld/go-ipld-prime/linking/cid"
	"github.com/ipld/go-ipld-prime/storage/bsadapter"
	libp2pcrypto "github.com/libp2p/go-libp2p/core/crypto"
	"github.com/libp2p/go-libp2p/core/peer"
	"github.com/sourcenetwork/corekv"
	"github.com/sourcenetwork/immutable"

	"github.com/sourcenetwork/defradb/acp/identity"
	"github.com/sourcenetwork/defradb/event"
	"github.com/sourcenetwork/defradb/internal/core"
	coreblock "github.com/sourcenetwork/defradb/internal/core/block"
	"github.com/sourcenetwork/defradb/internal/datastore"
	"github.com/sourcenetwork/defradb/internal/db"
	"github.com/sourcenetwork/defradb/internal/encryption"
	"github.com/sourcenetwork/defradb/internal/keys"
	"github.com/sourcenetwork/defradb/net"
	"github.com/sourcenetwork/defradb/node"
	"github.com/sourcenetwork/defradb/verifharness/hx"
)

// info carries what a run observed (labels, non-triviality) back to the recorder.
type info struct {
	nontrivial bool
	set        map[string]bool
}

func (i *info) flag(format string, args ...any) {
	if i.set == nil {
		i.set = map[string]bool{}
	}
	i.set[fmt.Sprintf(format, args...)] = true
}

func (i *info) labels() []string {
	out := make([]string, 0, len(i.set))
	for k := range i.set {
		out = append(out, k)
	}
	sort.Strings(out)
	return out
}

const docFields = "_docID _deleted k s i b pn pf pc"

func sdl(branchable bool) string {
	dir := ""
	if branchable {
		dir = " @branchable"
	}
	return `type Users` + dir + ` {
		k: Int
		s: String
		i: Int
		b: Boolean
		pn: Int @crdt(type: pncounter)
		pf: Float @crdt(type: pncounter)
		pc: Int @crdt(type: pcounter)
	}`
}

type msgRec struct {
	hx.Msg
	op  int
	idx int
}

type world struct {
	c          Case
	inf        *info
	cl         *hx.Cluster
	pool       *pool
	signer     map[string]*Ident // DAG block -> effective signer when it was written (nil: none)
	producer   map[string]int    // DAG block -> author node that wrote it
	msgs       []msgRec
	docIDs     map[int]string
	has        []map[int]bool
	deleted    map[int]bool
	remote     []map[string]bool // node -> docID -> node merged remote commits of that doc
	lastDocMsg map[int]*hx.Msg
	log        []string
	// deferred is a failure that does not invalidate the rest of the case (reported at the end)
	deferred *hx.Failure
}

const sigReplay = "C12/forged-merged/cid-not-bound-to-block"

const sigColVerify = "C12/right-key-rejected/collection-commit/doc-acp-lookup-by-empty-docid"

func (w *world) logf(format string, args ...any) {
	w.log = append(w.log, fmt.Sprintf(format, args...))
}

func (w *world) history() string { return strings.Join(w.log, "\n") }

func authorOpts(c Case) func(i int) []node.Option {
	return func(i int) []node.Option {
		a := c.Authors[i]
		if a.Ident == nil {
			return []node.Option{db.WithEnabledSigning(true)}
		}
		ident, err := identity.FromPrivateKey(seedKey(*a.Ident))
		if err != nil {
			hx.Harnessf("identity: %v", err)
		}
		return []node.Option{db.WithNodeIdentity(ident), db.WithEnabledSigning(true)}
	}
}

// absorb walks the closure of root in node n's blockstore and adds unseen blocks to the pool,
// attributing them to the given signer.
func (w *world) absorb(nodeIdx int, root cid.Cid, signer *Ident, tag string) {
	n := w.cl.Nodes[nodeIdx]
	bs := datastore.BlockstoreFrom(n.DB.Rootstore())
	var walk func(c cid.Cid, sigOf string)
	walk = func(c cid.Cid, sigOf string) {
		k := c.String()
		if _, ok := w.pool.raw[k]; ok {
			return
		}
		b, err := bs.Get(n.Ctx, c)
		if err != nil {
			hx.Harnessf("author n%d lacks block %s of its own closure: %v", nodeIdx, k, err)
		}
		raw := append([]byte{}, b.RawData()...)
		if sigOf != "" {
			w.pool.add(c, raw, true, false, "signature-of["+sigOf+"]")
			return
		}
		blk, err := coreblock.GetFromBytes(raw)
		if err != nil {
			hx.Harnessf("author block %s does not decode: %v", k, err)
		}
		label := tag + "/" + describe(blk)
		for _, l := range blk.AllLinks() {
			walk(l.Cid, "")
		}
		if blk.Signature != nil {
			walk(blk.Signature.Cid, label)
		}
		if blk.Encryption != nil {
			ek := blk.Encryption.Cid.String()
			if _, ok := w.pool.raw[ek]; !ok {
				eb, err := datastore.EncstoreFrom(n.DB.Rootstore()).Get(n.Ctx, blk.Encryption.Cid)
				if err != nil {
					hx.Harnessf("author n%d lacks the key block %s its own commit links: %v", nodeIdx, ek, err)
				}
				enc, err := coreblock.GetEncryptionBlockFromBytes(eb.RawData())
				if err != nil {
					hx.Harnessf("key block %s does not decode: %v", ek, err)
				}
				scope := "whole-document"
				if enc.FieldName != nil {
					scope = "field-" + *enc.FieldName
				}
				w.pool.addEnc(blk.Encryption.Cid, append([]byte{}, eb.RawData()...), false, fmt.Sprintf("key-block[%s %s]", enc.DocID, scope))
			}
			w.inf.flag("encrypted:%s", blockClass(blk))
		}
		w.pool.add(c, raw, false, false, label)
		w.signer[k] = signer
		w.producer[k] = nodeIdx
		// re-encoding must be the identity, else forged blocks would differ in more than the mutation
		nc, nraw := encodeBlock(blk)
		if nc != c || !bytes.Equal(nraw, raw) {
			hx.Harnessf("block %s does not re-encode to itself (%s)", k, nc)
		}
	}
	walk(root, "")
}

func gqlInput(fields []FieldOp, extra string) string {
	parts := []string{}
	if extra != "" {
		parts = append(parts, extra)
	}
	for _, f := range fields {
		parts = append(parts, f.Field+": "+f.Val)
	}
	return "{" + strings.Join(parts, ", ") + "}"
}

// mutate runs one mutation on one author node and records what it announced.
func (w *world) mutate(tag string, oi, nodeIdx int, kind string, doc int, fields []FieldOp, req *Ident, enc Op) ([]hx.Msg, *hx.Failure) {
	n := w.cl.Nodes[nodeIdx]
	ctx := n.Ctx
	signer := w.c.Authors[nodeIdx].Ident
	if req != nil {
		ident, err := identity.FromPrivateKey(seedKey(*req))
		if err != nil {
			hx.Harnessf("identity: %v", err)
		}
		ctx = identity.WithContext(ctx, immutable.Some[identity.Identity](ident))
		signer = req
	}
	docID := w.docIDs[doc]
	var q string
	switch kind {
	case "create":
		args := ""
		if enc.Encrypt {
			args += ", encrypt: true"
			w.inf.flag("doc:encrypted")
		}
		if len(enc.EncFields) > 0 {
			args += ", encryptFields: [" + strings.Join(enc.EncFields, ", ") + "]"
			w.inf.flag("doc:encrypted-fields")
		}
		q = fmt.Sprintf(`mutation { create_Users(input: %s%s) { _docID } }`, gqlInput(fields, fmt.Sprintf("k: %d", doc)), args)
	case "update":
		q = fmt.Sprintf(`mutation { update_Users(docID: %q, input: %s) { _docID } }`, docID, gqlInput(fields, ""))
	case "delete":
		q = fmt.Sprintf(`mutation { delete_Users(docID: %q) { _docID } }`, docID)
	}
	r := hx.ExecOn(ctx, n.DB, q)
	if r.Panic != "" {
		return nil, hx.Failf("C12/panic/mutation", "%s panicked: %s", q, r.Panic)
	}
	if !r.OK() {
		hx.Harnessf("generator produced a mutation the node rejects: %s: %s", q, r.Err())
	}
	if kind == "create" {
		rows := r.Rows("create_Users")
		if len(rows) != 1 {
			hx.Harnessf("create returned %d rows", len(rows))
		}
		w.docIDs[doc] = fmt.Sprint(rows[0]["_docID"])
		w.has[nodeIdx][doc] = true
	}
	if kind == "delete" {
		w.deleted[doc] = true
	}
	sname := "none"
	if signer != nil {
		sname = signer.String()
	}
	got := w.cl.Collect(nodeIdx)
	encNote := ""
	if kind == "create" && (enc.Encrypt || len(enc.EncFields) > 0) {
		encNote = fmt.Sprintf(" encrypt=%v encryptFields=%v", enc.Encrypt, enc.EncFields)
	}
	w.logf("%s n%d %s doc%d %s%s signer=%s -> %d notifications", tag, nodeIdx, kind, doc, gqlInput(fields, ""), encNote, sname, len(got))
	for _, m := range got {
		w.absorb(nodeIdx, m.CID(), signer, tag)
		if !bytes.Equal(m.Block, w.pool.raw[m.Cid]) {
			return nil, hx.Failf("C12/event-block-differs", "update event for %s carries bytes that differ from the stored block", m.Cid)
		}
		w.msgs = append(w.msgs, msgRec{Msg: m, op: oi, idx: len(w.msgs)})
		if m.DocID != "" {
			mm := m
			w.lastDocMsg[doc] = &mm
		}
		w.logf("   msg%d doc=%q cid=%s (%s)", len(w.msgs)-1, m.DocID, m.Cid, describe(w.pool.block(m.Cid)))
	}
	return got, nil
}

// sync merges document-level notifications into the other author node (harness delivery: closure copy + synchronous merge).
func (w *world) sync(msgs []hx.Msg, to int, doc int) bool {
	ok := true
	for _, m := range msgs {
		if m.DocID == "" {
			continue
		}
		dag, _ := w.pool.closure(m.Cid)
		for _, x := range dag {
			if b := w.pool.block(x.cid); b.Encryption != nil {
				w.putKey(w.cl.Nodes[to], b.Encryption.Cid.String())
			}
		}
		if err := w.cl.Deliver(m, to); err != nil {
			w.inf.flag("author-sync-error")
			w.logf("   merge into n%d failed: %v", to, err)
			ok = false
			continue
		}
		w.has[to][doc] = true
		w.remote[to][m.DocID] = true
		w.inf.flag("author-sync")
	}
	w.cl.Collect(to)
	return ok
}

func (w *world) runOps() *hx.Failure {
	for oi, o := range w.c.Ops {
		nodeIdx := o.Node % len(w.cl.Nodes)
		doc := o.Doc
		if oi == 0 {
			doc = 0
		}
		if w.deleted[doc] {
			w.inf.flag("op-on-deleted-skipped")
			continue
		}
		_, exists := w.docIDs[doc]
		kind := o.Kind
		if !exists {
			kind = "create"
		} else {
			if kind == "create" {
				kind = "update"
			}
			if !w.has[nodeIdx][doc] {
				for i := range w.cl.Nodes {
					if w.has[i][doc] {
						nodeIdx = i
						break
					}
				}
			}
		}
		tag := fmt.Sprintf("op%d", oi)
		if kind == "fork" {
			if len(w.cl.Nodes) < 2 {
				kind = "update"
			} else {
				// concurrent updates on both authors, merged on the first: its next commit has two heads
				other := 1 - nodeIdx
				if !w.has[other][doc] {
					if m := w.lastDocMsg[doc]; m == nil || !w.sync([]hx.Msg{*m}, other, doc) {
						kind = "update"
					}
				}
				if kind == "fork" {
					if _, f := w.mutate(tag+"a", oi, nodeIdx, "update", doc, o.Fields, o.Req, Op{}); f != nil {
						return f
					}
					got, f := w.mutate(tag+"b", oi, other, "update", doc, []FieldOp{{Field: "i", Val: fmt.Sprint(100 + oi)}}, nil, Op{})
					if f != nil {
						return f
					}
					if w.sync(got, nodeIdx, doc) {
						if _, f := w.mutate(tag+"c", oi, nodeIdx, "update", doc, []FieldOp{{Field: "pn", Val: "1"}}, o.Req, Op{}); f != nil {
							return f
						}
						w.inf.flag("fork-merged")
					}
					continue
				}
			}
		}
		got, f := w.mutate(tag, oi, nodeIdx, kind, doc, o.Fields, o.Req, o)
		if f != nil {
			return f
		}
		if o.Sync && len(w.cl.Nodes) > 1 {
			w.sync(got, 1-nodeIdx, doc)
		}
	}
	return nil
}

func allIdents() []Ident {
	out := []Ident{}
	for _, kt := range keyTypes {
		for s := 0; s < nSeeds; s++ {
			out = append(out, Ident{KeyType: kt, Seed: s})
		}
	}
	return out
}

func blockClass(b *coreblock.Block) string {
	switch {
	case b.Delta.IsCollection():
		return "collection"
	case b.Delta.IsComposite():
		return "composite"
	case b.Delta.CounterDelta != nil:
		return "counter"
	}
	return "register"
}

func linkSystemOf(n *hx.Node) *linking.LinkSystem {
	ls := cidlink.DefaultLinkSystem()
	ls.SetReadStorage(&bsadapter.Adapter{Wrapped: datastore.BlockstoreFrom(n.DB.Rootstore())})
	ls.TrustedStorage = true
	return &ls
}

// checkAuthorBlocks is clause (1): every block written verifies under its signer's key only.
func (w *world) checkAuthorBlocks() *hx.Failure {
	idents := allIdents()
	nSigned, nUnsignedByDesign := 0, 0
	for _, k := range w.pool.byName() {
		if w.pool.isSig[k] || w.pool.isEnc[k] || w.pool.forged[k] {
			continue
		}
		b := w.pool.block(k)
		exp := w.signer[k]
		n := w.cl.Nodes[w.producer[k]]
		cls := blockClass(b)
		byDesignUnsigned := b.Delta.IsField() && b.Delta.GetPriority() > 1
		if exp != nil && !byDesignUnsigned && b.Signature == nil {
			return hx.Failf("C12/unsigned-commit/"+cls, "%s block %s (%s) was written while identity %s was in effect but carries no signature\n%s", cls, k, describe(b), exp, w.history())
		}
		if exp == nil && b.Signature != nil {
			hx.Harnessf("block %s is signed although the model says no identity was in effect\n%s", k, w.history())
		}
		if b.Signature == nil {
			if byDesignUnsigned {
				nUnsignedByDesign++
			}
			err := n.DB.VerifySignature(n.Ctx, k, seedKey(idents[0]).GetPublic())
			if err == nil {
				return hx.Failf("C12/verify-accepts-unsigned", "VerifySignature(%s) returned nil for a block without signature link", k)
			}
			continue
		}
		if byDesignUnsigned {
			w.inf.flag("signed-field-block-above-height-1")
		}
		nSigned++
		w.inf.flag("signed:%s:%s", cls, exp.KeyType)
		right := seedKey(*exp).GetPublic()
		dbLevel := true
		if b.Delta.IsCollection() && w.c.AvoidKnown && rec.IsKnown(sigColVerify) {
			// search past the known finding: half of the cases do not ask DB.VerifySignature about collection commits
			dbLevel = false
			w.inf.flag("avoided:db-verify-of-collection-commit")
		}
		if !dbLevel {
		} else if err := n.DB.VerifySignature(n.Ctx, k, right); err != nil {
			if b.Delta.IsCollection() && strings.Contains(err.Error(), "docID not found") && string(b.Delta.GetDocID()) == "" {
				// diagnoser: the document-ACP branch of DB.VerifySignature looks the collection up by the block's (empty) docID
				if w.deferred == nil {
					w.deferred = hx.Failf(sigColVerify, "VerifySignature(%s, key of %s) = %v for a signed collection-level commit (%s)\n%s", k, exp, err, describe(b), w.history())
				}
			} else {
				return hx.Failf("C12/right-key-rejected/"+exp.KeyType, "VerifySignature(%s, key of %s) = %v; the block (%s) was written by op signer %s\n%s", k, exp, err, describe(b), exp, w.history())
			}
		}
		has, valid, idStr, why := w.pool.refVerify(k)
		if !has || !valid || idStr != right.String() {
			return hx.Failf("C12/reference-verifier-disagrees", "block %s (%s) by %s: independent verification over the block without signature link: valid=%v identity=%s (%s), expected identity %s\n%s", k, describe(b), exp, valid, idStr, why, right.String(), w.history())
		}
		ls := linkSystemOf(n)
		if ran, err := coreblock.VerifyBlockSignatureWithKey(b, ls, right); err != nil || !ran {
			return hx.Failf("C12/right-key-rejected/block-level", "VerifyBlockSignatureWithKey(%s, right key) = %v, %v", k, ran, err)
		}
		if ran, err := coreblock.VerifyBlockSignature(b, ls); err != nil || !ran {
			return hx.Failf("C12/right-key-rejected/header-key", "VerifyBlockSignature(%s) = %v, %v", k, ran, err)
		}
		for ii, id := range idents {
			if id == *exp {
				continue
			}
			wrong := seedKey(id).GetPublic()
			// DB level (costly: collection lookup per call): the neighbour seed of the same type and the same seed of the other type
			sameTypeNext := id.KeyType == exp.KeyType && id.Seed == (exp.Seed+1)%nSeeds
			otherTypeSame := id.KeyType != exp.KeyType && id.Seed == exp.Seed
			if sameTypeNext || otherTypeSame || (ii+nSigned)%7 == 0 {
				if err := n.DB.VerifySignature(n.Ctx, k, wrong); err == nil {
					return hx.Failf("C12/wrong-key-accepted/db", "VerifySignature(%s, key of %s) = nil, but the block was signed by %s", k, id, exp)
				}
			}
			if _, err := coreblock.VerifyBlockSignatureWithKey(b, ls, wrong); err == nil {
				return hx.Failf("C12/wrong-key-accepted/block-level", "VerifyBlockSignatureWithKey(%s, key of %s) = nil, but the block was signed by %s", k, id, exp)
			}
		}
	}
	if nUnsignedByDesign > 0 {
		w.inf.flag("has-unsigned-field-blocks")
	}
	return nil
}

// ---------------------------------------------------------------------------------------------
// receivers

const sentinel = event.Name("c12-sentinel")

type recvTap struct {
	bus       event.Bus
	sub       event.Subscription
	mu        sync.Mutex
	merges    []event.Merge
	completes map[string]int
	sent      map[uint64]chan struct{}
	seq       uint64
}

func newRecvTap(bus event.Bus) *recvTap {
	sub, err := bus.Subscribe(event.MergeName, event.MergeCompleteName, sentinel)
	if err != nil {
		hx.Harnessf("subscribe: %v", err)
	}
	t := &recvTap{bus: bus, sub: sub, completes: map[string]int{}, sent: map[uint64]chan struct{}{}}
	go func() {
		for m := range sub.Message() {
			switch d := m.Data.(type) {
			case event.Merge:
				t.mu.Lock()
				t.merges = append(t.merges, d)
				t.mu.Unlock()
			case event.MergeComplete:
				t.mu.Lock()
				t.completes[d.Merge.Cid.String()]++
				t.mu.Unlock()
			case uint64:
				t.mu.Lock()
				ch := t.sent[d]
				delete(t.sent, d)
				t.mu.Unlock()
				if ch != nil {
					close(ch)
				}
			}
		}
	}()
	return t
}

// takeMerges returns every Merge event published before the call (FIFO bus + sentinel).
func (t *recvTap) takeMerges() []event.Merge {
	t.mu.Lock()
	t.seq++
	id := t.seq
	ch := make(chan struct{})
	t.sent[id] = ch
	t.mu.Unlock()
	t.bus.Publish(event.NewMessage(sentinel, id))
	select {
	case <-ch:
	case <-time.After(60 * time.Second):
		hx.Harnessf("event bus sentinel did not arrive within 60s")
	}
	t.mu.Lock()
	defer t.mu.Unlock()
	out := t.merges
	t.merges = nil
	return out
}

// waitComplete waits for the MergeComplete event of cid (liveness only: a miss is never a verdict).
func (t *recvTap) waitComplete(c string, d time.Duration) bool { return t.waitCompletes(c, 1, d) }

func (t *recvTap) waitCompletes(c string, n int, d time.Duration) bool {
	deadline := time.Now().Add(d)
	for {
		t.mu.Lock()
		ok := t.completes[c] >= n
		t.mu.Unlock()
		if ok {
			return true
		}
		if time.Now().After(deadline) {
			return false
		}
		time.Sleep(500 * time.Microsecond)
	}
}

type receiver struct {
	name string
	n    *hx.Node
	tap  *recvTap
	// quarantine: forged and second requests go through a handler bound to a private bus, so that a
	// wrongly announced merge never reaches the database's asynchronous merger (a panic there would
	// kill the process); the harness runs such a merge itself, synchronously and recoverably.
	qbus    event.Bus
	qtap    *recvTap
	rvQ     *net.VerifReceiver
	stopKMS func()
	rv      *net.VerifReceiver
	honest  []msgRec
}

func (w *world) newReceiver(name string) *receiver {
	n := hx.MustMemNode()
	if _, err := n.DB.AddSchema(n.Ctx, sdl(w.c.Branchable)); err != nil {
		n.Close()
		hx.Harnessf("schema rejected: %v", err)
	}
	qbus := event.NewChannelBus(100, 100)
	return &receiver{name: name, n: n, tap: newRecvTap(n.DB.Events()), rv: net.NewVerifReceiver(n.Ctx, n.DB.Events(), n.DB),
		qbus: qbus, qtap: newRecvTap(qbus), rvQ: net.NewVerifReceiver(n.Ctx, qbus, n.DB), stopKMS: answerKeyRequests(n)}
}

func (r *receiver) close() {
	r.n.DB.Events().Unsubscribe(r.tap.sub)
	r.stopKMS()
	r.qbus.Close()
	r.n.Close()
}

func peerID(seed int) peer.ID {
	src := make([]byte, 64)
	for i := range src {
		src[i] = byte(seed*31 + i + 5)
	}
	priv, _, err := libp2pcrypto.GenerateEd25519Key(bytes.NewReader(src))
	if err != nil {
		hx.Harnessf("peer key: %v", err)
	}
	id, err := peer.IDFromPrivateKey(priv)
	if err != nil {
		hx.Harnessf("peer id: %v", err)
	}
	return id
}

// store copies the closure of root (links, heads, signature blocks) from the pool into the receiver's
// blockstore, children first, leaving out root itself when skipRoot (the push delivers it).
func (w *world) store(r *receiver, root string, skipRoot bool) {
	bs := datastore.BlockstoreFrom(r.n.DB.Rootstore())
	seen := map[string]bool{}
	put := func(k string) {
		nb, err := blocks.NewBlockWithCid(w.pool.raw[k], mustCid(k))
		if err != nil {
			hx.Harnessf("block: %v", err)
		}
		if err := bs.Put(r.n.Ctx, nb); err != nil {
			hx.Harnessf("put: %v", err)
		}
	}
	var walk func(k string)
	walk = func(k string) {
		if seen[k] {
			return
		}
		seen[k] = true
		b := w.pool.block(k)
		for _, l := range b.AllLinks() {
			walk(l.Cid.String())
		}
		if b.Signature != nil {
			sk := b.Signature.Cid.String()
			if _, ok := w.pool.raw[sk]; !ok {
				hx.Harnessf("pool lacks signature block %s", sk)
			}
			put(sk)
		}
		if b.Encryption != nil && !w.c.Push.KeyLess {
			w.putKey(r.n, b.Encryption.Cid.String())
		}
		if k == root && skipRoot {
			return
		}
		put(k)
	}
	walk(root)
}

// putKey places a key block the pool knows into a node's key store (what the key exchange would deliver
// to a legitimate recipient). Links to key blocks nobody has (made up by the attacker) stay unresolved.
func (w *world) putKey(n *hx.Node, k string) {
	raw, ok := w.pool.raw[k]
	if !ok || !w.pool.isEnc[k] {
		return
	}
	nb, err := blocks.NewBlockWithCid(raw, mustCid(k))
	if err != nil {
		hx.Harnessf("block: %v", err)
	}
	if err := datastore.EncstoreFrom(n.DB.Rootstore()).Put(n.Ctx, nb); err != nil {
		hx.Harnessf("put key block: %v", err)
	}
}

// answerKeyRequests answers every key request of a node with "nothing" (a merge that misses a key block
// would otherwise wait forever); the returned func stops it.
func answerKeyRequests(n *hx.Node) func() {
	sub, err := n.DB.Events().Subscribe(encryption.RequestKeysEventName)
	if err != nil {
		hx.Harnessf("subscribe to key requests: %v", err)
	}
	done := make(chan struct{})
	go func() {
		defer close(done)
		for msg := range sub.Message() {
			if ev, ok := msg.Data.(encryption.RequestKeysEvent); ok {
				ev.Resp <- encryption.Result{}
				close(ev.Resp)
			}
		}
	}()
	return func() {
		n.DB.Events().Unsubscribe(sub)
		<-done
	}
}

func (r *receiver) hasBlock(k string) bool {
	ok, err := datastore.BlockstoreFrom(r.n.DB.Rootstore()).Has(r.n.Ctx, mustCid(k))
	if err != nil {
		hx.Harnessf("has: %v", err)
	}
	return ok
}

func dumpStore(n *hx.Node, name string, s corekv.ReaderWriter) string {
	it, err := s.Iterator(n.Ctx, corekv.IterOptions{})
	if err != nil {
		hx.Harnessf("%s iterator: %v", name, err)
	}
	defer it.Close()
	lines := []string{}
	for {
		ok, err := it.Next()
		if err != nil {
			hx.Harnessf("%s next: %v", name, err)
		}
		if !ok {
			break
		}
		v, err := it.Value()
		if err != nil {
			hx.Harnessf("%s value: %v", name, err)
		}
		h := sha256.Sum256(v)
		lines = append(lines, fmt.Sprintf("%s %q=%s", name, it.Key(), hex.EncodeToString(h[:6])))
	}
	sort.Strings(lines)
	return strings.Join(lines, "\n")
}

const commitsQuery = `query { commits { cid docID fieldName height links { cid name } signature { type identity value } } }`

type snapshot struct {
	docs    string
	commits string
	data    string
	heads   string
	system  string
	cids    map[string]bool
}

func takeSnapshot(n *hx.Node, when string) (snapshot, *hx.Failure) {
	var s snapshot
	r := n.Exec(fmt.Sprintf(`query { Users(showDeleted: true) { %s } }`, docFields))
	if !r.OK() {
		return s, hx.Failf("C12/query-failed/docs", "document query failed (%s): %s %s", when, r.Err(), r.Panic)
	}
	s.docs = strings.Join(hx.SortRows(r.Rows("Users")), "\n")
	rc := n.Exec(commitsQuery)
	if !rc.OK() {
		return s, hx.Failf("C12/query-failed/commits", "commits query failed (%s): %s %s", when, rc.Err(), rc.Panic)
	}
	s.commits = strings.Join(hx.SortRows(rc.Rows("commits")), "\n")
	s.cids = map[string]bool{}
	for _, row := range rc.Rows("commits") {
		s.cids[fmt.Sprint(row["cid"])] = true
	}
	root := n.DB.Rootstore()
	s.data = dumpStore(n, "data", datastore.DatastoreFrom(root))
	s.heads = dumpStore(n, "heads", datastore.HeadstoreFrom(root))
	s.system = dumpStore(n, "system", datastore.SystemstoreFrom(root))
	return s, nil
}

func (a snapshot) diff(b snapshot) string {
	out := []string{}
	for _, p := range [][3]string{{"documents", a.docs, b.docs}, {"commits", a.commits, b.commits}, {"data store", a.data, b.data}, {"head store", a.heads, b.heads}, {"system store", a.system, b.system}} {
		if p[1] != p[2] {
			out = append(out, fmt.Sprintf("%s changed:\n--- before\n%s\n--- after\n%s", p[0], clip(p[1]), clip(p[2])))
		}
	}
	return strings.Join(out, "\n")
}

func (a snapshot) changedParts(b snapshot) string {
	out := []string{}
	for _, p := range [][3]string{{"documents", a.docs, b.docs}, {"commits", a.commits, b.commits}, {"data", a.data, b.data}, {"heads", a.heads, b.heads}, {"system", a.system, b.system}} {
		if p[1] != p[2] {
			out = append(out, p[0])
		}
	}
	return strings.Join(out, "+")
}

func clip(s string) string {
	if len(s) > 2500 {
		return s[:2500] + "…"
	}
	return s
}

func compositeHeads(n *hx.Node, docID string) []string {
	hs := coreblock.NewHeadSet(datastore.HeadstoreFrom(n.DB.Rootstore()), keys.HeadstoreDocKey{DocID: docID, FieldID: core.COMPOSITE_NAMESPACE})
	cids, _, err := hs.List(context.Background())
	if err != nil {
		hx.Harnessf("cannot list heads: %v", err)
	}
	out := []string{}
	for _, c := range cids {
		out = append(out, c.String())
	}
	sort.Strings(out)
	return out
}

// push sends one push-log request through the real handler.
func (w *world) push(r *receiver, docID, cidStr, collectionID string, block []byte) error {
	return w.pushVia(r.rv, r, docID, cidStr, collectionID, block)
}

// pushQuarantined is push through the handler bound to the private bus.
func (w *world) pushQuarantined(r *receiver, docID, cidStr, collectionID string, block []byte) error {
	return w.pushVia(r.rvQ, r, docID, cidStr, collectionID, block)
}

// safeMerge runs the merge an announced Merge event asks for, synchronously; a panic is returned as text.
func safeMerge(n *hx.Node, e event.Merge) (err error, panicked string) {
	defer func() {
		if p := recover(); p != nil {
			panicked = fmt.Sprintf("%v at %s", p, hx.PanicSite(string(debug.Stack())))
		}
	}()
	return n.DB.VerifMerge(n.Ctx, e), ""
}

func (w *world) pushVia(rv *net.VerifReceiver, r *receiver, docID, cidStr, collectionID string, block []byte) error {
	p := w.c.Push
	return rv.PushLog(r.n.Ctx, peerID(p.FromSeed), docID, mustCid(cidStr).Bytes(), collectionID, peerID(p.CreatorSeed+10).String(), block, p.Replicator)
}

const mergeWait = 30 * time.Second

// pushHonest is the control: an honest notification must be accepted, announced, merged, and leave
// the receiver with exactly the pushed history.
func (w *world) pushHonest(r *receiver, m msgRec, where string) *hx.Failure {
	w.store(r, m.Cid, true)
	err := w.push(r, m.DocID, m.Cid, m.CollectionID, w.pool.raw[m.Cid])
	if err != nil {
		return hx.Failf("C12/honest-rejected/"+where, "honest push of msg%d (%s, %s) to %s was rejected: %v\n%s", m.idx, short(m.Cid), describe(w.pool.block(m.Cid)), r.name, err, w.history())
	}
	evs := r.tap.takeMerges()
	if len(evs) != 1 {
		return hx.Failf("C12/honest-no-merge-event/"+where, "honest push of msg%d to %s returned nil but %d Merge events were published", m.idx, r.name, len(evs))
	}
	e := evs[0]
	if e.Cid.String() != m.Cid || e.DocID != m.DocID || e.CollectionID != m.CollectionID || e.ByPeer != peerID(w.c.Push.CreatorSeed+10) || e.FromPeer != peerID(w.c.Push.FromSeed) {
		return hx.Failf("C12/merge-event-fields", "Merge event {cid %s doc %s col %s by %s from %s} does not match the request (cid %s doc %s col %s)", e.Cid, e.DocID, e.CollectionID, e.ByPeer, e.FromPeer, m.Cid, m.DocID, m.CollectionID)
	}
	if !r.tap.waitComplete(m.Cid, mergeWait) {
		// the asynchronous merge only logs failures: find out synchronously
		if err := r.n.DB.VerifMerge(r.n.Ctx, event.Merge{DocID: m.DocID, Cid: mustCid(m.Cid), CollectionID: m.CollectionID}); err != nil {
			return hx.Failf("C12/honest-merge-failed/"+where, "honest push of msg%d to %s was accepted but the merge does not complete: %v\n%s", m.idx, r.name, err, w.history())
		}
		hx.Harnessf("merge of an accepted honest push did not complete within %s (machine too slow?)", mergeWait)
	}
	r.honest = append(r.honest, m)
	return w.checkHonestState(r, where)
}

// checkHonestState: the receiver's history is exactly the union of the honestly pushed closures.
func (w *world) checkHonestState(r *receiver, where string) *hx.Failure {
	exp := map[string]bool{}
	for _, m := range r.honest {
		dag, _ := w.pool.closure(m.Cid)
		for _, x := range dag {
			exp[x.cid] = true
		}
	}
	if w.c.Push.KeyLess {
		for k := range exp {
			if w.pool.block(k).Encryption != nil {
				// a receiver without the key cannot apply encrypted commits: acceptance, announcement and
				// completion were checked, the resulting state is not this property's matter
				w.inf.flag("control:key-less-state-not-compared")
				return nil
			}
		}
	}
	snap, f := takeSnapshot(r.n, "on "+r.name+" after honest push "+where)
	if f != nil {
		return f
	}
	missing, extra := []string{}, []string{}
	for k := range exp {
		if !snap.cids[k] {
			missing = append(missing, w.pool.name(k))
		}
	}
	for k := range snap.cids {
		if !exp[k] {
			if _, ok := w.pool.label[k]; ok {
				extra = append(extra, w.pool.name(k))
			} else {
				extra = append(extra, k)
			}
		}
	}
	sort.Strings(missing)
	sort.Strings(extra)
	if len(missing)+len(extra) > 0 {
		return hx.Failf("C12/honest-state/commits/"+where, "after honest pushes %s's commits query differs from the pushed closure: missing %v, extra %v\n%s", r.name, missing, extra, w.history())
	}
	// heads per document = maximal composites of the pushed closure
	docs := map[string][]string{}
	pointed := map[string]bool{}
	for k := range exp {
		b := w.pool.block(k)
		if !b.Delta.IsComposite() {
			continue
		}
		d := string(b.Delta.GetDocID())
		docs[d] = append(docs[d], k)
		for _, h := range b.Heads {
			pointed[h.Cid.String()] = true
		}
	}
	last := r.honest[len(r.honest)-1]
	sender := w.cl.Nodes[last.From]
	docKeys := make([]string, 0, len(docs))
	for d := range docs {
		docKeys = append(docKeys, d)
	}
	sort.Strings(docKeys)
	for _, d := range docKeys {
		cs := docs[d]
		want := []string{}
		for _, k := range cs {
			if !pointed[k] {
				want = append(want, k)
			}
		}
		sort.Strings(want)
		got := compositeHeads(r.n, d)
		if strings.Join(got, ",") != strings.Join(want, ",") {
			return hx.Failf("C12/honest-state/heads/"+where, "document %s on %s has heads %v, the pushed closure's maximal commits are %v\n%s", d, r.name, w.names(got), w.names(want), w.history())
		}
		// differential against local execution, where the sender's state is exactly this history
		if w.remote[last.From][d] {
			continue
		}
		if strings.Join(compositeHeads(sender, d), ",") != strings.Join(want, ",") {
			continue
		}
		q := fmt.Sprintf(`query { Users(docID: %q, showDeleted: true) { %s } }`, d, docFields)
		a, b := sender.Exec(q), r.n.Exec(q)
		if !a.OK() || !b.OK() {
			return hx.Failf("C12/query-failed/doc", "%s: sender %s %s receiver %s %s", q, a.Err(), a.Panic, b.Err(), b.Panic)
		}
		if hx.Canon(a.Rows("Users")) != hx.Canon(b.Rows("Users")) {
			return hx.Failf("C12/honest-state/document/"+where, "document %s: sender n%d shows %s, %s after the honest push shows %s\n%s", d, last.From, hx.Canon(a.Rows("Users")), r.name, hx.Canon(b.Rows("Users")), w.history())
		}
		w.inf.flag("control-compared-with-sender")
	}
	return nil
}

// mix spreads rapid's small-biased integers over an index range (0 stays 0 for shrinking).
func mix(x int) int { return int((uint64(x) * 2654435761 >> 9) & 0xffffff) }

func depthClass(d int) string {
	switch {
	case d == 0:
		return "0"
	case d == 1:
		return "1"
	case d <= 3:
		return "2-3"
	}
	return "4+"
}

func run(c Case, inf *info) *hx.Failure {
	if len(c.Authors) == 0 || len(c.Ops) == 0 {
		return nil
	}
	w := &world{c: c, inf: inf, pool: newPool(), signer: map[string]*Ident{}, producer: map[string]int{}, docIDs: map[int]string{}, deleted: map[int]bool{}, lastDocMsg: map[int]*hx.Msg{}}
	w.cl = hx.NewCluster(len(c.Authors), sdl(c.Branchable), authorOpts(c))
	defer w.cl.Close()
	for _, n := range w.cl.Nodes {
		defer answerKeyRequests(n)()
	}
	f := w.scenario()
	if f == nil {
		f = w.deferred
	}
	if f != nil {
		f.Msg = w.anon(f.Msg)
	}
	return f
}

func (w *world) names(cids []string) []string {
	out := []string{}
	for _, k := range cids {
		if _, ok := w.pool.label[k]; ok {
			out = append(out, w.pool.name(k))
		} else {
			out = append(out, k)
		}
	}
	sort.Strings(out)
	return out
}

// anon replaces every cid the harness knows by a name that is the same in every run of the case, so
// that failure messages are reproducible (rapid refuses to shrink otherwise).
func (w *world) anon(s string) string {
	keys := make([]string, 0, len(w.pool.label))
	for k := range w.pool.label {
		keys = append(keys, k)
	}
	sort.Strings(keys)
	pairs := []string{}
	for _, k := range keys {
		pairs = append(pairs, k, "<"+w.pool.label[k]+">")
	}
	return strings.NewReplacer(pairs...).Replace(s)
}

func (w *world) scenario() *hx.Failure {
	c, inf := w.c, w.inf
	for range c.Authors {
		w.has = append(w.has, map[int]bool{})
		w.remote = append(w.remote, map[string]bool{})
	}
	if c.Branchable {
		inf.flag("branchable")
	}
	inf.flag("authors:%d", len(c.Authors))
	if f := w.runOps(); f != nil {
		return f
	}
	if f := w.checkAuthorBlocks(); f != nil {
		return f
	}
	if len(w.msgs) == 0 {
		inf.flag("no-notification")
		return nil
	}
	signers := map[string]bool{}
	for _, s := range w.signer {
		if s != nil {
			signers[s.String()] = true
		}
	}
	if len(signers) > 1 {
		inf.flag("multi-signer-dag")
	}

	// ---- what is pushed
	P := w.msgs[len(w.msgs)-1-(c.Push.MsgFromEnd%len(w.msgs))]
	if P.DocID == "" {
		inf.flag("pushed:collection-commit")
	} else {
		inf.flag("pushed:document-commit")
	}
	var pre *msgRec
	if c.Push.Pre >= 0 && P.idx > 0 {
		m := w.msgs[c.Push.Pre%P.idx]
		pre = &m
		inf.flag("receiver:pre-fed")
	} else {
		inf.flag("receiver:fresh")
	}
	if c.Push.KeyLess {
		inf.flag("receiver:key-less")
	}
	w.logf("push msg%d (%s)", P.idx, describe(w.pool.block(P.Cid)))

	// ---- honest control on a fresh receiver (when the forged receiver will not get the honest push anyway)
	control := func() *hx.Failure {
		H := w.newReceiver("control receiver")
		defer H.close()
		return w.pushHonest(H, P, "control")
	}
	if !c.Push.Post {
		if f := control(); f != nil {
			return f
		}
	}

	// ---- choose the target and forge
	dag, _ := w.pool.closure(P.Cid)
	targets := []reach{}
	byCid := map[string]reach{}
	for _, x := range dag {
		byCid[x.cid] = x
		if w.pool.block(x.cid).Signature != nil {
			targets = append(targets, x)
		}
	}
	if len(dag) > 1 {
		multi := false
		for _, x := range dag {
			if len(w.pool.block(x.cid).Heads) > 1 {
				multi = true
			}
		}
		if multi {
			inf.flag("dag-has-multi-head-commit")
		}
	}
	if len(targets) == 0 {
		inf.flag("no-signed-block-in-closure")
		if c.Push.Post {
			return control()
		}
		return nil
	}
	T := targets[c.Push.Tamper.Target%len(targets)]
	path := []string{T.cid}
	for x := T; x.via != ""; {
		x = byCid[x.via]
		path = append([]string{x.cid}, path...)
	}
	tb := w.pool.block(T.cid)
	kinds := applicable(tb)
	kind := kinds[mix(c.Push.Tamper.Kind*257+c.Push.Tamper.Arg)%len(kinds)]
	otherDocs := []string{}
	for _, d := range []int{0, 1} {
		if id, ok := w.docIDs[d]; ok {
			otherDocs = append(otherDocs, id)
		}
	}
	forgedT, kind := w.pool.tamperBlock(T.cid, kind, c.Push.Tamper.Arg, otherDocs, c.Push.Tamper.Resign)
	forgedP, resigned := forgedT, 0
	if T.depth > 0 {
		forgedP, resigned = w.pool.repoint(path, forgedT, c.Push.Tamper.Resign)
	}
	kindClass := "content"
	if isSigKind(kind) {
		kindClass = "sigblock"
	}
	if isEncKind(kind) {
		kindClass = "enclink"
	}
	if tb.Encryption != nil {
		inf.flag("target:encrypted-block")
	}
	inf.flag("tamper:%s", kind)
	inf.flag("target:%s", blockClass(tb))
	inf.flag("depth:%s", depthClass(T.depth))
	inf.flag("target-key:%s", func() string {
		if s := w.signer[T.cid]; s != nil {
			return s.KeyType
		}
		return "?"
	}())
	if T.depth > 0 {
		if resigned > 0 {
			inf.flag("chain-resigned-by-attacker")
		} else {
			inf.flag("chain-above-unsigned")
		}
		unsignedOnPath := false
		for _, k := range path[1 : len(path)-1] {
			if w.pool.block(k).Signature == nil {
				unsignedOnPath = true
			}
		}
		if unsignedOnPath {
			inf.flag("path-through-unsigned-field-block")
		}
	}
	w.logf("tamper %s of %s (%s) at depth %d -> %s; pushed forged root %s", kind, short(T.cid), describe(tb), T.depth, short(forgedT), short(forgedP))

	// ---- non-triviality: the forged DAG is well-formed and only the target's signature is bad
	fdag, _ := w.pool.closure(forgedP) // harness error if a link does not resolve or a block does not decode
	foundT := false
	for _, x := range fdag {
		has, valid, _, why := w.pool.refVerify(x.cid)
		if x.cid == forgedT {
			foundT = true
			if !has {
				hx.Harnessf("forged target lost its signature link")
			}
			if valid {
				// e.g. a bit flip the signature encoding tolerates: not a forgery
				inf.flag("mutation-still-verifies")
				w.logf("the mutated signature still verifies (independent verifier): not a forgery, nothing asserted")
				if c.Push.Post {
					return control()
				}
				return nil
			}
			w.logf("independent verifier on the forged target: %s", why)
			continue
		}
		if has && !valid {
			hx.Harnessf("block %s of the forged DAG other than the target fails verification: %s", x.cid, why)
		}
	}
	if !foundT {
		hx.Harnessf("forged target is not reachable from the forged root")
	}
	inf.nontrivial = true

	// ---- verify-after-tamper on the author's node (it knows the document, so the answer is about the signature):
	// the forged block must not verify under the original signer's key nor under the key its header names
	verifyTampered := func() *hx.Failure {
		s := w.signer[T.cid]
		if s == nil {
			return nil
		}
		A := w.cl.Nodes[w.producer[T.cid]]
		bs := datastore.BlockstoreFrom(A.DB.Rootstore())
		fb := w.pool.block(forgedT)
		for _, k := range []string{fb.Signature.Cid.String(), forgedT} {
			raw, ok := w.pool.raw[k]
			if !ok {
				hx.Harnessf("pool lacks %s", k)
			}
			nb, _ := blocks.NewBlockWithCid(raw, mustCid(k))
			if err := bs.Put(A.Ctx, nb); err != nil {
				hx.Harnessf("put: %v", err)
			}
		}
		if ok, _ := w.pool.refVerifyWithKey(forgedT, *s); ok {
			// only the header's type field was changed: the value still is the signer's signature over the content
			inf.flag("forged-target-still-verifies-under-signer-key")
		} else {
			if err := A.DB.VerifySignature(A.Ctx, forgedT, seedKey(*s).GetPublic()); err == nil {
				return hx.Failf("C12/verify-accepts-tampered/db/"+kindClass, "VerifySignature(forged %s, original signer's key) = nil after %s of %s (%s)\n%s", forgedT, kind, T.cid, describe(tb), w.history())
			}
			if _, err := coreblock.VerifyBlockSignatureWithKey(fb, linkSystemOf(A), seedKey(*s).GetPublic()); err == nil {
				return hx.Failf("C12/verify-accepts-tampered/block-level/"+kindClass, "VerifyBlockSignatureWithKey(forged %s, original signer's key) = nil after %s of %s (%s)\n%s", forgedT, kind, T.cid, describe(tb), w.history())
			}
		}
		if _, err := coreblock.VerifyBlockSignature(fb, linkSystemOf(A)); err == nil {
			return hx.Failf("C12/verify-accepts-tampered/header-key/"+kindClass, "VerifyBlockSignature(forged %s) = nil after %s of %s (%s)\n%s", forgedT, kind, T.cid, describe(tb), w.history())
		}
		return nil
	}
	// half of the cases ask before the push, half after it (so that either clause can be the one reported)
	verifyFirst := c.Push.Tamper.Arg%2 == 0
	if verifyFirst {
		inf.flag("verify-after-tamper:before-push")
		if f := verifyTampered(); f != nil {
			return f
		}
	} else {
		inf.flag("verify-after-tamper:after-push")
	}

	// ---- the forged push
	F := w.newReceiver("receiver")
	defer F.close()
	if pre != nil {
		if f := w.pushHonest(F, *pre, "pre"); f != nil {
			return f
		}
	}
	w.store(F, forgedP, true)
	w.store(F, P.Cid, true)
	before, f := takeSnapshot(F.n, "before the forged push")
	if f != nil {
		return f
	}
	where := "pushed-block"
	if T.depth > 0 {
		where = "nested-" + blockClass(tb)
		if blockClass(tb) == "counter" || blockClass(tb) == "register" {
			where = "nested-field"
		}
	}
	docIDArg := P.DocID
	err := w.pushQuarantined(F, docIDArg, forgedP, P.CollectionID, w.pool.raw[forgedP])
	evs := F.qtap.takeMerges()
	if err == nil {
		// run the announced merge so that the report can say what it does
		effect := ""
		for _, e := range evs {
			merr, pan := safeMerge(F.n, e)
			switch {
			case pan != "":
				effect += "; the announced merge panics: " + pan
			case merr != nil:
				effect += fmt.Sprintf("; the announced merge fails: %v", merr)
			default:
				after, _ := takeSnapshot(F.n, "after accepted forged push")
				effect += "; the announced merge completes and changes: " + before.changedParts(after)
			}
		}
		return hx.Failf("C12/forged-accepted/"+where+"/"+kindClass, "push of a forged commit was accepted: %s of %s (%s) %d below the pushed block, independent verification of its attached signature fails; PushLog returned nil, %d Merge events%s\n%s",
			kind, short(T.cid), describe(tb), T.depth, len(evs), effect, w.history())
	}
	w.logf("forged push rejected: %v", err)
	if len(evs) > 0 {
		return hx.Failf("C12/forged-merge-event/"+where, "PushLog returned %v for the forged commit but published a Merge event for cid %s", err, evs[0].Cid)
	}
	after, f := takeSnapshot(F.n, "after the rejected forged push")
	if f != nil {
		return f
	}
	if d := before.diff(after); d != "" {
		return hx.Failf("C12/forged-state-changed/"+where, "the forged push (%s, depth %d) was rejected (%v) but the receiver's state changed:\n%s\n%s", kind, T.depth, err, d, w.history())
	}
	if F.hasBlock(forgedP) {
		inf.flag("rejected-block-retained-in-blockstore")
	}
	if !verifyFirst {
		if f := verifyTampered(); f != nil {
			return f
		}
	}

	replayStep := c.Push.Replay
	if replayStep && c.AvoidKnown && rec.IsKnown(sigReplay) {
		// search past the known finding: these cases follow up with the honest push instead
		replayStep = false
		c.Push.Post = true
		inf.flag("avoided:second-request-under-forged-cid")
	}
	switch {
	case replayStep:
		inf.flag("followup:honest-block-under-forged-cid")
		return w.replay(F, P, forgedP, forgedT, before, kind, T.depth)
	case c.Push.Post:
		inf.flag("followup:honest-push")
		return w.pushHonest(F, P, "after-rejection")
	}
	inf.flag("followup:none")
	return nil
}

// replay: the rejected block stays in the blockstore; a second request carrying an honest block but
// naming the forged commit's cid must not get the forged commit merged.
func (w *world) replay(F *receiver, P msgRec, forgedP, forgedT string, before snapshot, kind string, depth int) *hx.Failure {
	forged := map[string]bool{}
	for k, is := range w.pool.forged {
		if is && !w.pool.isSig[k] && !w.pool.isEnc[k] {
			forged[k] = true
		}
	}
	err := w.pushQuarantined(F, P.DocID, forgedP, P.CollectionID, w.pool.raw[P.Cid])
	evs := F.qtap.takeMerges()
	w.logf("second request (honest block %s, cid of forged %s): err=%v, %d Merge events", short(P.Cid), short(forgedP), err, len(evs))
	named := false
	for _, e := range evs {
		k := e.Cid.String()
		merr, pan := safeMerge(F.n, e)
		if !forged[k] {
			if merr != nil || pan != "" {
				return hx.Failf("C12/honest-merge-failed/second-request", "merge announced for honest %s fails: %v %s\n%s", k, merr, pan, w.history())
			}
			continue
		}
		named = true
		switch {
		case pan != "":
			// the forged commit was handed to the merger, which panics on it (in the real handler: inside a
			// goroutine). No state change to assert; the malformed-delta panic itself is not a C12 matter.
			w.inf.flag("replay-merge-of-forged-cid-panics")
			if i := strings.LastIndex(pan, " at "); i >= 0 {
				w.inf.flag("forged-merge-panic-site:%s", pan[i+4:])
			}
			w.logf("merge of the forged cid panics: %s", pan)
			return nil // the node is not used after a panic inside it
		case merr != nil:
			w.inf.flag("replay-merge-of-forged-cid-fails")
			w.logf("merge of the forged cid fails: %v", merr)
		}
	}
	headDump := dumpStore(F.n, "heads", datastore.HeadstoreFrom(F.n.DB.Rootstore()))
	forgedHeads := []string{}
	for k := range forged {
		if strings.Contains(headDump, k) {
			forgedHeads = append(forgedHeads, w.pool.name(k))
		}
	}
	sort.Strings(forgedHeads)
	after, f := takeSnapshot(F.n, "after the second request")
	if f != nil {
		if named && err == nil && len(forgedHeads) > 0 {
			// the forged commit was merged (it is a head); a query that now fails is a consequence
			return hx.Failf(sigReplay, "a forged commit (%s, depth %d) was first rejected, then merged: the second request carried the honest block %s but named cid %s (the rejected block, retained in the blockstore); forged commits are now heads: %v; afterwards: %s\n%s",
				kind, depth, P.Cid, forgedP, forgedHeads, f.Msg, w.history())
		}
		f.Msg += "\n" + w.history()
		return f
	}
	inHistory := []string{}
	for k := range after.cids {
		if forged[k] {
			inHistory = append(inHistory, w.pool.name(k))
		}
	}
	sort.Strings(inHistory)
	if len(inHistory) > 0 {
		// diagnoser: the listed finding explains it only if the second request was accepted and the
		// Merge event it published names the forged commit's cid
		sig := "C12/forged-merged/other"
		if named && err == nil {
			sig = sigReplay
		}
		return hx.Failf(sig, "a forged commit (%s, depth %d) was first rejected, then merged: the second request carried the honest block %s but named cid %s (the rejected block, retained in the blockstore); PushLog returned %v, Merge events %d (forged cid named: %v); forged commits now in the receiver's history: %v; changed: %s\n%s",
			kind, depth, short(P.Cid), short(forgedP), err, len(evs), named, inHistory, before.changedParts(after), w.history())
	}
	if len(forgedHeads) > 0 {
		return hx.Failf("C12/forged-merged/head", "forged commits %v are heads after the second request although the commits query does not list them\n%s", forgedHeads, w.history())
	}
	if named {
		w.inf.flag("replay-forged-cid-announced-but-not-merged")
	}
	return nil
}
