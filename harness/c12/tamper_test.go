package c12

import (
	"crypto/ed25519"
	"crypto/sha256"
	"encoding/hex"
	"fmt"
	"sort"

	"github.com/decred/dcrd/dcrec/secp256k1/v4"
	secpecdsa "github.com/decred/dcrd/dcrec/secp256k1/v4/ecdsa"
	"github.com/ipfs/go-cid"
	cidlink "github.com/ipld/go-ipld-prime/linking/cid"

	"github.com/sourcenetwork/defradb/client"
	"github.com/sourcenetwork/defradb/crypto"
	coreblock "github.com/sourcenetwork/defradb/internal/core/block"
	"github.com/sourcenetwork/defradb/verifharness/hx"
)

// seedKey returns the private key of an Ident (fixed seeds: reproducible signatures and cids).
func seedKey(id Ident) crypto.PrivateKey {
	seed := make([]byte, 32)
	for k := range seed {
		seed[k] = byte(11*id.Seed + 3*k + 1)
	}
	var (
		pk  crypto.PrivateKey
		err error
	)
	if id.KeyType == "ed25519" {
		pk, err = crypto.PrivateKeyFromBytes(crypto.KeyTypeEd25519, ed25519.NewKeyFromSeed(seed))
	} else {
		pk, err = crypto.PrivateKeyFromBytes(crypto.KeyTypeSecp256k1, seed)
	}
	if err != nil {
		hx.Harnessf("seed key: %v", err)
	}
	return pk
}

func sigTypeOf(id Ident) string {
	if id.KeyType == "ed25519" {
		return coreblock.SignatureTypeEd25519
	}
	return coreblock.SignatureTypeECDSA256K
}

// pool is the harness's own content-addressed view of every block it has seen or forged.
type pool struct {
	raw    map[string][]byte // cid string -> bytes
	isSig  map[string]bool
	isEnc  map[string]bool // key (encryption) blocks: live in the separate /db/enc store, not part of the DAG
	order  []string        // insertion order
	forged map[string]bool
	// label is a name that does not depend on cids (counter nonces make cids differ between runs of one case)
	label map[string]string
}

// addEnc adds a key block.
func (p *pool) addEnc(c cid.Cid, raw []byte, forged bool, label string) {
	if _, ok := p.raw[c.String()]; ok {
		return
	}
	p.add(c, raw, false, forged, label)
	p.isEnc[c.String()] = true
}

func encodeEnc(e *coreblock.Encryption) (cid.Cid, []byte) {
	raw, err := e.Marshal()
	if err != nil {
		hx.Harnessf("marshal key block: %v", err)
	}
	l, err := coreblock.GetLinkFromNode(e.GenerateNode())
	if err != nil {
		hx.Harnessf("link of key block: %v", err)
	}
	return l.Cid, raw
}

// byName lists the pool's cids ordered by their run-independent names (unique by construction).
func (p *pool) byName() []string {
	out := append([]string{}, p.order...)
	sort.Slice(out, func(i, j int) bool {
		a, b := p.label[out[i]], p.label[out[j]]
		if a != b {
			return a < b
		}
		return out[i] < out[j]
	})
	return out
}

// name returns the run-independent name of a block.
func (p *pool) name(k string) string {
	if l, ok := p.label[k]; ok {
		return l
	}
	return "unknown-block"
}

func newPool() *pool {
	return &pool{raw: map[string][]byte{}, isSig: map[string]bool{}, isEnc: map[string]bool{}, forged: map[string]bool{}, label: map[string]string{}}
}

func (p *pool) add(c cid.Cid, raw []byte, isSig, forged bool, label string) {
	k := c.String()
	if _, ok := p.raw[k]; ok {
		return
	}
	p.label[k] = label
	p.raw[k] = raw
	p.isSig[k] = isSig
	p.forged[k] = forged
	p.order = append(p.order, k)
}

func (p *pool) block(k string) *coreblock.Block {
	raw, ok := p.raw[k]
	if !ok {
		hx.Harnessf("pool lacks block %s", k)
	}
	b, err := coreblock.GetFromBytes(raw)
	if err != nil {
		hx.Harnessf("pool block %s does not decode: %v", k, err)
	}
	return b
}

func (p *pool) sig(k string) *coreblock.Signature {
	raw, ok := p.raw[k]
	if !ok {
		hx.Harnessf("pool lacks signature block %s", k)
	}
	s, err := coreblock.GetSignatureBlockFromBytes(raw)
	if err != nil {
		hx.Harnessf("pool signature block %s does not decode: %v", k, err)
	}
	return s
}

// encodeBlock marshals a block and returns its cid.
func encodeBlock(b *coreblock.Block) (cid.Cid, []byte) {
	raw, err := b.Marshal()
	if err != nil {
		hx.Harnessf("marshal forged block: %v", err)
	}
	l, err := b.GenerateLink()
	if err != nil {
		hx.Harnessf("link of forged block: %v", err)
	}
	return l.Cid, raw
}

func encodeSig(s *coreblock.Signature) (cid.Cid, []byte) {
	raw, err := s.Marshal()
	if err != nil {
		hx.Harnessf("marshal forged signature block: %v", err)
	}
	l, err := coreblock.GetLinkFromNode(s.GenerateNode())
	if err != nil {
		hx.Harnessf("link of forged signature block: %v", err)
	}
	return l.Cid, raw
}

// signedBytes is what a signature covers: the block marshalled without its signature link.
func signedBytes(b *coreblock.Block) []byte {
	cp := *b
	cp.Signature = nil
	raw, err := cp.Marshal()
	if err != nil {
		hx.Harnessf("marshal: %v", err)
	}
	return raw
}

// refVerify is the independent verifier: (has signature, verifies, signer identity string, reason).
func (p *pool) refVerify(k string) (bool, bool, string, string) {
	b := p.block(k)
	if b.Signature == nil {
		return false, false, "", "no signature link"
	}
	sraw, ok := p.raw[b.Signature.Cid.String()]
	if !ok {
		return true, false, "", "signature block missing"
	}
	s, err := coreblock.GetSignatureBlockFromBytes(sraw)
	if err != nil {
		return true, false, "", "signature block undecodable: " + err.Error()
	}
	msg := signedBytes(b)
	idStr := string(s.Header.Identity)
	pub, err := hex.DecodeString(idStr)
	if err != nil {
		return true, false, idStr, "identity not hex"
	}
	switch s.Header.Type {
	case coreblock.SignatureTypeEd25519:
		if len(pub) != ed25519.PublicKeySize {
			return true, false, idStr, "bad ed25519 key length"
		}
		if ed25519.Verify(ed25519.PublicKey(pub), msg, s.Value) {
			return true, true, idStr, ""
		}
		return true, false, idStr, "ed25519 verification failed"
	case coreblock.SignatureTypeECDSA256K:
		pk, err := secp256k1.ParsePubKey(pub)
		if err != nil {
			return true, false, idStr, "bad secp256k1 key"
		}
		sig, err := secpecdsa.ParseDERSignature(s.Value)
		if err != nil {
			return true, false, idStr, "bad DER signature"
		}
		h := sha256.Sum256(msg)
		if sig.Verify(h[:], pk) {
			return true, true, idStr, ""
		}
		return true, false, idStr, "ecdsa verification failed"
	}
	return true, false, idStr, "unknown signature type " + s.Header.Type
}

// refVerifyWithKey is the independent counterpart of "verify under this key": the header names the key
// and the value is that key's signature over the block without signature link. The header's type
// field plays no role here (the key decides the algorithm).
func (p *pool) refVerifyWithKey(k string, id Ident) (bool, string) {
	b := p.block(k)
	if b.Signature == nil {
		return false, "no signature link"
	}
	sraw, ok := p.raw[b.Signature.Cid.String()]
	if !ok {
		return false, "signature block missing"
	}
	s, err := coreblock.GetSignatureBlockFromBytes(sraw)
	if err != nil {
		return false, "signature block undecodable"
	}
	pubStr := seedKey(id).GetPublic().String()
	if string(s.Header.Identity) != pubStr {
		return false, "header identity is another key"
	}
	pub, _ := hex.DecodeString(pubStr)
	msg := signedBytes(b)
	if id.KeyType == "ed25519" {
		if ed25519.Verify(ed25519.PublicKey(pub), msg, s.Value) {
			return true, ""
		}
		return false, "ed25519 verification failed"
	}
	pk, err := secp256k1.ParsePubKey(pub)
	if err != nil {
		hx.Harnessf("own key does not parse: %v", err)
	}
	sig, err := secpecdsa.ParseDERSignature(s.Value)
	if err != nil {
		return false, "bad DER signature"
	}
	h := sha256.Sum256(msg)
	if sig.Verify(h[:], pk) {
		return true, ""
	}
	return false, "ecdsa verification failed"
}

// signWith produces a signature block for b by the given key (header consistent with the key).
func signWith(b *coreblock.Block, id Ident) *coreblock.Signature {
	pk := seedKey(id)
	v, err := pk.Sign(signedBytes(b))
	if err != nil {
		hx.Harnessf("sign: %v", err)
	}
	return &coreblock.Signature{
		Header: coreblock.SignatureHeader{Type: sigTypeOf(id), Identity: []byte(pk.GetPublic().String())},
		Value:  v,
	}
}

// closure lists the DAG blocks reachable from root breadth-first with their depth, and the signature blocks.
type reach struct {
	cid   string
	depth int
	via   string // parent cid on one shortest path ("" for the root)
}

func (p *pool) closure(root string) (dag []reach, sigs []string) {
	// breadth-first by levels; inside a level blocks are ordered by name and a block's parent on the
	// recorded path is the first parent in that order, so that the result does not depend on cid values
	seen := map[string]bool{root: true}
	level := []reach{{cid: root}}
	for len(level) > 0 {
		sort.Slice(level, func(i, j int) bool { return p.name(level[i].cid) < p.name(level[j].cid) })
		next := []reach{}
		for _, r := range level {
			dag = append(dag, r)
			b := p.block(r.cid)
			if b.Signature != nil {
				sigs = append(sigs, b.Signature.Cid.String())
			}
			for _, l := range b.AllLinks() {
				k := l.Cid.String()
				if !seen[k] {
					seen[k] = true
					next = append(next, reach{cid: k, depth: r.depth + 1, via: r.cid})
				}
			}
		}
		level = next
	}
	return dag, sigs
}

// mutation kinds
const (
	kDataFlip      = "data-flip"
	kDataReplace   = "data-replace"
	kPriorityUp    = "priority+1"
	kPriorityDown  = "priority-1"
	kDocID         = "doc-id"
	kSchemaVersion = "schema-version"
	kFieldName     = "field-name"
	kNonce         = "nonce"
	kStatus        = "status-flip"
	kHeadDrop      = "head-drop"
	kHeadAdd       = "head-add"
	kHeadReplace   = "head-replace"
	kLinkDrop      = "link-drop"
	kLinkAdd       = "link-add"
	kLinkReplace   = "link-replace"
	kLinkRename    = "link-rename"
	kSigValueFlip  = "sig-value-flip"
	kSigValueTrunc = "sig-value-truncate"
	kSigIdentOther = "sig-identity-other-key"
	kSigIdentJunk  = "sig-identity-garbage"
	kSigTypeSwap   = "sig-type-swap"
	kSigSwap       = "sig-swap-other-commit"
	kSigResignKeep = "sig-resign-other-key-keep-header"
	kSigOverLinked = "sig-over-bytes-with-signature-link"
	kEncDrop       = "enc-link-drop"
	kEncAdd        = "enc-link-add"
	kEncReplace    = "enc-link-replace"
)

func isEncKind(k string) bool { return len(k) > 4 && k[:4] == "enc-" }

func isSigKind(k string) bool { return len(k) > 4 && k[:4] == "sig-" }

func applicable(b *coreblock.Block) []string {
	out := []string{kPriorityUp, kPriorityDown, kSchemaVersion, kHeadAdd}
	d := b.Delta
	if !d.IsCollection() {
		out = append(out, kDocID)
	}
	if d.LWWDelta != nil || d.CounterDelta != nil {
		out = append(out, kDataFlip, kDataReplace, kFieldName)
	}
	if d.CounterDelta != nil {
		out = append(out, kNonce)
	}
	if d.DocCompositeDelta != nil {
		out = append(out, kStatus)
	}
	if len(b.Heads) > 0 {
		out = append(out, kHeadDrop, kHeadReplace)
	}
	if len(b.Links) > 0 {
		out = append(out, kLinkDrop, kLinkReplace, kLinkRename)
	}
	if d.DocCompositeDelta != nil || d.IsCollection() {
		out = append(out, kLinkAdd)
	}
	if b.Encryption != nil {
		out = append(out, kEncDrop, kEncReplace, kEncDrop, kEncReplace, kEncDrop, kEncReplace)
	} else {
		out = append(out, kEncAdd, kEncAdd)
	}
	out = append(out, kSigValueFlip, kSigValueTrunc, kSigIdentOther, kSigIdentJunk, kSigTypeSwap, kSigSwap, kSigResignKeep, kSigOverLinked)
	return out
}

func sortHeads(hs []cidlink.Link) {
	sort.Slice(hs, func(i, j int) bool { return hs[i].Cid.String() < hs[j].Cid.String() })
}

func sortLinks(ls []coreblock.DAGLink) {
	sort.SliceStable(ls, func(i, j int) bool { return ls[i].Cid.String() < ls[j].Cid.String() })
}

func setPriority(b *coreblock.Block, f func(uint64) uint64) {
	d := b.Delta
	switch {
	case d.LWWDelta != nil:
		d.LWWDelta.Priority = f(d.LWWDelta.Priority)
	case d.CounterDelta != nil:
		d.CounterDelta.Priority = f(d.CounterDelta.Priority)
	case d.DocCompositeDelta != nil:
		d.DocCompositeDelta.Priority = f(d.DocCompositeDelta.Priority)
	case d.CollectionDelta != nil:
		d.CollectionDelta.Priority = f(d.CollectionDelta.Priority)
	}
}

func mutString(s string, arg int) string {
	if s == "" {
		return "x"
	}
	r := []byte(s)
	i := arg % len(r)
	if r[i] == 'a' {
		r[i] = 'b'
	} else {
		r[i] = 'a'
	}
	return string(r)
}

// candidates lists honest DAG blocks other than the excluded ones, in name order.
func (p *pool) candidates(exclude map[string]bool, pred func(*coreblock.Block) bool) []string {
	out := []string{}
	for _, k := range p.byName() {
		if p.isSig[k] || p.isEnc[k] || p.forged[k] || exclude[k] {
			continue
		}
		if pred == nil || pred(p.block(k)) {
			out = append(out, k)
		}
	}
	return out
}

func mustCid(k string) cid.Cid {
	c, err := cid.Decode(k)
	if err != nil {
		hx.Harnessf("bad cid %q: %v", k, err)
	}
	return c
}

// tamperBlock applies one mutation to the block `target` and returns the forged block's cid.
// The forged block (and a forged signature block, if any) is added to the pool. It returns the
// kind actually applied (a kind that has no material in this DAG falls back to a neighbouring one).
func (p *pool) tamperBlock(target string, kind string, arg int, otherDocIDs []string, otherKey Ident) (string, string) {
	b := p.block(target) // fresh decode: safe to mutate
	if b.Signature == nil {
		hx.Harnessf("tamper target %s has no signature", target)
	}
	selfAndLinked := map[string]bool{target: true}
	for _, l := range b.AllLinks() {
		selfAndLinked[l.Cid.String()] = true
	}
	sameKindPred := func(x *coreblock.Block) bool {
		return x.Delta.IsComposite() == b.Delta.IsComposite() && x.Delta.IsCollection() == b.Delta.IsCollection()
	}
	fieldPred := func(x *coreblock.Block) bool { return x.Delta.LWWDelta != nil || x.Delta.CounterDelta != nil }

	switch kind {
	case kDataFlip:
		var data *[]byte
		if b.Delta.LWWDelta != nil {
			data = &b.Delta.LWWDelta.Data
		} else {
			data = &b.Delta.CounterDelta.Data
		}
		cp := append([]byte{}, (*data)...)
		if len(cp) == 0 {
			cp = []byte{0x01}
		} else {
			cp[arg%len(cp)] ^= 1 << uint(arg/len(cp)%8)
		}
		*data = cp
	case kDataReplace:
		var data *[]byte
		if b.Delta.LWWDelta != nil {
			data = &b.Delta.LWWDelta.Data
		} else {
			data = &b.Delta.CounterDelta.Data
		}
		// CBOR of a different value of a plausible type
		repl := [][]byte{{0x18, 0x2a}, {0x61, 0x7a}, {0xf5}, {0xf6}, {0xfb, 0x40, 0x59, 0, 0, 0, 0, 0, 0}}
		r := repl[arg%len(repl)]
		if string(r) == string(*data) {
			r = repl[(arg+1)%len(repl)]
		}
		*data = append([]byte{}, r...)
	case kPriorityUp:
		setPriority(b, func(x uint64) uint64 { return x + 1 })
	case kPriorityDown:
		setPriority(b, func(x uint64) uint64 { return x - 1 })
	case kDocID:
		cur := string(b.Delta.GetDocID())
		repl := ""
		for _, d := range otherDocIDs {
			if d != cur {
				repl = d
				break
			}
		}
		if repl == "" || arg%2 == 1 {
			repl = mutString(cur, len(cur)-1-(arg%8))
		}
		switch {
		case b.Delta.LWWDelta != nil:
			b.Delta.LWWDelta.DocID = []byte(repl)
		case b.Delta.CounterDelta != nil:
			b.Delta.CounterDelta.DocID = []byte(repl)
		case b.Delta.DocCompositeDelta != nil:
			b.Delta.DocCompositeDelta.DocID = []byte(repl)
		}
	case kSchemaVersion:
		switch {
		case b.Delta.LWWDelta != nil:
			b.Delta.LWWDelta.SchemaVersionID = mutString(b.Delta.LWWDelta.SchemaVersionID, arg)
		case b.Delta.CounterDelta != nil:
			b.Delta.CounterDelta.SchemaVersionID = mutString(b.Delta.CounterDelta.SchemaVersionID, arg)
		case b.Delta.DocCompositeDelta != nil:
			b.Delta.DocCompositeDelta.SchemaVersionID = mutString(b.Delta.DocCompositeDelta.SchemaVersionID, arg)
		case b.Delta.CollectionDelta != nil:
			b.Delta.CollectionDelta.SchemaVersionID = mutString(b.Delta.CollectionDelta.SchemaVersionID, arg)
		}
	case kFieldName:
		names := []string{"s", "i", "b", "pn", "pf", "pc", "k"}
		cur := b.Delta.GetFieldName()
		n := names[arg%len(names)]
		if n == cur {
			n = names[(arg+1)%len(names)]
		}
		if b.Delta.LWWDelta != nil {
			b.Delta.LWWDelta.FieldName = n
		} else {
			b.Delta.CounterDelta.FieldName = n
		}
	case kNonce:
		b.Delta.CounterDelta.Nonce += int64(arg%7) + 1
	case kStatus:
		if b.Delta.DocCompositeDelta.Status == client.Active {
			b.Delta.DocCompositeDelta.Status = client.Deleted
		} else {
			b.Delta.DocCompositeDelta.Status = client.Active
		}
	case kHeadDrop:
		i := arg % len(b.Heads)
		hs := append([]cidlink.Link{}, b.Heads[:i]...)
		hs = append(hs, b.Heads[i+1:]...)
		if len(hs) == 0 {
			hs = nil
		}
		b.Heads = hs
	case kHeadAdd, kHeadReplace:
		cands := p.candidates(selfAndLinked, sameKindPred)
		if len(cands) == 0 {
			cands = p.candidates(selfAndLinked, nil)
		}
		if len(cands) == 0 {
			return p.tamperBlock(target, kPriorityUp, arg, otherDocIDs, otherKey)
		}
		nl := cidlink.Link{Cid: mustCid(cands[arg%len(cands)])}
		hs := append([]cidlink.Link{}, b.Heads...)
		if kind == kHeadAdd {
			hs = append(hs, nl)
		} else {
			hs[(arg/7)%len(hs)] = nl
		}
		sortHeads(hs)
		b.Heads = hs
	case kLinkDrop:
		i := arg % len(b.Links)
		ls := append([]coreblock.DAGLink{}, b.Links[:i]...)
		ls = append(ls, b.Links[i+1:]...)
		if len(ls) == 0 {
			ls = nil
		}
		b.Links = ls
	case kLinkAdd, kLinkReplace:
		pred := fieldPred
		if b.Delta.IsCollection() {
			pred = func(x *coreblock.Block) bool { return x.Delta.IsComposite() }
		}
		cands := p.candidates(selfAndLinked, pred)
		if len(cands) == 0 {
			return p.tamperBlock(target, kPriorityDown, arg, otherDocIDs, otherKey)
		}
		pick := cands[arg%len(cands)]
		ls := append([]coreblock.DAGLink{}, b.Links...)
		if kind == kLinkAdd {
			name := p.block(pick).Delta.GetFieldName()
			if b.Delta.IsCollection() {
				name = "_link"
			}
			ls = append(ls, coreblock.NewDAGLink(name, cidlink.Link{Cid: mustCid(pick)}))
		} else {
			i := (arg / 7) % len(ls)
			ls[i] = coreblock.NewDAGLink(ls[i].Name, cidlink.Link{Cid: mustCid(pick)})
		}
		sortLinks(ls)
		b.Links = ls
	case kLinkRename:
		ls := append([]coreblock.DAGLink{}, b.Links...)
		i := arg % len(ls)
		ls[i] = coreblock.NewDAGLink(mutString(ls[i].Name, arg/3), ls[i].Link)
		b.Links = ls

	// ---- encryption link: delta, heads and links stay, the link to the key block changes
	case kEncDrop:
		b.Encryption = nil
	case kEncAdd, kEncReplace:
		cur := ""
		if b.Encryption != nil {
			cur = b.Encryption.Cid.String()
		}
		// the key block of another document / field, if the history has one; else one the attacker makes up
		cands := []string{}
		for _, k := range p.byName() {
			if p.isEnc[k] && !p.forged[k] && k != cur {
				cands = append(cands, k)
			}
		}
		var pick cid.Cid
		if len(cands) > 0 && arg%4 != 3 {
			pick = mustCid(cands[arg%len(cands)])
		} else {
			key := make([]byte, 32)
			for i := range key {
				key[i] = byte(arg + i)
			}
			ec, eraw := encodeEnc(&coreblock.Encryption{DocID: b.Delta.GetDocID(), Key: key})
			p.addEnc(ec, eraw, true, fmt.Sprintf("attacker-key-block-%d", arg))
			pick = ec
		}
		l := cidlink.Link{Cid: pick}
		b.Encryption = &l

	// ---- signature block mutations: the block's content stays, its signature link is re-pointed
	case kSigValueFlip, kSigValueTrunc, kSigIdentOther, kSigIdentJunk, kSigTypeSwap, kSigResignKeep, kSigOverLinked:
		s := p.sig(b.Signature.Cid.String())
		switch kind {
		case kSigValueFlip:
			v := append([]byte{}, s.Value...)
			v[arg%len(v)] ^= 1 << uint(arg/len(v)%8)
			s.Value = v
		case kSigValueTrunc:
			n := len(s.Value) - 1 - arg%4
			if arg%5 == 0 {
				n = 0
			}
			s.Value = append([]byte{}, s.Value[:n]...)
		case kSigIdentOther:
			// another key of the type the header names
			o := otherKey
			if s.Header.Type == coreblock.SignatureTypeEd25519 {
				o.KeyType = "ed25519"
			} else {
				o.KeyType = "secp256k1"
			}
			id := seedKey(o).GetPublic().String()
			if id == string(s.Header.Identity) {
				o.Seed = (o.Seed + 1) % nSeeds
				id = seedKey(o).GetPublic().String()
			}
			s.Header.Identity = []byte(id)
		case kSigIdentJunk:
			junk := [][]byte{[]byte("zz-not-hex"), {}, []byte("00"), s.Header.Identity[:len(s.Header.Identity)-2]}
			s.Header.Identity = junk[arg%len(junk)]
		case kSigTypeSwap:
			types := []string{coreblock.SignatureTypeEd25519, coreblock.SignatureTypeECDSA256K, "", "ES256"}
			tp := types[arg%len(types)]
			if tp == s.Header.Type {
				tp = types[(arg+1)%len(types)]
			}
			s.Header.Type = tp
		case kSigResignKeep:
			// value made by another key (of the header's type, so that lengths/encodings fit), header kept
			o := otherKey
			if s.Header.Type == coreblock.SignatureTypeEd25519 {
				o.KeyType = "ed25519"
			} else {
				o.KeyType = "secp256k1"
			}
			if seedKey(o).GetPublic().String() == string(s.Header.Identity) {
				o.Seed = (o.Seed + 1) % nSeeds
			}
			s.Value = signWith(b, o).Value
		case kSigOverLinked:
			// the honest signer's key is not available to an attacker; what is: any key of theirs.
			// Signature made over the bytes INCLUDING the (old) signature link, header = that key.
			raw, err := b.Marshal()
			if err != nil {
				hx.Harnessf("marshal: %v", err)
			}
			pk := seedKey(otherKey)
			v, err := pk.Sign(raw)
			if err != nil {
				hx.Harnessf("sign: %v", err)
			}
			s = &coreblock.Signature{Header: coreblock.SignatureHeader{Type: sigTypeOf(otherKey), Identity: []byte(pk.GetPublic().String())}, Value: v}
		}
		sc, sraw := encodeSig(s)
		p.add(sc, sraw, true, true, "forged-signature-of["+p.name(target)+"]")
		l := cidlink.Link{Cid: sc}
		b.Signature = &l
	case kSigSwap:
		cur := b.Signature.Cid.String()
		cands := []string{}
		for _, k := range p.byName() {
			if p.isSig[k] && !p.forged[k] && k != cur {
				cands = append(cands, k)
			}
		}
		if len(cands) == 0 {
			return p.tamperBlock(target, kSigValueFlip, arg, otherDocIDs, otherKey)
		}
		l := cidlink.Link{Cid: mustCid(cands[arg%len(cands)])}
		b.Signature = &l
	default:
		hx.Harnessf("unknown tamper kind %q", kind)
	}
	nc, nraw := encodeBlock(b)
	if nc.String() == target {
		hx.Harnessf("mutation %s left block %s unchanged", kind, target)
	}
	if _, err := coreblock.GetFromBytes(nraw); err != nil {
		hx.Harnessf("forged block does not decode (%s): %v", kind, err)
	}
	p.add(nc, nraw, false, true, "forged["+p.name(target)+"]")
	return nc.String(), kind
}

// repoint rebuilds the blocks on path (root ... parent of target) so that they lead to newChild,
// re-signing every block that carried a signature with the attacker's key. Returns the new root.
func (p *pool) repoint(path []string, newChild string, attacker Ident) (string, int) {
	resigned := 0
	child := path[len(path)-1]
	for i := len(path) - 2; i >= 0; i-- {
		b := p.block(path[i])
		found := false
		hs := append([]cidlink.Link{}, b.Heads...)
		for j := range hs {
			if hs[j].Cid.String() == child {
				hs[j] = cidlink.Link{Cid: mustCid(newChild)}
				found = true
			}
		}
		ls := append([]coreblock.DAGLink{}, b.Links...)
		for j := range ls {
			if ls[j].Cid.String() == child {
				ls[j] = coreblock.NewDAGLink(ls[j].Name, cidlink.Link{Cid: mustCid(newChild)})
				found = true
			}
		}
		if !found {
			hx.Harnessf("path broken: %s does not link %s", path[i], child)
		}
		if len(hs) > 0 {
			sortHeads(hs)
			b.Heads = hs
		}
		if len(ls) > 0 {
			sortLinks(ls)
			b.Links = ls
		}
		if b.Signature != nil {
			s := signWith(b, attacker)
			sc, sraw := encodeSig(s)
			p.add(sc, sraw, true, true, "attacker-signature-of["+p.name(path[i])+"]")
			l := cidlink.Link{Cid: sc}
			b.Signature = &l
			resigned++
		}
		nc, nraw := encodeBlock(b)
		p.add(nc, nraw, false, true, "repointed["+p.name(path[i])+"]")
		child = path[i]
		newChild = nc.String()
	}
	return newChild, resigned
}

// short is the identity: full cids are replaced by run-independent names in failure messages (anon).
func short(k string) string { return k }

func describe(b *coreblock.Block) string {
	switch {
	case b.Delta.IsCollection():
		return fmt.Sprintf("collection h%d", b.Delta.GetPriority())
	case b.Delta.IsComposite():
		return fmt.Sprintf("composite h%d", b.Delta.GetPriority())
	case b.Delta.CounterDelta != nil:
		return fmt.Sprintf("counter %s h%d", b.Delta.GetFieldName(), b.Delta.GetPriority())
	default:
		return fmt.Sprintf("register %s h%d", b.Delta.GetFieldName(), b.Delta.GetPriority())
	}
}
