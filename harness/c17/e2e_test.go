package c17

import (
	"encoding/json"
	"fmt"
	"math"
	"sort"
	"strconv"
	"strings"
	"testing"
	"time"

	"pgregory.net/rapid"

	"github.com/sourcenetwork/defradb/client"
	"github.com/sourcenetwork/defradb/verifharness/hx"
)

// E2ECase stores edge values in an indexed column and compares index-served
// range filters and ordering with the order of the values themselves and with
// an unindexed twin.
type E2ECase struct {
	Kind   string `json:"kind"` // int f64 f32 str time
	Desc   bool   `json:"desc"`
	Vals   []Val  `json:"vals"`
	Bounds []Val  `json:"bounds"`
	// Composite: the index is (g, v) with g = k % 2 instead of (v); every filter then also fixes g,
	// so the condition on v is decided by the index's value matcher on a non-leading field, not by the
	// key range of the scan.
	Composite bool `json:"composite,omitempty"`
}

func gqlType(k string) string {
	switch k {
	case "int":
		return "Int"
	case "f64":
		return "Float64"
	case "f32":
		return "Float32"
	case "str":
		return "String"
	case "time":
		return "DateTime"
	}
	panic(k)
}

func finite(v Val) bool {
	switch v.K {
	case "f64":
		return !math.IsInf(v.f64(), 0) && !math.IsNaN(v.f64())
	case "f32":
		return !math.IsInf(float64(v.f32()), 0) && !isNaN(v)
	}
	return true
}

// storable excludes values the document input path does not accept as a distinct value:
// RFC 3339 covers years 0000-9999 only, and Go's zero time (0001-01-01T00:00:00Z) is read
// back as null by the document layer with or without an index (not an index matter).
func storable(v Val) bool {
	if v.K == "time" {
		if v.T == -62135596800 && v.N == 0 {
			return false
		}
		return v.T >= -62135596800 && v.T <= 253402300799
	}
	return true
}

func jsonLit(v Val) string {
	switch v.K {
	case "nil":
		return "null"
	case "int":
		return strconv.FormatInt(v.I, 10)
	case "f64":
		s := strconv.FormatFloat(v.f64(), 'g', -1, 64)
		if !strings.ContainsAny(s, ".e") {
			s += ".0"
		}
		return s
	case "f32":
		s := strconv.FormatFloat(float64(v.f32()), 'g', -1, 32)
		if !strings.ContainsAny(s, ".e") {
			s += ".0"
		}
		return s
	case "str":
		b, _ := json.Marshal(string(v.S))
		return string(b)
	case "time":
		return strconv.Quote(v.tm().Format(time.RFC3339Nano))
	}
	panic(v.K)
}

func drawE2E(t *rapid.T) E2ECase {
	k := rapid.SampledFrom([]string{"int", "int", "f64", "f32", "str", "time"}).Draw(t, "kind")
	c := E2ECase{Kind: k, Desc: rapid.Bool().Draw(t, "desc"), Composite: rapid.IntRange(0, 2).Draw(t, "composite") == 0}
	n := rapid.IntRange(3, 10).Draw(t, "n")
	gen := genValOf(k)
	if k == "str" {
		// document strings are text: valid UTF-8 (the JSON input path), including NUL and '/'
		gen = rapid.Custom(func(t *rapid.T) Val {
			return Val{K: "str", S: []byte(rapid.OneOf(
				rapid.SampledFrom([]string{"", "a", "a\x00", "a\x00b", "a\x00\x00", "a\x01", "\x00", "a/b", "/", "a/", "%", "é", "日本", "ab", "b", "aa", "ÿ", "￿"}),
				rapid.StringN(0, 6, -1)).Draw(t, "s"))}
		})
	}
	if k == "time" {
		gen = rapid.Custom(func(t *rapid.T) Val {
			x := genTime().Draw(t, "t")
			return Val{K: "time", T: x[0], N: x[1]}
		})
	}
	for i := 0; i < n; i++ {
		var v Val
		switch rapid.IntRange(0, 9).Draw(t, "mode") {
		case 0:
			v = Val{K: "nil"}
		case 1, 2:
			if len(c.Vals) > 0 && c.Vals[len(c.Vals)-1].K != "nil" {
				v = neighbour(t, c.Vals[len(c.Vals)-1])
				if k == "str" {
					v = Val{K: "str", S: append(append([]byte{}, c.Vals[len(c.Vals)-1].S...), 0)}
				}
			} else {
				v = gen.Draw(t, "v")
			}
		default:
			v = gen.Draw(t, "v")
		}
		if !finite(v) || !storable(v) {
			v = Val{K: k, T: 5}
		}
		c.Vals = append(c.Vals, v)
	}
	nb := rapid.IntRange(1, 4).Draw(t, "nb")
	for i := 0; i < nb; i++ {
		var b Val
		if rapid.Bool().Draw(t, "fromvals") {
			b = c.Vals[rapid.IntRange(0, len(c.Vals)-1).Draw(t, "bi")]
		} else {
			b = gen.Draw(t, "b")
		}
		if b.K == "nil" || !finite(b) || !storable(b) {
			b = Val{K: k, T: 5}
		}
		if k == "int" && (b.I > math.MaxInt32 || b.I < math.MinInt32) {
			// GraphQL Int literals are 32-bit: the bound is clamped, the stored values stay 64-bit
			if b.I > 0 {
				b.I = math.MaxInt32
			} else {
				b.I = math.MinInt32
			}
		}
		c.Bounds = append(c.Bounds, b)
	}
	return c
}

type e2eNode struct {
	n   *hx.Node
	ids []string
}

func bootE2E(c E2ECase, indexed bool) (*e2eNode, *hx.Failure) {
	n := hx.MustMemNode()
	dir := ""
	if indexed {
		dir = "@index"
		if c.Desc {
			dir = "@index(direction: DESC)"
		}
	}
	sdl := fmt.Sprintf("type T { v: %s %s\n k: Int\n g: Int }", gqlType(c.Kind), dir)
	if c.Composite {
		ix := ""
		if indexed {
			d := "ASC"
			if c.Desc {
				d = "DESC"
			}
			ix = fmt.Sprintf(`@index(includes: [{field: "g"}, {field: "v", direction: %s}])`, d)
		}
		sdl = fmt.Sprintf("type T %s { v: %s\n k: Int\n g: Int }", ix, gqlType(c.Kind))
	}
	if _, err := n.DB.AddSchema(n.Ctx, sdl); err != nil {
		n.Close()
		hx.Harnessf("schema rejected: %v", err)
	}
	col, err := n.DB.GetCollectionByName(n.Ctx, "T")
	if err != nil {
		panic(err)
	}
	e := &e2eNode{n: n}
	for i, v := range c.Vals {
		js := fmt.Sprintf(`{"k": %d, "g": %d, "v": %s}`, i, i%2, jsonLit(v))
		doc, err := client.NewDocFromJSON([]byte(js), col.Definition())
		if err != nil {
			n.Close()
			hx.Harnessf("generator produced a document the input path rejects: %s: %v", js, err)
		}
		if err := col.Create(n.Ctx, doc); err != nil {
			n.Close()
			return nil, hx.Failf("C17/e2e/create-failed", "create of %s failed (indexed=%v): %v", js, indexed, err)
		}
		e.ids = append(e.ids, doc.ID().String())
	}
	return e, nil
}

func holds(op string, w int) bool {
	switch op {
	case "_gt":
		return w > 0
	case "_ge":
		return w >= 0
	case "_lt":
		return w < 0
	case "_le":
		return w <= 0
	case "_eq":
		return w == 0
	case "_ne":
		return w != 0
	}
	panic(op)
}

func ks(rows []map[string]any) []int {
	out := []int{}
	for _, r := range rows {
		n, _ := r["k"].(json.Number)
		i, _ := n.Int64()
		out = append(out, int(i))
	}
	return out
}

func runE2E(c E2ECase) *hx.Failure {
	idx, f := bootE2E(c, true)
	if f != nil {
		return f
	}
	defer idx.n.Close()
	twin, f := bootE2E(c, false)
	if f != nil {
		return f
	}
	defer twin.n.Close()

	for bi, b := range c.Bounds {
		for _, op := range []string{"_gt", "_ge", "_lt", "_le", "_eq", "_ne"} {
			q := fmt.Sprintf(`query { T(filter: {v: {%s: %s}}) { k v } }`, op, jsonLit(b))
			g := -1
			if c.Composite {
				g = bi % 2
				q = fmt.Sprintf(`query { T(filter: {g: {_eq: %d}, v: {%s: %s}}) { k v } }`, g, op, jsonLit(b))
			}
			ri, rt := idx.n.Exec(q), twin.n.Exec(q)
			if ri.Panic != "" {
				return hx.Failf("C17/e2e/panic", "%s panicked on the indexed node: %s", q, ri.Panic)
			}
			if !ri.OK() || !rt.OK() {
				if ri.OK() != rt.OK() {
					return hx.Failf("C17/e2e/error-differs", "%s: indexed errors=%v twin errors=%v", q, ri.Errors, rt.Errors)
				}
				continue
			}
			// the order of the values themselves decides non-null rows
			want := []int{}
			for i, v := range c.Vals {
				if v.K != "nil" && holds(op, cmp(v, b)) && (g < 0 || i%2 == g) {
					want = append(want, i)
				}
			}
			gotAll := ks(ri.Rows("T"))
			got := []int{}
			for _, k := range gotAll {
				if c.Vals[k].K != "nil" {
					got = append(got, k)
				}
			}
			sort.Ints(got)
			if fmt.Sprint(got) != fmt.Sprint(want) {
				return hx.Failf("C17/e2e/range/"+c.Kind, "desc=%v %s: index-served filter returned non-null rows %v, value order says %v; values=%s", c.Desc, q, got, want, showAll(c.Vals))
			}
			ti := ks(rt.Rows("T"))
			sort.Ints(gotAll)
			sort.Ints(ti)
			if fmt.Sprint(gotAll) != fmt.Sprint(ti) {
				return hx.Failf("C17/e2e/range-vs-twin/"+c.Kind, "desc=%v %s: indexed rows %v, unindexed twin rows %v; values=%s", c.Desc, q, gotAll, ti, showAll(c.Vals))
			}
		}
	}
	for _, dir := range []string{"ASC", "DESC"} {
		q := fmt.Sprintf(`query { T(order: {v: %s}) { k v } }`, dir)
		ri, rt := idx.n.Exec(q), twin.n.Exec(q)
		if ri.Panic != "" {
			return hx.Failf("C17/e2e/panic", "%s panicked on the indexed node: %s", q, ri.Panic)
		}
		if !ri.OK() || !rt.OK() {
			return hx.Failf("C17/e2e/order-error", "%s: indexed errors=%v twin errors=%v", q, ri.Errors, rt.Errors)
		}
		got := ks(ri.Rows("T"))
		if len(got) != len(c.Vals) {
			return hx.Failf("C17/e2e/order/"+c.Kind, "desc-index=%v %s returned %d rows of %d: %v; values=%s", c.Desc, q, len(got), len(c.Vals), got, showAll(c.Vals))
		}
		seen := map[int]bool{}
		for i, k := range got {
			if seen[k] {
				return hx.Failf("C17/e2e/order/"+c.Kind, "%s returned row %d twice", q, k)
			}
			seen[k] = true
			if i == 0 {
				continue
			}
			w := cmp(c.Vals[got[i-1]], c.Vals[k])
			if dir == "DESC" {
				w = -w
			}
			if w > 0 {
				return hx.Failf("C17/e2e/order/"+c.Kind, "desc-index=%v %s: rows %v are not in value order (%s before %s); values=%s", c.Desc, q, got, show(c.Vals[got[i-1]]), show(c.Vals[k]), showAll(c.Vals))
			}
		}
		// the sort-key sequence equals the twin's
		tw := ks(rt.Rows("T"))
		for i := range got {
			if i < len(tw) && cmp(c.Vals[got[i]], c.Vals[tw[i]]) != 0 {
				return hx.Failf("C17/e2e/order-vs-twin/"+c.Kind, "%s: indexed key sequence %v differs from twin %v; values=%s", q, got, tw, showAll(c.Vals))
			}
		}
		// read back through the query equals what was written
		for i, r := range ri.Rows("T") {
			v := c.Vals[got[i]]
			if f := sameJSON(v, r["v"]); f != nil {
				return f
			}
		}
	}
	return nil
}

func sameJSON(v Val, got any) *hx.Failure {
	ok := false
	switch v.K {
	case "nil":
		ok = got == nil
	case "int":
		n, is := got.(json.Number)
		ok = is && n.String() == strconv.FormatInt(v.I, 10)
	case "f64":
		n, is := got.(json.Number)
		if is {
			x, err := strconv.ParseFloat(n.String(), 64)
			ok = err == nil && x == v.f64()
		}
	case "f32":
		n, is := got.(json.Number)
		if is {
			x, err := strconv.ParseFloat(n.String(), 32)
			ok = err == nil && float32(x) == v.f32()
		}
	case "str":
		s, is := got.(string)
		ok = is && s == string(v.S)
	case "time":
		s, is := got.(string)
		if is {
			x, err := time.Parse(time.RFC3339Nano, s)
			ok = err == nil && x.Equal(v.tm())
		}
	}
	if !ok {
		return hx.Failf("C17/e2e/readback/"+v.K, "wrote %s, query on the indexed node returned %v", show(v), got)
	}
	return nil
}

func TestC17E2E(t *testing.T) {
	rapid.Check(t, func(t *rapid.T) {
		e := drawE2E(t)
		c := Case{E2E: &e}
		f := hx.Guard("C17/e2e", func() *hx.Failure { return runCase(c) })
		// non-trivial: two stored values adjacent in value order, or special bytes, or extreme values
		nt := false
		for i := range e.Vals {
			for j := range e.Vals {
				if i != j && e.Vals[i].K != "nil" && e.Vals[j].K != "nil" && interesting(e.Vals[i], e.Vals[j]) {
					nt = true
				}
			}
		}
		labels := []string{"e2e:" + e.Kind}
		if e.Composite {
			labels = append(labels, "e2e-composite-index(condition-on-non-leading-field)")
		}
		if e.Desc {
			labels = append(labels, "e2e-desc-index")
		}
		rec.Eval(c, nt, labels...)
		rec.Check(t, c, f)
	})
}
