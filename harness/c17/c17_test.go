package c17

import (
	"bytes"
	"encoding/json"
	"fmt"
	"math"
	"testing"
	"time"

	"pgregory.net/rapid"

	"github.com/sourcenetwork/defradb/client"
	"github.com/sourcenetwork/defradb/internal/encoding"
	"github.com/sourcenetwork/defradb/internal/keys"
	"github.com/sourcenetwork/defradb/verifharness/hx"
)

func TestMain(m *testing.M) { hx.Main(m) }

var rec = hx.NewRecorder("C17",
	"pairs (a,b) of one kind (int, float32, float64, bool, string, time, JSON scalar, nil) drawn from edge pools, "+
		"random bit patterns and neighbours, with a descending flag, plus composite tuples of 2-3 fields through the index key codec; "+
		"a case is non-trivial when a!=b and the two differ only in their last byte/ulp/nanosecond, or contain 0x00/0xFF/'/' bytes, or are extreme values; "+
		"distinct = distinct (kind, a, b, descending) or tuple pair",
	"+0 and -0 are equal values and encode identically (documented in float.go), round trip is checked with ==",
	"NaN is not storable through the JSON input path and is not ordered; only checked not to panic",
	"JSON values of different JSON types have no specified mutual order and are not compared",
	"nil is smallest ascending (null first) and largest descending",
)

// Val is a serialisable field value.
type Val struct {
	K string `json:"k"` // int f32 f64 bool str time jnum jstr jbool nil
	I int64  `json:"i,omitempty"`
	F uint64 `json:"f,omitempty"` // float bits
	S []byte `json:"s,omitempty"`
	B bool   `json:"b,omitempty"`
	T int64  `json:"t,omitempty"` // unix seconds
	N int64  `json:"n,omitempty"` // nanos
}

func (v Val) f64() float64 { return math.Float64frombits(v.F) }
func (v Val) f32() float32 { return math.Float32frombits(uint32(v.F)) }
func (v Val) tm() time.Time { return time.Unix(v.T, v.N).UTC() }

func (v Val) normal() client.NormalValue {
	switch v.K {
	case "int":
		return client.NewNormalInt(v.I)
	case "f32":
		return client.NewNormalFloat32(v.f32())
	case "f64":
		return client.NewNormalFloat64(v.f64())
	case "bool":
		return client.NewNormalBool(v.B)
	case "str":
		return client.NewNormalString(string(v.S))
	case "time":
		return client.NewNormalTime(v.tm())
	case "jnum":
		j, err := client.NewJSON(v.f64())
		if err != nil {
			panic(err)
		}
		return client.NewNormalJSON(j)
	case "jstr":
		j, err := client.NewJSON(string(v.S))
		if err != nil {
			panic(err)
		}
		return client.NewNormalJSON(j)
	case "jbool":
		j, err := client.NewJSON(v.B)
		if err != nil {
			panic(err)
		}
		return client.NewNormalJSON(j)
	case "nil":
		n, err := client.NewNormalNil(client.FieldKind_NILLABLE_INT)
		if err != nil {
			panic(err)
		}
		return n
	}
	panic("kind " + v.K)
}

func (v Val) kind() client.FieldKind {
	switch v.K {
	case "int", "nil":
		return client.FieldKind_NILLABLE_INT
	case "f32":
		return client.FieldKind_NILLABLE_FLOAT32
	case "f64":
		return client.FieldKind_NILLABLE_FLOAT64
	case "bool":
		return client.FieldKind_NILLABLE_BOOL
	case "str":
		return client.FieldKind_NILLABLE_STRING
	case "time":
		return client.FieldKind_NILLABLE_DATETIME
	default:
		return client.FieldKind_NILLABLE_JSON
	}
}

func sign(x int) int {
	if x < 0 {
		return -1
	}
	if x > 0 {
		return 1
	}
	return 0
}

func cmpF(a, b float64) int {
	if a < b {
		return -1
	}
	if a > b {
		return 1
	}
	return 0
}

// cmp is the order of the values themselves. Only called for same-kind values or nil.
func cmp(a, b Val) int {
	if a.K == "nil" || b.K == "nil" {
		if a.K == b.K {
			return 0
		}
		if a.K == "nil" {
			return -1
		}
		return 1
	}
	switch a.K {
	case "int":
		if a.I < b.I {
			return -1
		} else if a.I > b.I {
			return 1
		}
		return 0
	case "f32":
		return cmpF(float64(a.f32()), float64(b.f32()))
	case "f64", "jnum":
		return cmpF(a.f64(), b.f64())
	case "bool", "jbool":
		if a.B == b.B {
			return 0
		}
		if !a.B {
			return -1
		}
		return 1
	case "str", "jstr":
		return bytes.Compare(a.S, b.S)
	case "time":
		return a.tm().Compare(b.tm())
	}
	panic("cmp kind")
}

func isNaN(v Val) bool {
	switch v.K {
	case "f64", "jnum":
		return math.IsNaN(v.f64())
	case "f32":
		return v.f32() != v.f32()
	}
	return false
}

var intEdges = []int64{0, 1, -1, 2, -2, 108, 109, 110, -108, -109, 127, 128, -128, -129, 255, 256, -255, -256, 65535, 65536, -65536,
	1<<24 - 1, 1 << 24, 1<<31 - 1, 1 << 31, -(1 << 31), -(1 << 31) - 1, 1<<32 - 1, 1 << 32, 1<<40 - 1, 1 << 40, 1<<48 - 1, 1 << 48,
	1<<53 - 1, 1 << 53, 1<<53 + 1, -(1 << 53), -(1<<53 + 1), 1<<56 - 1, 1 << 56, -(1 << 56), math.MaxInt64, math.MaxInt64 - 1, math.MinInt64, math.MinInt64 + 1}

var f64Edges = []float64{0, math.Copysign(0, -1), 1, -1, math.SmallestNonzeroFloat64, -math.SmallestNonzeroFloat64,
	math.MaxFloat64, -math.MaxFloat64, math.Inf(1), math.Inf(-1), 0.1, -0.1, 1e-310, -1e-310, math.Nextafter(1, 2), math.Nextafter(1, 0),
	math.Nextafter(-1, 0), math.Nextafter(-1, -2), 2.2250738585072014e-308, -2.2250738585072014e-308, 1 << 53, -(1 << 53), 0.5, -0.5, 255, 256, -255, -256}

var f32Edges = []float32{0, float32(math.Copysign(0, -1)), 1, -1, math.SmallestNonzeroFloat32, -math.SmallestNonzeroFloat32,
	math.MaxFloat32, -math.MaxFloat32, float32(math.Inf(1)), float32(math.Inf(-1)), 0.1, -0.1, 1e-40, -1e-40,
	math.Nextafter32(1, 2), math.Nextafter32(1, 0), math.Nextafter32(-1, 0), math.Nextafter32(-1, -2), 1.17549435e-38, -1.17549435e-38}

var strEdges = [][]byte{{}, []byte("a"), []byte("a\x00"), []byte("a\x00b"), []byte("a\x00\x00"), []byte("a\x00\x01"), []byte("a\x00\xff"), []byte("a\x01"),
	{0x00}, {0x00, 0x00}, {0x00, 0x01}, {0x00, 0xff}, {0x01}, {0xff}, {0xff, 0x00}, {0xff, 0xff}, {0xfe}, []byte("a/b"), []byte("/"), []byte("a/"), []byte("%"), []byte("_"),
	[]byte("é"), []byte("日本"), []byte("ab"), []byte("b"), []byte("aa"), bytes.Repeat([]byte("x"), 300), append(bytes.Repeat([]byte("x"), 300), 0)}

var timeEdges = [][2]int64{{0, 0}, {0, 1}, {0, 999999999}, {1, 0}, {-1, 0}, {-1, 999999999}, {-1, 1}, {1700000000, 123456789}, {1700000000, 123456790},
	{253402300799, 999999999}, {-62135596800, 0}, {-62135596800, 1}, {-2208988800, 500}, {1 << 31, 0}, {1<<31 - 1, 999999999}, {-(1 << 31), 0}, {1 << 32, 5}}

func genInt() *rapid.Generator[int64] {
	return rapid.OneOf(
		rapid.SampledFrom(intEdges),
		rapid.Int64(),
		rapid.Int64Range(-300, 300),
		rapid.Custom(func(t *rapid.T) int64 {
			// around a power of two / byte-length boundary
			sh := rapid.IntRange(0, 62).Draw(t, "sh")
			d := rapid.Int64Range(-2, 2).Draw(t, "d")
			v := int64(1)<<sh + d
			if rapid.Bool().Draw(t, "neg") {
				v = -v
			}
			return v
		}),
	)
}

func genF64() *rapid.Generator[float64] {
	return rapid.OneOf(
		rapid.SampledFrom(f64Edges),
		rapid.Custom(func(t *rapid.T) float64 {
			f := math.Float64frombits(rapid.Uint64().Draw(t, "bits"))
			if math.IsNaN(f) {
				return 0
			}
			return f
		}),
		rapid.Float64Range(-1000, 1000),
	)
}

func genF32() *rapid.Generator[float32] {
	return rapid.OneOf(
		rapid.SampledFrom(f32Edges),
		rapid.Custom(func(t *rapid.T) float32 {
			f := math.Float32frombits(rapid.Uint32().Draw(t, "bits"))
			if f != f {
				return 0
			}
			return f
		}),
		rapid.Float32Range(-1000, 1000),
	)
}

func genBytes() *rapid.Generator[[]byte] {
	return rapid.OneOf(
		rapid.SampledFrom(strEdges),
		rapid.SliceOfN(rapid.SampledFrom([]byte{0x00, 0x01, 0xfe, 0xff, '/', 'a', 'b'}), 0, 6),
		rapid.SliceOfN(rapid.Byte(), 0, 12),
	)
}

func genTime() *rapid.Generator[[2]int64] {
	return rapid.OneOf(
		rapid.SampledFrom(timeEdges),
		rapid.Custom(func(t *rapid.T) [2]int64 {
			return [2]int64{rapid.Int64Range(-62135596800, 253402300799).Draw(t, "sec"), rapid.Int64Range(0, 999999999).Draw(t, "ns")}
		}),
		rapid.Custom(func(t *rapid.T) [2]int64 {
			return [2]int64{rapid.Int64Range(-3, 3).Draw(t, "sec"), rapid.SampledFrom([]int64{0, 1, 2, 999999998, 999999999, 500000000}).Draw(t, "ns")}
		}),
	)
}

var scalarKinds = []string{"int", "f32", "f64", "bool", "str", "time", "jnum", "jstr", "jbool"}

func genValOf(k string) *rapid.Generator[Val] {
	return rapid.Custom(func(t *rapid.T) Val {
		switch k {
		case "int":
			return Val{K: k, I: genInt().Draw(t, "i")}
		case "f32":
			return Val{K: k, F: uint64(math.Float32bits(genF32().Draw(t, "f")))}
		case "f64", "jnum":
			return Val{K: k, F: math.Float64bits(genF64().Draw(t, "f"))}
		case "bool", "jbool":
			return Val{K: k, B: rapid.Bool().Draw(t, "b")}
		case "str":
			return Val{K: k, S: genBytes().Draw(t, "s")}
		case "jstr":
			// JSON strings are valid UTF-8 text
			return Val{K: k, S: []byte(rapid.OneOf(rapid.SampledFrom([]string{"", "a", "a\x00", "a\x00b", "a/b", "/", "é", "ab", "b"}), rapid.StringN(0, 8, -1)).Draw(t, "s"))}
		case "time":
			x := genTime().Draw(t, "t")
			return Val{K: k, T: x[0], N: x[1]}
		}
		return Val{K: "nil"}
	})
}

// neighbour returns a value adjacent to v in the value order (next or previous).
func neighbour(t *rapid.T, v Val) Val {
	up := rapid.Bool().Draw(t, "up")
	w := v
	switch v.K {
	case "int":
		if up && v.I != math.MaxInt64 {
			w.I++
		} else if v.I != math.MinInt64 {
			w.I--
		}
	case "f64", "jnum":
		d := math.Inf(-1)
		if up {
			d = math.Inf(1)
		}
		w.F = math.Float64bits(math.Nextafter(v.f64(), d))
	case "f32":
		d := float32(math.Inf(-1))
		if up {
			d = float32(math.Inf(1))
		}
		w.F = uint64(math.Float32bits(math.Nextafter32(v.f32(), d)))
	case "str", "jstr":
		if v.K == "jstr" {
			w.S = append(append([]byte{}, v.S...), 'a')
			break
		}
		switch rapid.IntRange(0, 2).Draw(t, "how") {
		case 0:
			w.S = append(append([]byte{}, v.S...), 0x00)
		case 1:
			w.S = append(append([]byte{}, v.S...), 0xff)
		default:
			if len(v.S) > 0 {
				w.S = append([]byte{}, v.S...)
				w.S[len(w.S)-1]++
			} else {
				w.S = []byte{0}
			}
		}
	case "time":
		if up {
			w.N++
			if w.N == 1000000000 {
				w.N = 0
				w.T++
			}
		} else {
			w.N--
			if w.N < 0 {
				w.N = 999999999
				w.T--
			}
		}
	case "bool", "jbool":
		w.B = !v.B
	}
	return w
}

func enc(v Val, desc bool) []byte {
	return encoding.EncodeFieldValue(nil, v.normal(), desc)
}

func interesting(a, b Val) bool {
	if cmp(a, b) == 0 {
		return false
	}
	hasSpecial := func(s []byte) bool {
		return bytes.ContainsAny(s, "\x00\xff/")
	}
	switch a.K {
	case "str", "jstr":
		return hasSpecial(a.S) || hasSpecial(b.S) || (len(a.S) > 0 && len(b.S) > 0 && bytes.Equal(a.S[:len(a.S)-1], b.S[:len(b.S)-1])) || bytes.HasPrefix(a.S, b.S) || bytes.HasPrefix(b.S, a.S)
	case "int":
		d := a.I - b.I
		return d == 1 || d == -1 || a.I == math.MaxInt64 || a.I == math.MinInt64 || b.I == math.MaxInt64 || b.I == math.MinInt64 || (a.I < 0) != (b.I < 0)
	case "f64", "jnum":
		return math.Nextafter(a.f64(), b.f64()) == b.f64() || math.IsInf(a.f64(), 0) || math.IsInf(b.f64(), 0) || math.Signbit(a.f64()) != math.Signbit(b.f64()) || math.Abs(a.f64()) < 2.3e-308
	case "f32":
		return math.Nextafter32(a.f32(), b.f32()) == b.f32() || math.Signbit(float64(a.f32())) != math.Signbit(float64(b.f32())) || math.IsInf(float64(a.f32()), 0) || math.IsInf(float64(b.f32()), 0)
	case "time":
		return a.T == b.T || (a.T-b.T == 1 || b.T-a.T == 1) || (a.T < 0) != (b.T < 0)
	case "bool", "jbool", "nil":
		return true
	}
	return false
}

// checkPair is the pure oracle for one pair.
func checkPair(a, b Val, desc bool) *hx.Failure {
	ea, eb := enc(a, desc), enc(b, desc)
	want := cmp(a, b)
	if desc {
		want = -want
	}
	got := sign(bytes.Compare(ea, eb))
	if got != want {
		return hx.Failf("C17/order/"+a.K, "kind=%s desc=%v a=%s b=%s: value order %d but key order %d (enc %x vs %x)", a.K, desc, show(a), show(b), want, got, ea, eb)
	}
	// inside a composite key every field is followed by '/': the order must survive that
	if got2 := sign(bytes.Compare(append(append([]byte{}, ea...), '/'), append(append([]byte{}, eb...), '/'))); got2 != want {
		return hx.Failf("C17/prefix/"+a.K, "kind=%s desc=%v a=%s b=%s: value order %d but order of keys followed by '/' is %d (enc %x vs %x)", a.K, desc, show(a), show(b), want, got2, ea, eb)
	}
	for _, p := range []struct {
		v Val
		e []byte
	}{{a, ea}, {b, eb}} {
		if f := roundTrip(p.v, p.e, desc); f != nil {
			return f
		}
	}
	return nil
}

func show(v Val) string {
	switch v.K {
	case "int":
		return fmt.Sprint(v.I)
	case "f32":
		return fmt.Sprintf("%g(%#x)", v.f32(), uint32(v.F))
	case "f64", "jnum":
		return fmt.Sprintf("%g(%#x)", v.f64(), v.F)
	case "bool", "jbool":
		return fmt.Sprint(v.B)
	case "str", "jstr":
		return fmt.Sprintf("%q", v.S)
	case "time":
		return fmt.Sprintf("%d.%09d", v.T, v.N)
	}
	return "nil"
}

func roundTrip(v Val, e []byte, desc bool) *hx.Failure {
	rest, got, err := encoding.DecodeFieldValue(append(append([]byte{}, e...), '/', 'x'), desc, v.kind())
	if err != nil {
		return hx.Failf("C17/roundtrip/"+v.K, "decode(encode(%s)) desc=%v failed: %v (enc %x)", show(v), desc, err, e)
	}
	if !bytes.Equal(rest, []byte("/x")) {
		return hx.Failf("C17/roundtrip/"+v.K, "decode(encode(%s)) desc=%v consumed wrong length: rest=%x (enc %x)", show(v), desc, rest, e)
	}
	ok := false
	switch v.K {
	case "int":
		x, is := got.Int()
		ok = is && x == v.I
	case "f32":
		x, is := got.Float32()
		ok = is && x == v.f32()
	case "f64":
		x, is := got.Float64()
		ok = is && x == v.f64()
	case "bool":
		x, is := got.Bool()
		ok = is && x == v.B
	case "str":
		x, is := got.String()
		ok = is && x == string(v.S)
	case "time":
		x, is := got.Time()
		ok = is && x.Equal(v.tm()) && x.Nanosecond() == v.tm().Nanosecond()
	case "jnum":
		j, is := got.JSON()
		if is {
			x, isn := j.Number()
			ok = isn && x == v.f64()
		}
	case "jstr":
		j, is := got.JSON()
		if is {
			x, iss := j.String()
			ok = iss && x == string(v.S)
		}
	case "jbool":
		j, is := got.JSON()
		if is {
			x, isb := j.Bool()
			ok = isb && x == v.B
		}
	case "nil":
		ok = got.IsNil()
	}
	if !ok {
		return hx.Failf("C17/roundtrip/"+v.K, "decode(encode(%s)) desc=%v returned %v (enc %x)", show(v), desc, got.Unwrap(), e)
	}
	return nil
}

// PairCase is the replayable case of the pair property.
type PairCase struct {
	A    Val  `json:"a"`
	B    Val  `json:"b"`
	Desc bool `json:"desc"`
}

func drawPair(t *rapid.T) PairCase {
	k := rapid.SampledFrom(scalarKinds).Draw(t, "kind")
	a := genValOf(k).Draw(t, "a")
	var b Val
	switch rapid.IntRange(0, 9).Draw(t, "bmode") {
	case 0, 1, 2:
		b = neighbour(t, a)
	case 3:
		b = Val{K: "nil"}
	default:
		b = genValOf(k).Draw(t, "b")
	}
	if rapid.IntRange(0, 19).Draw(t, "anil") == 0 {
		a = Val{K: "nil"}
	}
	return PairCase{A: a, B: b, Desc: rapid.Bool().Draw(t, "desc")}
}

func runPair(c PairCase) *hx.Failure {
	if isNaN(c.A) || isNaN(c.B) {
		_ = enc(c.A, c.Desc)
		_ = enc(c.B, c.Desc)
		return nil
	}
	if c.A.K != c.B.K && c.A.K != "nil" && c.B.K != "nil" {
		return nil
	}
	return checkPair(c.A, c.B, c.Desc)
}

// TupleCase is a pair of composite index keys.
type TupleCase struct {
	Kinds []string `json:"kinds"`
	Desc  []bool   `json:"desc"`
	A     []Val    `json:"a"`
	B     []Val    `json:"b"`
	DocA  string   `json:"doc_a"`
	DocB  string   `json:"doc_b"`
}

var tupleKinds = []string{"int", "f32", "f64", "bool", "str", "time"}

func drawTuple(t *rapid.T) TupleCase {
	n := rapid.IntRange(1, 3).Draw(t, "n")
	c := TupleCase{}
	for i := 0; i < n; i++ {
		k := rapid.SampledFrom(tupleKinds).Draw(t, "kind")
		c.Kinds = append(c.Kinds, k)
		c.Desc = append(c.Desc, rapid.Bool().Draw(t, "desc"))
		a := genValOf(k).Draw(t, "a")
		if rapid.IntRange(0, 9).Draw(t, "anil") == 0 {
			a = Val{K: "nil"}
		}
		var b Val
		switch rapid.IntRange(0, 5).Draw(t, "bmode") {
		case 0, 1:
			b = a // equal component so later ones decide
		case 2:
			if a.K == "nil" {
				b = genValOf(k).Draw(t, "b")
			} else {
				b = neighbour(t, a)
			}
		case 3:
			b = Val{K: "nil"}
		default:
			b = genValOf(k).Draw(t, "b")
		}
		c.A = append(c.A, a)
		c.B = append(c.B, b)
	}
	ids := []string{"bae-00000000-0000-0000-0000-000000000000", "bae-ffffffff-ffff-ffff-ffff-ffffffffffff", "bae-7fffffff-0000-4000-8000-000000000001"}
	c.DocA = rapid.SampledFrom(ids).Draw(t, "docA")
	c.DocB = rapid.SampledFrom(ids).Draw(t, "docB")
	return c
}

func kindOf(k string) client.FieldKind { return Val{K: k}.kind() }

func runTuple(c TupleCase) *hx.Failure {
	for i := range c.A {
		if isNaN(c.A[i]) || isNaN(c.B[i]) {
			return nil
		}
	}
	mk := func(vals []Val, doc string) keys.IndexDataStoreKey {
		fs := []keys.IndexedField{}
		for i, v := range vals {
			var nv client.NormalValue
			if v.K == "nil" {
				var err error
				nv, err = client.NewNormalNil(kindOf(c.Kinds[i]))
				if err != nil {
					panic(err)
				}
			} else {
				nv = v.normal()
			}
			fs = append(fs, keys.IndexedField{Value: nv, Descending: c.Desc[i]})
		}
		fs = append(fs, keys.IndexedField{Value: client.NewNormalString(doc)})
		return keys.NewIndexDataStoreKey(3, 7, fs)
	}
	ka, kb := mk(c.A, c.DocA), mk(c.B, c.DocB)
	ea, eb := keys.EncodeIndexDataStoreKey(&ka), keys.EncodeIndexDataStoreKey(&kb)
	want := 0
	for i := range c.A {
		w := cmp(c.A[i], c.B[i])
		if c.Desc[i] {
			w = -w
		}
		if w != 0 {
			want = w
			break
		}
	}
	if want == 0 {
		want = sign(bytes.Compare([]byte(c.DocA), []byte(c.DocB)))
	}
	got := sign(bytes.Compare(ea, eb))
	if got != want {
		return hx.Failf("C17/composite-order", "tuple order %d but key order %d: kinds=%v desc=%v a=%s b=%s (enc %x vs %x)", want, got, c.Kinds, c.Desc, showAll(c.A), showAll(c.B), ea, eb)
	}
	// round trip through the index key codec
	desc := client.IndexDescription{}
	defs := []client.FieldDefinition{}
	for i, k := range c.Kinds {
		desc.Fields = append(desc.Fields, client.IndexedFieldDescription{Name: fmt.Sprintf("f%d", i), Descending: c.Desc[i]})
		defs = append(defs, client.FieldDefinition{Name: fmt.Sprintf("f%d", i), Kind: kindOf(k)})
	}
	for _, p := range []struct {
		k    keys.IndexDataStoreKey
		e    []byte
		vals []Val
		doc  string
	}{{ka, ea, c.A, c.DocA}, {kb, eb, c.B, c.DocB}} {
		dec, err := keys.DecodeIndexDataStoreKey(p.e, &desc, defs)
		if err != nil {
			return hx.Failf("C17/composite-roundtrip", "decode of composite key failed: %v; kinds=%v desc=%v vals=%s (enc %x)", err, c.Kinds, c.Desc, showAll(p.vals), p.e)
		}
		if len(dec.Fields) != len(p.vals)+1 || dec.CollectionShortID != 3 || dec.IndexID != 7 {
			return hx.Failf("C17/composite-roundtrip", "decoded %d fields, want %d; kinds=%v vals=%s (enc %x)", len(dec.Fields), len(p.vals)+1, c.Kinds, showAll(p.vals), p.e)
		}
		for i, v := range p.vals {
			g := dec.Fields[i].Value
			if v.K == "nil" {
				if !g.IsNil() {
					return hx.Failf("C17/composite-roundtrip", "field %d: nil decoded as %v", i, g.Unwrap())
				}
				continue
			}
			re := encoding.EncodeFieldValue(nil, g, c.Desc[i])
			if !bytes.Equal(re, enc(v, c.Desc[i])) || g.IsNil() {
				return hx.Failf("C17/composite-roundtrip", "field %d (%s): wrote %s read back %v", i, v.K, show(v), g.Unwrap())
			}
			if f := sameValue(v, g); f != nil {
				return f
			}
		}
		if s, _ := dec.Fields[len(p.vals)].Value.String(); s != p.doc {
			if ns, ok := dec.Fields[len(p.vals)].Value.NillableString(); !ok || !ns.HasValue() || ns.Value() != p.doc {
				return hx.Failf("C17/composite-roundtrip", "docID read back as %v, want %s", dec.Fields[len(p.vals)].Value.Unwrap(), p.doc)
			}
		}
	}
	return nil
}

func sameValue(v Val, g client.NormalValue) *hx.Failure {
	ok := true
	switch v.K {
	case "int":
		x, is := g.Int()
		if !is {
			nx, isn := g.NillableInt()
			is, x = isn && nx.HasValue(), nx.Value()
		}
		ok = is && x == v.I
	case "f64":
		x, is := g.Float64()
		if !is {
			nx, isn := g.NillableFloat64()
			is, x = isn && nx.HasValue(), nx.Value()
		}
		ok = is && x == v.f64()
	case "f32":
		x, is := g.Float32()
		if !is {
			nx, isn := g.NillableFloat32()
			is, x = isn && nx.HasValue(), nx.Value()
		}
		ok = is && x == v.f32()
	case "str":
		x, is := g.String()
		if !is {
			nx, isn := g.NillableString()
			is, x = isn && nx.HasValue(), nx.Value()
		}
		ok = is && x == string(v.S)
	case "time":
		x, is := g.Time()
		if !is {
			nx, isn := g.NillableTime()
			is, x = isn && nx.HasValue(), nx.Value()
		}
		ok = is && x.Equal(v.tm())
	case "bool":
		x, is := g.Bool()
		if !is {
			nx, isn := g.NillableBool()
			is, x = isn && nx.HasValue(), nx.Value()
		}
		ok = is && x == v.B
	}
	if !ok {
		return hx.Failf("C17/composite-roundtrip", "wrote %s (%s) read back %v", show(v), v.K, g.Unwrap())
	}
	return nil
}

func showAll(vs []Val) string {
	s := "["
	for i, v := range vs {
		if i > 0 {
			s += " "
		}
		s += show(v)
	}
	return s + "]"
}

// Case wraps the two shapes for replay.
type Case struct {
	Pair  *PairCase  `json:"pair,omitempty"`
	Tuple *TupleCase `json:"tuple,omitempty"`
	E2E   *E2ECase   `json:"e2e,omitempty"`
}

func runCase(c Case) *hx.Failure {
	switch {
	case c.Pair != nil:
		return runPair(*c.Pair)
	case c.Tuple != nil:
		return runTuple(*c.Tuple)
	case c.E2E != nil:
		return runE2E(*c.E2E)
	}
	return nil
}

// exhaustive finite sub-domains, enumerated completely once per process.
func exhaustive() *hx.Failure {
	n := 0
	var pool []Val
	for _, i := range intEdges {
		pool = append(pool, Val{K: "int", I: i})
	}
	for i := int64(-300); i <= 300; i++ {
		pool = append(pool, Val{K: "int", I: i})
	}
	run := func(pool []Val) *hx.Failure {
		for _, a := range pool {
			for _, b := range pool {
				for _, d := range []bool{false, true} {
					n++
					if f := checkPair(a, b, d); f != nil {
						return f
					}
				}
			}
		}
		return nil
	}
	if f := run(pool); f != nil {
		return f
	}
	pool = nil
	for _, x := range f64Edges {
		pool = append(pool, Val{K: "f64", F: math.Float64bits(x)})
	}
	if f := run(pool); f != nil {
		return f
	}
	pool = nil
	for _, x := range f32Edges {
		pool = append(pool, Val{K: "f32", F: uint64(math.Float32bits(x))})
	}
	if f := run(pool); f != nil {
		return f
	}
	pool = nil
	for _, s := range strEdges {
		pool = append(pool, Val{K: "str", S: s})
	}
	for b := 0; b < 256; b++ {
		pool = append(pool, Val{K: "str", S: []byte{byte(b)}})
	}
	for _, x := range []byte{0, 1, '/', 0xfe, 0xff} {
		for _, y := range []byte{0, 1, '/', 0xfe, 0xff} {
			pool = append(pool, Val{K: "str", S: []byte{x, y}})
		}
	}
	if f := run(pool); f != nil {
		return f
	}
	pool = nil
	for _, x := range timeEdges {
		pool = append(pool, Val{K: "time", T: x[0], N: x[1]})
	}
	if f := run(pool); f != nil {
		return f
	}
	pool = []Val{{K: "bool"}, {K: "bool", B: true}, {K: "nil"}}
	if f := run(pool); f != nil {
		return f
	}
	rec.AddEvals(n)
	rec.Extra["exhaustive_edge_pool_pairs"] = n
	return nil
}

func TestC17(t *testing.T) {
	if hx.EnvInt("VERIF_SHARD", 0) == 0 {
		if f := exhaustive(); f != nil {
			rec.Check(t, Case{}, f)
		}
	}
	inner := 200
	rapid.Check(t, func(t *rapid.T) {
		// many cheap cases per rapid iteration would defeat shrinking; one case per iteration,
		// the case count is raised by the driver instead.
		_ = inner
		var c Case
		mode := rapid.IntRange(0, 9).Draw(t, "mode")
		switch {
		case mode < 6:
			p := drawPair(t)
			c.Pair = &p
		default:
			p := drawTuple(t)
			c.Tuple = &p
		}
		f := runCase(c)
		nontrivial := false
		labels := []string{}
		if c.Pair != nil {
			labels = append(labels, "pair:"+c.Pair.A.K)
			if (c.Pair.A.K == c.Pair.B.K || c.Pair.A.K == "nil" || c.Pair.B.K == "nil") && !isNaN(c.Pair.A) && !isNaN(c.Pair.B) {
				nontrivial = interesting(c.Pair.A, c.Pair.B) || c.Pair.A.K == "nil" != (c.Pair.B.K == "nil")
			}
			if c.Pair.Desc {
				labels = append(labels, "descending")
			}
		} else {
			labels = append(labels, fmt.Sprintf("tuple:%d", len(c.Tuple.A)))
			// non-trivial: decided by a component after the first, or by a neighbour
			for i := range c.Tuple.A {
				w := cmp(c.Tuple.A[i], c.Tuple.B[i])
				if w != 0 {
					nontrivial = i > 0 || interesting(c.Tuple.A[i], c.Tuple.B[i])
					if i > 0 {
						labels = append(labels, "tuple-decided-by-later-field")
					}
					break
				}
			}
		}
		rec.Eval(c, nontrivial, labels...)
		rec.Check(t, c, f)
	})
}

func TestReplay(t *testing.T) {
	raw := hx.ReplayCase(t)
	rec.SetReplaying()
	var c Case
	if err := json.Unmarshal(raw, &c); err != nil {
		t.Fatal(err)
	}
	rec.Check(t, c, runCase(c))
}

func TestRegress(t *testing.T) {
	hx.Regress(t, "testdata/regress", func(raw []byte) *hx.Failure {
		var c Case
		if err := json.Unmarshal(raw, &c); err != nil {
			return hx.Failf("C17/regress-file", "%v", err)
		}
		return runCase(c)
	}, rec)
}
