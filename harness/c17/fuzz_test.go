package c17

import (
	"bytes"
	"errors"
	"testing"

	"pgregory.net/rapid"

	"github.com/sourcenetwork/defradb/client"
	"github.com/sourcenetwork/defradb/internal/encoding"
	"github.com/sourcenetwork/defradb/verifharness/hx"
)

// FuzzC17Decode: whatever byte string decodes as a field value re-encodes to a key that decodes to the
// same value again (thorough tier, coverage-guided). Malformed keys are outside the property (index
// keys are only ever produced by the encoder): a decoder panic or error on them is ignored here - the
// first campaign found that DecodeFieldValue panics on the one-byte input 0x0b (JSON marker without a
// path), which is noted in DESIGN.md but is not a violation of C17.
func FuzzC17Decode(f *testing.F) {
	for _, v := range []Val{{K: "int", I: -1}, {K: "int", I: 1 << 40}, {K: "f64", F: 0x3ff0000000000000}, {K: "f32", F: 0x3f800000},
		{K: "str", S: []byte("a\x00b")}, {K: "str", S: []byte{0xff, 0x00}}, {K: "time", T: -1, N: 999999999}, {K: "bool", B: true}, {K: "nil"},
		{K: "jstr", S: []byte("x")}, {K: "jnum", F: 0xc000000000000000}, {K: "jbool"}} {
		f.Add(enc(v, false), false)
		f.Add(enc(v, true), true)
	}
	f.Add([]byte{}, false)
	f.Add([]byte{0x12, 0x00}, false)
	f.Add([]byte{0x12, 0x00, 0xff}, false)
	f.Add([]byte{0x13, 0xff, 0x00}, true)
	f.Fuzz(func(t *testing.T, data []byte, desc bool) {
		var (
			rest []byte
			v    client.NormalValue
			err  error
		)
		func() {
			defer func() {
				if recover() != nil {
					err = errMalformed
				}
			}()
			rest, v, err = encoding.DecodeFieldValue(data, desc, client.FieldKind_NILLABLE_STRING)
		}()
		if err != nil {
			return
		}
		if len(rest) > len(data) {
			t.Fatalf("decode returned a longer remainder than its input")
		}
		if v == nil {
			t.Fatalf("decode returned nil value and nil error for %x", data)
		}
		if _, isJSON := v.JSON(); isJSON {
			return // JSON values carry paths whose re-encoding needs the document context
		}
		re := encoding.EncodeFieldValue(nil, v, desc)
		if len(re) == 0 && !v.IsNil() {
			return
		}
		_, v2, err2 := encoding.DecodeFieldValue(re, desc, client.FieldKind_NILLABLE_STRING)
		if err2 != nil {
			t.Fatalf("value %v decoded from %x re-encodes to %x which does not decode: %v", v.Unwrap(), data, re, err2)
		}
		re2 := encoding.EncodeFieldValue(nil, v2, desc)
		if !bytes.Equal(re, re2) {
			t.Fatalf("re-encoding is not stable: %x vs %x (from %x)", re, re2, data)
		}
	})
}

// FuzzC17Pairs drives the pair/tuple property with the native fuzzer (all cores).
func FuzzC17Pairs(f *testing.F) {
	f.Fuzz(rapid.MakeFuzz(func(t *rapid.T) {
		var c Case
		if rapid.Bool().Draw(t, "tuple") {
			p := drawTuple(t)
			c.Tuple = &p
		} else {
			p := drawPair(t)
			c.Pair = &p
		}
		if fail := runCase(c); fail != nil {
			rec.Check(t, c, fail)
		}
	}))
}

var _ = hx.Failf

var errMalformed = errors.New("malformed key")
