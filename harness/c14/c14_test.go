// Package c14 checks property C14: a node restarted on its store is indistinguishable from one
// that never stopped.
//
// A case is a history of schema, index, document, schema-version, access-control and
// peer-configuration operations with restart points between them. Node R runs it on file-backed
// Badger (and file-backed local ACP / a fixed libp2p key where the mode has them) and is closed and
// reopened at every restart point; the twin T runs the same history in one process lifetime. After
// every operation both must return the same result, after every restart and at the end the logical
// dumps must be equal. In the core mode T's store also records a snapshot after every storage
// commit; a drawn subset of them is opened by a fresh node (crash points).
package c14

import (
	"encoding/json"
	"fmt"
	"sort"
	"testing"

	"pgregory.net/rapid"

	"github.com/sourcenetwork/defradb/verifharness/hx"
)

func TestMain(m *testing.M) { hx.Main(m) }

var rec = hx.NewRecorder("C14",
	"a case is a history of 5-30 operations (AddSchema with plain, related, indexed, branchable and permissioned types; "+
		"PatchSchema add-field with and without setAsDefault; SetActiveSchemaVersion; PatchCollection on IsActive; CreateIndex/DropIndex; "+
		"AddView (materialized or not) and RefreshViews; create/update/delete of documents; ACP policy, owners and relationships; "+
		"SetReplicator/DeleteReplicator, Add/RemoveP2PCollections, Add/RemoveP2PDocuments; core mode: commits of a third node delivered and merged) with restart points between operations and, "+
		"in the core mode, crash points at storage commits; non-trivial = at least one restart that follows an index or schema-version change "+
		"(p2p mode: or a peer-configuration change; acp mode: or an access-control change) and at least one later successful operation that "+
		"allocates an identifier (collection, field or index id) or, p2p/acp, changes that configuration again; distinct = distinct case JSON; "+
		"half of the cases run with the avoidance of known findings switched on",
	"the twin T (same history, one process lifetime, Badger in-memory) is the reference; node R uses Badger on files",
	"no counter fields (their commits carry random nonces), block signing off, no lens migrations (no wasm modules offline)",
	"crash points are storage-commit boundaries of T's store, opened on a logical copy (key/value snapshot), in cases without ACP and P2P",
	"peer ids are compared symbolically; replicator status and timestamps are not compared; replicator targets are live loopback peers that mirror the schema",
)

// Op is one step of a history. Integer parameters index into what exists at run time, modulo its size.
type Op struct {
	K string `json:"k"`
	// C collection, D document, F field, V value seed / version, N name, X extra; B, B2 flags.
	C  int  `json:"c,omitempty"`
	D  int  `json:"d,omitempty"`
	F  int  `json:"f,omitempty"`
	F2 int  `json:"f2,omitempty"`
	V  int  `json:"v,omitempty"`
	N  int  `json:"n,omitempty"`
	X  int  `json:"x,omitempty"`
	B  bool `json:"b,omitempty"`
	B2 bool `json:"b2,omitempty"`
	// Crash: open a fresh node on the store snapshot of the last storage commit of this operation (core mode).
	Crash bool `json:"crash,omitempty"`
	// Tx: 0 = the operation's own implicit transaction, 1 = inside an explicit transaction that is committed,
	// 2 = inside an explicit transaction that is discarded (addschema, patch, setactive, createindex, dropindex, create, update, delete).
	Tx int `json:"tx,omitempty"`
	// Fail (addschema): a further type that cannot be created is appended to the SDL, so the call fails
	// after the earlier types were processed and its implicit transaction is rolled back.
	// 1 = misspelled field in a type-level @index, 2 = two indexes with the same name.
	Fail int `json:"fail,omitempty"`
}

// rolledBack reports an operation built not to take effect.
func (o Op) rolledBack() bool { return o.Tx == 2 || o.Fail != 0 }

// Case is one history.
type Case struct {
	Mode string `json:"mode"` // core | acp | p2p
	Ops  []Op   `json:"ops"`
	// CrashAll opens every snapshot of every operation (thorough tier).
	CrashAll bool `json:"crash_all,omitempty"`
	// Avoid switches on the generator/runner measures that steer around known findings.
	Avoid bool `json:"avoid,omitempty"`
}

const (
	opAddSchema   = "addschema"
	opPatch       = "patch"
	opSetActive   = "setactive"
	opCreateIndex = "createindex"
	opDropIndex   = "dropindex"
	opAddView     = "addview"
	opRefreshView = "refreshviews"
	opPatchCol    = "patchcol"
	opCreate      = "create"
	opUpdate      = "update"
	opDelete      = "delete"
	opRestart     = "restart"
	// core mode: a commit of another node (create, re-create of a local document, update, delete) is delivered and merged
	opInbound = "inbound"
	// acp
	opAddRel = "addrel"
	opDelRel = "delrel"
	// p2p
	opSetRep    = "setrep"
	opDelRep    = "delrep"
	opAddP2PCol = "addp2pcol"
	opRemP2PCol = "remp2pcol"
	opAddP2PDoc = "addp2pdoc"
	opRemP2PDoc = "remp2pdoc"
	// create a document and make it a P2P document at once (each node does both before the other node starts)
	opCreateP2PDoc = "createp2pdoc"
)

type weighted struct {
	k string
	w int
}

func kindsOf(mode string) []weighted {
	// rapid's first, small draws pick the head of the list: the most useful kinds come first
	base := []weighted{
		{opCreate, 18}, {opRestart, 14}, {opCreateIndex, 12}, {opPatch, 10}, {opUpdate, 9}, {opSetActive, 7}, {opAddSchema, 6},
		{opDropIndex, 5}, {opDelete, 5}, {opPatchCol, 4}, {opAddView, 2}, {opRefreshView, 1},
	}
	switch mode {
	case "core":
		base = append(base[:3:3], append([]weighted{{opInbound, 12}}, base[3:]...)...)
	case "acp":
		base = append([]weighted{{opAddRel, 14}, {opDelRel, 5}}, base...)
	case "p2p":
		base = append([]weighted{{opSetRep, 14}, {opAddP2PDoc, 8}, {opAddP2PCol, 8}, {opCreateP2PDoc, 5}, {opDelRep, 7}, {opRemP2PCol, 4}, {opRemP2PDoc, 4}}, base...)
	}
	return base
}

func drawOp(t *rapid.T, mode string) Op {
	ks := kindsOf(mode)
	var pool []string
	for _, k := range ks {
		for i := 0; i < k.w; i++ {
			pool = append(pool, k.k)
		}
	}
	return drawOpOf(t, rapid.SampledFrom(pool).Draw(t, "kind"))
}

// drawOpOf draws the parameters of an operation of the given kind.
func drawOpOf(t *rapid.T, kind string) Op {
	o := Op{K: kind}
	small := rapid.IntRange(0, 7)
	switch o.K {
	case opAddSchema, opPatch, opCreateIndex:
		o.Tx = rapid.SampledFrom([]int{0, 0, 0, 0, 2, 1, 2, 0}).Draw(t, "tx")
	case opSetActive, opDropIndex, opCreate, opUpdate, opDelete:
		o.Tx = rapid.SampledFrom([]int{0, 0, 0, 0, 0, 0, 1, 2}).Draw(t, "tx")
	}
	if o.K == opAddSchema && o.Tx == 0 {
		o.Fail = rapid.SampledFrom([]int{0, 0, 0, 1, 2}).Draw(t, "failOnLaterType")
	}
	switch o.K {
	case opAddSchema:
		o.N = rapid.IntRange(0, numTemplates-1).Draw(t, "template")
		o.F = rapid.IntRange(1, 255).Draw(t, "fields")
		o.X = rapid.SampledFrom([]int{0, 0, 1, 2, 0, 4, 3, 7}).Draw(t, "sdlIndexes")
		o.B = rapid.IntRange(0, 3).Draw(t, "branchable") == 0
		o.B2 = rapid.Bool().Draw(t, "policy")
	case opPatch:
		o.C = small.Draw(t, "col")
		o.F = rapid.IntRange(0, len(patchPool)-1).Draw(t, "field")
		o.B = rapid.IntRange(0, 3).Draw(t, "setDefault") != 0
	case opSetActive:
		o.C = small.Draw(t, "col")
		o.V = small.Draw(t, "version")
		// in a third of the cases two switches inside one explicit transaction (see opSetActive)
		if rapid.IntRange(0, 2).Draw(t, "twoSwitches") == 0 {
			o.B = true
			o.X = small.Draw(t, "version2")
			o.Tx = rapid.SampledFrom([]int{1, 1, 1, 2}).Draw(t, "tx2")
		}
	case opCreateIndex:
		o.C = small.Draw(t, "col")
		o.F = small.Draw(t, "field")
		o.F2 = rapid.IntRange(-4, 7).Draw(t, "field2")
		o.N = rapid.IntRange(0, 3).Draw(t, "name")
		o.B = rapid.IntRange(0, 3).Draw(t, "unique") == 0
		o.B2 = rapid.Bool().Draw(t, "desc")
	case opDropIndex:
		o.C = small.Draw(t, "col")
		o.X = small.Draw(t, "index")
	case opAddView:
		o.C = small.Draw(t, "col")
		o.N = rapid.IntRange(0, 1).Draw(t, "name")
		o.B = rapid.Bool().Draw(t, "materialized")
	case opPatchCol:
		o.C = small.Draw(t, "col")
		o.V = small.Draw(t, "version")
		o.B = rapid.Bool().Draw(t, "active")
	case opCreate, opCreateP2PDoc:
		o.C = small.Draw(t, "col")
		o.V = rapid.IntRange(0, 255).Draw(t, "seed")
		o.D = small.Draw(t, "related")
		o.X = rapid.IntRange(0, 2).Draw(t, "owner")
	case opUpdate:
		o.C = small.Draw(t, "col")
		o.D = small.Draw(t, "doc")
		o.F = small.Draw(t, "field")
		o.V = rapid.IntRange(0, 40).Draw(t, "seed")
		o.X = rapid.IntRange(0, 2).Draw(t, "actor")
	case opDelete:
		o.C = small.Draw(t, "col")
		o.D = small.Draw(t, "doc")
		o.X = rapid.IntRange(0, 2).Draw(t, "actor")
	case opInbound:
		o.C = small.Draw(t, "col")
		o.X = rapid.IntRange(0, 5).Draw(t, "what")
		o.V = rapid.IntRange(0, 255).Draw(t, "seed")
		o.D = small.Draw(t, "doc")
		o.F = small.Draw(t, "field")
	case opAddRel, opDelRel:
		o.C = small.Draw(t, "col")
		o.D = small.Draw(t, "doc")
		o.N = rapid.IntRange(0, 2).Draw(t, "relation")
		o.X = rapid.IntRange(0, 1).Draw(t, "target")
		o.B = rapid.IntRange(0, 4).Draw(t, "byOther") == 0
	case opSetRep, opDelRep:
		o.X = rapid.IntRange(0, 1).Draw(t, "target")
		o.V = rapid.IntRange(0, 7).Draw(t, "colmask") // 0 = all collections
	case opAddP2PCol, opRemP2PCol:
		o.C = small.Draw(t, "col")
	case opAddP2PDoc, opRemP2PDoc:
		o.C = small.Draw(t, "col")
		o.D = small.Draw(t, "doc")
	}
	return o
}

func drawCase(t *rapid.T, mode string) Case {
	c := Case{Mode: mode}
	if mode == "" {
		c.Mode = rapid.SampledFrom([]string{"core", "core", "core", "acp"}).Draw(t, "mode")
	}
	c.Avoid = rapid.Bool().Draw(t, "avoidKnown")
	n := rapid.IntRange(5, 30).Draw(t, "n")
	// every history starts with a schema so that the rest has something to act on
	first := drawOp(t, c.Mode)
	for first.K != opAddSchema {
		first = Op{K: opAddSchema, N: rapid.IntRange(0, numTemplates-1).Draw(t, "template0"), F: rapid.IntRange(1, 255).Draw(t, "fields0"),
			X: rapid.SampledFrom([]int{0, 1, 2, 4, 3}).Draw(t, "sdlIndexes0"), B2: true}
	}
	// An operation built to be rolled back is usually followed, after 0-2 other operations, by the same
	// operation in its effective form (the user fixes the SDL and resubmits, or repeats the work of a discarded transaction).
	type redo struct {
		o     Op
		after int
	}
	var pending []redo
	push := func(o Op) {
		c.Ops = append(c.Ops, o)
		if o.rolledBack() && rapid.IntRange(0, 4).Draw(t, "redo") != 0 {
			r := o
			r.Fail, r.Crash = 0, false
			r.Tx = rapid.SampledFrom([]int{0, 0, 1}).Draw(t, "redoTx")
			pending = append(pending, redo{o: r, after: rapid.IntRange(0, 2).Draw(t, "redoAfter")})
		}
	}
	push(first)
	for len(c.Ops) < n || len(pending) > 0 {
		var due []redo
		rest := pending[:0]
		for _, r := range pending {
			if r.after <= 0 {
				due = append(due, r)
			} else {
				r.after--
				rest = append(rest, r)
			}
		}
		pending = rest
		for _, r := range due {
			c.Ops = append(c.Ops, r.o)
		}
		if len(c.Ops) < n || (len(due) == 0 && len(pending) > 0) {
			push(drawOp(t, c.Mode))
		}
	}
	if c.Mode == "core" && rapid.IntRange(0, 3).Draw(t, "inboundTail") == 0 {
		// structured tail: merges from another node before and after an index change of the same collection,
		// usually with a restart somewhere between them (the index list is part of what a node caches per collection)
		col := rapid.IntRange(0, 7).Draw(t, "tailCol")
		ofKind := func(k string) Op {
			o := drawOpOf(t, k)
			o.C, o.Tx = col, 0
			return o
		}
		in1 := ofKind(opInbound)
		in1.X = rapid.IntRange(0, 1).Draw(t, "tailCreate")
		c.Ops = append(c.Ops, in1)
		at := rapid.IntRange(0, 3).Draw(t, "tailRestartAt")
		if at == 0 {
			c.Ops = append(c.Ops, Op{K: opRestart})
		}
		c.Ops = append(c.Ops, ofKind(rapid.SampledFrom([]string{opCreateIndex, opCreateIndex, opDropIndex}).Draw(t, "tailIndexOp")))
		if at == 1 || at == 2 {
			c.Ops = append(c.Ops, Op{K: opRestart})
		}
		for i, n := 0, rapid.IntRange(1, 3).Draw(t, "tailMerges"); i < n; i++ {
			c.Ops = append(c.Ops, ofKind(opInbound))
		}
	}
	if c.Mode == "core" {
		if hx.Thorough() && rapid.IntRange(0, 3).Draw(t, "crashAll") == 0 {
			c.CrashAll = true
		} else {
			for i := range c.Ops {
				if c.Ops[i].K != opRestart && rapid.IntRange(0, 5).Draw(t, "crash") == 0 {
					c.Ops[i].Crash = true
				}
			}
		}
	}
	return c
}

// Info is what a run reports about itself for labels and the non-triviality rule.
type Info struct {
	Flags map[string]bool
	Count map[string]int
}

func (in *Info) flag(s string)       { in.Flags[s] = true }
func (in *Info) add(s string, n int) { in.Count[s] += n }

func labelsOf(c Case, in *Info) []string {
	out := []string{"mode:" + c.Mode}
	if c.Avoid {
		out = append(out, "known-finding-avoidance-on")
	}
	for f := range in.Flags {
		out = append(out, f)
	}
	sort.Strings(out)
	return out
}

func nontrivial(in *Info) bool {
	return in.Flags["nt:restart-after-change"] && in.Flags["nt:allocation-after-restart"]
}

func evalCase(t *rapid.T, c Case) {
	var in *Info
	f := hx.Guard("C14", func() *hx.Failure {
		var f *hx.Failure
		f, in = run(c)
		return f
	})
	if in == nil {
		in = &Info{Flags: map[string]bool{}, Count: map[string]int{}}
	}
	rec.Eval(c, nontrivial(in), labelsOf(c, in)...)
	for k, n := range in.Count {
		for i := 0; i < n; i++ {
			rec.Label(k)
		}
	}
	rec.Check(t, c, f)
}

func TestC14(t *testing.T) {
	rapid.Check(t, func(t *rapid.T) { evalCase(t, drawCase(t, "")) })
}

// TestC14P2P is the peer-configuration phase (libp2p hosts on loopback; smaller counts).
func TestC14P2P(t *testing.T) {
	rapid.Check(t, func(t *rapid.T) { evalCase(t, drawCase(t, "p2p")) })
}

func runRaw(raw []byte) (*hx.Failure, error) {
	var c Case
	if err := json.Unmarshal(raw, &c); err != nil {
		return nil, err
	}
	return hx.Guard("C14", func() *hx.Failure { f, _ := run(c); return f }), nil
}

func TestReplay(t *testing.T) {
	raw := hx.ReplayCase(t)
	rec.SetReplaying()
	var c Case
	if err := json.Unmarshal(raw, &c); err != nil {
		t.Fatal(err)
	}
	traceOn = true
	f := hx.Guard("C14", func() *hx.Failure { f, _ := run(c); return f })
	if f != nil {
		fmt.Println("replay verdict:", f.Sig, "\n", f.Msg)
	} else {
		fmt.Println("replay verdict: property holds on this case")
	}
	rec.Check(t, c, f)
}

func TestRegress(t *testing.T) {
	hx.Regress(t, "testdata/regress", func(raw []byte) *hx.Failure {
		f, err := runRaw(raw)
		if err != nil {
			return hx.Failf("C14/regress-file", "%v", err)
		}
		return f
	}, rec)
}
