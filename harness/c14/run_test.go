package c14

import (
	"context"
	"crypto/ed25519"
	"fmt"
	"os"
	"regexp"
	"runtime/debug"
	"sort"
	"strings"
	"time"

	"github.com/sourcenetwork/immutable"
	"github.com/sourcenetwork/lens/host-go/config/model"

	acpIdentity "github.com/sourcenetwork/defradb/acp/identity"
	"github.com/sourcenetwork/defradb/client"
	"github.com/sourcenetwork/defradb/crypto"
	"github.com/sourcenetwork/defradb/event"
	"github.com/sourcenetwork/defradb/internal/db"
	netConfig "github.com/sourcenetwork/defradb/net/config"
	"github.com/sourcenetwork/defradb/node"
	"github.com/sourcenetwork/defradb/verifharness/hx"
)

var traceOn = os.Getenv("C14_TRACE") != ""

func tracef(format string, a ...any) {
	if traceOn {
		fmt.Printf(format+"\n", a...)
	}
}

// ---------------------------------------------------------------- schema templates

const numTemplates = 6

var plainNames = []string{"Aa", "Bb", "Cc", "Dd"}

var baseFields = []struct{ n, t string }{
	{"s", "String"}, {"i", "Int"}, {"f", "Float"}, {"b", "Boolean"}, {"t", "DateTime"}, {"j", "JSON"}, {"a", "[Int]"}, {"bl", "Blob"},
}

var patchPool = []struct{ n, k string }{
	{"p0", "String"}, {"p1", "Int"}, {"p2", "Boolean"}, {"p3", "Float"}, {"p4", "[String]"},
}

const policyText = `
name: c14
description: policy of the C14 check
actor:
  name: actor
resources:
  users:
    permissions:
      read:
        expr: owner + reader + updater
      update:
        expr: owner + updater
      delete:
        expr: owner
    relations:
      owner:
        types:
          - actor
      reader:
        types:
          - actor
      updater:
        types:
          - actor
      admin:
        manages:
          - reader
        types:
          - actor
`

var relNames = []string{"reader", "updater", "admin"}

var identities = func() []acpIdentity.FullIdentity {
	out := []acpIdentity.FullIdentity{}
	for _, seed := range []byte{0x41, 0x42} {
		b := make([]byte, 32)
		for i := range b {
			b[i] = seed
		}
		k, err := crypto.PrivateKeyFromBytes(crypto.KeyTypeSecp256k1, b)
		if err != nil {
			panic(err)
		}
		id, err := acpIdentity.FromPrivateKey(k)
		if err != nil {
			panic(err)
		}
		out = append(out, id)
	}
	return out
}()

// withID attaches identity who-1 (0 = none).
func withID(ctx context.Context, who int) context.Context {
	if who <= 0 || who > len(identities) {
		return ctx
	}
	return acpIdentity.WithContext(ctx, immutable.Some[acpIdentity.Identity](identities[who-1]))
}

func whoName(who int) string {
	if who <= 0 {
		return "anonymous"
	}
	return fmt.Sprintf("identity%d", who)
}

// sdlOf renders the SDL of an AddSchema operation and the names of the types it declares.
func (w *world) sdlOf(o Op) (string, []string) {
	pol := ""
	if w.mode == "acp" && o.B2 && w.policyID != "" {
		pol = fmt.Sprintf(` @policy(id: "%s", resource: "users")`, w.policyID)
	}
	br := ""
	if o.B {
		br = " @branchable"
	}
	tpl := ((o.N % numTemplates) + numTemplates) % numTemplates
	switch {
	case tpl < 4:
		name := plainNames[tpl]
		var sb strings.Builder
		has := map[string]bool{}
		for k, f := range baseFields {
			if o.F&(1<<k) == 0 {
				continue
			}
			has[f.n] = true
			ix := ""
			if f.n == "s" && o.X&1 != 0 {
				ix = " @index"
			}
			if f.n == "i" && o.X&2 != 0 {
				ix = " @index(unique: true)"
			}
			fmt.Fprintf(&sb, "\t%s: %s%s\n", f.n, f.t, ix)
		}
		if len(has) == 0 {
			sb.WriteString("\ts: String\n")
			has["s"] = true
		}
		typeIx := ""
		if o.X&4 != 0 && has["s"] && has["i"] {
			typeIx = ` @index(includes: [{field: "s"}, {field: "i", direction: DESC}])`
		}
		return fmt.Sprintf("type %s%s%s%s {\n%s}\n", name, br, pol, typeIx, sb.String()), []string{name}
	case tpl == 4:
		ageIx, relIx, ratIx := "", "", ""
		if o.X&1 != 0 {
			ageIx = " @index"
		}
		if o.X&2 != 0 {
			relIx = " @index"
		}
		if o.X&4 != 0 {
			ratIx = " @index"
		}
		return fmt.Sprintf("type Author%s%s {\n\tname: String\n\tage: Int%s\n\tbooks: [Book]\n}\ntype Book%s {\n\ttitle: String\n\trating: Int%s\n\tauthor: Author%s\n}\n",
			br, pol, ageIx, pol, ratIx, relIx), []string{"Author", "Book"}
	default:
		numIx := ""
		if o.X&1 != 0 {
			numIx = " @index(unique: true)"
		}
		return fmt.Sprintf("type Person%s {\n\tname: String\n\tpassport: Passport @primary\n}\ntype Passport%s%s {\n\tnum: Int%s\n\towner: Person\n}\n",
			pol, br, pol, numIx), []string{"Person", "Passport"}
	}
}

var relatedOf = map[string]string{"author_id": "Author", "passport_id": "Passport"}

// ---------------------------------------------------------------- values

var (
	strPool   = []string{"", "a", "b", "héllo wörld", `q"uo\te`, "x y"}
	intPool   = []int64{0, 1, -1, 7, 42, 2147483647}
	floatPool = []string{"0.5", "-1.5", "3.25", "0.0", "1024.125"}
	timePool  = []string{"2020-01-02T03:04:05Z", "1999-12-31T23:59:59Z", "2020-01-02T03:04:05.123456789Z", "1970-01-01T00:00:00Z"}
	blobPool  = []string{"00ff", "abcd", "00", "deadbeef"}
	jsonPool  = []string{`{a: 1}`, `[1, 2]`, `"s"`, `5`, `true`, `{a: {b: [null, "x"]}}`, `{}`}
	iarrPool  = []string{`[]`, `[1, null, 3]`, `[5]`, `[0, -1]`}
	sarrPool  = []string{`[]`, `["a", ""]`, `["x"]`, `["é", "b", "b"]`}
)

func mod(a, n int) int { return ((a % n) + n) % n }

// literal returns a GraphQL literal for a field of the given kind; ok=false when the kind is not written by the check.
func (w *world) literal(f client.FieldDefinition, seed, related int) (string, bool) {
	if seed%11 == 10 && f.Kind != client.FieldKind_DocID {
		return "null", true
	}
	switch f.Kind {
	case client.FieldKind_NILLABLE_STRING:
		if seed%3 == 0 {
			return fmt.Sprintf("%q", fmt.Sprintf("v%d", seed)), true
		}
		return fmt.Sprintf("%q", strPool[mod(seed, len(strPool))]), true
	case client.FieldKind_NILLABLE_INT:
		if seed%3 != 0 {
			return fmt.Sprint(seed*37 - 1000), true
		}
		return fmt.Sprint(intPool[mod(seed, len(intPool))]), true
	case client.FieldKind_NILLABLE_FLOAT64:
		return floatPool[mod(seed, len(floatPool))], true
	case client.FieldKind_NILLABLE_BOOL:
		return fmt.Sprint(seed%2 == 0), true
	case client.FieldKind_NILLABLE_DATETIME:
		return fmt.Sprintf("%q", timePool[mod(seed, len(timePool))]), true
	case client.FieldKind_NILLABLE_BLOB:
		return fmt.Sprintf("%q", blobPool[mod(seed, len(blobPool))]), true
	case client.FieldKind_NILLABLE_JSON:
		return jsonPool[mod(seed, len(jsonPool))], true
	case client.FieldKind_NILLABLE_INT_ARRAY:
		return iarrPool[mod(seed, len(iarrPool))], true
	case client.FieldKind_NILLABLE_STRING_ARRAY:
		return sarrPool[mod(seed, len(sarrPool))], true
	case client.FieldKind_DocID:
		if f.Name == "_docID" {
			return "", false
		}
		docs := w.docs[relatedOf[f.Name]]
		if len(docs) == 0 {
			return "", false
		}
		return fmt.Sprintf("%q", docs[mod(related, len(docs))]), true
	}
	return "", false
}

// ---------------------------------------------------------------- world

type world struct {
	c    Case
	mode string
	info *Info

	dir   string
	ropts []node.Option
	R, T  *hx.Node
	fsT   *hx.FaultStore // core mode: T's store, records snapshots

	policyID string

	// registries (taken from T's answers)
	cols     []string            // collection names in order of creation
	docs     map[string][]string // collection -> docIDs created
	versions map[string][]string // collection -> version ids in order of discovery
	views    int
	rolled   map[string]bool // operations that were rolled back and not yet redone
	owner    map[string]int  // docID -> identity that created it (acp mode)

	step       int
	restarts   int
	sinceStart map[string]bool // change classes since the last (re)start of R
	afterRst   bool

	// crash points: snapshots recorded during the current operation on T
	snaps    []snap
	wantSnap bool

	p2p *p2pWorld

	// inbound merges (core mode): a source node that mirrors the schema history and whose commits are
	// delivered to R and T the way the network layer does (block closure, then the merge of the head)
	src        *hx.Node
	srcTap     *hx.EventTap
	srcLog     []func(n *hx.Node) error
	srcDocs    map[string][]string
	createQ    map[string]string // docID -> mutation that created it locally
	merged     map[string]bool   // collection -> an inbound merge was applied in it
	ixAfterMrg map[string]bool   // collection -> an index was created or dropped after an inbound merge
}

type snap struct {
	seq int
	kvs []hx.FaultKV
}

func edKey(seed byte) []byte {
	b := make([]byte, 32)
	for i := range b {
		b[i] = seed
	}
	return ed25519.NewKeyFromSeed(b)
}

func run(c Case) (fail *hx.Failure, info *Info) {
	info = &Info{Flags: map[string]bool{}, Count: map[string]int{}}
	w := &world{c: c, mode: c.Mode, info: info, docs: map[string][]string{}, srcDocs: map[string][]string{}, createQ: map[string]string{}, merged: map[string]bool{}, ixAfterMrg: map[string]bool{}, owner: map[string]int{}, rolled: map[string]bool{}, versions: map[string][]string{}, sinceStart: map[string]bool{}}
	if w.mode != "core" && w.mode != "acp" && w.mode != "p2p" {
		hx.Harnessf("unknown mode %q", c.Mode)
	}
	dir, rm := hx.Scratch("c14")
	defer rm()
	w.dir = dir
	defer w.closeAll()
	w.boot()
	for i, o := range c.Ops {
		w.step = i
		if f := w.apply(o); f != nil {
			return f, info
		}
	}
	w.step = len(c.Ops)
	if f := w.compareDumps("final"); f != nil {
		return f, info
	}
	return nil, info
}

func (w *world) closeAll() {
	if w.R != nil {
		w.R.Close()
	}
	if w.T != nil {
		w.T.Close()
	}
	if w.p2p != nil {
		w.p2p.close()
	}
	if w.src != nil {
		w.srcTap.Close()
		w.src.Close()
	}
}

// mirror applies a schema operation that succeeded on R and T to the nodes that share their schema
// history: the replicator targets (p2p mode) and the source of inbound merges (core mode).
func (w *world) mirror(g func(n *hx.Node) error) {
	if w.p2p != nil {
		w.p2p.mirror(g)
	}
	if w.mode == "core" {
		w.srcLog = append(w.srcLog, g)
		if w.src != nil {
			if err := g(w.src); err != nil {
				hx.Harnessf("source node rejects a mirrored schema operation: %v", err)
			}
		}
	}
}

// source returns the node whose commits are delivered to R and T, booting it on first use.
func (w *world) source() *hx.Node {
	if w.src != nil {
		return w.src
	}
	n, err := hx.NewNode(node.WithBadgerInMemory(true), node.WithDisableAPI(true), node.WithDisableP2P(true),
		node.WithDocumentACPType(node.NoDocumentACPType), db.WithEnabledSigning(false))
	if err != nil {
		hx.Harnessf("cannot boot the source node: %v", err)
	}
	for _, f := range w.srcLog {
		if err := f(n); err != nil {
			hx.Harnessf("source node rejects a mirrored schema operation: %v", err)
		}
	}
	w.src, w.srcTap = n, hx.NewEventTap(n)
	return n
}

func (w *world) boot() {
	common := []node.Option{node.WithDisableAPI(true), db.WithEnabledSigning(false)}
	w.ropts = append([]node.Option{
		node.WithBadgerInMemory(false),
		node.WithStorePath(w.dir + "/db"),
	}, common...)
	topts := append([]node.Option{node.WithBadgerInMemory(true)}, common...)
	switch w.mode {
	case "core":
		w.ropts = append(w.ropts, node.WithDisableP2P(true), node.WithDocumentACPType(node.NoDocumentACPType))
	case "acp":
		w.ropts = append(w.ropts, node.WithDisableP2P(true), node.WithDocumentACPType(node.LocalDocumentACPType), node.WithDocumentACPPath(w.dir+"/acp"))
		topts = append(topts, node.WithDisableP2P(true), node.WithDocumentACPType(node.LocalDocumentACPType))
	case "p2p":
		w.p2p = newP2PWorld(w)
		w.ropts = append(w.ropts, node.WithDisableP2P(false), node.WithDocumentACPType(node.NoDocumentACPType),
			netConfig.WithListenAddresses("/ip4/127.0.0.1/tcp/0"), netConfig.WithPrivateKey(edKey(0x71)))
		topts = append(topts, node.WithDisableP2P(false), node.WithDocumentACPType(node.NoDocumentACPType),
			netConfig.WithListenAddresses("/ip4/127.0.0.1/tcp/0"), netConfig.WithPrivateKey(edKey(0x72)))
	}
	var err error
	w.R, err = hx.NewNode(w.ropts...)
	if err != nil {
		hx.Harnessf("cannot boot R: %v", err)
	}
	if w.mode == "core" {
		w.T, w.fsT = hx.NewFaultNode(db.WithEnabledSigning(false))
		w.fsT.SetCommitHook(func(ci hx.FaultCommitInfo) {
			if !w.wantSnap {
				return
			}
			kvs, err := w.fsT.Snapshot(nil)
			if err != nil {
				hx.Harnessf("snapshot: %v", err)
			}
			w.snaps = append(w.snaps, snap{seq: ci.Seq, kvs: kvs})
		})
	} else {
		w.T, err = hx.NewNode(topts...)
		if err != nil {
			hx.Harnessf("cannot boot T: %v", err)
		}
	}
	if w.p2p != nil {
		w.p2p.attach()
	}
	if w.mode == "acp" {
		ids := [2]string{}
		for k, n := range []*hx.Node{w.R, w.T} {
			res, err := n.DB.AddDACPolicy(withID(n.Ctx, 1), policyText)
			if err != nil {
				hx.Harnessf("policy rejected: %v", err)
			}
			ids[k] = res.PolicyID
		}
		if ids[0] != ids[1] {
			hx.Harnessf("policy ids differ between R and T: %s vs %s", ids[0], ids[1])
		}
		w.policyID = ids[0]
		w.sinceStart["acp"] = true
	}
}

// ---------------------------------------------------------------- lock-step execution

// safely runs f, turning a panic of the code under test into a result text.
func safely(f func() string) (out string) {
	defer func() {
		if p := recover(); p != nil {
			if he, ok := p.(hx.HarnessError); ok {
				panic(he)
			}
			st := string(debug.Stack())
			if traceOn {
				fmt.Printf("panic: %v\n%s\n", p, st)
			}
			out = "PANIC at " + hx.PanicSite(st) + ": " + fmt.Sprint(p)
		}
	}()
	return f()
}

func errText(err error) string {
	if err == nil {
		return "ok"
	}
	return "error: " + err.Error()
}

var didYouMean = regexp.MustCompile(` Did you mean [^?]*\?`)

func isErr(s string) bool { return strings.HasPrefix(s, "error: ") || strings.HasPrefix(s, "PANIC") }

// both runs the operation on R and then on T and compares the rendered results.
// It returns T's result.
func (w *world) both(kind, desc string, f func(n *hx.Node, isR bool) string) (string, *hx.Failure) {
	rr := safely(func() string { return f(w.R, true) })
	w.snaps = w.snaps[:0]
	w.wantSnap = w.mode == "core"
	rt := safely(func() string { return f(w.T, false) })
	w.wantSnap = false
	tracef("step %d %s: %s\n    -> %s", w.step, kind, desc, trimTo(rt, 400))
	if w.p2p != nil {
		rr, rt = w.p2p.symbolic(rr, true), w.p2p.symbolic(rt, false)
	}
	// graphql-go's "Did you mean ..." suggestions come in an order that depends on the order in which the
	// type system was built (the restarted node rebuilds it from the store): not part of the answer
	rr, rt = didYouMean.ReplaceAllString(rr, ""), didYouMean.ReplaceAllString(rt, "")
	if rr != rt {
		diag := "different-value"
		switch {
		case isErr(rr) && !isErr(rt):
			diag = "fails-only-on-restarted-node"
		case !isErr(rr) && isErr(rt):
			diag = "fails-only-on-twin"
		case isErr(rr) && isErr(rt):
			diag = "different-error"
		}
		if w.restarts == 0 {
			hx.Harnessf("step %d %s (%s): R and T answer differently although R was never restarted:\n R: %s\n T: %s", w.step, kind, desc, rr, rt)
		}
		return rt, hx.Failf("C14/result/"+kind+"/"+diag,
			"step %d, %s (%s), after %d restart(s): the restarted node and the never-restarted twin answer differently\n restarted: %s\n twin:      %s\n%s",
			w.step, kind, desc, w.restarts, trimTo(rr, 1500), trimTo(rt, 1500), w.history())
	}
	return rt, nil
}

// inTx runs f against the database itself (mode 0) or against an explicit transaction that is then
// committed (mode 1) or discarded (mode 2). ctx is what collection-level calls must use to run inside it.
func inTx(n *hx.Node, mode int, f func(s client.Store, ctx context.Context) string) string {
	if mode == 0 {
		return f(n.DB, n.Ctx)
	}
	txn, err := n.DB.NewTxn(n.Ctx, false)
	if err != nil {
		return "new txn: " + errText(err)
	}
	defer txn.Discard(n.Ctx)
	out := f(txn, db.InitContext(n.Ctx, txn))
	if mode == 1 && isErr(out) {
		// A client whose operation failed inside an explicit transaction abandons the transaction. (Committing it
		// keeps whatever the failed operation wrote before it failed, e.g. some fields of a document whose
		// one-to-one link was then refused, and which fields depends on Go's map order: not this property's matter.)
		txn.Discard(n.Ctx)
		return out + " / discarded after the error"
	}
	if mode == 1 {
		if err := txn.Commit(n.Ctx); err != nil {
			return out + " / commit " + errText(err)
		}
		return out + " / committed"
	}
	txn.Discard(n.Ctx)
	return out + " / discarded"
}

// took reports whether an operation with result text rt took effect.
func took(o Op, rt string) bool {
	return !isErr(rt) && o.Tx != 2 && !strings.Contains(rt, " / commit error")
}

func (w *world) noteTx(o Op, rt string) {
	switch {
	case o.Tx == 1:
		w.info.flag("tx-committed:" + o.K)
	case o.Tx == 2 && !isErr(rt):
		w.info.flag("tx-discarded:" + o.K)
		w.rolled[w.redoKey(o)] = true
		w.changed("rollback")
	}
	if o.Fail != 0 && isErr(rt) {
		w.info.flag("addschema-fails-on-later-type")
		w.rolled[w.redoKey(o)] = true
		w.changed("rollback")
	}
	if took(o, rt) && w.rolled[w.redoKey(o)] {
		w.info.flag("redo-after-rollback:" + o.K)
		w.changed("redo-after-rollback")
		delete(w.rolled, w.redoKey(o))
	}
}

// redoKey identifies "the same operation" for the redo-after-rollback label.
func (w *world) redoKey(o Op) string {
	return fmt.Sprintf("%s/%d/%d/%d/%d/%d/%d/%v/%v", o.K, o.C, o.N, o.F, o.F2, o.X, o.V, o.B, o.B2)
}

func trimTo(s string, n int) string {
	if len(s) > n {
		return s[:n] + "…"
	}
	return s
}

// history renders the operations executed so far (for messages).
func (w *world) history() string {
	var sb strings.Builder
	sb.WriteString("history:")
	for i := 0; i <= w.step && i < len(w.c.Ops); i++ {
		fmt.Fprintf(&sb, " %d:%s", i, w.c.Ops[i].K)
	}
	return sb.String()
}

func (w *world) pickCol(i int) (string, bool) {
	if len(w.cols) == 0 {
		return "", false
	}
	return w.cols[mod(i, len(w.cols))], true
}

// pickColWithDocs picks among the collections in which documents were created.
func (w *world) pickColWithDocs(i int) (string, bool) {
	var with []string
	for _, c := range w.cols {
		if len(w.docs[c]) > 0 {
			with = append(with, c)
		}
	}
	if len(with) == 0 {
		return "", false
	}
	return with[mod(i, len(with))], true
}

// defOf returns T's current definition of a collection.
func (w *world) defOf(name string) (client.CollectionDefinition, bool) {
	col, err := w.T.DB.GetCollectionByName(w.T.Ctx, name)
	if err != nil {
		return client.CollectionDefinition{}, false
	}
	return col.Definition(), true
}

func (w *world) changed(class string) {
	w.sinceStart[class] = true
}

// allocated notes a successful operation that allocates an identifier.
func (w *world) allocated(what string) {
	if w.afterRst {
		w.info.flag("nt:allocation-after-restart")
		w.info.flag("alloc-after-restart:" + what)
	}
}

func (w *world) apply(o Op) *hx.Failure {
	switch o.K {
	case opRestart:
		return w.opRestart()
	case opAddSchema:
		return w.crashAfter(o, w.opAddSchema(o))
	case opPatch:
		return w.crashAfter(o, w.opPatch(o))
	case opSetActive:
		return w.crashAfter(o, w.opSetActive(o))
	case opCreateIndex:
		return w.crashAfter(o, w.opCreateIndex(o))
	case opDropIndex:
		return w.crashAfter(o, w.opDropIndex(o))
	case opAddView:
		return w.crashAfter(o, w.opAddView(o))
	case opRefreshView:
		return w.crashAfter(o, w.opRefreshViews(o))
	case opPatchCol:
		return w.crashAfter(o, w.opPatchCol(o))
	case opCreate:
		return w.crashAfter(o, w.opCreate(o))
	case opCreateP2PDoc:
		if w.p2p == nil {
			return nil
		}
		return w.opCreate(o)
	case opUpdate:
		return w.crashAfter(o, w.opUpdate(o))
	case opDelete:
		return w.crashAfter(o, w.opDelete(o))
	case opInbound:
		if w.mode != "core" {
			return nil
		}
		return w.crashAfter(o, w.opInbound(o))
	case opAddRel, opDelRel:
		if w.mode != "acp" {
			return nil
		}
		return w.opRel(o)
	case opSetRep, opDelRep, opAddP2PCol, opRemP2PCol, opAddP2PDoc, opRemP2PDoc:
		if w.p2p == nil {
			return nil
		}
		return w.p2p.apply(o)
	}
	hx.Harnessf("unknown op %q", o.K)
	return nil
}

// ---------------------------------------------------------------- operations

func (w *world) opRestart() *hx.Failure {
	if w.c.Avoid && rec.IsKnown(sigEmptyDBTypes) && len(w.cols) == 0 {
		// known finding: the GraphQL types of a database without any collection differ between first boot and restart
		return nil
	}
	if len(w.cols) == 0 {
		w.info.flag("restart-of-empty-database")
	}
	tracef("step %d restart", w.step)
	var selfBefore string
	if w.p2p != nil {
		selfBefore = w.R.N.Peer.PeerInfo().ID.String()
		w.p2p.detachR()
	}
	w.R.Close()
	w.R = nil
	n, err := hx.NewNode(w.ropts...)
	if err != nil {
		return hx.Failf("C14/restart/boot-error", "step %d: reopening the node on its store failed: %v\n%s", w.step, err, w.history())
	}
	w.R = n
	w.restarts++
	w.afterRst = true
	w.info.add("restarts", 1)
	for class := range w.sinceStart {
		w.info.flag("restart-after:" + class)
		if class == "index" || class == "schema-version" || (w.mode == "p2p" && class == "peer-config") || (w.mode == "acp" && class == "acp") {
			w.info.flag("nt:restart-after-change")
		}
	}
	w.sinceStart = map[string]bool{}
	if w.p2p != nil {
		w.p2p.attachR()
		w.p2p.restartedR()
		if now := w.R.N.Peer.PeerInfo().ID.String(); now != selfBefore {
			return hx.Failf("C14/restart/peer-id-changed", "step %d: peer id %s before the restart, %s after it (same private key)", w.step, selfBefore, now)
		}
	}
	if _, inv := allocState(w.R); inv != "" {
		return hx.Failf("C14/restart/identifier-allocation-invariant", "step %d, reopened node: %s\n%s", w.step, inv, w.history())
	}
	return w.compareDumps("after-restart")
}

func (w *world) opAddSchema(o Op) *hx.Failure {
	sdl, names := w.sdlOf(o)
	switch o.Fail {
	case 1:
		sdl += "type Zq @index(includes: [{field: \"nope\"}]) {\n\ts: String\n}\n"
	case 2:
		sdl += "type Zq {\n\ts: String @index(name: \"dup\")\n\ti: Int @index(name: \"dup\")\n}\n"
	}
	rt, f := w.both(o.K, fmt.Sprintf("tx=%d %s", o.Tx, strings.ReplaceAll(sdl, "\n", " ")), func(n *hx.Node, _ bool) string {
		return inTx(n, o.Tx, func(s client.Store, ctx context.Context) string {
			cols, err := s.AddSchema(ctx, sdl)
			if err != nil {
				return errText(err)
			}
			return hx.Canon(hx.Normalize(cols))
		})
	})
	if f != nil {
		return f
	}
	w.noteTx(o, rt)
	if o.Fail != 0 && !isErr(rt) {
		hx.Harnessf("an SDL built to fail on its last type was accepted: %s", sdl)
	}
	if took(o, rt) {
		w.cols = append(w.cols, names...)
		w.changed("schema")
		w.allocated("collection")
		w.info.flag("op:addschema-ok")
		if strings.Contains(sdl, "@index") {
			w.changed("index")
			w.info.flag("op:addschema-with-index")
		}
		if strings.Contains(sdl, "@policy") {
			w.info.flag("op:addschema-with-policy")
		}
		for _, name := range names {
			w.noteVersions(name)
		}
		{
			w.mirror(func(n *hx.Node) error { _, err := n.DB.AddSchema(n.Ctx, sdl); return err })
		}
	} else if isErr(rt) {
		w.info.flag("op:addschema-rejected")
	}
	return nil
}

// noteVersions records the version ids T knows for a collection, new ones in sorted order.
func (w *world) noteVersions(name string) {
	cols, err := w.T.DB.GetCollections(w.T.Ctx, client.CollectionFetchOptions{Name: immutable.Some(name), IncludeInactive: immutable.Some(true)})
	if err != nil {
		return
	}
	known := map[string]bool{}
	for _, v := range w.versions[name] {
		known[v] = true
	}
	var fresh []string
	for _, c := range cols {
		if id := c.Version().VersionID; !known[id] {
			fresh = append(fresh, id)
		}
	}
	sort.Strings(fresh)
	w.versions[name] = append(w.versions[name], fresh...)
}

func (w *world) opPatch(o Op) *hx.Failure {
	name, ok := w.pickCol(o.C)
	if !ok {
		return nil
	}
	pf := patchPool[mod(o.F, len(patchPool))]
	patch := fmt.Sprintf(`[{ "op": "add", "path": "/%s/Fields/-", "value": {"Name": %q, "Kind": %q} }]`, name, pf.n, pf.k)
	rt, f := w.both(o.K, fmt.Sprintf("tx=%d %s setDefault=%v", o.Tx, patch, o.B), func(n *hx.Node, _ bool) string {
		return inTx(n, o.Tx, func(s client.Store, ctx context.Context) string {
			return errText(s.PatchSchema(ctx, patch, immutable.None[model.Lens](), o.B))
		})
	})
	if f != nil {
		return f
	}
	w.noteTx(o, rt)
	if took(o, rt) {
		before := len(w.versions[name])
		w.noteVersions(name)
		w.changed("schema-version")
		w.info.flag("op:patch-ok")
		if len(w.versions[name]) > before {
			w.allocated("field")
		}
		if !o.B {
			w.info.flag("op:patch-not-default")
		}
		{
			w.mirror(func(n *hx.Node) error {
				return n.DB.PatchSchema(n.Ctx, patch, immutable.None[model.Lens](), o.B)
			})
		}
	} else {
		w.info.flag("op:patch-rejected")
	}
	return nil
}

func (w *world) opSetActive(o Op) *hx.Failure {
	name, ok := w.pickCol(o.C)
	if !ok || len(w.versions[name]) == 0 {
		return nil
	}
	vs := w.versions[name]
	id := vs[mod(o.V, len(vs))]
	ids := []string{id}
	if o.B && o.Tx != 0 {
		// two switches in ONE explicit transaction: to version #V, then to version #X (which may be the
		// one that was active before - then the transaction's net effect on the schema is nil)
		ids = append(ids, vs[mod(o.X, len(vs))])
		id = ids[1]
	}
	rt, f := w.both(o.K, fmt.Sprintf("tx=%d %s version #%d %v", o.Tx, name, mod(o.V, len(vs)), ids), func(n *hx.Node, _ bool) string {
		return inTx(n, o.Tx, func(s client.Store, ctx context.Context) string {
			for _, v := range ids {
				if rt := errText(s.SetActiveSchemaVersion(ctx, v)); isErr(rt) {
					return rt
				}
			}
			return "ok"
		})
	})
	if f != nil {
		return f
	}
	w.noteTx(o, rt)
	if took(o, rt) {
		w.changed("schema-version")
		w.info.flag("op:setactive-ok")
		if len(ids) > 1 {
			w.info.flag("op:two-setactive-in-one-committed-transaction")
		}
		if len(vs) > 1 {
			w.info.flag("op:setactive-among-several-versions")
		}
		{
			w.mirror(func(n *hx.Node) error { return n.DB.SetActiveSchemaVersion(n.Ctx, id) })
		}
	}
	return nil
}

// indexable lists the fields of T's definition the check builds indexes on.
func indexable(def client.CollectionDefinition) []client.FieldDefinition {
	var out []client.FieldDefinition
	for _, f := range def.GetFields() {
		if f.Name == "_docID" || f.Kind.IsObject() {
			continue
		}
		if f.Kind == client.FieldKind_NILLABLE_JSON {
			// known C07 finding (JSON index and null JSON values panic): not this property's matter
			continue
		}
		out = append(out, f)
	}
	return out
}

var indexNames = []string{"", "ix_one", "ix_two", "ix_one"}

func (w *world) opCreateIndex(o Op) *hx.Failure {
	name, ok := w.pickCol(o.C)
	if !ok {
		return nil
	}
	def, ok := w.defOf(name)
	if !ok {
		return nil
	}
	fs := indexable(def)
	if len(fs) == 0 {
		return nil
	}
	req := client.IndexCreateRequest{Name: indexNames[mod(o.N, len(indexNames))], Unique: o.B}
	f1 := fs[mod(o.F, len(fs))]
	req.Fields = append(req.Fields, client.IndexedFieldDescription{Name: f1.Name, Descending: o.B2})
	if o.F2 >= 0 {
		f2 := fs[mod(o.F2, len(fs))]
		if f2.Name != f1.Name {
			req.Fields = append(req.Fields, client.IndexedFieldDescription{Name: f2.Name})
		}
	}
	rt, f := w.both(o.K, fmt.Sprintf("tx=%d %s %s", o.Tx, name, hx.Canon(hx.Normalize(req))), func(n *hx.Node, _ bool) string {
		return inTx(n, o.Tx, func(s client.Store, ctx context.Context) string {
			col, err := s.GetCollectionByName(ctx, name)
			if err != nil {
				return "get collection: " + errText(err)
			}
			d, err := col.CreateIndex(ctx, req)
			if err != nil {
				return errText(err)
			}
			return hx.Canon(hx.Normalize(d))
		})
	})
	if f != nil {
		return f
	}
	w.noteTx(o, rt)
	if took(o, rt) {
		w.changed("index")
		w.allocated("index")
		w.info.flag("op:createindex-ok")
		if w.merged[name] {
			w.ixAfterMrg[name] = true
		}
		if len(req.Fields) > 1 {
			w.info.flag("op:createindex-composite")
		}
		if req.Unique {
			w.info.flag("op:createindex-unique")
		}
		if req.Name == "" {
			w.info.flag("op:createindex-generated-name")
		}
	} else {
		w.info.flag("op:createindex-rejected")
	}
	return nil
}

func (w *world) opDropIndex(o Op) *hx.Failure {
	name, ok := w.pickCol(o.C)
	if !ok {
		return nil
	}
	col, err := w.T.DB.GetCollectionByName(w.T.Ctx, name)
	if err != nil {
		return nil
	}
	ixs, err := col.GetIndexes(w.T.Ctx)
	if err != nil || len(ixs) == 0 {
		return nil
	}
	sort.Slice(ixs, func(i, j int) bool { return ixs[i].ID < ixs[j].ID })
	target := ixs[mod(o.X, len(ixs))].Name
	rt, f := w.both(o.K, fmt.Sprintf("tx=%d %s %s", o.Tx, name, target), func(n *hx.Node, _ bool) string {
		return inTx(n, o.Tx, func(s client.Store, ctx context.Context) string {
			col, err := s.GetCollectionByName(ctx, name)
			if err != nil {
				return "get collection: " + errText(err)
			}
			return errText(col.DropIndex(ctx, target))
		})
	})
	if f != nil {
		return f
	}
	w.noteTx(o, rt)
	if took(o, rt) {
		w.changed("index")
		w.info.flag("op:dropindex-ok")
		if w.merged[name] {
			w.ixAfterMrg[name] = true
		}
	}
	return nil
}

func (w *world) opAddView(o Op) *hx.Failure {
	name, ok := w.pickCol(o.C)
	if !ok || w.mode == "acp" {
		return nil
	}
	def, ok := w.defOf(name)
	if !ok {
		return nil
	}
	var fld *client.FieldDefinition
	for _, f := range def.GetFields() {
		if f.Kind == client.FieldKind_NILLABLE_STRING || f.Kind == client.FieldKind_NILLABLE_INT {
			f := f
			fld = &f
			break
		}
	}
	if fld == nil {
		return nil
	}
	vname := fmt.Sprintf("View%s%d", name, mod(o.N, 2))
	typ := "String"
	if fld.Kind == client.FieldKind_NILLABLE_INT {
		typ = "Int"
	}
	query := fmt.Sprintf("%s { %s }", name, fld.Name)
	sdl := fmt.Sprintf("type %s @materialized(if: %v) { %s: %s }", vname, o.B, fld.Name, typ)
	rt, f := w.both(o.K, query+" / "+sdl, func(n *hx.Node, _ bool) string {
		defs, err := n.DB.AddView(n.Ctx, query, sdl, immutable.None[model.Lens]())
		if err != nil {
			return errText(err)
		}
		return hx.Canon(hx.Normalize(defs))
	})
	if f != nil {
		return f
	}
	if !isErr(rt) {
		w.views++
		w.changed("schema")
		w.changed("view")
		w.allocated("collection")
		w.info.flag("op:addview-ok")
		if o.B {
			w.info.flag("op:addview-materialized")
		}
		{
			w.mirror(func(n *hx.Node) error {
				_, err := n.DB.AddView(n.Ctx, query, sdl, immutable.None[model.Lens]())
				return err
			})
		}
	}
	return nil
}

func (w *world) opRefreshViews(o Op) *hx.Failure {
	if w.views == 0 {
		return nil
	}
	rt, f := w.both(o.K, "all views", func(n *hx.Node, _ bool) string {
		return errText(n.DB.RefreshViews(n.Ctx, client.CollectionFetchOptions{}))
	})
	if f != nil {
		return f
	}
	if !isErr(rt) {
		w.changed("view")
		w.info.flag("op:refreshviews-ok")
	}
	return nil
}

// opPatchCol activates or deactivates one collection version directly (PatchCollection on IsActive).
func (w *world) opPatchCol(o Op) *hx.Failure {
	name, ok := w.pickCol(o.C)
	if !ok || len(w.versions[name]) == 0 {
		return nil
	}
	vs := w.versions[name]
	id := vs[mod(o.V, len(vs))]
	patch := fmt.Sprintf(`[{"op": "replace", "path": "/%s/IsActive", "value": %v}]`, id, o.B)
	rt, f := w.both(o.K, name+" "+patch, func(n *hx.Node, _ bool) string {
		return errText(n.DB.PatchCollection(n.Ctx, patch))
	})
	if f != nil {
		return f
	}
	if !isErr(rt) {
		w.changed("schema-version")
		w.info.flag("op:patchcol-ok")
		if !o.B {
			w.info.flag("op:patchcol-deactivate")
		}
		{
			w.mirror(func(n *hx.Node) error { return n.DB.PatchCollection(n.Ctx, patch) })
		}
	}
	return nil
}

func (w *world) actor(o Op) int {
	if w.mode != "acp" {
		return 0
	}
	return mod(o.X, 3)
}

func (w *world) opCreate(o Op) *hx.Failure {
	name, ok := w.pickCol(o.C)
	if !ok {
		return nil
	}
	def, ok := w.defOf(name)
	if !ok {
		return nil
	}
	var parts []string
	for k, f := range def.GetFields() {
		if f.Kind.IsObject() || f.Name == "_docID" {
			continue
		}
		if (o.V>>uint(k%6))&1 == 0 && k%3 != o.V%3 {
			continue
		}
		lit, ok := w.literal(f, o.V+3*k, o.D)
		if !ok {
			continue
		}
		parts = append(parts, f.Name+": "+lit)
	}
	q := fmt.Sprintf("mutation { create_%s(input: {%s}) { _docID } }", name, strings.Join(parts, ", "))
	who := w.actor(o)
	var ids []string
	rt, f := w.both(o.K, fmt.Sprintf("tx=%d %s %s", o.Tx, whoName(who), q), func(n *hx.Node, isR bool) string {
		var mine []string
		out := inTx(n, o.Tx, func(s client.Store, ctx context.Context) string {
			r := hx.ExecOn(withID(ctx, who), s, q)
			for _, row := range r.Rows("create_" + name) {
				if id, ok := row["_docID"].(string); ok {
					mine = append(mine, id)
				}
			}
			return renderResult(r)
		})
		if !isR {
			ids = mine
		}
		if o.K == opCreateP2PDoc && len(mine) > 0 {
			if w.c.Avoid && rec.IsKnown(sigTopicRace) {
				time.Sleep(25 * time.Millisecond)
			}
			out += " / AddP2PDocuments: " + errText(n.N.Peer.AddP2PDocuments(n.Ctx, mine...))
		}
		return out
	})
	if f != nil {
		return f
	}
	w.noteTx(o, rt)
	if o.Tx == 2 {
		return nil
	}
	if took(o, rt) {
		w.docs[name] = append(w.docs[name], ids...)
		for _, id := range ids {
			w.owner[id] = who
			w.createQ[id] = q
			if w.p2p != nil {
				w.p2p.notePublish(name, id)
				if o.K == opCreateP2PDoc {
					w.p2p.noteAdd(id)
					w.changed("peer-config")
					w.info.flag("op:createp2pdoc-ok")
				}
			}
		}
		w.changed("docs")
		w.info.flag("op:create-ok")
		if w.afterRst {
			w.info.flag("doc-created-after-restart")
		}
	} else {
		w.info.flag("op:create-rejected")
	}
	return nil
}

func (w *world) opUpdate(o Op) *hx.Failure {
	name, ok := w.pickColWithDocs(o.C)
	if !ok || len(w.docs[name]) == 0 {
		return nil
	}
	def, ok := w.defOf(name)
	if !ok {
		return nil
	}
	var fs []client.FieldDefinition
	for _, f := range def.GetFields() {
		if !f.Kind.IsObject() && f.Name != "_docID" {
			fs = append(fs, f)
		}
	}
	if len(fs) == 0 {
		return nil
	}
	fld := fs[mod(o.F, len(fs))]
	lit, ok := w.literal(fld, o.V, o.V)
	if !ok {
		return nil
	}
	id := w.docs[name][mod(o.D, len(w.docs[name]))]
	q := fmt.Sprintf("mutation { update_%s(docID: %q, input: {%s: %s}) { _docID } }", name, id, fld.Name, lit)
	who := w.actor(o)
	rt, f := w.both(o.K, fmt.Sprintf("tx=%d %s %s", o.Tx, whoName(who), q), func(n *hx.Node, _ bool) string {
		return inTx(n, o.Tx, func(s client.Store, ctx context.Context) string {
			return renderResult(hx.ExecOn(withID(ctx, who), s, q))
		})
	})
	if f != nil {
		return f
	}
	w.noteTx(o, rt)
	if took(o, rt) {
		w.changed("docs")
		w.info.flag("op:update-ok")
		if w.p2p != nil {
			w.p2p.notePublish(name, id)
		}
	}
	return nil
}

func (w *world) opDelete(o Op) *hx.Failure {
	name, ok := w.pickColWithDocs(o.C)
	if !ok || len(w.docs[name]) == 0 {
		return nil
	}
	id := w.docs[name][mod(o.D, len(w.docs[name]))]
	q := fmt.Sprintf("mutation { delete_%s(docID: %q) { _docID } }", name, id)
	who := w.actor(o)
	rt, f := w.both(o.K, fmt.Sprintf("tx=%d %s %s", o.Tx, whoName(who), q), func(n *hx.Node, _ bool) string {
		return inTx(n, o.Tx, func(s client.Store, ctx context.Context) string {
			return renderResult(hx.ExecOn(withID(ctx, who), s, q))
		})
	})
	if f != nil {
		return f
	}
	w.noteTx(o, rt)
	if took(o, rt) {
		w.changed("docs")
		w.info.flag("op:delete-ok")
		if w.p2p != nil {
			w.p2p.notePublish(name, id)
		}
	}
	return nil
}

// opInbound lets the source node commit (create a document, re-create one that R and T created themselves,
// update or delete one of its documents) and delivers every resulting commit to R and T: the block closure is
// copied into the node's blockstore and the head is merged, which is what the network layer does with a pushed log.
func (w *world) opInbound(o Op) *hx.Failure {
	name, ok := w.pickCol(o.C)
	if !ok {
		return nil
	}
	def, ok := w.defOf(name)
	if !ok {
		return nil
	}
	s := w.source()
	sub := mod(o.X, 6)
	mine := w.srcDocs[name]
	var q, what string
	switch {
	case sub == 2 && len(w.docs[name]) > 0 && w.createQ[w.docs[name][mod(o.D, len(w.docs[name]))]] != "":
		q, what = w.createQ[w.docs[name][mod(o.D, len(w.docs[name]))]], "adopt"
	case sub <= 2 || len(mine) == 0:
		var parts []string
		for k, f := range def.GetFields() {
			if f.Kind.IsObject() || f.Name == "_docID" {
				continue
			}
			if (o.V>>uint(k%6))&1 == 0 && k%3 != o.V%3 {
				continue
			}
			lit, ok := w.literal(f, o.V+3*k+1, o.D)
			if !ok {
				continue
			}
			parts = append(parts, f.Name+": "+lit)
		}
		q, what = fmt.Sprintf("mutation { create_%s(input: {%s}) { _docID } }", name, strings.Join(parts, ", ")), "create"
	case sub <= 4:
		var fs []client.FieldDefinition
		for _, f := range def.GetFields() {
			if !f.Kind.IsObject() && f.Name != "_docID" {
				fs = append(fs, f)
			}
		}
		if len(fs) == 0 {
			return nil
		}
		fld := fs[mod(o.F, len(fs))]
		lit, ok := w.literal(fld, o.V, o.V)
		if !ok {
			return nil
		}
		q, what = fmt.Sprintf("mutation { update_%s(docID: %q, input: {%s: %s}) { _docID } }", name, mine[mod(o.D, len(mine))], fld.Name, lit), "update"
	default:
		q, what = fmt.Sprintf("mutation { delete_%s(docID: %q) { _docID } }", name, mine[mod(o.D, len(mine))]), "delete"
	}
	w.srcTap.Take()
	res := hx.ExecOn(s.Ctx, s.DB, q)
	if !res.OK() {
		// the source's own refusal (a document it already has, a deleted document) says nothing about R and T
		w.info.flag("inbound:source-refused")
		return nil
	}
	for _, row := range res.Rows(strings.SplitN(strings.TrimPrefix(q, "mutation { "), "(", 2)[0]) {
		if id, ok := row["_docID"].(string); ok && what != "update" && what != "delete" {
			known := false
			for _, x := range w.srcDocs[name] {
				known = known || x == id
			}
			if !known {
				w.srcDocs[name] = append(w.srcDocs[name], id)
			}
		}
	}
	ups := w.srcTap.Take()
	if len(ups) == 0 {
		w.info.flag("inbound:no-commit")
		return nil
	}
	var snaps []snap
	for _, u := range ups {
		u := u
		rt, f := w.both(o.K, fmt.Sprintf("%s %s: merge %s of %q (collection %s)", what, trimTo(q, 200), u.Cid, u.DocID, u.CollectionID), func(n *hx.Node, _ bool) string {
			if _, err := hx.CopyClosure(n.Ctx, s, n, u.Cid); err != nil {
				hx.Harnessf("copy closure: %v", err)
			}
			return errText(n.DB.VerifMerge(n.Ctx, event.Merge{DocID: u.DocID, Cid: u.Cid, CollectionID: u.CollectionID}))
		})
		snaps = append(snaps, w.snaps...)
		if f != nil {
			return f
		}
		if isErr(rt) {
			w.info.flag("inbound:merge-refused")
			continue
		}
		w.info.flag("inbound:merge-ok")
		w.info.flag("inbound:" + what + "-merged")
		w.info.add("inbound-merges", 1)
		w.changed("docs")
		if u.DocID == "" {
			w.info.flag("inbound:collection-level-commit-merged")
			continue
		}
		if w.afterRst {
			w.info.flag("inbound:merge-after-restart")
		}
		if w.ixAfterMrg[name] {
			w.info.flag("inbound:merge-index-change-merge")
		}
		w.merged[name] = true
		known := false
		for _, x := range w.docs[name] {
			known = known || x == u.DocID
		}
		if !known {
			w.docs[name] = append(w.docs[name], u.DocID)
		}
	}
	// the crash points of this operation are the storage commits of all its merges
	w.snaps = snaps
	return nil
}

func (w *world) opRel(o Op) *hx.Failure {
	name, ok := w.pickColWithDocs(o.C)
	if !ok || len(w.docs[name]) == 0 {
		return nil
	}
	id := w.docs[name][mod(o.D, len(w.docs[name]))]
	rel := relNames[mod(o.N, len(relNames))]
	target := identities[mod(o.X, len(identities))].DID()
	by := w.owner[id]
	if by == 0 || o.B {
		by = 1 + mod(by, 2) // somebody who does not own the document
	}
	rt, f := w.both(o.K, fmt.Sprintf("%s %s %s -> identity%d by %s", name, id, rel, 1+mod(o.X, len(identities)), whoName(by)), func(n *hx.Node, _ bool) string {
		ctx := withID(n.Ctx, by)
		if o.K == opAddRel {
			r, err := n.DB.AddDACActorRelationship(ctx, name, id, rel, target)
			if err != nil {
				return errText(err)
			}
			return fmt.Sprintf("existed=%v", r.ExistedAlready)
		}
		r, err := n.DB.DeleteDACActorRelationship(ctx, name, id, rel, target)
		if err != nil {
			return errText(err)
		}
		return fmt.Sprintf("found=%v", r.RecordFound)
	})
	if f != nil {
		return f
	}
	if !isErr(rt) {
		w.changed("acp")
		w.info.flag("op:" + o.K + "-ok")
		if w.afterRst {
			w.info.flag("nt:allocation-after-restart")
			w.info.flag("acp-change-after-restart")
		}
	}
	return nil
}

// renderResult renders a GraphQL result as "error: …" / "PANIC…" / canonical data.
func renderResult(r hx.Result) string {
	if r.Panic != "" {
		if traceOn {
			fmt.Println("panic inside a request:", trimTo(r.Panic, 4000))
		}
		return "PANIC at " + hx.PanicSite(r.Panic) + ": " + strings.SplitN(r.Panic, "\n", 2)[0]
	}
	if len(r.Errors) > 0 {
		return "error: " + r.Err() + " data=" + hx.Canon(r.Data)
	}
	return hx.Canon(r.Data)
}
