package c14

import (
	"context"
	"fmt"
	"os"
	"testing"
	"time"

	"github.com/sourcenetwork/defradb/crypto"
	netConfig "github.com/sourcenetwork/defradb/net/config"
	"github.com/sourcenetwork/defradb/node"
	"github.com/sourcenetwork/defradb/verifharness/hx"
)

func TestProbe(t *testing.T) {
	if os.Getenv("C14_PROBE") == "" {
		t.Skip()
	}
	dir, rm := hx.Scratch("probe")
	defer rm()
	opts := []node.Option{
		node.WithBadgerInMemory(false),
		node.WithStorePath(dir + "/db"),
		node.WithDisableAPI(true),
		node.WithDisableP2P(true),
		node.WithDocumentACPType(node.LocalDocumentACPType),
		node.WithDocumentACPPath(dir + "/acp"),
	}
	t0 := time.Now()
	n, err := hx.NewNode(opts...)
	if err != nil {
		t.Fatal(err)
	}
	fmt.Println("boot file", time.Since(t0))
	_, err = n.DB.AddSchema(n.Ctx, `type A { s: String @index  i: Int }`)
	fmt.Println("addschema", err)
	r := n.Exec(`mutation { create_A(input:{s:"x", i:1}) { _docID } }`)
	fmt.Println(r.Data, r.Errors)
	t0 = time.Now()
	n.Close()
	fmt.Println("close file", time.Since(t0))
	for i := 0; i < 3; i++ {
		t0 = time.Now()
		n, err = hx.NewNode(opts...)
		if err != nil {
			t.Fatal(err)
		}
		fmt.Println("reboot file", time.Since(t0))
		r = n.Exec(`query { A { _docID s i } }`)
		fmt.Println(r.Data, r.Errors)
		t0 = time.Now()
		n.Close()
		fmt.Println("close file", time.Since(t0))
	}
	// p2p
	key, _ := crypto.GenerateEd25519()
	_ = key
	seed := make([]byte, 32)
	seed[0] = 7
	popts := []node.Option{
		node.WithBadgerInMemory(true),
		node.WithDisableAPI(true),
		node.WithDisableP2P(false),
		netConfig.WithListenAddresses("/ip4/127.0.0.1/tcp/0"),
	}
	for i := 0; i < 3; i++ {
		t0 = time.Now()
		p, err := hx.NewNode(popts...)
		if err != nil {
			t.Fatal(err)
		}
		fmt.Println("boot p2p", time.Since(t0), p.N.Peer.PeerInfo())
		t0 = time.Now()
		p.Close()
		fmt.Println("close p2p", time.Since(t0))
	}
	_ = context.Background()
}
