package c14

import (
	"fmt"
	"os"
	"testing"

	"github.com/sourcenetwork/defradb/internal/db"
	netConfig "github.com/sourcenetwork/defradb/net/config"
	"github.com/sourcenetwork/defradb/node"
	"github.com/sourcenetwork/defradb/verifharness/hx"
)

// TestProbeTopicRace: create a document and immediately AddP2PDocuments it; count dropped subscriptions.
func TestProbeTopicRace(t *testing.T) {
	if os.Getenv("C14_PROBE") == "" {
		t.Skip()
	}
	n, err := hx.NewNode(node.WithBadgerInMemory(true), node.WithDisableAPI(true), node.WithDisableP2P(false),
		node.WithDocumentACPType(node.NoDocumentACPType), db.WithEnabledSigning(false),
		netConfig.WithListenAddresses("/ip4/127.0.0.1/tcp/0"))
	if err != nil {
		t.Fatal(err)
	}
	defer n.Close()
	if _, err := n.DB.AddSchema(n.Ctx, `type A { i: Int }`); err != nil {
		t.Fatal(err)
	}
	missing := 0
	const N = 300
	for i := 0; i < N; i++ {
		r := n.Exec(fmt.Sprintf(`mutation { create_A(input: {i: %d}) { _docID } }`, i))
		id := r.Rows("create_A")[0]["_docID"].(string)
		if err := n.N.Peer.AddP2PDocuments(n.Ctx, id); err != nil {
			t.Fatal(err)
		}
		_, topics := memTables(n.N.Peer)
		found := false
		for _, tp := range topics {
			if tp == id {
				found = true
			}
		}
		if !found {
			missing++
		}
	}
	fmt.Printf("AddP2PDocuments right after create: %d of %d subscriptions silently missing\n", missing, N)
}
