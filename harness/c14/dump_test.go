package c14

import (
	"encoding/binary"
	"fmt"
	"sort"
	"strconv"
	"strings"

	"github.com/sourcenetwork/immutable"

	"github.com/sourcenetwork/defradb/client"
	"github.com/sourcenetwork/defradb/verifharness/hx"
)

// section is one part of the logical dump of a node.
type section struct {
	name  string // e.g. "documents/Aa"
	class string // signature component, e.g. "documents"
	text  string
}

type dumper struct {
	w    *world
	n    *hx.Node
	isR  bool
	out  []section
	errs []string
}

func (d *dumper) add(class, name, text string) {
	d.out = append(d.out, section{name: name, class: class, text: text})
}

func (d *dumper) safe(class, name string, f func() string) {
	text := safely(f)
	if strings.HasPrefix(text, "PANIC") {
		d.errs = append(d.errs, name+": "+text)
	}
	d.add(class, name, text)
}

func sortedCanon[T any](items []T, render func(T) string) string {
	out := make([]string, len(items))
	for i, it := range items {
		out[i] = render(it)
	}
	sort.Strings(out)
	return strings.Join(out, "\n")
}

func rowsText(r hx.Result, key string) string {
	if !r.OK() {
		return renderResult(r)
	}
	return strings.Join(hx.SortRows(r.Rows(key)), "\n")
}

// dump takes the logical dump of a node through its public API.
func (w *world) dump(n *hx.Node, isR bool) *dumper {
	d := &dumper{w: w, n: n, isR: isR}
	ctx := n.Ctx

	d.safe("collections", "collections (all versions)", func() string {
		cols, err := n.DB.GetCollections(ctx, client.CollectionFetchOptions{IncludeInactive: immutable.Some(true)})
		if err != nil {
			return errText(err)
		}
		return sortedCanon(cols, func(c client.Collection) string { return hx.Canon(hx.Normalize(c.Version())) })
	})
	d.safe("schemas", "schemas", func() string {
		ss, err := n.DB.GetSchemas(ctx, client.SchemaFetchOptions{})
		if err != nil {
			return errText(err)
		}
		return sortedCanon(ss, func(s client.SchemaDescription) string { return hx.Canon(hx.Normalize(s)) })
	})
	d.safe("indexes", "GetAllIndexes", func() string {
		m, err := n.DB.GetAllIndexes(ctx)
		if err != nil {
			return errText(err)
		}
		return hx.Canon(hx.Normalize(m))
	})
	d.safe("gql-types", "GraphQL introspection", func() string {
		r := n.Exec(`query { __schema { types { name kind fields { name type { name kind ofType { name kind } } } inputFields { name } enumValues { name } } } }`)
		if !r.OK() {
			return renderResult(r)
		}
		sch, _ := r.Data["__schema"].(map[string]any)
		types, _ := sch["types"].([]any)
		out := make([]string, 0, len(types))
		for _, t := range types {
			if m, ok := t.(map[string]any); ok {
				for _, key := range []string{"fields", "inputFields", "enumValues"} {
					if l, ok := m[key].([]any); ok {
						items := make([]string, len(l))
						for i, x := range l {
							items[i] = hx.Canon(x)
						}
						sort.Strings(items)
						m[key] = items
					}
				}
			}
			out = append(out, hx.Canon(t))
		}
		sort.Strings(out)
		return strings.Join(out, "\n")
	})

	var active []client.Collection
	d.safe("collections", "active collections", func() string {
		cols, err := n.DB.GetCollections(ctx, client.CollectionFetchOptions{})
		if err != nil {
			return errText(err)
		}
		sort.Slice(cols, func(i, j int) bool {
			if cols[i].Name() != cols[j].Name() {
				return cols[i].Name() < cols[j].Name()
			}
			return cols[i].Version().VersionID < cols[j].Version().VersionID
		})
		active = cols
		return sortedCanon(cols, func(c client.Collection) string { return c.Name() + " " + c.Version().VersionID })
	})

	for _, col := range active {
		col := col
		name := col.Name()
		if name == "" {
			continue
		}
		ver := col.Version()
		isView := len(ver.QuerySources()) > 0
		var sel []string
		for _, f := range col.Definition().GetFields() {
			switch {
			case f.Name == "_docID":
			case f.Kind.IsObject():
				if !isView {
					sel = append(sel, f.Name+" { _docID }")
				}
			default:
				sel = append(sel, f.Name)
			}
		}
		fields := strings.Join(sel, " ")
		d.safe("indexes", "collection.GetIndexes/"+name, func() string {
			ixs, err := col.GetIndexes(ctx)
			if err != nil {
				return errText(err)
			}
			return hx.Canon(hx.Normalize(ixs))
		})
		if isView {
			d.safe("views", "view/"+name, func() string {
				return rowsText(n.Exec(fmt.Sprintf("query { %s { %s } }", name, fields)), name)
			})
			continue
		}
		if w.mode == "acp" {
			// no showDeleted here: with a requester who may not read every document such a listing
			// never returns (known C10 finding), which is not this property's matter
			for who := 0; who <= len(identities); who++ {
				who := who
				d.safe("acp-read", fmt.Sprintf("documents/%s as %s", name, whoName(who)), func() string {
					q := fmt.Sprintf("query { %s { _docID %s } }", name, fields)
					return rowsText(hx.ExecOn(withID(ctx, who), n.DB, q), name)
				})
			}
		} else {
			d.safe("documents", "documents/"+name, func() string {
				q := fmt.Sprintf("query { %s(showDeleted: true) { _docID _deleted %s } }", name, fields)
				return rowsText(n.Exec(q), name)
			})
			// separate from the read above: _version next to a relation sub-selection panics in the planner
			// (selectNode.addSubPlan, with or without restart), which is not this property's matter
			d.safe("documents", "document versions/"+name, func() string {
				q := fmt.Sprintf("query { %s(showDeleted: true) { _docID _version { cid height schemaVersionId } } }", name)
				return rowsText(n.Exec(q), name)
			})
			d.safe("docids", "collection.GetAllDocIDs/"+name, func() string {
				ch, err := col.GetAllDocIDs(ctx)
				if err != nil {
					return errText(err)
				}
				var ids []string
				var firstErr error
				for r := range ch {
					if r.Err != nil {
						if firstErr == nil {
							firstErr = r.Err
						}
						continue
					}
					ids = append(ids, r.ID.String())
				}
				if firstErr != nil {
					return errText(firstErr)
				}
				sort.Strings(ids)
				return strings.Join(ids, " ")
			})
		}
		// one read per index, shaped so that the planner can serve it from the index
		for _, ix := range ver.Indexes {
			if len(ix.Fields) == 0 {
				continue
			}
			fd, ok := col.Definition().GetFieldByName(ix.Fields[0].Name)
			if !ok {
				continue
			}
			var filters []string
			switch fd.Kind {
			case client.FieldKind_NILLABLE_STRING:
				filters = []string{`{_eq: "a"}`, `{_gt: ""}`}
			case client.FieldKind_NILLABLE_INT:
				filters = []string{`{_eq: 1}`, `{_ge: 0}`}
			case client.FieldKind_NILLABLE_FLOAT64:
				filters = []string{`{_lt: 1.0}`}
			case client.FieldKind_NILLABLE_BOOL:
				filters = []string{`{_eq: true}`}
			case client.FieldKind_NILLABLE_DATETIME:
				filters = []string{`{_ge: "2000-01-01T00:00:00Z"}`}
			case client.FieldKind_DocID:
				if ids := w.docs[relatedOf[fd.Name]]; len(ids) > 0 {
					filters = []string{fmt.Sprintf(`{_eq: %q}`, ids[0])}
				}
			}
			for _, flt := range filters {
				flt := flt
				d.safe("index-query", fmt.Sprintf("index-query/%s/%s %s", name, ix.Name, flt), func() string {
					q := fmt.Sprintf("query { %s(filter: {%s: %s}) { _docID %s } }", name, fd.Name, flt, fd.Name)
					return rowsText(hx.ExecOn(withID(ctx, 1), n.DB, q), name)
				})
			}
		}
	}

	d.safe("commits", "commits", func() string {
		r := hx.ExecOn(withID(ctx, 1), n.DB, `query { commits { cid docID fieldName height schemaVersionId delta links { cid name } } }`)
		if !r.OK() {
			return renderResult(r)
		}
		rows := r.Rows("commits")
		for _, row := range rows {
			if l, ok := row["links"].([]any); ok {
				items := make([]string, len(l))
				for i, x := range l {
					items[i] = hx.Canon(x)
				}
				sort.Strings(items)
				row["links"] = items
			}
		}
		return strings.Join(hx.SortRows(rows), "\n")
	})

	d.safe("allocation-state", "identifier allocation state (raw system store: sequences, short ids)", func() string {
		lines, _ := allocState(n)
		return strings.Join(lines, "\n")
	})

	if w.p2p != nil {
		w.p2p.dump(d)
	}
	return d
}

// allocState reads the sequences and the short-id tables from the raw system store and checks the
// invariant behind "no identifier reuse": every sequence is at least the largest identifier handed
// out from it, and no short id is assigned twice. violation is "" when the invariant holds.
func allocState(n *hx.Node) (lines []string, violation string) {
	read := func(prefix string) []hx.FaultKV {
		kvs, err := hx.FaultSnapshotOf(n.DB.Rootstore(), []byte(prefix))
		if err != nil {
			hx.Harnessf("raw read of %s: %v", prefix, err)
		}
		return kvs
	}
	seqs := map[string]uint64{}
	for _, kv := range read("/db/system/seq/") {
		k := strings.TrimPrefix(string(kv.K), "/db/system")
		var v uint64
		if len(kv.V) == 8 {
			v = binary.BigEndian.Uint64(kv.V)
		} else {
			violation = fmt.Sprintf("sequence %s has a %d-byte value", k, len(kv.V))
		}
		seqs[k] = v
		lines = append(lines, fmt.Sprintf("%s = %d", k, v))
	}
	note := func(msg string) {
		if violation == "" {
			violation = msg
		}
	}
	// collection short ids
	seen := map[string]string{}
	shortOf := map[string]string{}
	var maxCol uint64
	for _, kv := range read("/db/system/collection/shortID/") {
		k := strings.TrimPrefix(string(kv.K), "/db/system")
		lines = append(lines, fmt.Sprintf("%s = %s", k, kv.V))
		shortOf[k] = string(kv.V)
		id, err := strconv.ParseUint(string(kv.V), 10, 64)
		if err != nil {
			note(fmt.Sprintf("short id %s = %q is not a number", k, kv.V))
			continue
		}
		if other, dup := seen[string(kv.V)]; dup {
			note(fmt.Sprintf("collection short id %d is assigned to both %s and %s", id, other, k))
		}
		seen[string(kv.V)] = k
		if id > maxCol {
			maxCol = id
		}
	}
	if maxCol > seqs["/seq/collection"] {
		note(fmt.Sprintf("collection short id %d has been handed out but the persisted sequence /seq/collection is %d: the next collection reuses an id", maxCol, seqs["/seq/collection"]))
	}
	// field short ids, per collection short id
	maxField := map[string]uint64{}
	seenF := map[string]string{}
	for _, kv := range read("/db/system/field/shortID/") {
		k := strings.TrimPrefix(string(kv.K), "/db/system")
		lines = append(lines, fmt.Sprintf("%s = %s", k, kv.V))
		parts := strings.Split(strings.TrimPrefix(k, "/field/shortID/"), "/")
		id, err := strconv.ParseUint(string(kv.V), 10, 64)
		if err != nil || len(parts) != 2 {
			note(fmt.Sprintf("field short id entry %s = %q is malformed", k, kv.V))
			continue
		}
		key := parts[0] + "#" + string(kv.V)
		if other, dup := seenF[key]; dup {
			note(fmt.Sprintf("field short id %d of collection %s is assigned to both %s and %s", id, parts[0], other, k))
		}
		seenF[key] = k
		if id > maxField[parts[0]] {
			maxField[parts[0]] = id
		}
	}
	for col, m := range maxField {
		if s := seqs["/seq/field/"+col]; m > s {
			note(fmt.Sprintf("field short id %d of collection %s has been handed out but the persisted sequence /seq/field/%s is %d", m, col, col, s))
		}
	}
	// index ids, per collection id, from the descriptions of all versions
	cols, err := n.DB.GetCollections(n.Ctx, client.CollectionFetchOptions{IncludeInactive: immutable.Some(true)})
	if err == nil {
		maxIx := map[string]uint32{}
		for _, c := range cols {
			v := c.Version()
			if v.CollectionID != "" {
				if _, ok := shortOf["/collection/shortID/"+v.CollectionID]; !ok {
					note(fmt.Sprintf("collection %q (collection id %s) is described in the store but has no persisted short id: its keys cannot be built after a restart", v.Name, v.CollectionID))
				}
			}
			for _, ix := range v.Indexes {
				if ix.ID > maxIx[v.CollectionID] {
					maxIx[v.CollectionID] = ix.ID
				}
			}
		}
		ids := make([]string, 0, len(maxIx))
		for id := range maxIx {
			ids = append(ids, id)
		}
		sort.Strings(ids)
		for _, id := range ids {
			if s := seqs["/seq/index/"+id]; uint64(maxIx[id]) > s {
				note(fmt.Sprintf("index id %d exists in collection %s but the persisted sequence /seq/index/%s is %d: the next index reuses an id", maxIx[id], id, id, s))
			}
		}
	}
	sort.Strings(lines)
	return lines, violation
}

// firstDiff describes the first differing line of two texts.
func firstDiff(a, b string) string {
	la, lb := strings.Split(a, "\n"), strings.Split(b, "\n")
	ma, mb := map[string]int{}, map[string]int{}
	for _, l := range la {
		ma[l]++
	}
	for _, l := range lb {
		mb[l]++
	}
	var onlyA, onlyB []string
	for _, l := range la {
		if mb[l] < ma[l] {
			onlyA = append(onlyA, l)
		}
	}
	for _, l := range lb {
		if ma[l] < mb[l] {
			onlyB = append(onlyB, l)
		}
	}
	var sb strings.Builder
	for i, l := range onlyA {
		if i >= 4 {
			fmt.Fprintf(&sb, "   … %d more\n", len(onlyA)-i)
			break
		}
		fmt.Fprintf(&sb, "   only restarted/reopened: %s\n", trimTo(l, 700))
	}
	for i, l := range onlyB {
		if i >= 4 {
			fmt.Fprintf(&sb, "   … %d more\n", len(onlyB)-i)
			break
		}
		fmt.Fprintf(&sb, "   only twin:               %s\n", trimTo(l, 700))
	}
	if sb.Len() == 0 {
		return "   (same lines, different order)\n"
	}
	return sb.String()
}

// diffDumps returns the first section in which two dumps differ.
func diffDumps(a, b *dumper) (class, desc string, differ bool) {
	bm := map[string]section{}
	for _, s := range b.out {
		bm[s.name] = s
	}
	seen := map[string]bool{}
	for _, s := range a.out {
		seen[s.name] = true
		t, ok := bm[s.name]
		if !ok {
			return s.class, fmt.Sprintf("section %q exists only on the restarted/reopened node:\n%s", s.name, trimTo(s.text, 800)), true
		}
		if s.text != t.text {
			return s.class, fmt.Sprintf("section %q differs:\n%s", s.name, firstDiff(s.text, t.text)), true
		}
	}
	for _, t := range b.out {
		if !seen[t.name] {
			return t.class, fmt.Sprintf("section %q exists only on the twin:\n%s", t.name, trimTo(t.text, 800)), true
		}
	}
	return "", "", false
}

const sigEmptyDBTypes = "C14/dump/gql-types/empty-database-first-boot-vs-restart"

// emptyDatabase reports a dump of a database that holds no collection version and no schema at all.
// Diagnoser of the known finding: the GraphQL types of such a database differ between the first boot
// (parser bootstrap schema) and any later start (loadSchema generates the collection-independent types).
func emptyDatabase(d *dumper) bool {
	n := 0
	for _, s := range d.out {
		if s.name == "collections (all versions)" || s.name == "schemas" {
			n++
			if s.text != "" {
				return false
			}
		}
	}
	return n == 2
}

// compareDumps compares the logical dumps of R and T.
func (w *world) compareDumps(phase string) *hx.Failure {
	dr := w.dump(w.R, true)
	dt := w.dump(w.T, false)
	w.info.add("dump-comparisons", 1)
	if len(dr.errs) > 0 && len(dt.errs) == 0 {
		return hx.Failf("C14/dump/"+phase+"/panic-only-on-restarted-node", "step %d (%s): %s\n%s", w.step, phase, strings.Join(dr.errs, "; "), w.history())
	}
	class, desc, differ := diffDumps(dr, dt)
	if !differ {
		return nil
	}
	if class == "gql-types" && emptyDatabase(dr) && emptyDatabase(dt) {
		return hx.Failf(sigEmptyDBTypes, "step %d (%s): %s%s", w.step, phase, desc, w.history())
	}
	if class == "subscribed-topics" && w.p2p != nil {
		var rt, tt string
		for _, s := range dr.out {
			if s.class == class {
				rt = s.text
			}
		}
		for _, s := range dt.out {
			if s.class == class {
				tt = s.text
			}
		}
		if w.p2p.explainsTopicDiff(rt, tt) {
			return hx.Failf(sigTopicRace, "step %d (%s): %s%s", w.step, phase, desc, w.history())
		}
	}
	if w.restarts == 0 {
		hx.Harnessf("step %d (%s): dumps of R and T differ although R was never restarted: %s", w.step, phase, desc)
	}
	return hx.Failf("C14/dump/"+phase+"/"+class,
		"step %d (%s, after %d restart(s)): the logical dump of the restarted node differs from the never-restarted twin's; %s%s",
		w.step, phase, w.restarts, desc, w.history())
}

// ---------------------------------------------------------------- crash points

// crashAfter opens the snapshots recorded while the operation ran on T, if the case asks for it.
func (w *world) crashAfter(o Op, f *hx.Failure) *hx.Failure {
	if f != nil || w.mode != "core" || len(w.snaps) == 0 {
		w.snaps = w.snaps[:0]
		return f
	}
	snaps := w.snaps
	w.snaps = nil
	if len(snaps) > 1 {
		w.info.flag("op-with-several-storage-commits")
	}
	if !w.c.CrashAll && !o.Crash {
		return nil
	}
	var dt *dumper
	for i, s := range snaps {
		last := i == len(snaps)-1
		if !last && !w.c.CrashAll {
			continue
		}
		store, err := hx.NewFaultMemStore()
		if err != nil {
			hx.Harnessf("crash store: %v", err)
		}
		if err := hx.FaultRestore(store, s.kvs); err != nil {
			_ = store.Close()
			hx.Harnessf("crash restore: %v", err)
		}
		var n *hx.Node
		bootErr := safely(func() string {
			var err error
			n, err = hx.NewFaultNodeOn(store, dbOptsCore()...)
			return errText(err)
		})
		if bootErr != "ok" {
			_ = store.Close()
			return hx.Failf("C14/crash/boot-error", "step %d %s: a fresh node opened on the store contents after storage commit #%d (%d of %d of this operation) does not start: %s\n%s",
				w.step, o.K, s.seq, i+1, len(snaps), bootErr, w.history())
		}
		dc := w.dump(n, true)
		_, inv := allocState(n)
		n.Close()
		if inv != "" {
			return hx.Failf("C14/crash/identifier-allocation-invariant", "step %d %s: store contents after storage commit #%d (%d of %d of this operation): %s\n%s",
				w.step, o.K, s.seq, i+1, len(snaps), inv, w.history())
		}
		w.info.add("crash-snapshots-opened", 1)
		w.info.flag("crash-snapshot-opened")
		if w.afterRst {
			w.info.flag("crash-snapshot-after-restart")
		}
		if dt == nil {
			dt = w.dump(w.T, false)
		}
		if len(dc.errs) > 0 && len(dt.errs) == 0 {
			return hx.Failf("C14/crash/dump-panic", "step %d %s: node opened on the store contents after storage commit #%d panics while answering the dump (the running twin does not): %s\n%s",
				w.step, o.K, s.seq, strings.Join(dc.errs, "; "), w.history())
		}
		if !last {
			w.info.flag("crash-snapshot-mid-operation")
			continue
		}
		if class, desc, differ := diffDumps(dc, dt); differ {
			if class == "gql-types" && emptyDatabase(dc) && emptyDatabase(dt) {
				return hx.Failf(sigEmptyDBTypes, "step %d %s (crash point): %s%s", w.step, o.K, desc, w.history())
			}
			return hx.Failf("C14/crash/"+class, "step %d %s: a fresh node opened on the store contents as of the last storage commit (#%d) of this operation differs from the running twin; %s%s",
				w.step, o.K, s.seq, desc, w.history())
		}
	}
	return nil
}
