package c14

import (
	"fmt"
	"reflect"
	"sort"
	"strings"
	"sync"
	"time"
	"unsafe"

	"github.com/libp2p/go-libp2p/core/peer"

	"github.com/sourcenetwork/defradb/event"
	"github.com/sourcenetwork/defradb/internal/db"
	"github.com/sourcenetwork/defradb/net"
	netConfig "github.com/sourcenetwork/defradb/net/config"
	"github.com/sourcenetwork/defradb/node"
	"github.com/sourcenetwork/defradb/verifharness/hx"
)

func dbOptsCore() []db.Option { return []db.Option{db.WithEnabledSigning(false)} }

// p2pWorld holds what the peer-configuration mode needs: the replicator targets (live loopback
// peers that mirror the schema, two per side so that R's and T's networks stay disjoint), the
// bus subscriptions used to wait for the asynchronous part of SetReplicator, and the log of
// schema operations a late-created target has to replay.
type p2pWorld struct {
	w *world
	// targets[side][i]; side 0 = R's, 1 = T's
	targets   [2][2]*hx.Node
	schemaLog []func(n *hx.Node) error
	subs      [2]*repSub
	// pub[side]: topics (docID / collection id) on which the current process instance of that side has
	// published an update; raced[side]: topics subscribed by an Add operation while pub was set.
	// Used by the diagnoser of the known subscription race.
	pub, raced [2]map[string]bool
}

const sigTopicRace = "C14/p2p/subscription-dropped/add-p2p-topic-races-with-publish"

// notePublish records that both sides published an update for a document of a collection.
func (p *p2pWorld) notePublish(col, docID string) {
	topics := []string{docID}
	if c, err := p.w.T.DB.GetCollectionByName(p.w.T.Ctx, col); err == nil {
		topics = append(topics, c.SchemaRoot())
	}
	for side := range p.pub {
		for _, t := range topics {
			if t != "" {
				p.pub[side][t] = true
			}
		}
	}
}

func (p *p2pWorld) noteAdd(topic string) {
	for side := range p.pub {
		if p.pub[side][topic] {
			p.raced[side][topic] = true
			p.w.info.flag("add-p2p-topic-after-publish-in-same-lifetime")
		}
	}
}

func (p *p2pWorld) restartedR() {
	p.pub[0], p.raced[0] = map[string]bool{}, map[string]bool{}
}

// quiesce gives an in-flight publish on the topic time to finish (avoidance of the known race; the
// code under test offers no completion signal for the asynchronous publish).
func (p *p2pWorld) quiesce(topic string) {
	if p.w.c.Avoid && rec.IsKnown(sigTopicRace) && (p.pub[0][topic] || p.pub[1][topic]) {
		time.Sleep(25 * time.Millisecond)
	}
}

// explainsTopicDiff reports whether a difference of the subscribed-topic sets is fully explained by
// the known race: every topic missing on one side was subscribed by AddP2PCollections/AddP2PDocuments
// on that side's current process instance after the same instance had published an update on the
// topic (the asynchronous temporary join of publishLog makes the subscription fail, which is only logged).
func (p *p2pWorld) explainsTopicDiff(rText, tText string) bool {
	set := func(s string) map[string]bool {
		m := map[string]bool{}
		for _, l := range strings.Split(s, "\n") {
			if l != "" {
				m[l] = true
			}
		}
		return m
	}
	r, t := set(rText), set(tText)
	n := 0
	for topic := range r {
		if !t[topic] {
			n++
			if !p.raced[1][topic] {
				return false
			}
		}
	}
	for topic := range t {
		if !r[topic] {
			n++
			if !p.raced[0][topic] {
				return false
			}
		}
	}
	return n > 0
}

// repSub counts replicator-completed events of one node.
type repSub struct {
	bus  event.Bus
	sub  event.Subscription
	mu   sync.Mutex
	n    int
	cond *sync.Cond
	done chan struct{}
}

func newRepSub(bus event.Bus) *repSub {
	sub, err := bus.Subscribe(event.ReplicatorCompletedName)
	if err != nil {
		hx.Harnessf("subscribe: %v", err)
	}
	s := &repSub{bus: bus, sub: sub, done: make(chan struct{})}
	s.cond = sync.NewCond(&s.mu)
	go func() {
		defer close(s.done)
		for range sub.Message() {
			s.mu.Lock()
			s.n++
			s.cond.Broadcast()
			s.mu.Unlock()
		}
	}()
	return s
}

func (s *repSub) count() int {
	s.mu.Lock()
	defer s.mu.Unlock()
	return s.n
}

// waitFor blocks until the counter reaches n. The event always follows a committed replicator
// change; not seeing it within a minute means the harness (or the machine) is wedged.
func (s *repSub) waitFor(n int) {
	timer := time.AfterFunc(60*time.Second, func() {
		s.mu.Lock()
		s.n = -1 << 30
		s.cond.Broadcast()
		s.mu.Unlock()
	})
	defer timer.Stop()
	s.mu.Lock()
	defer s.mu.Unlock()
	for s.n >= 0 && s.n < n {
		s.cond.Wait()
	}
	if s.n < 0 {
		hx.Harnessf("no replicator-completed event within 60 s")
	}
}

func (s *repSub) stop() {
	if s == nil {
		return
	}
	s.bus.Unsubscribe(s.sub)
}

func newP2PWorld(w *world) *p2pWorld {
	p := &p2pWorld{w: w}
	for side := range p.pub {
		p.pub[side], p.raced[side] = map[string]bool{}, map[string]bool{}
	}
	return p
}

func (p *p2pWorld) attach() {
	p.subs[0] = newRepSub(p.w.R.DB.Events())
	p.subs[1] = newRepSub(p.w.T.DB.Events())
}

func (p *p2pWorld) detachR() {
	p.subs[0].stop()
	p.subs[0] = nil
}

func (p *p2pWorld) attachR() { p.subs[0] = newRepSub(p.w.R.DB.Events()) }

func (p *p2pWorld) close() {
	for _, side := range p.targets {
		for _, n := range side {
			if n != nil {
				n.Close()
			}
		}
	}
}

// target returns (creating it on first use) replicator target i of the given side.
func (p *p2pWorld) target(side, i int) *hx.Node {
	if n := p.targets[side][i]; n != nil {
		return n
	}
	n, err := hx.NewNode(
		node.WithBadgerInMemory(true), node.WithDisableAPI(true), node.WithDisableP2P(false),
		node.WithDocumentACPType(node.NoDocumentACPType), db.WithEnabledSigning(false),
		netConfig.WithListenAddresses("/ip4/127.0.0.1/tcp/0"), netConfig.WithPrivateKey(edKey(byte(0x10+side*2+i))),
	)
	if err != nil {
		hx.Harnessf("cannot boot replicator target: %v", err)
	}
	for _, f := range p.schemaLog {
		if err := f(n); err != nil {
			hx.Harnessf("replicator target rejects a mirrored schema operation: %v", err)
		}
	}
	p.targets[side][i] = n
	return n
}

// mirror applies a schema operation that succeeded on R and T to the replicator targets.
func (p *p2pWorld) mirror(g func(n *hx.Node) error) {
	// a target merges pushed documents in the background; a schema change can conflict with that and is retried
	f := func(n *hx.Node) error {
		var err error
		for attempt := 0; attempt < 50; attempt++ {
			err = g(n)
			if err == nil || !strings.Contains(strings.ToLower(err.Error()), "transaction conflict") {
				break
			}
			time.Sleep(5 * time.Millisecond)
		}
		return err
	}
	p.schemaLog = append(p.schemaLog, f)
	for _, side := range p.targets {
		for _, n := range side {
			if n != nil {
				if err := f(n); err != nil {
					hx.Harnessf("replicator target rejects a mirrored schema operation: %v", err)
				}
			}
		}
	}
}

// symbolic replaces peer ids by role names so that texts of R and T are comparable.
func (p *p2pWorld) symbolic(s string, isR bool) string {
	side := 1
	self := p.w.T
	if isR {
		side, self = 0, p.w.R
	}
	if self != nil && self.N.Peer != nil {
		s = strings.ReplaceAll(s, self.N.Peer.PeerInfo().ID.String(), "<self>")
	}
	for i, n := range p.targets[side] {
		if n != nil {
			s = strings.ReplaceAll(s, n.N.Peer.PeerInfo().ID.String(), fmt.Sprintf("<target%d>", i))
		}
	}
	return s
}

func (p *p2pWorld) colNames(mask int) []string {
	if mask == 0 || len(p.w.cols) == 0 {
		return nil
	}
	var out []string
	for k, name := range p.w.cols {
		if mask&(1<<(k%3)) != 0 {
			out = append(out, name)
		}
	}
	return out
}

func (p *p2pWorld) apply(o Op) *hx.Failure {
	w := p.w
	note := func(rt string) {
		if !isErr(rt) {
			w.changed("peer-config")
			w.info.flag("op:" + o.K + "-ok")
			if w.afterRst {
				w.info.flag("nt:allocation-after-restart")
				w.info.flag("peer-config-change-after-restart")
			}
		} else {
			w.info.flag("op:" + o.K + "-rejected")
		}
	}
	switch o.K {
	case opSetRep, opDelRep:
		i := mod(o.X, 2)
		names := p.colNames(o.V)
		// both targets exist before the operation runs on either side
		p.target(0, i)
		p.target(1, i)
		rt, f := w.both(o.K, fmt.Sprintf("target%d collections=%v", i, names), func(n *hx.Node, isR bool) string {
			side := 1
			if isR {
				side = 0
			}
			info := p.targets[side][i].N.Peer.PeerInfo()
			before := p.subs[side].count()
			// A replicator change can meet a transaction conflict with the peer's own bookkeeping
			// (status update after a push); the caller's remedy is to retry, so the check does.
			var err error
			for attempt := 0; attempt < 50; attempt++ {
				if o.K == opSetRep {
					err = n.N.Peer.SetReplicator(n.Ctx, info, names...)
				} else {
					err = n.N.Peer.DeleteReplicator(n.Ctx, info, names...)
				}
				if err == nil || !strings.Contains(strings.ToLower(err.Error()), "transaction conflict") {
					break
				}
				w.info.flag("replicator-change-retried-after-conflict")
			}
			if err == nil {
				// the in-memory table is updated asynchronously; the event marks its completion
				p.subs[side].waitFor(before + 1)
			}
			return errText(err)
		})
		if f != nil {
			return f
		}
		note(rt)
	case opAddP2PCol, opRemP2PCol:
		name, ok := w.pickCol(o.C)
		if !ok {
			return nil
		}
		topic := ""
		if c, err := w.T.DB.GetCollectionByName(w.T.Ctx, name); err == nil {
			topic = c.SchemaRoot()
		}
		if o.K == opAddP2PCol {
			p.quiesce(topic)
		}
		rt, f := w.both(o.K, name, func(n *hx.Node, _ bool) string {
			if o.K == opAddP2PCol {
				return errText(n.N.Peer.AddP2PCollections(n.Ctx, name))
			}
			return errText(n.N.Peer.RemoveP2PCollections(n.Ctx, name))
		})
		if f != nil {
			return f
		}
		note(rt)
		if o.K == opAddP2PCol && !isErr(rt) {
			p.noteAdd(topic)
		}
	case opAddP2PDoc, opRemP2PDoc:
		name, ok := w.pickColWithDocs(o.C)
		if !ok || len(w.docs[name]) == 0 {
			return nil
		}
		id := w.docs[name][mod(o.D, len(w.docs[name]))]
		if o.K == opAddP2PDoc {
			p.quiesce(id)
		}
		rt, f := w.both(o.K, id, func(n *hx.Node, _ bool) string {
			if o.K == opAddP2PDoc {
				return errText(n.N.Peer.AddP2PDocuments(n.Ctx, id))
			}
			return errText(n.N.Peer.RemoveP2PDocuments(n.Ctx, id))
		})
		if f != nil {
			return f
		}
		note(rt)
		if o.K == opAddP2PDoc && !isErr(rt) {
			p.noteAdd(id)
		}
	}
	return nil
}

// memTables reads the peer's in-memory configuration: collection id -> replicator peer ids, and the
// set of pubsub topics the peer is subscribed to. These tables are what decides where updates are
// pushed and which topics are listened to; they have no public accessor, so they are read through
// reflection under the server's own mutex.
func memTables(pr node.Peer) (reps map[string][]string, topics []string) {
	np, ok := pr.(*net.Peer)
	if !ok {
		hx.Harnessf("peer is %T", pr)
	}
	sv := reflect.ValueOf(np.Server()).Elem()
	muF := sv.FieldByName("mu")
	repF := sv.FieldByName("replicators")
	topF := sv.FieldByName("topics")
	if !muF.IsValid() || !repF.IsValid() || !topF.IsValid() || repF.Kind() != reflect.Map || topF.Kind() != reflect.Map {
		hx.Harnessf("net.server no longer has the fields mu/replicators/topics the check reads")
	}
	mu := (*sync.Mutex)(unsafe.Pointer(muF.UnsafeAddr()))
	mu.Lock()
	defer mu.Unlock()
	reps = map[string][]string{}
	it := repF.MapRange()
	for it.Next() {
		var ids []string
		in := it.Value().MapRange()
		for in.Next() {
			ids = append(ids, peer.ID(in.Key().String()).String())
		}
		sort.Strings(ids)
		if len(ids) > 0 {
			reps[it.Key().String()] = ids
		}
	}
	tt := topF.MapRange()
	for tt.Next() {
		sub := tt.Value().FieldByName("subscribed")
		if !sub.IsValid() {
			hx.Harnessf("net.pubsubTopic no longer has the field subscribed")
		}
		if sub.Bool() {
			topics = append(topics, tt.Key().String())
		}
	}
	sort.Strings(topics)
	return reps, topics
}

func (p *p2pWorld) dump(d *dumper) {
	n := d.n
	if n.N == nil || n.N.Peer == nil {
		return
	}
	pr := n.N.Peer
	d.safe("replicators", "GetAllReplicators", func() string {
		reps, err := pr.GetAllReplicators(n.Ctx)
		if err != nil {
			return errText(err)
		}
		out := make([]string, len(reps))
		for i, r := range reps {
			cols := append([]string{}, r.CollectionIDs...)
			sort.Strings(cols)
			// status and its timestamp follow the outcome of pushes, which is a matter of timing
			out[i] = p.symbolic(fmt.Sprintf("%s addrs=%d collections=%v", r.Info.ID, len(r.Info.Addrs), cols), d.isR)
		}
		sort.Strings(out)
		return strings.Join(out, "\n")
	})
	d.safe("p2p-collections", "GetAllP2PCollections", func() string {
		cols, err := pr.GetAllP2PCollections(n.Ctx)
		if err != nil {
			return errText(err)
		}
		sort.Strings(cols)
		return strings.Join(cols, " ")
	})
	d.safe("p2p-documents", "GetAllP2PDocuments", func() string {
		ids, err := pr.GetAllP2PDocuments(n.Ctx)
		if err != nil {
			return errText(err)
		}
		sort.Strings(ids)
		return strings.Join(ids, " ")
	})
	reps, topics := memTables(pr)
	var lines []string
	for col, ids := range reps {
		sym := make([]string, len(ids))
		for i, id := range ids {
			sym[i] = p.symbolic(id, d.isR)
		}
		sort.Strings(sym)
		lines = append(lines, col+" -> "+strings.Join(sym, ","))
	}
	sort.Strings(lines)
	d.add("active-replicators", "replicator table in effect (collection -> peers)", strings.Join(lines, "\n"))
	d.add("subscribed-topics", "pubsub topics subscribed", strings.Join(topics, "\n"))
}
