package hx

import (
	"encoding/json"
	"math"
	"sort"
	"strconv"
	"strings"
)

// CanonValue renders a JSON-like value (as produced by Normalize / Exec, or
// decoded with UseNumber) canonically: object keys sorted, numbers printed so
// that 2, 2.0 and 2e0 coincide, exact for int64 and for float64 otherwise.
func CanonValue(v any) string {
	var sb strings.Builder
	canonInto(&sb, v)
	return sb.String()
}

func canonNumber(s string) string {
	if i, err := strconv.ParseInt(s, 10, 64); err == nil {
		return strconv.FormatInt(i, 10)
	}
	if u, err := strconv.ParseUint(s, 10, 64); err == nil {
		return strconv.FormatUint(u, 10)
	}
	f, err := strconv.ParseFloat(s, 64)
	if err != nil {
		return "num:" + s
	}
	if f == math.Trunc(f) && math.Abs(f) < 1e15 {
		return strconv.FormatInt(int64(f), 10)
	}
	return strconv.FormatFloat(f, 'g', -1, 64)
}

func canonInto(sb *strings.Builder, v any) {
	switch x := v.(type) {
	case nil:
		sb.WriteString("null")
	case json.Number:
		sb.WriteString(canonNumber(x.String()))
	case float64:
		sb.WriteString(canonNumber(strconv.FormatFloat(x, 'g', -1, 64)))
	case int:
		sb.WriteString(strconv.Itoa(x))
	case int64:
		sb.WriteString(strconv.FormatInt(x, 10))
	case bool:
		if x {
			sb.WriteString("true")
		} else {
			sb.WriteString("false")
		}
	case string:
		b, _ := json.Marshal(x)
		sb.Write(b)
	case []any:
		sb.WriteByte('[')
		for i, e := range x {
			if i > 0 {
				sb.WriteByte(',')
			}
			canonInto(sb, e)
		}
		sb.WriteByte(']')
	case map[string]any:
		keys := make([]string, 0, len(x))
		for k := range x {
			keys = append(keys, k)
		}
		sort.Strings(keys)
		sb.WriteByte('{')
		for i, k := range keys {
			if i > 0 {
				sb.WriteByte(',')
			}
			b, _ := json.Marshal(k)
			sb.Write(b)
			sb.WriteByte(':')
			canonInto(sb, x[k])
		}
		sb.WriteByte('}')
	case []map[string]any:
		sb.WriteByte('[')
		for i, e := range x {
			if i > 0 {
				sb.WriteByte(',')
			}
			canonInto(sb, e)
		}
		sb.WriteByte(']')
	default:
		canonInto(sb, Normalize(v))
	}
}

// ParseJSON decodes a JSON text into the generic form with json.Number.
func ParseJSON(s string) any {
	dec := json.NewDecoder(strings.NewReader(s))
	dec.UseNumber()
	var out any
	if err := dec.Decode(&out); err != nil {
		Harnessf("bad JSON literal %q: %v", s, err)
	}
	return out
}
