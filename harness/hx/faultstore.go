package hx

// Fault-injecting key-value store (used by C05, C14, C20).
//
// FaultStore wraps a corekv.TxnStore (normally Badger in-memory) and is handed to
// db.NewDB in place of the real root store (NewFaultNode does that). It sees every
// storage operation DefraDB issues through the corekv interfaces and can
//
//   - count them per *window* (Arm … Disarm, typically one window per API call),
//   - make the k-th counted operation of the window fail with ErrFaultInjected
//     (a failed Commit discards the inner transaction, so nothing of it is applied),
//   - record a trace of the counted operations (kind, key, transaction, failed) so a check
//     can classify where a fault landed (before/after the first write, which namespace …),
//   - call a hook after every successful storage commit that wrote something (crash points
//     for C14: take Snapshot() inside the hook and reopen a node on a copy).
//
// Typical use (C05):
//
//	n, fs := hx.NewFaultNode()
//	defer n.Close()
//	fs.Arm(hx.FaultPlan{Trace: true})            // k = 0: count only
//	... run the operation on a twin ...
//	K := fs.Disarm().Count
//	for k := 1; k <= K; k++ {
//	    fs.Arm(hx.FaultPlan{K: k})
//	    ... run the operation ...
//	    w := fs.Disarm()                          // w.Fired, w.FiredOp.Kind, w.WritesBefore …
//	}
//
// Outside a window (before the first Arm, after Disarm) the store is transparent: nothing is
// counted and nothing fails, so dumps and set-up code are unaffected.
//
// What is counted: by default only operations on *transaction* objects obtained through NewTxn
// and on iterators created from them — the layer the properties name. Direct, non-transactional
// calls on the store itself (Get/Has/Set/Delete/Iterator on the TxnStore) are passed through
// uncounted unless FaultPlan.RootOps is set. Iterator.Key and Iterator.Reset cannot fail and are
// never counted; Iterator.Close is counted only if FaultPlan.Kinds includes FaultIterClose (the
// inner iterator is closed in any case).
//
// All methods are safe for concurrent use; the counter is global to the store, so a window should
// not overlap background activity the caller does not control.

import (
	"bytes"
	"context"
	"errors"
	"fmt"
	"runtime"
	"sort"
	"strings"
	"sync"

	badgerds "github.com/dgraph-io/badger/v4"
	"github.com/sourcenetwork/corekv"
	"github.com/sourcenetwork/corekv/badger"

	"github.com/sourcenetwork/defradb/acp/dac"
	"github.com/sourcenetwork/defradb/internal/db"
	"github.com/sourcenetwork/defradb/node"
)

// ErrFaultInjected is the sentinel every injected failure returns (possibly wrapped by DefraDB).
var ErrFaultInjected = errors.New("verif: injected storage fault")

// FaultOpKind is the type of a storage operation.
type FaultOpKind uint8

const (
	FaultGet FaultOpKind = iota
	FaultHas
	FaultSet
	FaultDelete
	FaultIterator // creation of an iterator
	FaultNext     // Iterator.Next
	FaultValue    // Iterator.Value
	FaultSeek     // Iterator.Seek
	FaultCommit   // Txn.Commit
	FaultIterClose
	faultNumKinds
)

var faultKindNames = [...]string{"get", "has", "set", "delete", "iterator", "next", "value", "seek", "commit", "iterclose"}

func (k FaultOpKind) String() string {
	if int(k) < len(faultKindNames) {
		return faultKindNames[k]
	}
	return fmt.Sprintf("kind%d", int(k))
}

// IsWrite reports Set or Delete.
func (k FaultOpKind) IsWrite() bool { return k == FaultSet || k == FaultDelete }

// FaultKinds is a set of operation kinds.
type FaultKinds uint16

// FaultKindsOf builds a set.
func FaultKindsOf(kinds ...FaultOpKind) FaultKinds {
	var m FaultKinds
	for _, k := range kinds {
		m |= 1 << k
	}
	return m
}

// Has reports membership.
func (m FaultKinds) Has(k FaultOpKind) bool { return m&(1<<k) != 0 }

// FaultDefaultKinds is what a plan with Kinds == 0 counts: everything that can fail in a real
// store (get, has, set, delete, iterator, next, value, seek, commit), not Iterator.Close.
var FaultDefaultKinds = FaultKindsOf(FaultGet, FaultHas, FaultSet, FaultDelete, FaultIterator, FaultNext, FaultValue, FaultSeek, FaultCommit)

// FaultOp is one counted storage operation of a window.
type FaultOp struct {
	// Seq is the 1-based position inside the window (the k of FaultPlan.K).
	Seq int `json:"seq"`
	// Kind of the operation.
	Kind FaultOpKind `json:"kind"`
	// Txn is the ordinal (from 1, per store) of the transaction the operation ran on; 0 = the
	// store itself (only with FaultPlan.RootOps).
	Txn int `json:"txn"`
	// ReadOnly is the flag the transaction was created with.
	ReadOnly bool `json:"ro,omitempty"`
	// Key is the raw key (get/has/set/delete/seek), the prefix or start key of the iterator
	// (iterator, next, iterclose) or the current key (value) — as passed to the root store,
	// i.e. fully prefixed ("/db/data/…").
	Key string `json:"key,omitempty"`
	// Failed is set on operations that were made to fail.
	Failed bool `json:"failed,omitempty"`
}

// Namespace returns the DefraDB store namespace of the key: "/db/data", "/db/heads", "/db/blocks",
// "/db/system", "/db/ps", "/db/enc", or "" when the key is empty or elsewhere.
func (o FaultOp) Namespace() string {
	for _, p := range []string{"/db/data", "/db/heads", "/db/blocks", "/db/system", "/db/ps", "/db/enc"} {
		if strings.HasPrefix(o.Key, p) {
			return p
		}
	}
	return ""
}

func (o FaultOp) String() string {
	f := ""
	if o.Failed {
		f = " FAILED"
	}
	return fmt.Sprintf("#%d %s txn=%d %q%s", o.Seq, o.Kind, o.Txn, trim(o.Key, 80), f)
}

// FaultPlan configures one window.
type FaultPlan struct {
	// K is the 1-based index of the counted operation that fails; 0 = count only.
	K int
	// Kinds restricts which operation kinds are counted (and can therefore fail); 0 = FaultDefaultKinds.
	Kinds FaultKinds
	// RootOps also counts non-transactional operations issued on the store itself.
	RootOps bool
	// WriteTxnOnly ignores operations on transactions created read-only.
	WriteTxnOnly bool
	// Sticky makes every counted operation from the K-th on fail (a store that went away),
	// instead of only the K-th.
	Sticky bool
	// Trace records every counted operation in FaultWindow.Trace.
	Trace bool
}

// FaultWindow is what Disarm returns.
type FaultWindow struct {
	// Count is the number of counted operations in the window (including failed ones).
	Count int
	// ByKind is Count split by kind.
	ByKind [faultNumKinds]int
	// Fired tells whether the K-th operation was reached (and failed).
	Fired bool
	// FiredOp is the first operation that was made to fail.
	FiredOp FaultOp
	// FiredStack is the call stack (debug.Stack-like text, innermost first, starting at the
	// caller of the store method) of the first operation that was made to fail: the code that
	// received the injected error.
	FiredStack string
	// Failures is the number of operations that were made to fail (>1 only with Sticky).
	Failures int
	// WritesBefore is the number of successful Set/Delete operations before the first failure
	// (all writes of the window when nothing fired).
	WritesBefore int
	// OpsAfter is the number of counted operations issued after the first failure.
	OpsAfter int
	// Commits is the number of successful commits of transactions that wrote something.
	Commits int
	// Txns is the number of transactions created in the window.
	Txns int
	// Trace holds every counted operation (only with FaultPlan.Trace).
	Trace []FaultOp
}

// KindCounts renders ByKind as a map (for labels and messages).
func (w FaultWindow) KindCounts() map[string]int {
	out := map[string]int{}
	for k, n := range w.ByKind {
		if n > 0 {
			out[FaultOpKind(k).String()] = n
		}
	}
	return out
}

// FaultCommitInfo describes one successful storage commit that wrote something.
type FaultCommitInfo struct {
	// Seq is the ordinal (from 1, per store) of the successful writing commit.
	Seq int
	// Txn is the ordinal of the transaction (0 for a direct Set/Delete on the store).
	Txn int
	// Writes is the number of Set/Delete operations the transaction carried.
	Writes int
	// InWindow tells whether a window was armed at the time.
	InWindow bool
}

// FaultKV is one raw key/value pair.
type FaultKV struct {
	K []byte
	V []byte
}

// FaultStore is the wrapper. It implements corekv.TxnStore (and corekv.Dropable when the inner
// store does).
type FaultStore struct {
	inner corekv.TxnStore

	mu       sync.Mutex
	armed    bool
	plan     FaultPlan
	win      FaultWindow
	firedPCs []uintptr
	txnSeq   int
	commits  int
	hook     func(FaultCommitInfo)
	openIter int
	// leak locator (TrackIterators)
	trackIter bool
	iterSites map[*faultIter][]uintptr
}

var _ corekv.TxnStore = (*FaultStore)(nil)

// NewFaultStore wraps inner.
func NewFaultStore(inner corekv.TxnStore) *FaultStore { return &FaultStore{inner: inner} }

// NewFaultMemStore wraps a fresh Badger in-memory store built like node/store_badger.go does.
func NewFaultMemStore() (*FaultStore, error) {
	opts := badgerds.DefaultOptions("")
	opts.InMemory = true
	inner, err := badger.NewDatastore("", opts)
	if err != nil {
		return nil, err
	}
	return NewFaultStore(inner), nil
}

// NewFaultNode boots a DefraDB instance (P2P/HTTP off, no ACP, default lens registry) on a fresh
// in-memory Badger wrapped in a FaultStore. Node.Close closes the database and the store.
// A boot failure is a harness error.
func NewFaultNode(opts ...db.Option) (*Node, *FaultStore) {
	fs, err := NewFaultMemStore()
	if err != nil {
		Harnessf("cannot open badger in-memory: %v", err)
	}
	n, err := NewFaultNodeOn(fs, opts...)
	if err != nil {
		_ = fs.Close()
		Harnessf("cannot boot node on fault store: %v", err)
	}
	return n, fs
}

// NewFaultNodeOn boots a DefraDB instance on the given (already populated or empty) store.
func NewFaultNodeOn(store corekv.TxnStore, opts ...db.Option) (*Node, error) {
	ctx := context.Background()
	lens, err := node.NewLens(ctx)
	if err != nil {
		return nil, err
	}
	nac, err := node.NewNodeACP(ctx)
	if err != nil {
		return nil, err
	}
	d, err := db.NewDB(ctx, store, nac, dac.NoDocumentACP, lens, opts...)
	if err != nil {
		return nil, err
	}
	return &Node{Ctx: ctx, N: &node.Node{DB: d}, DB: d}, nil
}

// Inner returns the wrapped store (reads through it are never counted).
func (s *FaultStore) Inner() corekv.TxnStore { return s.inner }

// Arm starts a new window with the given plan; counters restart at zero.
func (s *FaultStore) Arm(p FaultPlan) {
	if p.Kinds == 0 {
		p.Kinds = FaultDefaultKinds
	}
	s.mu.Lock()
	s.armed = true
	s.plan = p
	s.win = FaultWindow{}
	s.firedPCs = nil
	s.mu.Unlock()
}

// Disarm ends the window and returns what happened in it. The store is transparent afterwards.
func (s *FaultStore) Disarm() FaultWindow {
	s.mu.Lock()
	defer s.mu.Unlock()
	s.armed = false
	w := s.win
	if w.Fired {
		w.FiredStack = faultRenderStack(s.firedPCs)
	}
	s.firedPCs = nil
	s.win = FaultWindow{}
	return w
}

func faultRenderStack(pcs []uintptr) string {
	if len(pcs) == 0 {
		return ""
	}
	var b strings.Builder
	frames := runtime.CallersFrames(pcs)
	for {
		f, more := frames.Next()
		// same shape as a debug.Stack() entry, so that hx.PanicSite-style parsers work
		fmt.Fprintf(&b, "%s(...)\n\t%s:%d\n", f.Function, f.File, f.Line)
		if !more {
			break
		}
	}
	return b.String()
}

// Window runs f inside a window and returns the window (convenience for Arm/f/Disarm; f's panic
// propagates after the window is closed).
func (s *FaultStore) Window(p FaultPlan, f func()) (w FaultWindow) {
	s.Arm(p)
	defer func() { w = s.Disarm() }()
	f()
	return
}

// OpenIterators is the number of iterators created through the wrapper and not yet closed
// (a leak detector: it should be 0 between API calls).
func (s *FaultStore) OpenIterators() int {
	s.mu.Lock()
	defer s.mu.Unlock()
	return s.openIter
}

// TrackIterators switches the leak locator on or off: while on, the creation call stack (program
// counters only, cheap) of every iterator is kept until it is closed; OpenIteratorSites renders
// the stacks of those still open.
func (s *FaultStore) TrackIterators(on bool) {
	s.mu.Lock()
	s.trackIter = on
	if on && s.iterSites == nil {
		s.iterSites = map[*faultIter][]uintptr{}
	}
	s.mu.Unlock()
}

// OpenIteratorSites returns the creation stacks of the iterators that are still open (only those
// created while TrackIterators was on).
func (s *FaultStore) OpenIteratorSites() []string {
	s.mu.Lock()
	defer s.mu.Unlock()
	out := []string{}
	for _, pcs := range s.iterSites {
		out = append(out, faultRenderStack(pcs))
	}
	sort.Strings(out)
	return out
}

// SetCommitHook registers fn to be called synchronously after every successful commit of a
// transaction that carried at least one Set/Delete (and after every direct Set/Delete on the
// store). The hook runs on the committing goroutine without any FaultStore lock held, so it may
// call Snapshot. nil removes the hook.
func (s *FaultStore) SetCommitHook(fn func(FaultCommitInfo)) {
	s.mu.Lock()
	s.hook = fn
	s.mu.Unlock()
}

// Snapshot returns every key/value pair under the given prefix (nil = everything) in key order,
// read from the inner store without counting.
func (s *FaultStore) Snapshot(prefix []byte) ([]FaultKV, error) {
	return FaultSnapshotOf(s.inner, prefix)
}

// FaultSnapshotOf reads every pair under prefix from any corekv reader, in key order.
func FaultSnapshotOf(r corekv.Reader, prefix []byte) ([]FaultKV, error) {
	ctx := context.Background()
	opts := corekv.IterOptions{}
	if len(prefix) > 0 {
		opts.Prefix = prefix
	}
	it, err := r.Iterator(ctx, opts)
	if err != nil {
		return nil, err
	}
	out := []FaultKV{}
	for {
		ok, err := it.Next()
		if err != nil {
			_ = it.Close()
			return nil, err
		}
		if !ok {
			break
		}
		v, err := it.Value()
		if err != nil {
			_ = it.Close()
			return nil, err
		}
		out = append(out, FaultKV{K: it.Key(), V: v})
	}
	return out, it.Close()
}

// FaultRestore writes the pairs into dst (an empty store) in one transaction.
func FaultRestore(dst corekv.TxnStore, kvs []FaultKV) error {
	ctx := context.Background()
	txn := dst.NewTxn(false)
	defer txn.Discard()
	for _, kv := range kvs {
		if err := txn.Set(ctx, kv.K, kv.V); err != nil {
			return err
		}
	}
	return txn.Commit()
}

// FaultDiffKV describes the difference between two snapshots in at most max lines ("" = equal).
func FaultDiffKV(before, after []FaultKV, max int) string {
	var b strings.Builder
	n := 0
	add := func(format string, args ...any) {
		if n < max {
			fmt.Fprintf(&b, format, args...)
		}
		n++
	}
	i, j := 0, 0
	for i < len(before) || j < len(after) {
		switch {
		case j >= len(after) || (i < len(before) && bytes.Compare(before[i].K, after[j].K) < 0):
			add("  removed %q\n", trim(string(before[i].K), 120))
			i++
		case i >= len(before) || bytes.Compare(before[i].K, after[j].K) > 0:
			add("  added   %q (%d bytes)\n", trim(string(after[j].K), 120), len(after[j].V))
			j++
		default:
			if !bytes.Equal(before[i].V, after[j].V) {
				add("  changed %q (%d → %d bytes)\n", trim(string(before[i].K), 120), len(before[i].V), len(after[j].V))
			}
			i++
			j++
		}
	}
	if n > max {
		fmt.Fprintf(&b, "  … %d more\n", n-max)
	}
	return b.String()
}

// note records one operation and decides whether it fails. Called with s.mu NOT held.
func (s *FaultStore) note(kind FaultOpKind, txn int, ro bool, key []byte) error {
	s.mu.Lock()
	defer s.mu.Unlock()
	if !s.armed || !s.plan.Kinds.Has(kind) {
		return nil
	}
	if txn == 0 && !s.plan.RootOps {
		return nil
	}
	if ro && s.plan.WriteTxnOnly {
		return nil
	}
	w := &s.win
	w.Count++
	w.ByKind[kind]++
	op := FaultOp{Seq: w.Count, Kind: kind, Txn: txn, ReadOnly: ro, Key: string(key)}
	fail := s.plan.K > 0 && (w.Count == s.plan.K || (s.plan.Sticky && w.Count > s.plan.K))
	if fail {
		op.Failed = true
		w.Failures++
		if !w.Fired {
			w.Fired = true
			w.FiredOp = op
			pcs := make([]uintptr, 48)
			s.firedPCs = pcs[:runtime.Callers(3, pcs)]
		}
	} else {
		if w.Fired {
			w.OpsAfter++
		} else if kind.IsWrite() {
			w.WritesBefore++
		}
	}
	if s.plan.Trace {
		w.Trace = append(w.Trace, op)
	}
	if fail {
		return ErrFaultInjected
	}
	return nil
}

func (s *FaultStore) committed(txn, writes int) {
	if writes == 0 {
		return
	}
	s.mu.Lock()
	s.commits++
	c := FaultCommitInfo{Seq: s.commits, Txn: txn, Writes: writes, InWindow: s.armed}
	if s.armed {
		s.win.Commits++
	}
	hook := s.hook
	s.mu.Unlock()
	if hook != nil {
		hook(c)
	}
}

func (s *FaultStore) iterOpened(it *faultIter) {
	s.mu.Lock()
	s.openIter++
	if s.trackIter {
		pcs := make([]uintptr, 32)
		s.iterSites[it] = pcs[:runtime.Callers(3, pcs)]
	}
	s.mu.Unlock()
}

func (s *FaultStore) iterClosed(it *faultIter) {
	s.mu.Lock()
	s.openIter--
	delete(s.iterSites, it)
	s.mu.Unlock()
}

// ---- corekv.TxnStore (non-transactional operations on the store itself)

func (s *FaultStore) Get(ctx context.Context, key []byte) ([]byte, error) {
	if err := s.note(FaultGet, 0, false, key); err != nil {
		return nil, err
	}
	return s.inner.Get(ctx, key)
}

func (s *FaultStore) Has(ctx context.Context, key []byte) (bool, error) {
	if err := s.note(FaultHas, 0, false, key); err != nil {
		return false, err
	}
	return s.inner.Has(ctx, key)
}

func (s *FaultStore) Set(ctx context.Context, key, value []byte) error {
	if err := s.note(FaultSet, 0, false, key); err != nil {
		return err
	}
	if err := s.inner.Set(ctx, key, value); err != nil {
		return err
	}
	s.committed(0, 1)
	return nil
}

func (s *FaultStore) Delete(ctx context.Context, key []byte) error {
	if err := s.note(FaultDelete, 0, false, key); err != nil {
		return err
	}
	if err := s.inner.Delete(ctx, key); err != nil {
		return err
	}
	s.committed(0, 1)
	return nil
}

func (s *FaultStore) Iterator(ctx context.Context, opts corekv.IterOptions) (corekv.Iterator, error) {
	if err := s.note(FaultIterator, 0, false, iterKey(opts)); err != nil {
		return nil, err
	}
	it, err := s.inner.Iterator(ctx, opts)
	if err != nil {
		return nil, err
	}
	fi := &faultIter{s: s, inner: it, prefix: iterKey(opts)}
	s.iterOpened(fi)
	return fi, nil
}

// Close closes the inner store.
func (s *FaultStore) Close() error { return s.inner.Close() }

// DropAll forwards to the inner store when it is corekv.Dropable.
func (s *FaultStore) DropAll() error {
	if d, ok := s.inner.(corekv.Dropable); ok {
		return d.DropAll()
	}
	return errors.New("inner store is not dropable")
}

// NewTxn returns a wrapped transaction.
func (s *FaultStore) NewTxn(readonly bool) corekv.Txn {
	s.mu.Lock()
	s.txnSeq++
	id := s.txnSeq
	if s.armed {
		s.win.Txns++
	}
	s.mu.Unlock()
	return &faultTxn{s: s, inner: s.inner.NewTxn(readonly), id: id, ro: readonly}
}

func iterKey(opts corekv.IterOptions) []byte {
	if opts.Prefix != nil {
		return opts.Prefix
	}
	return opts.Start
}

// ---- corekv.Txn

type faultTxn struct {
	s      *FaultStore
	inner  corekv.Txn
	id     int
	ro     bool
	mu     sync.Mutex
	writes int
}

var _ corekv.Txn = (*faultTxn)(nil)

func (t *faultTxn) wrote() {
	t.mu.Lock()
	t.writes++
	t.mu.Unlock()
}

func (t *faultTxn) Get(ctx context.Context, key []byte) ([]byte, error) {
	if err := t.s.note(FaultGet, t.id, t.ro, key); err != nil {
		return nil, err
	}
	return t.inner.Get(ctx, key)
}

func (t *faultTxn) Has(ctx context.Context, key []byte) (bool, error) {
	if err := t.s.note(FaultHas, t.id, t.ro, key); err != nil {
		return false, err
	}
	return t.inner.Has(ctx, key)
}

func (t *faultTxn) Set(ctx context.Context, key, value []byte) error {
	if err := t.s.note(FaultSet, t.id, t.ro, key); err != nil {
		return err
	}
	err := t.inner.Set(ctx, key, value)
	if err == nil {
		t.wrote()
	}
	return err
}

func (t *faultTxn) Delete(ctx context.Context, key []byte) error {
	if err := t.s.note(FaultDelete, t.id, t.ro, key); err != nil {
		return err
	}
	err := t.inner.Delete(ctx, key)
	if err == nil {
		t.wrote()
	}
	return err
}

func (t *faultTxn) Iterator(ctx context.Context, opts corekv.IterOptions) (corekv.Iterator, error) {
	if err := t.s.note(FaultIterator, t.id, t.ro, iterKey(opts)); err != nil {
		return nil, err
	}
	it, err := t.inner.Iterator(ctx, opts)
	if err != nil {
		return nil, err
	}
	fi := &faultIter{s: t.s, inner: it, txn: t.id, ro: t.ro, prefix: iterKey(opts)}
	t.s.iterOpened(fi)
	return fi, nil
}

func (t *faultTxn) Commit() error {
	if err := t.s.note(FaultCommit, t.id, t.ro, nil); err != nil {
		// a failed commit applies nothing
		t.inner.Discard()
		return err
	}
	if err := t.inner.Commit(); err != nil {
		return err
	}
	t.mu.Lock()
	w := t.writes
	t.writes = 0
	t.mu.Unlock()
	t.s.committed(t.id, w)
	return nil
}

func (t *faultTxn) Discard() { t.inner.Discard() }

// ---- corekv.Iterator

type faultIter struct {
	s      *FaultStore
	inner  corekv.Iterator
	txn    int
	ro     bool
	closed bool
	valid  bool
	prefix []byte
}

var _ corekv.Iterator = (*faultIter)(nil)

func (it *faultIter) Next() (bool, error) {
	if err := it.s.note(FaultNext, it.txn, it.ro, it.prefix); err != nil {
		return false, err
	}
	ok, err := it.inner.Next()
	it.valid = ok && err == nil
	return ok, err
}

func (it *faultIter) Key() []byte { return it.inner.Key() }

func (it *faultIter) Value() ([]byte, error) {
	var key []byte
	if it.valid {
		key = it.inner.Key()
	}
	if err := it.s.note(FaultValue, it.txn, it.ro, key); err != nil {
		return nil, err
	}
	return it.inner.Value()
}

func (it *faultIter) Seek(key []byte) (bool, error) {
	if err := it.s.note(FaultSeek, it.txn, it.ro, key); err != nil {
		return false, err
	}
	ok, err := it.inner.Seek(key)
	it.valid = ok && err == nil
	return ok, err
}

func (it *faultIter) Reset() { it.valid = false; it.inner.Reset() }

func (it *faultIter) Close() error {
	if !it.closed {
		it.closed = true
		it.s.iterClosed(it)
	}
	ferr := it.s.note(FaultIterClose, it.txn, it.ro, it.prefix)
	err := it.inner.Close()
	if ferr != nil {
		return ferr
	}
	return err
}
