package hx

import (
	"context"
	"encoding/json"
	"fmt"
	"os"
	"path/filepath"
	"runtime/debug"
	"sort"
	"strings"
	"testing"

	"github.com/sourcenetwork/defradb/client"
	"github.com/sourcenetwork/defradb/internal/db"
	"github.com/sourcenetwork/defradb/node"
)

// Node is one in-process DefraDB node (P2P and HTTP off unless asked).
type Node struct {
	Ctx  context.Context
	N    *node.Node
	DB   *db.DB
	Opts []node.Option
}

// NewMemNode boots a node on Badger in-memory.
func NewMemNode(opts ...node.Option) (*Node, error) {
	all := append([]node.Option{
		node.WithBadgerInMemory(true),
		node.WithDisableAPI(true),
		node.WithDisableP2P(true),
	}, opts...)
	return NewNode(all...)
}

// NewNode boots a node with exactly the given options.
func NewNode(opts ...node.Option) (*Node, error) {
	ctx := context.Background()
	n, err := node.New(ctx, opts...)
	if err != nil {
		return nil, err
	}
	if err := n.Start(ctx); err != nil {
		return nil, err
	}
	d, ok := n.DB.(*db.DB)
	if !ok {
		_ = n.Close(ctx)
		return nil, fmt.Errorf("node DB is %T", n.DB)
	}
	return &Node{Ctx: ctx, N: n, DB: d, Opts: opts}, nil
}

// MustMemNode is NewMemNode that panics on error (a harness error, never a finding).
func MustMemNode(opts ...node.Option) *Node {
	n, err := NewMemNode(opts...)
	if err != nil {
		Harnessf("cannot boot node: %v", err)
	}
	return n
}

// Close stops the node.
func (n *Node) Close() {
	if n != nil && n.N != nil {
		_ = n.N.Close(n.Ctx)
	}
}

// Result is a GraphQL response normalised through JSON.
type Result struct {
	Data   map[string]any
	Errors []string
	Panic  string
}

// Err returns the joined error text ("" when there is none).
func (r Result) Err() string { return strings.Join(r.Errors, " | ") }

// OK reports a response without errors and without panic.
func (r Result) OK() bool { return len(r.Errors) == 0 && r.Panic == "" }

// Rows returns the list under the given top-level key.
func (r Result) Rows(key string) []map[string]any {
	v, _ := r.Data[key].([]any)
	out := make([]map[string]any, 0, len(v))
	for _, x := range v {
		if m, ok := x.(map[string]any); ok {
			out = append(out, m)
		}
	}
	return out
}

// Normalize converts any Go value to its generic JSON form (numbers as json.Number).
func Normalize(v any) any {
	raw, err := json.Marshal(v)
	if err != nil {
		return fmt.Sprintf("<unmarshalable %T: %v>", v, err)
	}
	dec := json.NewDecoder(strings.NewReader(string(raw)))
	dec.UseNumber()
	var out any
	if err := dec.Decode(&out); err != nil {
		return fmt.Sprintf("<undecodable: %v>", err)
	}
	return out
}

// Exec runs a GraphQL request, recovering panics of the code under test.
func (n *Node) Exec(q string, opts ...client.RequestOption) (res Result) {
	return ExecOn(n.Ctx, n.DB, q, opts...)
}

// Execer is anything that can execute requests (db or txn).
type Execer interface {
	ExecRequest(ctx context.Context, request string, opts ...client.RequestOption) *client.RequestResult
}

// ExecOn runs a request on a store or transaction.
func ExecOn(ctx context.Context, s Execer, q string, opts ...client.RequestOption) (res Result) {
	defer func() {
		if p := recover(); p != nil {
			res.Panic = fmt.Sprintf("%v\n%s", p, debug.Stack())
		}
	}()
	r := s.ExecRequest(ctx, q, opts...)
	for _, e := range r.GQL.Errors {
		res.Errors = append(res.Errors, e.Error())
	}
	if r.GQL.Data != nil {
		if m, ok := Normalize(r.GQL.Data).(map[string]any); ok {
			res.Data = m
		}
	}
	return res
}

// Canon renders any normalised value canonically (map keys sorted).
func Canon(v any) string {
	raw, _ := json.Marshal(v) // encoding/json sorts map keys
	return string(raw)
}

// SortRows sorts rows by their canonical rendering (for multiset comparison).
func SortRows(rows []map[string]any) []string {
	out := make([]string, len(rows))
	for i, r := range rows {
		out[i] = Canon(r)
	}
	sort.Strings(out)
	return out
}

// Scratch returns a fresh directory for file-backed cases; removed by the driver, and by the returned func.
func Scratch(name string) (string, func()) {
	base := os.Getenv("VERIF_SCRATCH")
	if base == "" {
		base = filepath.Join(verifRoot(), ".scratch")
	}
	_ = os.MkdirAll(base, 0o755)
	dir, err := os.MkdirTemp(base, name+"-")
	if err != nil {
		panic(err)
	}
	return dir, func() { _ = os.RemoveAll(dir) }
}

// Regress runs every saved case under dir through run; used at the start of quick runs.
func Regress(t *testing.T, dir string, run func(raw []byte) *Failure, rec *Recorder) {
	files, _ := filepath.Glob(filepath.Join(dir, "*.json"))
	sort.Strings(files)
	for _, f := range files {
		raw, err := os.ReadFile(f)
		if err != nil {
			t.Fatal(err)
		}
		var doc struct {
			Case json.RawMessage `json:"case"`
		}
		c := raw
		if json.Unmarshal(raw, &doc) == nil && len(doc.Case) > 0 {
			c = doc.Case
		}
		fail := run(c)
		rec.Label("regress-case")
		rec.AddEvals(1)
		if fail != nil {
			var v any
			_ = json.Unmarshal(c, &v)
			rec.Check(t, v, fail)
		}
	}
}

// Guard runs f and converts a panic into a Failure with the given signature prefix.
func Guard(sigPrefix string, f func() *Failure) (out *Failure) {
	defer func() {
		if p := recover(); p != nil {
			if he, ok := p.(HarnessError); ok {
				panic(he)
			}
			st := string(debug.Stack())
			out = &Failure{Sig: sigPrefix + "/panic/" + PanicSite(st), Msg: fmt.Sprintf("panic: %v\n%s", p, trim(st, 3000))}
		}
	}()
	return f()
}

func trim(s string, n int) string {
	if len(s) > n {
		return s[:n] + "…"
	}
	return s
}

// PanicSite extracts the first defradb (non-harness) function of a stack trace.
func PanicSite(stack string) string {
	for _, line := range strings.Split(stack, "\n") {
		line = strings.TrimSpace(line)
		if strings.HasPrefix(line, "github.com/sourcenetwork/defradb/") && !strings.Contains(line, "verifharness") {
			if i := strings.LastIndex(line, "("); i > 0 {
				line = line[:i]
			}
			line = strings.TrimPrefix(line, "github.com/sourcenetwork/defradb/")
			return line
		}
	}
	return "unknown"
}

// HarnessError is a defect of the harness or generator itself (never a finding):
// it is re-panicked by Guard so that the run ends inconclusive.
type HarnessError string

func (h HarnessError) Error() string { return string(h) }

// Harnessf panics with a HarnessError.
func Harnessf(format string, args ...any) {
	panic(HarnessError("harness: " + fmt.Sprintf(format, args...)))
}
