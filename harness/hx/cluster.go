package hx

import (
	"context"
	"fmt"
	"sync"
	"sync/atomic"
	"time"

	blocks "github.com/ipfs/go-block-format"
	"github.com/ipfs/go-cid"

	"github.com/sourcenetwork/defradb/event"
	coreblock "github.com/sourcenetwork/defradb/internal/core/block"
	"github.com/sourcenetwork/defradb/internal/datastore"
	"github.com/sourcenetwork/defradb/node"
)

// Msg is one update notification of a node: exactly what net.Peer would push
// or publish (document-level commits and, for branchable collections,
// collection-level commits with an empty DocID).
type Msg struct {
	From         int    `json:"from"`
	DocID        string `json:"doc_id"`
	Cid          string `json:"cid"`
	CollectionID string `json:"collection_id"`
	Block        []byte `json:"-"`
}

// CID parses the message's cid.
func (m Msg) CID() cid.Cid {
	c, err := cid.Decode(m.Cid)
	if err != nil {
		Harnessf("bad cid in message: %v", err)
	}
	return c
}

// EventTap drains the update events of one node. The bus blocks publishers
// when a subscriber's buffer is full, so a tap always runs.
type EventTap struct {
	n    *Node
	sub  event.Subscription
	mu   sync.Mutex
	msgs []event.Update
	seq  atomic.Uint64
	sent map[uint64]chan struct{}
	done chan struct{}
}

const sentinelName = event.Name("verif-sentinel")

// NewEventTap subscribes to update events of n.
func NewEventTap(n *Node) *EventTap {
	sub, err := n.DB.Events().Subscribe(event.UpdateName, sentinelName)
	if err != nil {
		Harnessf("subscribe: %v", err)
	}
	t := &EventTap{n: n, sub: sub, sent: map[uint64]chan struct{}{}, done: make(chan struct{})}
	go func() {
		defer close(t.done)
		for m := range sub.Message() {
			switch d := m.Data.(type) {
			case event.Update:
				t.mu.Lock()
				t.msgs = append(t.msgs, d)
				t.mu.Unlock()
			case uint64:
				t.mu.Lock()
				ch := t.sent[d]
				delete(t.sent, d)
				t.mu.Unlock()
				if ch != nil {
					close(ch)
				}
			}
		}
	}()
	return t
}

// Sync waits until every event published before the call has been received
// (the bus is FIFO: a sentinel published now arrives after them).
func (t *EventTap) Sync() {
	id := t.seq.Add(1)
	ch := make(chan struct{})
	t.mu.Lock()
	t.sent[id] = ch
	t.mu.Unlock()
	t.n.DB.Events().Publish(event.NewMessage(sentinelName, id))
	select {
	case <-ch:
	case <-time.After(30 * time.Second):
		Harnessf("event bus sentinel did not arrive within 30s")
	}
}

// Take returns the update events received since the last Take (after a Sync).
func (t *EventTap) Take() []event.Update {
	t.Sync()
	t.mu.Lock()
	defer t.mu.Unlock()
	out := t.msgs
	t.msgs = nil
	return out
}

// Close unsubscribes.
func (t *EventTap) Close() {
	t.n.DB.Events().Unsubscribe(t.sub)
}

// Cluster is N in-process nodes sharing a schema, with harness-owned delivery.
type Cluster struct {
	Nodes []*Node
	Taps  []*EventTap
	// Msgs lists every update notification produced so far, in production order.
	Msgs []Msg
}

// NewCluster boots n nodes and adds the SDL to each.
func NewCluster(n int, sdl string, opts func(i int) []node.Option) *Cluster {
	c := &Cluster{}
	for i := 0; i < n; i++ {
		var o []node.Option
		if opts != nil {
			o = opts(i)
		}
		nd := MustMemNode(o...)
		if sdl != "" {
			if _, err := nd.DB.AddSchema(nd.Ctx, sdl); err != nil {
				c.Close()
				nd.Close()
				Harnessf("schema rejected: %v", err)
			}
		}
		c.Nodes = append(c.Nodes, nd)
		c.Taps = append(c.Taps, NewEventTap(nd))
	}
	return c
}

// Close stops every node.
func (c *Cluster) Close() {
	for i, n := range c.Nodes {
		if i < len(c.Taps) {
			c.Taps[i].Close()
		}
		n.Close()
	}
}

// Collect moves the update events node i produced since the last call into
// c.Msgs and returns the new messages.
func (c *Cluster) Collect(i int) []Msg {
	var out []Msg
	for _, u := range c.Taps[i].Take() {
		m := Msg{From: i, DocID: u.DocID, Cid: u.Cid.String(), CollectionID: u.CollectionID, Block: u.Block}
		c.Msgs = append(c.Msgs, m)
		out = append(out, m)
	}
	return out
}

// CopyClosure copies the ancestor closure of root (heads, links, signature
// blocks) from one node's blockstore to another's - what syncDAG achieves over
// the network. Children are written before parents so that "has block" implies
// "has closure" at all times. It returns the number of blocks written.
func CopyClosure(ctx context.Context, from, to *Node, root cid.Cid) (int, error) {
	src := datastore.BlockstoreFrom(from.DB.Rootstore())
	dst := datastore.BlockstoreFrom(to.DB.Rootstore())
	written := 0
	seen := map[cid.Cid]bool{}
	var walk func(c cid.Cid, isDAG bool) error
	walk = func(c cid.Cid, isDAG bool) error {
		if seen[c] {
			return nil
		}
		seen[c] = true
		has, err := dst.Has(ctx, c)
		if err != nil {
			return err
		}
		if has {
			return nil
		}
		b, err := src.Get(ctx, c)
		if err != nil {
			return fmt.Errorf("sender lacks block %s: %w", c, err)
		}
		if isDAG {
			blk, err := coreblock.GetFromBytes(b.RawData())
			if err != nil {
				return fmt.Errorf("decode %s: %w", c, err)
			}
			for _, l := range blk.AllLinks() {
				if err := walk(l.Cid, true); err != nil {
					return err
				}
			}
			if blk.Signature != nil {
				if err := walk(blk.Signature.Cid, false); err != nil {
					return err
				}
			}
		}
		nb, err := blocks.NewBlockWithCid(b.RawData(), c)
		if err != nil {
			return err
		}
		if err := dst.Put(ctx, nb); err != nil {
			return err
		}
		written++
		return nil
	}
	if err := walk(root, true); err != nil {
		return written, err
	}
	return written, nil
}

// Deliver makes message m available to node `to` (block closure) and runs the
// merge synchronously, returning the merge error.
func (c *Cluster) Deliver(m Msg, to int) error {
	n := c.Nodes[to]
	if _, err := CopyClosure(n.Ctx, c.Nodes[m.From], n, m.CID()); err != nil {
		Harnessf("copy closure: %v", err)
	}
	return n.DB.VerifMerge(n.Ctx, event.Merge{DocID: m.DocID, Cid: m.CID(), CollectionID: m.CollectionID})
}
