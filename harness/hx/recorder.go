// Package hx holds the building blocks shared by the per-property checks:
// evidence recorder, known-finding handling, node helpers, dumps, fault store,
// cluster simulator and value generators.
package hx

import (
	"crypto/sha256"
	"encoding/hex"
	"encoding/json"
	"fmt"
	"os"
	"path/filepath"
	"regexp"
	"sort"
	"strconv"
	"sync"
	"testing"

	"github.com/sourcenetwork/corelog"
)

func init() {
	corelog.SetConfig(corelog.Config{Level: "error", Output: "stderr", Format: "text"})
}

// Failure is what an oracle returns when a case violates the property.
type Failure struct {
	// Sig is a short stable signature computed from the diagnosis, not the input.
	Sig string
	// Msg describes the concrete discrepancy.
	Msg string
}

func (f *Failure) Error() string { return f.Sig + ": " + f.Msg }

// Failf builds a failure.
func Failf(sig, format string, args ...any) *Failure {
	return &Failure{Sig: sig, Msg: fmt.Sprintf(format, args...)}
}

type knownEntry struct {
	Status    string `json:"status"`
	Property  string `json:"property"`
	Signature string `json:"signature"`
	What      string `json:"what"`
	Commit    string `json:"commit,omitempty"`
}

// Violation is one unknown failure, with the path of the saved minimal case.
type Violation struct {
	Signature string `json:"signature"`
	Message   string `json:"message"`
	Replay    string `json:"replay"`
	Size      int    `json:"size"`
}

// Recorder collects what one run of one property covered.
type Recorder struct {
	mu sync.Mutex

	ID          string
	Rule        string
	Assumptions []string
	// Extra is copied into coverage verbatim.
	Extra map[string]any

	evaluations int
	nontrivial  map[string]struct{}
	labels      map[string]int
	samples     []json.RawMessage
	knownHits   map[string]int
	knownWhat   map[string]string
	excluded    int
	violations  map[string]*Violation
	known       map[string]knownEntry
	maxSamples  int
	replaying   bool
}

var (
	recMu     sync.Mutex
	recorders = map[string]*Recorder{}
)

// NewRecorder returns the (process-wide) recorder of a property.
func NewRecorder(id, rule string, assumptions ...string) *Recorder {
	recMu.Lock()
	defer recMu.Unlock()
	if r, ok := recorders[id]; ok {
		return r
	}
	r := &Recorder{
		ID:          id,
		Rule:        rule,
		Assumptions: assumptions,
		Extra:       map[string]any{},
		nontrivial:  map[string]struct{}{},
		labels:      map[string]int{},
		knownHits:   map[string]int{},
		knownWhat:   map[string]string{},
		violations:  map[string]*Violation{},
		known:       map[string]knownEntry{},
		maxSamples:  3,
	}
	r.loadKnown()
	recorders[id] = r
	return r
}

func verifRoot() string {
	if p := os.Getenv("VERIF_ROOT"); p != "" {
		return p
	}
	return "/verif"
}

func (r *Recorder) loadKnown() {
	p := os.Getenv("VERIF_KNOWN")
	if p == "" {
		p = filepath.Join(verifRoot(), "known_findings.json")
	}
	raw, err := os.ReadFile(p)
	if err != nil {
		return
	}
	var doc struct {
		Findings []knownEntry `json:"findings"`
	}
	if err := json.Unmarshal(raw, &doc); err != nil {
		panic("known_findings.json: " + err.Error())
	}
	for _, e := range doc.Findings {
		if e.Status == "known" && e.Property == r.ID {
			r.known[e.Signature] = e
		}
	}
}

// IsKnown reports whether sig is listed as a known (unrepaired) finding of this property.
func (r *Recorder) IsKnown(sig string) bool {
	_, ok := r.known[sig]
	return ok
}

// KnownSwitch reports whether generator switches that avoid known findings
// should be on for a case: true when the signature is listed as known.
func (r *Recorder) KnownSwitch(sig string) bool { return r.IsKnown(sig) }

func hashOf(v any) (string, []byte) {
	raw, err := json.Marshal(v)
	if err != nil {
		panic(err)
	}
	h := sha256.Sum256(raw)
	return hex.EncodeToString(h[:8]), raw
}

// Eval records one executed case. key identifies the case for distinctness
// (the case itself, or a coarser class when the rule says so).
func (r *Recorder) Eval(key any, nontrivial bool, labels ...string) {
	r.mu.Lock()
	defer r.mu.Unlock()
	r.evaluations++
	for _, l := range labels {
		r.labels[l]++
	}
	if !nontrivial {
		return
	}
	h, raw := hashOf(key)
	if _, ok := r.nontrivial[h]; ok {
		return
	}
	r.nontrivial[h] = struct{}{}
	if len(r.samples) < r.maxSamples && len(raw) < 20000 {
		r.samples = append(r.samples, raw)
	}
}

// Sample adds a sample verbatim regardless of the non-trivial set.
func (r *Recorder) Sample(v any) {
	r.mu.Lock()
	defer r.mu.Unlock()
	if len(r.samples) < r.maxSamples+2 {
		_, raw := hashOf(v)
		if len(raw) < 20000 {
			r.samples = append(r.samples, raw)
		}
	}
}

// Label counts a classification label.
func (r *Recorder) Label(labels ...string) {
	r.mu.Lock()
	defer r.mu.Unlock()
	for _, l := range labels {
		r.labels[l]++
	}
}

// AddEvals adds n evaluations that have no per-case key (bulk inner loops).
func (r *Recorder) AddEvals(n int) {
	r.mu.Lock()
	defer r.mu.Unlock()
	r.evaluations += n
}

var slugRe = regexp.MustCompile(`[^A-Za-z0-9]+`)

// TB is the part of testing.T / rapid.T the recorder needs.
type TB interface {
	Fatalf(format string, args ...any)
	Logf(format string, args ...any)
}

// Check handles the verdict of one case: nil → nothing; a known finding →
// counted, returns true (caller treats the case as cut short); an unknown
// failure → minimal case saved to replays/ and the test is failed.
func (r *Recorder) Check(t TB, c any, f *Failure) (cutShort bool) {
	if f == nil {
		return false
	}
	r.mu.Lock()
	if e, ok := r.known[f.Sig]; ok {
		r.knownHits[f.Sig]++
		r.knownWhat[f.Sig] = e.What
		r.excluded++
		r.mu.Unlock()
		return true
	}
	_, raw := hashOf(c)
	v, ok := r.violations[f.Sig]
	if !ok || len(raw) < v.Size {
		seed := os.Getenv("VERIF_SHARD_SEED")
		if seed == "" {
			seed = "0"
		}
		dir := os.Getenv("VERIF_REPLAY_DIR")
		if dir == "" {
			dir = filepath.Join(verifRoot(), "replays")
		}
		_ = os.MkdirAll(dir, 0o755)
		path := filepath.Join(dir, fmt.Sprintf("%s-%s-s%s.json", r.ID, slugRe.ReplaceAllString(f.Sig, "_"), seed))
		doc := map[string]any{
			"property":  r.ID,
			"signature": f.Sig,
			"message":   f.Msg,
			"case":      json.RawMessage(raw),
		}
		out, _ := json.MarshalIndent(doc, "", " ")
		if !r.replaying {
			_ = os.WriteFile(path, out, 0o644)
		}
		r.violations[f.Sig] = &Violation{Signature: f.Sig, Message: f.Msg, Replay: path, Size: len(raw)}
	}
	r.mu.Unlock()
	t.Fatalf("VIOLATION-CANDIDATE property=%s signature=%s: %s", r.ID, f.Sig, f.Msg)
	return true
}

// SetReplaying stops the recorder from writing replay files (used by --replay).
func (r *Recorder) SetReplaying() { r.replaying = true }

// Flush writes the stats of every recorder to $VERIF_STATS (a JSON file).
func Flush() {
	p := os.Getenv("VERIF_STATS")
	if p == "" {
		return
	}
	recMu.Lock()
	defer recMu.Unlock()
	out := map[string]any{}
	for id, r := range recorders {
		r.mu.Lock()
		hashes := make([]string, 0, len(r.nontrivial))
		if len(r.nontrivial) <= 200000 {
			for h := range r.nontrivial {
				hashes = append(hashes, h)
			}
			sort.Strings(hashes)
		}
		viol := []*Violation{}
		for _, v := range r.violations {
			viol = append(viol, v)
		}
		sort.Slice(viol, func(i, j int) bool { return viol[i].Signature < viol[j].Signature })
		out[id] = map[string]any{
			"evaluations":        r.evaluations,
			"nontrivial_count":   len(r.nontrivial),
			"nontrivial_hashes":  hashes,
			"labels":             r.labels,
			"samples":            r.samples,
			"known_hits":         r.knownHits,
			"known_what":         r.knownWhat,
			"excluded_by_known":  r.excluded,
			"violations":         viol,
			"rule":               r.Rule,
			"assumptions":        r.Assumptions,
			"extra":              r.Extra,
		}
		r.mu.Unlock()
	}
	raw, _ := json.Marshal(out)
	_ = os.WriteFile(p, raw, 0o644)
}

// Main is the TestMain body of every check package.
func Main(m *testing.M) {
	code := m.Run()
	Flush()
	os.Exit(code)
}

// EnvInt reads an integer from the environment.
func EnvInt(name string, def int) int {
	if s := os.Getenv(name); s != "" {
		if n, err := strconv.Atoi(s); err == nil {
			return n
		}
	}
	return def
}

// Thorough reports whether the thorough tier was requested.
func Thorough() bool { return os.Getenv("VERIF_TIER") == "thorough" }

// ReplayCase returns the raw case of the replay file named by $VERIF_REPLAY, if any.
func ReplayCase(t *testing.T) json.RawMessage {
	p := os.Getenv("VERIF_REPLAY")
	if p == "" {
		t.Skip("no VERIF_REPLAY")
	}
	raw, err := os.ReadFile(p)
	if err != nil {
		t.Fatalf("replay file: %v", err)
	}
	var doc struct {
		Case json.RawMessage `json:"case"`
	}
	if err := json.Unmarshal(raw, &doc); err != nil || len(doc.Case) == 0 {
		// a bare case
		return raw
	}
	return doc.Case
}
