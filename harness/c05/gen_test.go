package c05

import (
	"fmt"
	"os"
	"strconv"
	"strings"

	"pgregory.net/rapid"
)

// ---- the case -----------------------------------------------------------------------------

// Case is one C05 case: a history that builds the prior contents, then the operation whose
// storage operations are failed one by one.
type Case struct {
	// Branch makes the Author collection @branchable (collection-level commits and events).
	Branch bool `json:"branch,omitempty"`
	Prior  []Op `json:"prior"`
	Op     Op   `json:"op"`
}

// Op is one API operation. Documents, indexes and versions are referred to by index modulo
// what exists when the operation is prepared, so every Op is executable on every state.
type Op struct {
	// Kind: createOne createMany updateID updateFilter deleteID deleteFilter upsert createIndex
	// dropIndex addSchema patchSchema setActive import txn merge
	Kind string `json:"kind"`
	// Route: "gql" (ExecRequest) or "api" (collection / DB Go API). Kinds that exist on one
	// route only ignore it. updateID also knows "save" (Collection.Save).
	Route string `json:"route,omitempty"`
	// Col: 0 = Author, 1 = Book.
	Col int `json:"col,omitempty"`
	// Doc picks the target document (index into the collection's documents sorted by docID,
	// deleted ones included).
	Doc int `json:"doc,omitempty"`
	// More (updateID/deleteID on the GraphQL route): further picks; the mutation then names a LIST of
	// document ids (docID: [a, b, ...]) - several documents by id in one call.
	More []int `json:"more,omitempty"`
	// Docs are the documents to create (createOne/createMany/upsert create branch/import).
	Docs []Doc `json:"docs,omitempty"`
	// Docs2 are the Book documents of an import.
	Docs2 []Doc `json:"docs2,omitempty"`
	// Patch holds the fields an update sets.
	Patch *Doc `json:"patch,omitempty"`
	// Filter of the filtered mutations and of upsert.
	Filter *Filter `json:"filter,omitempty"`
	// N is a small number with a kind-specific meaning: index field choice (createIndex),
	// index pick (dropIndex), extra type (addSchema), new field (patchSchema), version pick
	// (setActive), fork point (merge).
	N int `json:"n,omitempty"`
	// Flag: unique (createIndex), setDefault (patchSchema), collection-level commit (merge).
	Flag bool `json:"flag,omitempty"`
	// Sub are the operations inside an explicit transaction (txn) or the remote operation of
	// a merge (exactly one).
	Sub []Op `json:"sub,omitempty"`
}

// Doc holds field values as small pool indexes; -1 (or 0 for C and Rel) leaves the field out.
type Doc struct {
	A   int `json:"a"`             // Author.name / Book.title: "n<A>"; -2 = null
	B   int `json:"b"`             // Author.age / Book.rating (B*0.5)
	U   int `json:"u"`             // Author.email "e<U>@x" (unique index); Book: unused
	C   int `json:"c,omitempty"`   // Author.score increment (pn-counter); 0 = out
	Rel int `json:"rel,omitempty"` // Book.author: 1-based index into the authors; 0 = out
}

// Filter is `{Field: {Op: value}}`.
type Filter struct {
	Field string `json:"field"` // a (name/title), b (age/rating), u (email)
	Op    string `json:"op"`    // _eq _ne _ge _lt _in _nin _or (the last three over the two values V, V2)
	V     int    `json:"v"`
	V2    int    `json:"v2,omitempty"`
}

var colNames = []string{"Author", "Book"}

func colName(i int) string { return colNames[((i%2)+2)%2] }

// schemaSDL is the fixed two-collection schema: a relation, a secondary index on each side, a
// unique index and a counter.
func schemaSDL(branch bool) string {
	b := ""
	if branch {
		b = " @branchable"
	}
	return `type Author` + b + ` {
		name: String @index
		age: Int
		email: String @index(unique: true)
		score: Int @crdt(type: pncounter)
		books: [Book]
	}
	type Book {
		title: String @index
		rating: Float
		author: Author
	}`
}

var extraTypes = []string{
	"type Extra0 { x: Int @index\n y: String }",
	"type Extra1 { p: String }\n type Extra2 { q: Float @index\n r: [Int] }",
	"type Author { again: String }", // name clash: must be rejected and change nothing
}

var patchFields = []string{"nick", "level"}

// kv is one rendered field.
type kv struct {
	K string
	V any // string, int64, float64 or nil
}

// fields renders a Doc for a collection. authors are the docIDs a Book may point to.
func (d Doc) fields(col int, authors []string) []kv {
	out := []kv{}
	name, num := "name", "age"
	if col%2 == 1 {
		name, num = "title", "rating"
	}
	switch {
	case d.A == -2:
		out = append(out, kv{name, nil})
	case d.A >= 0:
		out = append(out, kv{name, "n" + strconv.Itoa(d.A)})
	}
	if d.B >= 0 {
		if col%2 == 0 {
			out = append(out, kv{num, int64(d.B)})
		} else {
			out = append(out, kv{num, float64(d.B) * 0.5})
		}
	}
	if col%2 == 0 {
		if d.U >= 0 {
			out = append(out, kv{"email", "e" + strconv.Itoa(d.U) + "@x"})
		}
		if d.C != 0 {
			out = append(out, kv{"score", int64(d.C)})
		}
	} else if d.Rel > 0 && len(authors) > 0 {
		out = append(out, kv{"author_id", authors[(d.Rel-1)%len(authors)]})
	}
	return out
}

func lit(v any) string {
	switch x := v.(type) {
	case nil:
		return "null"
	case string:
		return strconv.Quote(x)
	case int64:
		return strconv.FormatInt(x, 10)
	case float64:
		s := strconv.FormatFloat(x, 'f', -1, 64)
		if !strings.Contains(s, ".") {
			s += ".0"
		}
		return s
	}
	panic(fmt.Sprintf("lit %T", v))
}

// gqlObj renders `{k: v, …}` (GraphQL input object); jsonObj renders JSON.
func gqlObj(f []kv) string {
	p := make([]string, len(f))
	for i, x := range f {
		p[i] = x.K + ": " + lit(x.V)
	}
	return "{" + strings.Join(p, ", ") + "}"
}

func jsonObj(f []kv) string {
	p := make([]string, len(f))
	for i, x := range f {
		p[i] = strconv.Quote(x.K) + ": " + lit(x.V)
	}
	return "{" + strings.Join(p, ", ") + "}"
}

// gql renders the filter for a collection (GraphQL filter object syntax, also accepted by the
// collection API's string filters).
func (f Filter) gql(col int) string {
	val := func(n int) (string, any) {
		switch f.Field {
		case "b":
			if col%2 == 0 {
				return "age", int64(n)
			}
			return "rating", float64(n) * 0.5
		case "u":
			if col%2 == 0 {
				return "email", "e" + strconv.Itoa(n) + "@x"
			}
			return "title", "n" + strconv.Itoa(n)
		}
		if col%2 == 1 {
			return "title", "n" + strconv.Itoa(n)
		}
		return "name", "n" + strconv.Itoa(n)
	}
	field, v := val(f.V)
	_, v2 := val(f.V2)
	op := f.Op
	switch op {
	case "_in", "_nin":
		// a list of two values: an index-served _in scans the index once per listed value
		return "{" + field + ": {" + op + ": [" + lit(v) + ", " + lit(v2) + "]}}"
	case "_or":
		return "{_or: [{" + field + ": {_eq: " + lit(v) + "}}, {" + field + ": {_eq: " + lit(v2) + "}}]}"
	}
	if _, isStr := v.(string); isStr && (op == "_ge" || op == "_lt") {
		op = "_ne"
	}
	return "{" + field + ": {" + op + ": " + lit(v) + "}}"
}

// ---- generator ----------------------------------------------------------------------------

func genDoc(t *rapid.T, col int, forUpdate bool) Doc {
	d := Doc{A: -1, B: -1, U: -1}
	if !forUpdate || rapid.IntRange(0, 2).Draw(t, "setA") > 0 {
		d.A = rapid.IntRange(0, 3).Draw(t, "a")
		if rapid.IntRange(0, 11).Draw(t, "nullA") == 0 {
			d.A = -2
		}
	}
	if rapid.IntRange(0, 2).Draw(t, "setB") > 0 {
		d.B = rapid.IntRange(0, 5).Draw(t, "b")
	}
	if col%2 == 0 {
		if rapid.IntRange(0, 3).Draw(t, "setU") > 0 && (!forUpdate || rapid.IntRange(0, 2).Draw(t, "setU2") == 0) {
			d.U = rapid.IntRange(0, 11).Draw(t, "u")
		}
		if rapid.IntRange(0, 2).Draw(t, "setC") == 0 {
			d.C = rapid.SampledFrom([]int{1, 2, -1, 5}).Draw(t, "c")
		}
	} else if rapid.IntRange(0, 2).Draw(t, "setRel") > 0 {
		d.Rel = rapid.IntRange(1, 4).Draw(t, "rel")
	}
	if forUpdate && d.A == -1 && d.B == -1 && d.U == -1 && d.C == 0 && d.Rel == 0 {
		d.B = rapid.IntRange(0, 5).Draw(t, "b2")
	}
	return d
}

func genDocs(t *rapid.T, col, lo, hi int) []Doc {
	n := rapid.IntRange(lo, hi).Draw(t, "ndocs")
	out := make([]Doc, 0, n)
	for i := 0; i < n; i++ {
		d := genDoc(t, col, false)
		if col%2 == 0 && d.U >= 0 {
			// mostly distinct unique keys inside one call (a clash is drawn deliberately below)
			d.U = (d.U + 3*i) % 12
		}
		out = append(out, d)
	}
	return out
}

func genFilter(t *rapid.T, col int) *Filter {
	f := &Filter{
		Field: rapid.SampledFrom([]string{"a", "a", "b", "b", "u"}).Draw(t, "ffield"),
		Op:    rapid.SampledFrom([]string{"_eq", "_ge", "_lt", "_ne", "_ge", "_in", "_in", "_or", "_nin"}).Draw(t, "fop"),
	}
	hi := 11
	switch f.Field {
	case "a":
		hi = 3
	case "b":
		hi = 5
	}
	f.V = rapid.IntRange(0, hi).Draw(t, "fv")
	switch f.Op {
	case "_in", "_nin", "_or":
		f.V2 = rapid.IntRange(0, hi).Draw(t, "fv2")
	}
	return f
}

var docKinds = []string{"createOne", "createMany", "updateID", "updateFilter", "deleteID", "deleteFilter", "upsert"}

// allKinds is the (weighted) list the operation under test is drawn from.
var allKinds = []string{
	"createOne", "createMany", "updateID", "updateID", "updateFilter", "updateFilter", "deleteID", "deleteFilter", "deleteFilter", "upsert",
	"createIndex", "dropIndex", "addSchema", "patchSchema", "setActive", "import", "txn", "txn", "merge", "merge", "merge",
}

// genOp draws one operation. depth > 0 restricts to plain document operations (inside txn/merge).
func genOp(t *rapid.T, kind string, depth int) Op {
	op := Op{Kind: kind}
	op.Col = rapid.IntRange(0, 1).Draw(t, "col")
	op.Route = rapid.SampledFrom([]string{"gql", "api"}).Draw(t, "route")
	switch kind {
	case "createOne":
		op.Docs = genDocs(t, op.Col, 1, 1)
	case "createMany":
		op.Docs = genDocs(t, op.Col, 2, 4)
	case "updateID":
		op.Doc = rapid.IntRange(0, 7).Draw(t, "doc")
		p := genDoc(t, op.Col, true)
		op.Patch = &p
		if rapid.IntRange(0, 3).Draw(t, "save") == 0 {
			op.Route = "save"
		}
		if op.Route == "gql" && rapid.IntRange(0, 2).Draw(t, "idlist") == 0 {
			op.More = rapid.SliceOfN(rapid.IntRange(0, 7), 1, 2).Draw(t, "more")
		}
	case "updateFilter":
		op.Filter = genFilter(t, op.Col)
		p := genDoc(t, op.Col, true)
		op.Patch = &p
	case "deleteID":
		op.Doc = rapid.IntRange(0, 7).Draw(t, "doc")
		if op.Route == "gql" && rapid.IntRange(0, 2).Draw(t, "idlist") == 0 {
			op.More = rapid.SliceOfN(rapid.IntRange(0, 7), 1, 2).Draw(t, "more")
		}
	case "deleteFilter":
		op.Filter = genFilter(t, op.Col)
	case "upsert":
		op.Route = "gql"
		op.Filter = genFilter(t, op.Col)
		op.Filter.Op = "_eq"
		op.Docs = genDocs(t, op.Col, 1, 1)
		p := genDoc(t, op.Col, true)
		op.Patch = &p
	case "createIndex":
		op.Route = "api"
		op.N = rapid.IntRange(0, 2).Draw(t, "ifield")
		op.Flag = rapid.IntRange(0, 3).Draw(t, "unique") == 0
	case "dropIndex":
		op.Route = "api"
		op.N = rapid.IntRange(0, 3).Draw(t, "ipick")
	case "addSchema":
		op.Route = "api"
		op.N = rapid.IntRange(0, len(extraTypes)-1).Draw(t, "extra")
	case "patchSchema":
		op.Route = "api"
		op.N = rapid.IntRange(0, len(patchFields)-1).Draw(t, "pfield")
		op.Flag = rapid.Bool().Draw(t, "setDefault")
	case "setActive":
		op.Route = "api"
		op.N = rapid.IntRange(0, 3).Draw(t, "version")
	case "import":
		op.Route = "api"
		op.Docs = genDocs(t, 0, 0, 3)
		op.Docs2 = genDocs(t, 1, 0, 2)
		if len(op.Docs)+len(op.Docs2) == 0 {
			op.Docs = genDocs(t, 0, 1, 2)
		}
	case "txn":
		n := rapid.IntRange(2, 3).Draw(t, "nsub")
		for i := 0; i < n; i++ {
			k := rapid.SampledFrom([]string{"createOne", "createMany", "updateID", "updateFilter", "deleteID", "deleteFilter", "createOne", "updateID"}).Draw(t, "subkind")
			op.Sub = append(op.Sub, genOp(t, k, depth+1))
		}
	case "merge":
		op.Route = "api"
		op.N = rapid.IntRange(0, 8).Draw(t, "fork")
		k := rapid.SampledFrom([]string{"updateID", "updateID", "updateID", "createOne", "deleteID"}).Draw(t, "remotekind")
		sub := genOp(t, k, depth+1)
		sub.Col = op.Col
		if sub.Patch != nil {
			p := genDoc(t, op.Col, true)
			sub.Patch = &p
		}
		if sub.Docs != nil {
			sub.Docs = genDocs(t, op.Col, 1, 1)
		}
		op.Sub = []Op{sub}
		op.Flag = rapid.IntRange(0, 3).Draw(t, "collevel") == 0
	default:
		panic("kind " + kind)
	}
	return op
}

// drawCase draws prior contents (0–8 operations, usually starting with some authors and books so
// that there is something to update, index and merge) and the operation under test.
func drawCase(t *rapid.T) Case {
	c := Case{Branch: rapid.IntRange(0, 3).Draw(t, "branch") == 0, Prior: []Op{}}
	if rapid.IntRange(0, 9).Draw(t, "seedAuthors") > 0 {
		c.Prior = append(c.Prior, Op{Kind: "createMany", Route: "api", Col: 0, Docs: genDocs(t, 0, 2, 4)})
	}
	if rapid.IntRange(0, 9).Draw(t, "seedBooks") > 1 {
		c.Prior = append(c.Prior, Op{Kind: "createMany", Route: "gql", Col: 1, Docs: genDocs(t, 1, 1, 3)})
	}
	n := rapid.IntRange(0, 6).Draw(t, "nprior")
	priorKinds := []string{
		"createOne", "createMany", "updateID", "updateID", "updateFilter", "deleteID", "deleteFilter", "upsert",
		"createIndex", "dropIndex", "addSchema", "patchSchema", "setActive", "import", "txn", "merge", "merge", "updateID",
	}
	for i := 0; i < n; i++ {
		k := rapid.SampledFrom(priorKinds).Draw(t, "priorkind")
		c.Prior = append(c.Prior, genOp(t, k, 0))
	}
	kind := rapid.SampledFrom(allKinds).Draw(t, "kind")
	if forced := os.Getenv("VERIF_C05_KIND"); forced != "" {
		kind = forced // development aid: concentrate a run on one operation kind
	}
	c.Op = genOp(t, kind, 0)
	if c.Op.Kind == "merge" && c.Op.Sub[0].Kind == "updateID" && rapid.IntRange(0, 2).Draw(t, "concurrent") > 0 {
		// make the remote update concurrent with a local update of the same document: the local
		// one is the last prior operation and the remote node forks right before it
		local := genOp(t, "updateID", 1)
		local.Col, local.Doc = c.Op.Col, c.Op.Sub[0].Doc
		c.Prior = append(c.Prior, local)
		c.Op.N = 1
	}
	return c
}

// drawFilteredCase: contents with several authors and books, a few further operations, then a
// filtered update, delete or upsert whose filter is on an indexed field (name/title or the unique
// email) and mostly a two-value _in list or an _or of two equalities.
func drawFilteredCase(t *rapid.T) Case {
	c := Case{Branch: rapid.IntRange(0, 5).Draw(t, "branch") == 0, Prior: []Op{}}
	c.Prior = append(c.Prior, Op{Kind: "createMany", Route: "api", Col: 0, Docs: genDocs(t, 0, 3, 5)})
	c.Prior = append(c.Prior, Op{Kind: "createMany", Route: "gql", Col: 1, Docs: genDocs(t, 1, 2, 4)})
	n := rapid.IntRange(0, 3).Draw(t, "nprior")
	for i := 0; i < n; i++ {
		k := rapid.SampledFrom([]string{"createOne", "updateID", "deleteID", "createIndex", "updateID", "merge"}).Draw(t, "priorkind")
		c.Prior = append(c.Prior, genOp(t, k, 0))
	}
	kind := rapid.SampledFrom([]string{"updateFilter", "deleteFilter", "updateFilter", "deleteFilter", "upsert"}).Draw(t, "kind")
	c.Op = genOp(t, kind, 0)
	f := c.Op.Filter
	f.Field = rapid.SampledFrom([]string{"a", "a", "u", "b"}).Draw(t, "ffield2")
	f.Op = rapid.SampledFrom([]string{"_in", "_in", "_or", "_in", "_nin", "_eq", "_ne"}).Draw(t, "fop2")
	hi := 3
	if f.Field == "u" {
		hi = 6
	}
	f.V = rapid.IntRange(0, hi).Draw(t, "fv")
	f.V2 = rapid.IntRange(0, hi).Draw(t, "fv2")
	return c
}

// opLabel names the operation class for labels and signatures.
func (o Op) label() string {
	switch o.Kind {
	case "createIndex", "dropIndex", "addSchema", "patchSchema", "setActive", "import", "merge", "upsert", "txn":
		return o.Kind
	}
	if len(o.More) > 0 {
		return o.Kind + "-" + o.Route + "-idlist"
	}
	return o.Kind + "-" + o.Route
}
