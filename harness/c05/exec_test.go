package c05

import (
	"bytes"
	"context"
	crand "crypto/rand"
	"encoding/binary"
	"encoding/json"
	"fmt"
	"hash/fnv"
	mrand "math/rand"
	"os"
	"path/filepath"
	"runtime/debug"
	"sort"
	"strconv"
	"strings"
	"sync"
	"time"

	dshelp "github.com/ipfs/boxo/datastore/dshelp"
	"github.com/ipfs/go-cid"
	ds "github.com/ipfs/go-datastore"
	mh "github.com/multiformats/go-multihash"
	"github.com/sourcenetwork/corelog"
	"github.com/sourcenetwork/immutable"
	"github.com/sourcenetwork/lens/host-go/config/model"

	"github.com/sourcenetwork/defradb/client"
	"github.com/sourcenetwork/defradb/event"
	coreblock "github.com/sourcenetwork/defradb/internal/core/block"
	"github.com/sourcenetwork/defradb/internal/db"
	"github.com/sourcenetwork/defradb/verifharness/hx"
)

func init() {
	// hx asks for level "fatal", which corelog does not know (it falls back to info)
	corelog.SetConfig(corelog.Config{Level: "error", Output: "stderr", Format: "text"})
	crand.Reader = detRand
}

// ---- deterministic crypto/rand ---------------------------------------------------------------
//
// The only consumer of crypto/rand in the code paths used here is the nonce of counter updates
// (internal/core/crdt/counter.go). It is replaced by a pseudo-random stream that is re-seeded from
// (node role, operation index) before every operation, so that the twin and the primary produce
// byte-identical blocks for the same operation while a remote node still draws different nonces.

type detReader struct {
	mu sync.Mutex
	r  *mrand.Rand
}

var detRand = &detReader{r: mrand.New(mrand.NewSource(1))}

func (d *detReader) Read(p []byte) (int, error) {
	d.mu.Lock()
	defer d.mu.Unlock()
	return d.r.Read(p)
}

func seedRand(role string, idx int) {
	h := fnv.New64a()
	_, _ = h.Write([]byte(role))
	var b [8]byte
	binary.LittleEndian.PutUint64(b[:], uint64(idx))
	_, _ = h.Write(b[:])
	detRand.mu.Lock()
	detRand.r = mrand.New(mrand.NewSource(int64(h.Sum64())))
	detRand.mu.Unlock()
}

// ---- environment: one node on a fault store, with an event collector -------------------------

const syncName = event.Name("verif-c05-sync")

type evt struct {
	Kind  string // update | merge-complete
	DocID string
	Cid   string
	Block []byte
}

func (e evt) key() string { return e.Kind + " " + e.DocID + " " + e.Cid }

type env struct {
	n       *hx.Node
	fs      *hx.FaultStore
	sub     event.Subscription
	role    string
	syncSeq int
	// idCache holds docIDs per collection for the current state; cleared by every call
	idCache map[int][]string
}

func newEnv(role string, branch bool) *env {
	n, fs := hx.NewFaultNode()
	e := &env{n: n, fs: fs, role: role}
	fs.TrackIterators(true)
	sub, err := n.DB.Events().Subscribe(event.UpdateName, event.MergeCompleteName, syncName)
	if err != nil {
		hx.Harnessf("subscribe: %v", err)
	}
	e.sub = sub
	if _, err := n.DB.AddSchema(n.Ctx, schemaSDL(branch)); err != nil {
		n.Close()
		hx.Harnessf("base schema rejected: %v", err)
	}
	e.collect()
	return e
}

func (e *env) close() {
	if e != nil && e.n != nil {
		e.n.Close()
		e.n = nil
	}
}

// collect returns every update / merge-complete event published since the last call. The bus
// handles commands in FIFO order, so after our own marker arrives nothing earlier is pending.
func (e *env) collect() []evt {
	e.syncSeq++
	e.n.DB.Events().Publish(event.NewMessage(syncName, e.syncSeq))
	out := []evt{}
	timeout := time.After(60 * time.Second)
	for {
		select {
		case m, ok := <-e.sub.Message():
			if !ok {
				hx.Harnessf("event subscription closed")
			}
			switch m.Name {
			case syncName:
				if m.Data == e.syncSeq {
					return out
				}
			case event.UpdateName:
				if u, ok := m.Data.(event.Update); ok {
					out = append(out, evt{Kind: "update", DocID: u.DocID, Cid: u.Cid.String(), Block: u.Block})
				}
			case event.MergeCompleteName:
				if mc, ok := m.Data.(event.MergeComplete); ok {
					out = append(out, evt{Kind: "merge-complete", DocID: mc.Merge.DocID, Cid: mc.Merge.Cid.String()})
				}
			}
		case <-timeout:
			hx.Harnessf("event bus did not deliver the sync marker within 60 s")
		}
	}
}

func evKeys(evs []evt) []string {
	out := make([]string, len(evs))
	for i, e := range evs {
		out[i] = e.key()
	}
	sort.Strings(out)
	return out
}

// raw returns the whole root store, sorted by key.
func (e *env) raw() []hx.FaultKV {
	kvs, err := e.fs.Snapshot(nil)
	if err != nil {
		hx.Harnessf("raw snapshot: %v", err)
	}
	return kvs
}

// ---- preparing and running one operation ----------------------------------------------------

// callFn is the mutating API call proper (everything else is prepared outside the fault window).
// It returns the error text ("" = success).
type callFn func(ctx context.Context, ex hx.Execer) string

type callResult struct {
	Err   string
	Panic string
}

func (r callResult) ok() bool { return r.Err == "" && r.Panic == "" }

type gqlPanic string

func gqlCall(q string) callFn {
	return func(ctx context.Context, ex hx.Execer) string {
		r := hx.ExecOn(ctx, ex, q)
		if r.Panic != "" {
			panic(gqlPanic(r.Panic))
		}
		return r.Err()
	}
}

func errText(err error) string {
	if err == nil {
		return ""
	}
	s := err.Error()
	if s == "" {
		s = "<empty error>"
	}
	return s
}

func failCall(msg string) callFn {
	return func(context.Context, hx.Execer) string { return "prepare: " + msg }
}

const missingDocID = "bae-0b2f15e5-bfe7-5cb7-8045-471318d7dbc3"

// docIDs lists the documents of a collection (deleted ones included), sorted.
func (e *env) docIDs(col int) []string {
	col = ((col % 2) + 2) % 2
	if ids, ok := e.idCache[col]; ok {
		return ids
	}
	ids := e.queryDocIDs(col)
	if e.idCache == nil {
		e.idCache = map[int][]string{}
	}
	e.idCache[col] = ids
	return ids
}

func (e *env) queryDocIDs(col int) []string {
	r := e.n.Exec(fmt.Sprintf(`query { %s(showDeleted: true) { _docID } }`, colName(col)))
	out := []string{}
	for _, row := range r.Rows(colName(col)) {
		if s, ok := row["_docID"].(string); ok {
			out = append(out, s)
		}
	}
	sort.Strings(out)
	return out
}

func pick(ids []string, i int) string {
	if len(ids) == 0 {
		return missingDocID
	}
	return ids[((i%len(ids))+len(ids))%len(ids)]
}

// sim carries what is shared by all nodes of one case run.
type sim struct {
	c       Case
	msgs    map[int]*mergeMsg // remote commit per operation index (len(Prior) = the op under test)
	msgDone map[int]bool
	scratch string
}

type mergeMsg struct {
	DocID  string
	Cid    cid.Cid
	ColID  string
	Blocks []hx.FaultKV
}

func (s *sim) opAt(idx int) Op {
	if idx == len(s.c.Prior) {
		return s.c.Op
	}
	return s.c.Prior[idx]
}

// build boots a node and replays Prior[:upto] on it.
func (s *sim) build(role string, upto int) *env {
	e := newEnv(role, s.c.Branch)
	for i := 0; i < upto; i++ {
		s.exec(e, s.c.Prior[i], i, hx.FaultPlan{})
		e.collect()
	}
	return e
}

// exec prepares op (index idx in the history) on e and runs it inside a fault window.
func (s *sim) exec(e *env, op Op, idx int, plan hx.FaultPlan) (callResult, hx.FaultWindow) {
	return s.runCall(e, s.prepare(e, op, idx), idx, plan)
}

// runCall runs a prepared call inside a fault window; a panic of the code under test is recovered.
func (s *sim) runCall(e *env, call callFn, idx int, plan hx.FaultPlan) (res callResult, w hx.FaultWindow) {
	seedRand(e.role, idx)
	e.idCache = nil
	e.fs.Arm(plan)
	defer func() {
		w = e.fs.Disarm()
		if p := recover(); p != nil {
			if he, ok := p.(hx.HarnessError); ok {
				panic(he)
			}
			if g, ok := p.(gqlPanic); ok {
				res.Panic = string(g)
			} else {
				res.Panic = fmt.Sprintf("%v\n%s", p, debug.Stack())
			}
		}
	}()
	res.Err = call(e.n.Ctx, e.n.DB)
	return
}

func (s *sim) prepare(e *env, op Op, idx int) callFn {
	ctx := e.n.Ctx
	d := e.n.DB
	cn := colName(op.Col)
	getCol := func() (client.Collection, string) {
		col, err := d.GetCollectionByName(ctx, cn)
		if err != nil {
			return nil, "collection " + cn + ": " + err.Error()
		}
		return col, ""
	}
	authors := func() []string {
		if op.Col%2 == 1 {
			return e.docIDs(0)
		}
		return nil
	}
	mkDocs := func(col client.Collection, docs []Doc, cidx int, auth []string) ([]*client.Document, string) {
		out := []*client.Document{}
		for _, dd := range docs {
			doc, err := client.NewDocFromJSON([]byte(jsonObj(dd.fields(cidx, auth))), col.Definition())
			if err != nil {
				return nil, "doc: " + err.Error()
			}
			out = append(out, doc)
		}
		return out, ""
	}

	switch op.Kind {
	case "createOne", "createMany":
		auth := authors()
		if op.Route == "gql" {
			objs := make([]string, len(op.Docs))
			for i, dd := range op.Docs {
				objs[i] = gqlObj(dd.fields(op.Col, auth))
			}
			in := objs[0]
			if op.Kind == "createMany" {
				in = "[" + strings.Join(objs, ", ") + "]"
			}
			return gqlCall(fmt.Sprintf(`mutation { create_%s(input: %s) { _docID } }`, cn, in))
		}
		col, msg := getCol()
		if msg != "" {
			return failCall(msg)
		}
		docs, msg := mkDocs(col, op.Docs, op.Col, auth)
		if msg != "" {
			return failCall(msg)
		}
		if op.Kind == "createOne" {
			return func(ctx context.Context, _ hx.Execer) string { return errText(col.Create(ctx, docs[0])) }
		}
		return func(ctx context.Context, _ hx.Execer) string { return errText(col.CreateMany(ctx, docs)) }

	case "updateID":
		id := pick(e.docIDs(op.Col), op.Doc)
		f := op.Patch.fields(op.Col, authors())
		if op.Route == "gql" {
			return gqlCall(fmt.Sprintf(`mutation { update_%s(docID: %s, input: %s) { _docID } }`, cn, idArg(id, e.docIDs(op.Col), op.More), gqlObj(f)))
		}
		col, msg := getCol()
		if msg != "" {
			return failCall(msg)
		}
		docID, err := client.NewDocIDFromString(id)
		if err != nil {
			return failCall(err.Error())
		}
		doc, err := col.Get(ctx, docID, true)
		if err != nil {
			return failCall("get: " + err.Error())
		}
		for _, x := range f {
			if err := doc.Set(x.K, x.V); err != nil {
				return failCall("set: " + err.Error())
			}
		}
		if op.Route == "save" {
			return func(ctx context.Context, _ hx.Execer) string { return errText(col.Save(ctx, doc)) }
		}
		return func(ctx context.Context, _ hx.Execer) string { return errText(col.Update(ctx, doc)) }

	case "updateFilter":
		f := op.Patch.fields(op.Col, authors())
		if op.Route == "gql" {
			return gqlCall(fmt.Sprintf(`mutation { update_%s(filter: %s, input: %s) { _docID } }`, cn, op.Filter.gql(op.Col), gqlObj(f)))
		}
		col, msg := getCol()
		if msg != "" {
			return failCall(msg)
		}
		filter, updater := op.Filter.gql(op.Col), jsonObj(f)
		return func(ctx context.Context, _ hx.Execer) string {
			_, err := col.UpdateWithFilter(ctx, filter, updater)
			return errText(err)
		}

	case "deleteID":
		id := pick(e.docIDs(op.Col), op.Doc)
		if op.Route == "gql" {
			return gqlCall(fmt.Sprintf(`mutation { delete_%s(docID: %s) { _docID } }`, cn, idArg(id, e.docIDs(op.Col), op.More)))
		}
		col, msg := getCol()
		if msg != "" {
			return failCall(msg)
		}
		docID, err := client.NewDocIDFromString(id)
		if err != nil {
			return failCall(err.Error())
		}
		return func(ctx context.Context, _ hx.Execer) string {
			_, err := col.Delete(ctx, docID)
			return errText(err)
		}

	case "deleteFilter":
		if op.Route == "gql" {
			return gqlCall(fmt.Sprintf(`mutation { delete_%s(filter: %s) { _docID } }`, cn, op.Filter.gql(op.Col)))
		}
		col, msg := getCol()
		if msg != "" {
			return failCall(msg)
		}
		filter := op.Filter.gql(op.Col)
		return func(ctx context.Context, _ hx.Execer) string {
			_, err := col.DeleteWithFilter(ctx, filter)
			return errText(err)
		}

	case "upsert":
		auth := authors()
		return gqlCall(fmt.Sprintf(`mutation { upsert_%s(filter: %s, create: %s, update: %s) { _docID } }`,
			cn, op.Filter.gql(op.Col), gqlObj(op.Docs[0].fields(op.Col, auth)), gqlObj(op.Patch.fields(op.Col, auth))))

	case "createIndex":
		col, msg := getCol()
		if msg != "" {
			return failCall(msg)
		}
		fields := [][]string{{"age", "name", "email"}, {"rating", "title", "rating"}}[op.Col%2]
		req := client.IndexCreateRequest{
			Name:   fmt.Sprintf("ix_%s_%s", cn, fields[op.N%3]),
			Fields: []client.IndexedFieldDescription{{Name: fields[op.N%3]}},
			Unique: op.Flag,
		}
		return func(ctx context.Context, _ hx.Execer) string {
			_, err := col.CreateIndex(ctx, req)
			return errText(err)
		}

	case "dropIndex":
		col, msg := getCol()
		if msg != "" {
			return failCall(msg)
		}
		name := "no_such_index"
		if ixs, err := col.GetIndexes(ctx); err == nil && len(ixs) > 0 {
			names := []string{}
			for _, ix := range ixs {
				names = append(names, ix.Name)
			}
			sort.Strings(names)
			name = names[op.N%len(names)]
		}
		return func(ctx context.Context, _ hx.Execer) string { return errText(col.DropIndex(ctx, name)) }

	case "addSchema":
		sdl := extraTypes[op.N%len(extraTypes)]
		return func(ctx context.Context, _ hx.Execer) string {
			_, err := d.AddSchema(ctx, sdl)
			return errText(err)
		}

	case "patchSchema":
		kind := 11 // String
		if op.N%len(patchFields) == 1 {
			kind = 4 // Int
		}
		patch := fmt.Sprintf(`[{"op": "add", "path": "/%s/Fields/-", "value": {"Name": %q, "Kind": %d}}]`, cn, patchFields[op.N%len(patchFields)], kind)
		setDefault := op.Flag
		return func(ctx context.Context, _ hx.Execer) string {
			return errText(d.PatchSchema(ctx, patch, immutable.None[model.Lens](), setDefault))
		}

	case "setActive":
		cols, err := d.GetCollections(ctx, client.CollectionFetchOptions{Name: immutable.Some(cn), IncludeInactive: immutable.Some(true)})
		if err != nil || len(cols) == 0 {
			return failCall(fmt.Sprintf("versions of %s: %v", cn, err))
		}
		ids := []string{}
		for _, c := range cols {
			ids = append(ids, c.Version().VersionID)
		}
		sort.Strings(ids)
		id := ids[op.N%len(ids)]
		return func(ctx context.Context, _ hx.Execer) string { return errText(d.SetActiveSchemaVersion(ctx, id)) }

	case "import":
		auth := e.docIDs(0)
		parts := []string{}
		render := func(cidx int, docs []Doc) {
			if len(docs) == 0 {
				return
			}
			objs := []string{}
			for _, dd := range docs {
				objs = append(objs, jsonObj(dd.fields(cidx, auth)))
			}
			parts = append(parts, fmt.Sprintf("%q: [%s]", colName(cidx), strings.Join(objs, ", ")))
		}
		render(0, op.Docs)
		render(1, op.Docs2)
		path := filepath.Join(s.scratch, fmt.Sprintf("import-%d.json", idx))
		if err := os.WriteFile(path, []byte("{"+strings.Join(parts, ", ")+"}"), 0o644); err != nil {
			hx.Harnessf("write import file: %v", err)
		}
		return func(ctx context.Context, _ hx.Execer) string { return errText(d.BasicImport(ctx, path)) }

	case "txn":
		subs := make([]callFn, len(op.Sub))
		for i, so := range op.Sub {
			subs[i] = s.prepare(e, so, idx)
		}
		return func(ctx context.Context, _ hx.Execer) string {
			txn, err := d.NewTxn(ctx, false)
			if err != nil {
				return errText(err)
			}
			tctx := db.InitContext(ctx, txn)
			for i, sub := range subs {
				if msg := sub(tctx, txn); msg != "" {
					txn.Discard(ctx)
					return fmt.Sprintf("sub-operation %d: %s", i, msg)
				}
			}
			if err := txn.Commit(ctx); err != nil {
				txn.Discard(ctx)
				return errText(err)
			}
			return ""
		}

	case "merge":
		msg := s.mergeMsg(idx)
		if msg == nil {
			return failCall("the remote operation produced no commit")
		}
		// what syncDAG achieves: the blocks are in the receiver's blockstore before the merge
		inner := e.fs.Inner()
		for _, kv := range msg.Blocks {
			if has, err := inner.Has(ctx, kv.K); err != nil {
				hx.Harnessf("copy blocks: %v", err)
			} else if !has {
				if err := inner.Set(ctx, kv.K, kv.V); err != nil {
					hx.Harnessf("copy blocks: %v", err)
				}
			}
		}
		m := event.Merge{DocID: msg.DocID, Cid: msg.Cid, CollectionID: msg.ColID}
		return func(ctx context.Context, _ hx.Execer) string { return errText(d.VerifMerge(ctx, m)) }
	}
	hx.Harnessf("unknown op kind %q", op.Kind)
	return nil
}

// mergeFork maps the drawn number to the fork point of a merge at history index idx: the remote
// node shares the history up to one of the last four positions (fork == idx: no divergence, the
// merge is a fast-forward; smaller: the local operations after the fork are concurrent with the
// remote one), and keeps the first two operations (usually the seed documents) when there are any.
func mergeFork(n, idx int) int {
	back := n % 4
	fork := idx - back
	lo := idx
	if lo > 2 {
		lo = 2
	}
	if fork < lo {
		fork = lo
	}
	if back > 0 && fork == idx && idx > 0 {
		fork = idx - 1 // a drawn divergence is kept even in a very short history
	}
	return fork
}

// mergeMsg builds (once per operation index) the remote commit a merge operation delivers: a
// second node replays a prefix of the history (the fork point), performs the remote operation
// and the commit it announces is the message.
func (s *sim) mergeMsg(idx int) *mergeMsg {
	if s.msgDone[idx] {
		return s.msgs[idx]
	}
	s.msgDone[idx] = true
	op := s.opAt(idx)
	fork := mergeFork(op.N, idx)
	role := fmt.Sprintf("remote-%d", idx)
	r := s.build(role, fork)
	defer r.close()
	res, _ := s.exec(r, op.Sub[0], idx, hx.FaultPlan{})
	evs := r.collect()
	if !res.ok() {
		return nil
	}
	var chosen *evt
	for i := range evs {
		if evs[i].Kind == "update" && (evs[i].DocID == "") == op.Flag {
			chosen = &evs[i]
			break
		}
	}
	if chosen == nil {
		for i := range evs {
			if evs[i].Kind == "update" {
				chosen = &evs[i]
				break
			}
		}
	}
	if chosen == nil {
		return nil
	}
	c, err := cid.Decode(chosen.Cid)
	if err != nil {
		hx.Harnessf("event cid: %v", err)
	}
	col, err := r.n.DB.GetCollectionByName(r.n.Ctx, colName(op.Col))
	if err != nil {
		hx.Harnessf("remote collection: %v", err)
	}
	blocks, err := r.fs.Snapshot([]byte("/db/blocks/"))
	if err != nil {
		hx.Harnessf("remote blocks: %v", err)
	}
	m := &mergeMsg{DocID: chosen.DocID, Cid: c, ColID: col.Version().CollectionID, Blocks: blocks}
	s.msgs[idx] = m
	return m
}

// ---- logical dump ---------------------------------------------------------------------------

type section struct {
	Name string
	Body string
}

var introspectNames = []string{"Author", "Book", "Extra0", "Extra1", "Extra2"}

// logical dumps what the public API shows: collection versions, schemas, indexes, every
// document (deleted ones included) of every active collection, the commit history, one
// index-served query per index, and the GraphQL type set (introspection).
//
// The light form (full == false) is what is compared after every failed execution: collection
// versions and the GraphQL type set, i.e. the in-memory state a failed schema or index operation
// could leave behind; the full form (≈20 ms) is compared on a subset of executions, see runCase.
func (e *env) logical(full bool) []section {
	ctx := e.n.Ctx
	d := e.n.DB
	out := []section{}
	add := func(name string, v any) { out = append(out, section{name, hx.Canon(hx.Normalize(v))}) }

	cols, err := d.GetCollections(ctx, client.CollectionFetchOptions{IncludeInactive: immutable.Some(true)})
	if err != nil {
		add("collections", "error: "+err.Error())
	}
	sort.Slice(cols, func(i, j int) bool { return cols[i].Version().VersionID < cols[j].Version().VersionID })
	vers := []any{}
	names := map[string]bool{}
	var q strings.Builder
	q.WriteString("query {\n")
	nq := 0
	for _, c := range cols {
		v := c.Version()
		vers = append(vers, map[string]any{"version": v, "schema": c.Schema()})
		if !v.IsActive || v.Name == "" {
			continue
		}
		names[v.Name] = true
		fields := []string{"_docID", "_deleted"}
		for _, f := range c.Definition().GetFields() {
			if f.Kind.IsObject() || f.Name == "_docID" {
				continue
			}
			fields = append(fields, f.Name)
		}
		fmt.Fprintf(&q, " docs_%s: %s(showDeleted: true) { %s }\n", v.Name, v.Name, strings.Join(fields, " "))
		nq++
		for _, ix := range v.Indexes {
			if len(ix.Fields) == 0 {
				continue
			}
			fmt.Fprintf(&q, " ix_%s_%d: %s(filter: {%s: {_ne: null}}) { _docID %s }\n", v.Name, ix.ID, v.Name, ix.Fields[0].Name, ix.Fields[0].Name)
		}
	}
	q.WriteString(" commits { cid docID fieldName height schemaVersionId links { cid name } }\n}")
	add("collection-versions", vers)
	if !full {
		out = append(out, e.introspection())
		return out
	}

	schemas, err := d.GetSchemas(ctx, client.SchemaFetchOptions{})
	if err != nil {
		add("schemas", "error: "+err.Error())
	} else {
		sort.Slice(schemas, func(i, j int) bool { return schemas[i].VersionID < schemas[j].VersionID })
		add("schemas", schemas)
	}
	ixs, err := d.GetAllIndexes(ctx)
	if err != nil {
		add("indexes", "error: "+err.Error())
	} else {
		add("indexes", ixs)
	}

	r := e.n.Exec(q.String())
	if !r.OK() {
		out = append(out, section{"data", "error: " + r.Err() + trimTo(r.Panic, 300)})
	} else {
		keys := make([]string, 0, len(r.Data))
		for k := range r.Data {
			keys = append(keys, k)
		}
		sort.Strings(keys)
		for _, k := range keys {
			out = append(out, section{"data/" + k, strings.Join(hx.SortRows(r.Rows(k)), "\n")})
		}
	}

	out = append(out, e.introspection())
	return out
}

func (e *env) introspection() section {
	var iq strings.Builder
	iq.WriteString("query {\n")
	for _, n := range introspectNames {
		fmt.Fprintf(&iq, " %s: __type(name: %q) { fields { name } }\n", n, n)
		fmt.Fprintf(&iq, " %s_in: __type(name: \"%sMutationInputArg\") { inputFields { name } }\n", n, n)
	}
	iq.WriteString("}")
	ri := e.n.Exec(iq.String())
	if !ri.OK() {
		return section{"introspection", "error: " + ri.Err() + trimTo(ri.Panic, 300)}
	}
	return section{"introspection", hx.Canon(ri.Data)}
}

func trimTo(s string, n int) string {
	if len(s) > n {
		return s[:n] + "…"
	}
	return s
}

// diffSections names the first sections that differ ("" = equal).
func diffSections(a, b []section) string {
	am := map[string]string{}
	bm := map[string]string{}
	names := []string{}
	for _, s := range a {
		am[s.Name] = s.Body
		names = append(names, s.Name)
	}
	for _, s := range b {
		bm[s.Name] = s.Body
		if _, ok := am[s.Name]; !ok {
			names = append(names, s.Name)
		}
	}
	var out strings.Builder
	n := 0
	for _, name := range names {
		x, okx := am[name]
		y, oky := bm[name]
		if okx == oky && x == y {
			continue
		}
		n++
		if n > 3 {
			continue
		}
		fmt.Fprintf(&out, "  section %q differs:\n", name)
		xl, yl := strings.Split(x, "\n"), strings.Split(y, "\n")
		xs, ys := map[string]int{}, map[string]int{}
		for _, l := range xl {
			xs[l]++
		}
		for _, l := range yl {
			ys[l]++
		}
		shown := 0
		for _, l := range xl {
			if ys[l] == 0 && shown < 4 {
				fmt.Fprintf(&out, "    - %s\n", trimTo(l, 400))
				shown++
			}
		}
		for _, l := range yl {
			if xs[l] == 0 && shown < 8 {
				fmt.Fprintf(&out, "    + %s\n", trimTo(l, 400))
				shown++
			}
		}
	}
	if n > 3 {
		fmt.Fprintf(&out, "  … and %d more sections\n", n-3)
	}
	return out.String()
}

// ---- structural invariants (C04 style) recomputed from the raw store ------------------------

type sblock struct {
	heads    []string // block keys of Heads
	links    []string // block keys of Links
	priority uint64
}

func blockKeyOf(c cid.Cid) string {
	return "/db/blocks" + dshelp.MultihashToDsKey(c.Hash()).String()
}

// structural checks, on a raw dump: (1) every block key is the multihash of its value, (2) every
// head names a stored block whose priority equals the stored height, (3) closure: every Heads and
// Links target of a block reachable from a head is stored, (4) frontier: no head of a clock is an
// ancestor (through Heads) of another head of the same clock, (5) no orphans: every DAG block in
// the store is reachable from some head. It returns "" or "<clause>: description".
func structural(raw []hx.FaultKV) string {
	blocks := map[string]*sblock{}
	type head struct {
		clock, key string
		height     uint64
	}
	heads := []head{}
	for _, kv := range raw {
		k := string(kv.K)
		switch {
		case strings.HasPrefix(k, "/db/blocks/"):
			m, err := dshelp.DsKeyToMultihash(ds.RawKey(strings.TrimPrefix(k, "/db/blocks")))
			if err != nil {
				return fmt.Sprintf("hash: block key %q is not a multihash: %v", k, err)
			}
			dec, err := mh.Decode(m)
			if err != nil {
				return fmt.Sprintf("hash: block key %q: %v", k, err)
			}
			sum, err := mh.Sum(kv.V, dec.Code, dec.Length)
			if err != nil || !bytes.Equal(sum, m) {
				return fmt.Sprintf("hash: value under %q does not hash to its key", k)
			}
			b, err := coreblock.GetFromBytes(kv.V)
			if err != nil {
				continue // not a DAG block
			}
			sb := &sblock{priority: b.Delta.GetPriority()}
			for _, h := range b.Heads {
				sb.heads = append(sb.heads, blockKeyOf(h.Cid))
			}
			for _, l := range b.Links {
				sb.links = append(sb.links, blockKeyOf(l.Cid))
			}
			blocks[k] = sb
		case strings.HasPrefix(k, "/db/heads/"):
			i := strings.LastIndex(k, "/")
			c, err := cid.Decode(k[i+1:])
			if err != nil {
				return fmt.Sprintf("head: key %q does not end in a cid", k)
			}
			h, n := binary.Uvarint(kv.V)
			if n <= 0 {
				return fmt.Sprintf("head: %q has an undecodable height", k)
			}
			heads = append(heads, head{clock: k[:i], key: blockKeyOf(c), height: h})
		}
	}
	reach := map[string]bool{}
	var walk func(k string) string
	walk = func(k string) string {
		if reach[k] {
			return ""
		}
		b, ok := blocks[k]
		if !ok {
			return k
		}
		reach[k] = true
		for _, t := range append(append([]string{}, b.heads...), b.links...) {
			if miss := walk(t); miss != "" {
				return miss
			}
		}
		return ""
	}
	byClock := map[string][]head{}
	for _, h := range heads {
		b, ok := blocks[h.key]
		if !ok {
			return fmt.Sprintf("head-block: head %s/… names block %s which is not stored", h.clock, h.key)
		}
		if b.priority != h.height {
			return fmt.Sprintf("head-height: head under %s stores height %d, its block has priority %d", h.clock, h.height, b.priority)
		}
		if miss := walk(h.key); miss != "" {
			return fmt.Sprintf("closure: block %s reachable from a head of %s is not stored", miss, h.clock)
		}
		byClock[h.clock] = append(byClock[h.clock], h)
	}
	for clock, hs := range byClock {
		if len(hs) < 2 {
			continue
		}
		for _, a := range hs {
			anc := map[string]bool{}
			var up func(k string)
			up = func(k string) {
				for _, p := range blocks[k].heads {
					if !anc[p] && blocks[p] != nil {
						anc[p] = true
						up(p)
					}
				}
			}
			up(a.key)
			for _, b := range hs {
				if anc[b.key] {
					return fmt.Sprintf("frontier: clock %s lists head %s which is an ancestor of its head %s", clock, b.key, a.key)
				}
			}
		}
	}
	orphans := []string{}
	for k := range blocks {
		if !reach[k] {
			orphans = append(orphans, k)
		}
	}
	if len(orphans) > 0 {
		sort.Strings(orphans)
		return fmt.Sprintf("orphan: %d DAG block(s) not reachable from any head, e.g. %s", len(orphans), orphans[0])
	}
	return ""
}

func clause(s string) string {
	if i := strings.Index(s, ":"); i > 0 {
		return s[:i]
	}
	return s
}

func mustJSON(v any) string {
	b, _ := json.Marshal(v)
	return string(b)
}

func cidDecode(s string) (cid.Cid, error) { return cid.Decode(s) }

// idArg renders the docID argument: one id, or the list of distinct ids picked by first and more.
func idArg(first string, all []string, more []int) string {
	if len(more) == 0 {
		return strconv.Quote(first)
	}
	ids, seen := []string{strconv.Quote(first)}, map[string]bool{first: true}
	for _, m := range more {
		if id := pick(all, m); !seen[id] {
			seen[id] = true
			ids = append(ids, strconv.Quote(id))
		}
	}
	return "[" + strings.Join(ids, ", ") + "]"
}
