// Package c05 checks property C05: mutations are all-or-nothing, also when the storage layer
// fails mid-way (level: fault enumeration).
//
//   - gen_test.go   the serialisable Case (prior operations + the operation under test) and its
//     rapid generator
//   - exec_test.go  a node on the shared fault store (hx/faultstore.go) with an event collector,
//     preparation and execution of one operation, raw and API-level dumps, structural invariants
//   - c05_test.go   the sweep over fault positions, the oracle, the diagnosers of the listed
//     findings, and the test entry points
package c05

import (
	"bytes"
	"encoding/json"
	"fmt"
	"os"
	"sort"
	"strings"
	"sync"
	"testing"

	"pgregory.net/rapid"

	"github.com/sourcenetwork/defradb/verifharness/hx"
)

var rec = hx.NewRecorder("C05",
	"a case = generated prior contents (0-8 operations on a two-collection schema with a relation, secondary and unique indexes and a counter) plus one mutating operation; its storage operations are counted on a fault-free twin (K) and the operation is re-executed with the k-th storage operation failing, for every k (quick tier: at most 120 positions per case, stratified over operation types, when K is larger); an evaluation is one (case, k) execution; non-trivial = the fault fired after the operation's first successful Set/Delete and before its last write; distinct = (operation kind and route, storage-operation type hit, namespace)",
	"faults are injected on transaction objects (corekv.Txn and iterators made from it) only, one failing operation per execution, as an error return; torn writes inside Badger are below this layer",
	"crypto/rand (counter nonces) is replaced by a pseudo-random stream seeded per (node, operation) so that twin and primary produce identical blocks",
	"the order of storage operations inside one call can vary between executions (Go map iteration over document fields); every position 1..K is failed once, the operation found at a position is whatever the primary issued there",
	"merge is exercised through the synchronous VerifMerge hook after copying the remote blocks, not through the asynchronous bus path",
)

func TestMain(m *testing.M) { hx.Main(m) }

// explore (VERIF_C05_EXPLORE=1) is a development aid: failures are printed once per signature
// and the sweep goes on, so that one run lists every signature the generator can reach.
var (
	explore     = os.Getenv("VERIF_C05_EXPLORE") != ""
	exploreMu   sync.Mutex
	exploreSeen = map[string]int{}
)

// Case.MaxPoints is set by the tier: 0 = every k.
type runOpts struct {
	MaxPoints int
}

type point struct {
	K       int
	Kind    string // storage operation type that failed ("none" when the fault did not fire)
	NS      string
	Phase   string
	Outcome string
}

type report struct {
	OpLabel   string
	K         int
	Swept     int
	Full      bool
	Points    []point
	Labels    []string
	KnownHits map[string]*hx.Failure
}

func nsShort(ns string) string {
	if ns == "" {
		return "none"
	}
	return strings.TrimPrefix(ns, "/db/")
}

// choosePositions returns the fault positions to try: all of 1..K, or (when max > 0 and K > max)
// a deterministic sample of max positions stratified over the operation types of the twin's
// trace, always containing the first and last write, the positions next to them and the commit.
func choosePositions(trace []hx.FaultOp, max int) ([]int, bool) {
	K := len(trace)
	if max <= 0 || K <= max {
		out := make([]int, K)
		for i := range out {
			out[i] = i + 1
		}
		return out, true
	}
	chosen := map[int]bool{}
	first, last := 0, 0
	byKind := map[hx.FaultOpKind][]int{}
	for _, op := range trace {
		byKind[op.Kind] = append(byKind[op.Kind], op.Seq)
		if op.Kind.IsWrite() {
			if first == 0 {
				first = op.Seq
			}
			last = op.Seq
		}
		if op.Kind == hx.FaultCommit {
			chosen[op.Seq] = true
		}
	}
	for _, p := range []int{first - 1, first, first + 1, last - 1, last, last + 1, 1, K} {
		if p >= 1 && p <= K {
			chosen[p] = true
		}
	}
	kinds := make([]int, 0, len(byKind))
	for k := range byKind {
		kinds = append(kinds, int(k))
	}
	sort.Ints(kinds)
	budget := max - len(chosen)
	for _, k := range kinds {
		ps := byKind[hx.FaultOpKind(k)]
		quota := budget * len(ps) / K
		if quota < 4 {
			quota = 4
		}
		if quota > len(ps) {
			quota = len(ps)
		}
		for i := 0; i < quota; i++ {
			chosen[ps[i*len(ps)/quota]] = true
		}
	}
	out := make([]int, 0, len(chosen))
	for p := range chosen {
		out = append(out, p)
	}
	sort.Ints(out)
	return out, false
}

func faultDesc(w hx.FaultWindow, k int) string {
	if !w.Fired {
		return fmt.Sprintf("k=%d (not reached: the call issued %d storage operations)", k, w.Count)
	}
	return fmt.Sprintf("k=%d failing %s (writes before it: %d, storage operations after it: %d)", k, w.FiredOp, w.WritesBefore, w.OpsAfter)
}

// runCase is the oracle. It returns the first failure with an unlisted signature, else the first
// failure with a known signature, else nil.
func runCase(c Case, o runOpts) (*hx.Failure, *report) {
	dir, cleanup := hx.Scratch("c05")
	defer cleanup()
	s := &sim{c: c, msgs: map[int]*mergeMsg{}, msgDone: map[int]bool{}, scratch: dir}
	opIdx := len(c.Prior)
	lab := c.Op.label()
	rep := &report{OpLabel: lab, KnownHits: map[string]*hx.Failure{}}
	if c.Op.Filter != nil {
		rep.Labels = append(rep.Labels, "case-filter:"+c.Op.Filter.Field+":"+c.Op.Filter.Op)
	}

	// --- fault-free twin: learns K and the success state
	twin := s.build("main", opIdx)
	defer twin.close()
	call := s.prepare(twin, c.Op, opIdx)
	twinPre := twin.raw()
	res0, w0 := s.runCall(twin, call, opIdx, hx.FaultPlan{Trace: true})
	ev0 := twin.collect()
	if res0.Panic != "" {
		// a panic without any fault is not an atomicity matter; visible in the labels
		rep.Labels = append(rep.Labels, "skipped:panic-without-fault:"+hx.PanicSite(res0.Panic))
		if explore {
			fmt.Printf("EXPLORE panic-without-fault %s: %s\n", mustJSON(c), trimTo(res0.Panic, 1500))
		}
		return nil, rep
	}
	twinPost := twin.raw()
	twinLog := twin.logical(true)
	twinOK := res0.ok()
	rep.K = w0.Count
	if !twinOK {
		rep.Labels = append(rep.Labels, "nofault:rejected")
		if strings.HasPrefix(res0.Err, "prepare: ") {
			rep.Labels = append(rep.Labels, "nofault:rejected-in-prepare")
		}
		if explore {
			fmt.Printf("EXPLORE-REJECT %s: %s\n", lab, trimTo(res0.Err, 160))
		}
		if d := hx.FaultDiffKV(twinPre, twinPost, 8); d != "" {
			return hx.Failf("C05/error-but-changed/"+lab+"/no-fault",
				"%s failed without any fault (%s) but changed the store:\n%s", mustJSON(c.Op), res0.Err, d), rep
		}
		if len(ev0) > 0 {
			return hx.Failf("C05/error-but-event/"+lab+"/no-fault",
				"%s failed without any fault (%s) but published %v", mustJSON(c.Op), res0.Err, evKeys(ev0)), rep
		}
	} else {
		rep.Labels = append(rep.Labels, "nofault:ok")
		if hx.FaultDiffKV(twinPre, twinPost, 1) == "" {
			rep.Labels = append(rep.Labels, "nofault:ok-without-effect")
		}
	}
	twinStruct := ""
	twinEventsReadable := true
	if twinOK {
		if multiHead(twinPost) {
			rep.Labels = append(rep.Labels, "result-state:some-clock-has-several-heads")
		}
		twinStruct = structural(twinPost)
		if twinStruct != "" {
			rep.Labels = append(rep.Labels, "twin-structural:"+clause(twinStruct))
		}
		twinEventsReadable = eventsReadable(ev0, twinPost) == ""
	}
	firstWrite, lastWrite := 0, 0
	for _, op := range w0.Trace {
		if op.Kind.IsWrite() {
			if firstWrite == 0 {
				firstWrite = op.Seq
			}
			lastWrite = op.Seq
		}
	}
	positions, full := choosePositions(w0.Trace, o.MaxPoints)
	rep.Full = full
	rep.Swept = len(positions)

	// --- primary
	var prim *env
	defer func() { prim.close() }()
	var pre []hx.FaultKV
	var preLog, preLight []section
	fullDone := map[string]bool{} // classes (phase, storage-operation type) already compared with the full dump
	drop := func() {
		prim.close()
		prim = nil
		pre = nil
	}
	nondet := false
	ensure := func() callFn {
		if prim == nil {
			prim = s.build("main", opIdx)
			pre = nil
		}
		call := s.prepare(prim, c.Op, opIdx)
		if pre == nil {
			pre = prim.raw()
			preLog = prim.logical(true)
			preLight = prim.logical(false)
			if hx.FaultDiffKV(twinPre, pre, 1) != "" {
				nondet = true
			}
		}
		return call
	}
	// determinism of the fault-free run, established lazily when a success state differs
	detChecked, detOK := false, true
	deterministic := func() bool {
		if !detChecked {
			detChecked = true
			t2 := s.build("main", opIdx)
			defer t2.close()
			c2 := s.prepare(t2, c.Op, opIdx)
			r2, _ := s.runCall(t2, c2, opIdx, hx.FaultPlan{})
			e2 := t2.collect()
			detOK = r2.ok() == twinOK && hx.FaultDiffKV(twinPost, t2.raw(), 1) == "" &&
				strings.Join(evKeys(e2), ",") == strings.Join(evKeys(ev0), ",") && diffSections(twinLog, t2.logical(true)) == ""
		}
		return detOK
	}

	var firstUnknown, firstKnown *hx.Failure
	noteFailure := func(f *hx.Failure) {
		if explore {
			exploreMu.Lock()
			if exploreSeen[f.Sig] == 0 {
				fmt.Printf("EXPLORE %s\n", f.Error())
			}
			exploreSeen[f.Sig]++
			exploreMu.Unlock()
			return
		}
		if rec.IsKnown(f.Sig) {
			if _, ok := rep.KnownHits[f.Sig]; !ok {
				rep.KnownHits[f.Sig] = f
			}
			if firstKnown == nil {
				firstKnown = f
			}
		} else if firstUnknown == nil {
			firstUnknown = f
		}
	}

	for _, k := range append(append([]int{}, positions...), 0) {
		if firstUnknown != nil {
			break
		}
		call := ensure()
		if nondet {
			rep.Labels = append(rep.Labels, "skipped:nondeterministic-history")
			return nil, rep
		}
		final := k == 0
		ids := prim.idCache
		res, w := s.runCall(prim, call, opIdx, hx.FaultPlan{K: k})
		evs := prim.collect()
		post := prim.raw()
		pt := point{K: k, Kind: "none", NS: "none"}
		if w.Fired {
			pt.Kind = w.FiredOp.Kind.String()
			pt.NS = nsShort(w.FiredOp.Namespace())
		}
		switch {
		case final:
			pt.Phase = "final-no-fault"
		case !w.Fired:
			pt.Phase = "not-reached"
		case lastWrite == 0:
			pt.Phase = "no-writes-in-op"
		case w.WritesBefore == 0:
			pt.Phase = "before-first-write"
		case k <= lastWrite:
			pt.Phase = "between-writes"
		default:
			pt.Phase = "after-last-write"
		}
		where := pt.Kind + "@" + pt.NS
		if final {
			where = "after-sweep"
		}
		var f *hx.Failure
		switch {
		case res.Panic != "":
			pt.Outcome = "panic"
			f = diagnosePanic(c, lab, where, res.Panic, w, k, prim.fs.OpenIteratorSites())
			drop()
		case res.Err != "":
			pt.Outcome = "error-unchanged"
			if d := hx.FaultDiffKV(pre, post, 8); d != "" {
				pt.Outcome = "error-changed"
				f = hx.Failf("C05/error-but-changed/"+lab+"/"+where,
					"%s with %s reported an error (%s) but the store changed:\n%s", mustJSON(c.Op), faultDesc(w, k), res.Err, d)
			} else if len(evs) > 0 {
				pt.Outcome = "error-event"
				f = hx.Failf("C05/error-but-event/"+lab+"/"+where,
					"%s with %s reported an error (%s), left the store unchanged, but published %v", mustJSON(c.Op), faultDesc(w, k), res.Err, evKeys(evs))
			} else if d := compareLogical(prim, preLog, preLight, final || pt.Kind == "commit" || !fullDone[pt.Phase+pt.Kind]); d != "" {
				pt.Outcome = "error-logical-changed"
				f = hx.Failf("C05/error-but-visible-change/"+lab+"/"+where,
					"%s with %s reported an error (%s), the raw store is unchanged, but what the API shows changed (in-memory state):\n%s", mustJSON(c.Op), faultDesc(w, k), res.Err, d)
			} else if final && twinOK {
				pt.Outcome = "final-error"
				f = hx.Failf("C05/poisoned-after-failures/"+lab,
					"%s succeeds on a fresh node, but fails (%s) without any fault on a node on which it had failed %d times under injected faults before", mustJSON(c.Op), res.Err, len(positions))
			}
			fullDone[pt.Phase+pt.Kind] = true
			if f != nil {
				drop()
			} else {
				prim.idCache = ids // state unchanged
			}
		default:
			pt.Outcome = "success-complete"
			if w.Fired {
				pt.Outcome = "success-complete-fault-swallowed"
			}
			f = s.judgeSuccess(c, lab, where, k, w, res, evs, post, prim, twinOK, res0, twinPost, ev0, twinLog, twinStruct, twinEventsReadable, pre)
			if f != nil {
				if !deterministic() {
					rep.Labels = append(rep.Labels, "skipped:nondeterministic-op")
					f = nil
				} else {
					pt.Outcome = "success-wrong"
				}
			}
			if f != nil && final {
				f.Sig = "C05/poisoned-after-failures/" + lab
			}
			if f == nil && w.Fired {
				rep.Labels = append(rep.Labels, "swallowed-harmlessly:"+where)
			}
			if hx.FaultDiffKV(pre, post, 1) != "" || f != nil {
				drop()
			}
		}
		rep.Points = append(rep.Points, pt)
		if f != nil {
			noteFailure(f)
		}
	}
	if firstUnknown != nil {
		return firstUnknown, rep
	}
	return firstKnown, rep
}

// compareLogical compares what the API shows now with the pre-operation dump (full or light form).
func compareLogical(e *env, preFull, preLight []section, full bool) string {
	if full {
		return diffSections(preFull, e.logical(true))
	}
	return diffSections(preLight, e.logical(false))
}

// multiHead reports whether some clock (document field, composite or collection) has more than
// one head in the raw dump.
func multiHead(raw []hx.FaultKV) bool {
	n := map[string]int{}
	for _, kv := range raw {
		k := string(kv.K)
		if strings.HasPrefix(k, "/db/heads/") {
			clock := k[:strings.LastIndex(k, "/")]
			n[clock]++
			if n[clock] > 1 {
				return true
			}
		}
	}
	return false
}

// eventsReadable checks that every update event announces a cid whose block is stored with the
// announced bytes.
func eventsReadable(evs []evt, raw []hx.FaultKV) string {
	for _, e := range evs {
		if e.Kind != "update" {
			continue
		}
		c, err := cidDecode(e.Cid)
		if err != nil {
			return "undecodable cid " + e.Cid
		}
		key := []byte(blockKeyOf(c))
		i := sort.Search(len(raw), func(i int) bool { return bytes.Compare(raw[i].K, key) >= 0 })
		if i >= len(raw) || !bytes.Equal(raw[i].K, key) {
			return fmt.Sprintf("update event for doc %q announces %s which is not in the blockstore", e.DocID, e.Cid)
		}
		if !bytes.Equal(raw[i].V, e.Block) {
			return fmt.Sprintf("update event for doc %q carries a block that differs from what is stored under %s", e.DocID, e.Cid)
		}
	}
	return ""
}

// judgeSuccess decides a call that reported success (with or without a fired fault).
func (s *sim) judgeSuccess(c Case, lab, where string, k int, w hx.FaultWindow, res callResult, evs []evt, post []hx.FaultKV, prim *env,
	twinOK bool, res0 callResult, twinPost []hx.FaultKV, ev0 []evt, twinLog []section, twinStruct string, twinEventsReadable bool, pre []hx.FaultKV) *hx.Failure {
	if !twinOK {
		if hx.FaultDiffKV(pre, post, 1) == "" && len(evs) == 0 {
			// success without any effect where the fault-free run is rejected: nothing partial
			return nil
		}
		sig := "C05/success-where-fault-free-run-is-rejected/" + lab + "/" + where
		if scanErrorDropped(c, w) {
			// the scan stopped before reaching the document that makes the fault-free run fail
			sig = sigScanErrorDropped
		}
		return hx.Failf(sig,
			"%s is rejected without faults (%s); with %s it reported success and changed the store:\n%s", mustJSON(c.Op), res0.Err, faultDesc(w, k), hx.FaultDiffKV(pre, post, 8))
	}
	if d := hx.FaultDiffKV(twinPost, post, 10); d != "" {
		return diagnosePartial(c, lab, where, k, w, d, pre, post, twinPost)
	}
	if got, want := evKeys(evs), evKeys(ev0); strings.Join(got, ",") != strings.Join(want, ",") {
		return hx.Failf("C05/success-events-differ/"+lab+"/"+where,
			"%s with %s reported success and the store equals the fault-free result, but the events differ: got %v, fault-free run published %v", mustJSON(c.Op), faultDesc(w, k), got, want)
	}
	if twinEventsReadable {
		if msg := eventsReadable(evs, post); msg != "" {
			return hx.Failf("C05/success-event-unreadable/"+lab+"/"+where, "%s with %s: %s", mustJSON(c.Op), faultDesc(w, k), msg)
		}
	}
	if twinStruct == "" {
		if msg := structural(post); msg != "" {
			return hx.Failf("C05/success-structural/"+clause(msg)+"/"+lab, "%s with %s reported success; %s", mustJSON(c.Op), faultDesc(w, k), msg)
		}
	}
	if d := diffSections(twinLog, prim.logical(true)); d != "" {
		return hx.Failf("C05/success-but-not-visible/"+lab+"/"+where,
			"%s with %s reported success and the raw store equals the fault-free result, but what the API shows differs from the fault-free node (in-memory state):\n%s", mustJSON(c.Op), faultDesc(w, k), d)
	}
	return nil
}

// ---- diagnosers ------------------------------------------------------------------------------
//
// A diagnoser decides whether a concrete discrepancy is fully explained by one specific defect
// (call site AND model condition); when in doubt it does not match and the generic signature
// (operation kind / storage operation hit) is reported.

const (
	// collection.updateWithFilter drops the error of selectionPlan.Next() (returns the stale,
	// nil `err`): the loop ends, the documents updated so far are committed, success is reported.
	sigScanErrorDropped = "C05/success-partial/updateWithFilter-scan-error-dropped"
	// coreblock.updateHeads only logs a failed head write ("root is a new head" branch).
	sigHeadWriteLogged = "C05/success-partial/updateHeads-head-write-error-only-logged"
	// iterator leaks that make Badger panic "Unclosed iterator at time of Txn.Discard"
	sigLeakIndexGetFields = "C05/panic/unclosed-iterator/indexFetcher.GetFields-NextDoc-error"
	sigLeakPlanNotClosed  = "C05/panic/unclosed-iterator/filter-mutation-plan-not-closed-on-init-error"
)

// stackFuncs lists the functions of a debug.Stack-like text, innermost first, as "pkg.(*T).M".
func stackFuncs(stack string) []string {
	out := []string{}
	for _, line := range strings.Split(stack, "\n") {
		if strings.HasPrefix(line, "\t") || !strings.Contains(line, "(") {
			continue
		}
		line = strings.TrimSpace(line)
		if i := strings.LastIndex(line, "("); i > 0 {
			line = line[:i]
		}
		line = line[strings.LastIndex(line, "/")+1:]
		out = append(out, line)
	}
	return out
}

// calledBy reports whether callee appears directly below caller somewhere in the stack
// (callee/caller are matched as suffixes of the short function names; callee "" = any function
// whose name satisfies pred).
func calledBy(funcs []string, callee func(string) bool, caller string) bool {
	for i := 1; i < len(funcs); i++ {
		if strings.HasSuffix(funcs[i], caller) && callee(funcs[i-1]) {
			return true
		}
	}
	return false
}

func isReadKind(k hx.FaultOpKind) bool {
	switch k {
	case hx.FaultGet, hx.FaultHas, hx.FaultIterator, hx.FaultNext, hx.FaultValue, hx.FaultSeek:
		return true
	}
	return false
}

func (o Op) containsUpdateFilterAPI() bool {
	if o.Kind == "updateFilter" && o.Route == "api" {
		return true
	}
	if o.Kind == "txn" {
		for _, s := range o.Sub {
			if s.containsUpdateFilterAPI() {
				return true
			}
		}
	}
	return false
}

// scanErrorDropped: the injected read error was returned by selectionPlan.Next() to
// collection.updateWithFilter (the only place where that function drops an error).
func scanErrorDropped(c Case, w hx.FaultWindow) bool {
	if !c.Op.containsUpdateFilterAPI() || !w.Fired || !isReadKind(w.FiredOp.Kind) {
		return false
	}
	return calledBy(stackFuncs(w.FiredStack), func(f string) bool {
		return strings.HasPrefix(f, "planner.") && strings.HasSuffix(f, ".Next")
	}, "db.(*collection).updateWithFilter")
}

// docData groups the /db/data entries by document.
func docData(kvs []hx.FaultKV) map[string]string {
	out := map[string]string{}
	for _, kv := range kvs {
		k := string(kv.K)
		if !strings.HasPrefix(k, "/db/data/") {
			continue
		}
		parts := strings.Split(strings.TrimPrefix(k, "/db/data/"), "/")
		if len(parts) < 3 || !strings.HasPrefix(parts[2], "bae-") {
			continue
		}
		out[parts[2]] += k + "=" + string(kv.V) + ";"
	}
	return out
}

func changedDocs(a, b map[string]string) map[string]bool {
	out := map[string]bool{}
	for k, v := range a {
		if b[k] != v {
			out[k] = true
		}
	}
	for k := range b {
		if _, ok := a[k]; !ok {
			out[k] = true
		}
	}
	return out
}

// diagnosePartial names a success whose final store differs from the fault-free result.
func diagnosePartial(c Case, lab, where string, k int, w hx.FaultWindow, diff string, pre, post, twinPost []hx.FaultKV) *hx.Failure {
	sig := "C05/success-partial/" + lab + "/" + where
	why := ""
	switch {
	case scanErrorDropped(c, w):
		// model condition: a strict subset of the documents the fault-free run changes was
		// changed, each of them completely
		p, q, t := docData(pre), docData(post), docData(twinPost)
		got, want := changedDocs(p, q), changedDocs(p, t)
		ok := len(got) < len(want)
		for d := range got {
			if !want[d] || q[d] != t[d] {
				ok = false
			}
		}
		if ok {
			sig = sigScanErrorDropped
			why = fmt.Sprintf("diagnosis: the injected error was returned by selectionPlan.Next() inside collection.updateWithFilter, which returns the stale nil `err` instead of `nextErr`; %d of the %d matching documents were updated and committed.\n", len(got), len(want))
		}
	case w.Fired && w.FiredOp.Kind == hx.FaultSet && w.FiredOp.Namespace() == "/db/heads" &&
		calledBy(stackFuncs(w.FiredStack), func(f string) bool { return strings.HasSuffix(f, "(*heads).Write") }, "block.updateHeads"):
		// model condition: the only difference is the head entry whose write failed
		only := hx.FaultDiffKV(twinPost, post, 3)
		if strings.Count(only, "\n") == 1 && strings.HasPrefix(only, "  removed ") && strings.Contains(only, fmt.Sprintf("%q", trimQuote(w.FiredOp.Key))) {
			sig = sigHeadWriteLogged
			why = "diagnosis: coreblock.updateHeads only logs the failed head write (\"root is a new head\" branch); the commit is merged but is not a head.\n"
		}
	}
	return hx.Failf(sig,
		"%s with %s reported success, but the store differs from the fault-free result (- = only fault-free, + = only faulted):\n%s%s",
		mustJSON(c.Op), faultDesc(w, k), strings.NewReplacer("removed", "-", "added  ", "+").Replace(diff), why)
}

func trimQuote(s string) string {
	if len(s) > 120 {
		return s[:120] + "…"
	}
	return s
}

// leakSite condenses the creation stack of a leaked iterator to the chain of defradb functions
// that created it (innermost first, at most three).
func leakSite(stack string) string {
	frames := []string{}
	for _, line := range strings.Split(stack, "\n") {
		line = strings.TrimSpace(line)
		if !strings.HasPrefix(line, "github.com/sourcenetwork/defradb/") || strings.Contains(line, "verifharness") {
			continue
		}
		if i := strings.LastIndex(line, "("); i > 0 {
			line = line[:i]
		}
		line = line[strings.LastIndex(line, "/")+1:]
		frames = append(frames, line)
		if len(frames) == 3 {
			break
		}
	}
	if len(frames) == 0 {
		return "unknown"
	}
	return strings.Join(frames, "<")
}

// diagnosePanic names a panic of the code under test. Badger's "Unclosed iterator at time of
// Txn.Discard" is attributed to the code that created the iterator that was left open and to the
// call site that received the injected error.
func diagnosePanic(c Case, lab, where, stack string, w hx.FaultWindow, k int, leaks []string) *hx.Failure {
	first := stack
	if i := strings.Index(first, "\n"); i > 0 {
		first = first[:i]
	}
	if strings.Contains(first, "Unclosed iterator") && len(leaks) > 0 {
		sites := map[string]bool{}
		for _, l := range leaks {
			sites[leakSite(l)] = true
		}
		names := make([]string, 0, len(sites))
		for s := range sites {
			names = append(names, s)
		}
		sort.Strings(names)
		sig := "C05/panic/unclosed-iterator/" + strings.Join(names, "+")
		why := ""
		fired := stackFuncs(w.FiredStack)
		has := func(suffix string) func(string) bool {
			return func(f string) bool { return strings.HasSuffix(f, suffix) }
		}
		if len(names) == 1 && w.Fired {
			switch {
			case strings.HasSuffix(names[0], "<fetcher.(*indexFetcher).GetFields") &&
				calledBy(fired, has("fetcher.(*prefixFetcher).NextDoc"), "fetcher.(*indexFetcher).GetFields"):
				sig = sigLeakIndexGetFields
				why = "diagnosis: indexFetcher.GetFields returns the error of prefixFetcher.NextDoc() without closing the prefix fetcher it has just created."
			case strings.HasSuffix(names[0], "<fetcher.(*wrappingFetcher).Start") &&
				(calledBy(fired, func(f string) bool {
					return strings.HasPrefix(f, "planner.") && (strings.HasSuffix(f, ".Init") || strings.HasSuffix(f, ".Start"))
				}, "db.(*collection).updateWithFilter") || calledBy(fired, func(f string) bool {
					return strings.HasPrefix(f, "planner.") && (strings.HasSuffix(f, ".Init") || strings.HasSuffix(f, ".Start"))
				}, "db.(*collection).deleteWithFilter")):
				sig = sigLeakPlanNotClosed
				why = "diagnosis: collection.updateWithFilter/deleteWithFilter register the deferred selectionPlan.Close() only after Init() and Start() succeeded; an error inside Init()/Start() leaves the scan's iterator open."
			}
		}
		return hx.Failf(sig,
			"%s with %s panicked: %s\n%s\nthe error was injected into:\n%s\nthe iterator left open was created by:\n%s",
			mustJSON(c.Op), faultDesc(w, k), first, why, trimTo(w.FiredStack, 1500), trimTo(leaks[0], 2000))
	}
	return hx.Failf("C05/panic/"+hx.PanicSite(stack)+"/"+lab, "%s with %s panicked: %s\n%s", mustJSON(c.Op), faultDesc(w, k), first, trimTo(stack, 2500))
}

// ---- tests --------------------------------------------------------------------------------------

func tierOpts() runOpts {
	if hx.Thorough() {
		return runOpts{MaxPoints: hx.EnvInt("VERIF_C05_MAXPOINTS", 0)}
	}
	return runOpts{MaxPoints: hx.EnvInt("VERIF_C05_MAXPOINTS", 120)}
}

// replayCase is what is saved: the case and the sweep bound it was run with.
type replayCase struct {
	Case
	MaxPoints int `json:"max_points"`
}

type classKey struct {
	Op   string
	Kind string
	NS   string
}

func record(rep *report) {
	if rep == nil {
		return
	}
	rec.Label("case-op:" + rep.OpLabel)
	rec.Label(rep.Labels...)
	if rep.Full {
		rec.Label("case-sweep:all-k")
	} else if rep.Swept > 0 {
		rec.Label("case-sweep:sampled")
	}
	for _, p := range rep.Points {
		rec.Eval(classKey{rep.OpLabel, p.Kind, p.NS}, p.Phase == "between-writes",
			"hit:"+p.Kind, "ns:"+p.NS, "phase:"+p.Phase, "outcome:"+p.Outcome)
	}
}

var casesTotal, casesFull, kSum, pointsSum int

func sweepText(o runOpts) string {
	if o.MaxPoints == 0 {
		return "every k = 1..K for every case (exhaustive per case), plus one fault-free re-execution on the node that saw all the failures"
	}
	return fmt.Sprintf("every k = 1..K for cases with K <= %d, else %d positions stratified over storage-operation types (always first/last write, their neighbours, commit), plus one fault-free re-execution on the node that saw all the failures", o.MaxPoints, o.MaxPoints)
}

func TestC05(t *testing.T) { checkC05(t, drawCase) }

// TestC05Filtered concentrates on filtered mutations whose filter is served by a secondary index
// through more than one index scan (_in lists, _or branches) over contents that hold matching
// documents: the partial-effect window of these calls spans several iterators.
func TestC05Filtered(t *testing.T) { checkC05(t, drawFilteredCase) }

func checkC05(t *testing.T, draw func(*rapid.T) Case) {
	o := tierOpts()
	if explore {
		defer func() {
			for sig, n := range exploreSeen {
				fmt.Printf("EXPLORE-COUNT %6d %s\n", n, sig)
			}
		}()
	}
	rapid.Check(t, func(t *rapid.T) {
		c := draw(t)
		var rep *report
		f := hx.Guard("C05", func() *hx.Failure {
			var f *hx.Failure
			f, rep = runCase(c, o)
			return f
		})
		if rep != nil && rep.Swept > 0 {
			casesTotal++
			if casesTotal <= 2 {
				rec.Sample(replayCase{c, o.MaxPoints})
			}
			if rep.Full {
				casesFull++
			}
			kSum += rep.K
			pointsSum += rep.Swept
			// only summable numbers: the driver adds numeric extras over the shards
			rec.Extra["cases"] = casesTotal
			rec.Extra["cases_swept_over_every_k"] = casesFull
			rec.Extra["cases_swept_over_a_stratified_sample_of_k"] = casesTotal - casesFull
			rec.Extra["storage_operations_of_all_cases"] = kSum
			rec.Extra["fault_positions_tried"] = pointsSum
			rec.Extra["sweep"] = sweepText(o)
			if o.MaxPoints == 0 && hx.EnvInt("VERIF_SHARD", 0) == 0 {
				// every shard runs with the same bound, so the claim holds for all of them; it is
				// written by one shard only because the driver sums numeric (and boolean) extras
				rec.Extra["exhaustive"] = true
			}
		}
		record(rep)
		if rep != nil {
			// every known signature hit during the sweep is counted, not only the returned one
			for sig, kf := range rep.KnownHits {
				if f == nil || f.Sig != sig {
					rec.Check(t, replayCase{c, o.MaxPoints}, kf)
				}
			}
		}
		rec.Check(t, replayCase{c, o.MaxPoints}, f)
	})
}

func decodeReplay(raw []byte) (Case, runOpts, error) {
	var rc replayCase
	if err := json.Unmarshal(raw, &rc); err != nil {
		return Case{}, runOpts{}, err
	}
	return rc.Case, runOpts{MaxPoints: rc.MaxPoints}, nil
}

func TestReplay(t *testing.T) {
	raw := hx.ReplayCase(t)
	rec.SetReplaying()
	c, o, err := decodeReplay(raw)
	if err != nil {
		t.Fatal(err)
	}
	var rep *report
	f := hx.Guard("C05", func() *hx.Failure {
		var f *hx.Failure
		f, rep = runCase(c, o)
		return f
	})
	record(rep)
	if f != nil {
		t.Logf("verdict: %s", f.Error())
	}
	rec.Check(t, replayCase{c, o.MaxPoints}, f)
}

func TestRegress(t *testing.T) {
	hx.Regress(t, "testdata/regress", func(raw []byte) *hx.Failure {
		c, o, err := decodeReplay(raw)
		if err != nil {
			return hx.Failf("C05/regress-file", "%v", err)
		}
		return hx.Guard("C05", func() *hx.Failure {
			f, _ := runCase(c, o)
			return f
		})
	}, rec)
}
