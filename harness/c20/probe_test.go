package c20

import (
	"context"
	"fmt"
	"runtime"
	"strings"
	"testing"
	"time"

	"github.com/sourcenetwork/defradb/client"
	"github.com/sourcenetwork/defradb/verifharness/hx"
)

func TestProbe(t *testing.T) {
	n := hx.MustMemNode()
	defer n.Close()
	_, err := n.DB.AddSchema(n.Ctx, `type Users @branchable { age: Int  tag: String  mk: Boolean  u: Int @index(unique: true) }
	type Things { age: Int tag: String mk: Boolean u: Int @index(unique: true)}`)
	if err != nil {
		t.Fatal(err)
	}
	tap := hx.NewEventTap(n)
	defer tap.Close()
	ctx, cancel := context.WithCancel(n.Ctx)
	defer cancel()
	open := func(q string) <-chan client.GQLResult {
		r := n.DB.ExecRequest(ctx, q)
		if len(r.GQL.Errors) > 0 {
			t.Fatalf("sub: %v", r.GQL.Errors)
		}
		return r.Subscription
	}
	s1 := open(`subscription { Users { _docID age tag _version { cid height } } }`)
	s2 := open(`subscription { Users(filter: {_or: [{mk: {_eq: true}}, {age: {_gt: 5}}]}) { _docID age tag } }`)
	s3 := open(`subscription { Things { _docID age } }`)
	show := func(name string, ch <-chan client.GQLResult) {
		for {
			select {
			case r, ok := <-ch:
				if !ok {
					fmt.Println(name, "closed")
					return
				}
				fmt.Println(name, hx.Canon(hx.Normalize(r.Data)), r.Errors)
			case <-time.After(300 * time.Millisecond):
				return
			}
		}
	}
	do := func(q string) {
		r := n.Exec(q)
		fmt.Println("EXEC", q, "->", hx.Canon(r.Data), r.Err(), trimS(r.Panic))
		for _, e := range tap.Take() {
			fmt.Printf("  EVT doc=%q cid=%s col=%s\n", e.DocID, e.Cid, e.CollectionID)
		}
		show("  s1", s1)
		show("  s2", s2)
		show("  s3", s3)
	}
	do(`mutation { create_Users(input: {mk: true}) { _docID } }`)
	do(`mutation { create_Users(input: [{age: 3, tag: "a", u: 1}, {age: 9, tag: "b", u: 2}]) { _docID } }`)
	do(`mutation { create_Things(input: [{age: 3, tag: "a", u: 1}]) { _docID } }`)
	do(`mutation { update_Users(filter: {age: {_lt: 100}}, input: {tag: "x"}) { _docID } }`)
	do(`mutation { update_Users(filter: {age: {_ne: 100}}, input: {tag: "y"}) { _docID } }`)
	do(`mutation { update_Users(filter: {tag: {_in: ["y", "q"]}}, input: {age: 2}) { _docID } }`)
	do(`mutation { create_Users(input: {age: 7, u: 1}) { _docID } }`)
	do(`mutation { a: create_Users(input: {age: 7, u: 10}) { _docID } b: create_Users(input: {age: 7, u: 1}) { _docID } }`)
	do(`mutation { a: create_Users(input: {age: 7, u: 10}) { _docID } b: update_Users(filter: {u: {_eq: 10}}, input: {age: 8}) { _docID } }`)
	do(`mutation { upsert_Users(filter: {u: {_eq: 77}}, create: {age: 1, u: 77}, update: {age: 2}) { _docID } }`)
	do(`mutation { upsert_Users(filter: {u: {_eq: 77}}, create: {age: 1, u: 77}, update: {age: 2}) { _docID } }`)
	do(`mutation { delete_Things(filter: {age: {_eq: 3}}) { _docID } }`)
	fmt.Println("---- delete on Users")
	done := make(chan struct{})
	go func() {
		do(`mutation { delete_Users(filter: {u: {_eq: 77}}) { _docID } }`)
		close(done)
	}()
	select {
	case <-done:
	case <-time.After(5 * time.Second):
		fmt.Println("delete hung")
	}
	buf := make([]byte, 1<<20)
	buf = buf[:runtime.Stack(buf, true)]
	for _, g := range strings.Split(string(buf), "\n\n") {
		if strings.Contains(g, "handleSubscription") {
			fmt.Println(g)
		}
	}
}

func trimS(s string) string {
	if len(s) > 300 {
		return s[:300]
	}
	return s
}
