package c20

import (
	"context"
	"fmt"
	"testing"
	"time"

	"github.com/sourcenetwork/defradb/client"
	"github.com/sourcenetwork/defradb/event"
	coreblock "github.com/sourcenetwork/defradb/internal/core/block"
	"github.com/sourcenetwork/defradb/verifharness/hx"
)

func TestProbe(t *testing.T) {
	n := hx.MustMemNode()
	defer n.Close()
	_, err := n.DB.AddSchema(n.Ctx, `type Users { age: Int  tag: String  mk: Boolean  u: Int @index(unique: true) }`)
	if err != nil {
		t.Fatal(err)
	}
	tap := hx.NewEventTap(n)
	defer tap.Close()
	ctx, cancel := context.WithCancel(n.Ctx)
	defer cancel()
	open := func(q string) <-chan client.GQLResult {
		r := n.DB.ExecRequest(ctx, q)
		if len(r.GQL.Errors) > 0 {
			t.Fatalf("sub: %v", r.GQL.Errors)
		}
		return r.Subscription
	}
	s1 := open(`subscription { Users(filter: {u: {_ge: 2}}) { _docID age u } }`)
	s2 := open(`subscription { Users(filter: {_or: [{mk: {_eq: true}}, {u: {_ge: 2}}]}) { _docID age u } }`)
	s3 := open(`subscription { Users(filter: {_and: [{age: {_ge: 0}}, {u: {_ge: 2}}]}) { _docID age u } }`)
	show := func(name string, ch <-chan client.GQLResult) {
		for {
			select {
			case r, ok := <-ch:
				if !ok {
					fmt.Println(name, "closed")
					return
				}
				fmt.Println(name, hx.Canon(hx.Normalize(r.Data)), r.Errors)
			case <-time.After(300 * time.Millisecond):
				return
			}
		}
	}
	var evs []event.Update
	do := func(q string) {
		r := n.Exec(q)
		fmt.Println("EXEC", q, "->", hx.Canon(r.Data), r.Err(), trimS(r.Panic))
		for _, e := range tap.Take() {
			fmt.Printf("  EVT doc=%q cid=%s col=%s\n", e.DocID, e.Cid, e.CollectionID)
			evs = append(evs, e)
		}
		show("  s1", s1)
		show("  s2", s2)
		show("  s3", s3)
	}
	do(`mutation { create_Users(input: [{age: 3, tag: "a", u: 1}, {age: 9, tag: "b", u: 5}]) { _docID } }`)
	s4 := open(`subscription { Users { _docID age u _version { cid } } }`)
	bogus, _ := coreblock.GetLinkPrototype().Prefix.Sum([]byte("sentinel-1"))
	for _, d := range []string{evs[0].DocID, "bae-00000000-0000-5000-8000-000000000000", "x"} {
		fmt.Println("--- sentinel with doc", d)
		n.DB.Events().Publish(event.NewMessage(event.UpdateName, event.Update{DocID: d, Cid: bogus, CollectionID: evs[0].CollectionID, IsRetry: true}))
		show("  s1", s1)
		show("  s2", s2)
		show("  s3", s3)
		show("  s4", s4)
	}
}

func trimS(s string) string {
	if len(s) > 300 {
		return s[:300]
	}
	return s
}
