package c20

import (
	"fmt"
	"strconv"
	"strings"

	"pgregory.net/rapid"

	"github.com/sourcenetwork/defradb/verifharness/hx"
)

// Filter is a small, serialisable filter language over the three value fields of the test
// schema (age: Int, tag: String, u: Int with a unique index). It is rendered to GraphQL for the
// code under test and evaluated by evalFilter for the oracle. Documents of a case never hold
// null in these fields, so null semantics never decide a verdict.
type Filter struct {
	Op    string   `json:"op"`              // leaf | and | or | not
	Subs  []Filter `json:"subs,omitempty"`  // and/or: 2 operands, not: 1
	Field string   `json:"field,omitempty"` // age | tag | u
	Cmp   string   `json:"cmp,omitempty"`   // _eq _ne _gt _ge _lt _le _in _nin
	Int   int      `json:"int,omitempty"`
	Str   string   `json:"str,omitempty"`
	Ints  []int    `json:"ints,omitempty"`
	Strs  []string `json:"strs,omitempty"`
}

var tags = []string{"a", "b", "c"}

const (
	maxAge = 9
	maxU   = 24
)

func (f *Filter) gql() string {
	if f == nil {
		return ""
	}
	switch f.Op {
	case "and", "or":
		parts := make([]string, len(f.Subs))
		for i := range f.Subs {
			parts[i] = f.Subs[i].gql()
		}
		return fmt.Sprintf("{_%s: [%s]}", f.Op, strings.Join(parts, ", "))
	case "not":
		return fmt.Sprintf("{_not: %s}", f.Subs[0].gql())
	case "leaf":
		var operand string
		switch {
		case f.Cmp == "_in" || f.Cmp == "_nin":
			parts := []string{}
			if f.Field == "tag" {
				for _, s := range f.Strs {
					parts = append(parts, strconv.Quote(s))
				}
			} else {
				for _, i := range f.Ints {
					parts = append(parts, strconv.Itoa(i))
				}
			}
			operand = "[" + strings.Join(parts, ", ") + "]"
		case f.Field == "tag":
			operand = strconv.Quote(f.Str)
		default:
			operand = strconv.Itoa(f.Int)
		}
		return fmt.Sprintf("{%s: {%s: %s}}", f.Field, f.Cmp, operand)
	}
	hx.Harnessf("bad filter op %q", f.Op)
	return ""
}

// usesField reports whether the filter mentions the field.
func (f *Filter) usesField(name string) bool {
	if f == nil {
		return false
	}
	if f.Op == "leaf" {
		return f.Field == name
	}
	for i := range f.Subs {
		if f.Subs[i].usesField(name) {
			return true
		}
	}
	return false
}

// docState is the value of a document at one commit, rebuilt from the DAG.
type docState map[string]any

// evalFilter is the reference evaluation. A nil filter matches everything.
func evalFilter(f *Filter, st docState) bool {
	if f == nil {
		return true
	}
	switch f.Op {
	case "and":
		for i := range f.Subs {
			if !evalFilter(&f.Subs[i], st) {
				return false
			}
		}
		return true
	case "or":
		for i := range f.Subs {
			if evalFilter(&f.Subs[i], st) {
				return true
			}
		}
		return false
	case "not":
		return !evalFilter(&f.Subs[0], st)
	}
	v, ok := st[f.Field]
	if !ok || v == nil {
		hx.Harnessf("filter evaluation on a document without %s (state %v): the generator never writes null", f.Field, st)
	}
	if f.Field == "tag" {
		s, ok := v.(string)
		if !ok {
			hx.Harnessf("tag is %T", v)
		}
		switch f.Cmp {
		case "_eq":
			return s == f.Str
		case "_ne":
			return s != f.Str
		case "_in", "_nin":
			in := false
			for _, x := range f.Strs {
				in = in || x == s
			}
			return in == (f.Cmp == "_in")
		}
		hx.Harnessf("bad string comparison %q", f.Cmp)
	}
	n, ok := v.(int64)
	if !ok {
		hx.Harnessf("%s is %T", f.Field, v)
	}
	c := int64(f.Int)
	switch f.Cmp {
	case "_eq":
		return n == c
	case "_ne":
		return n != c
	case "_gt":
		return n > c
	case "_ge":
		return n >= c
	case "_lt":
		return n < c
	case "_le":
		return n <= c
	case "_in", "_nin":
		in := false
		for _, x := range f.Ints {
			in = in || int64(x) == n
		}
		return in == (f.Cmp == "_in")
	}
	hx.Harnessf("bad int comparison %q", f.Cmp)
	return false
}

// drawLeaf draws a comparison; full adds the negative forms, indexed the indexed field u.
func drawLeaf(t *rapid.T, full, indexed bool) Filter {
	fields := []string{"age", "age", "tag"}
	if indexed {
		fields = append(fields, "u", "u")
	}
	f := Filter{Op: "leaf", Field: rapid.SampledFrom(fields).Draw(t, "field")}
	if f.Field == "tag" {
		cmps := []string{"_eq", "_eq", "_in"}
		if full {
			cmps = append(cmps, "_ne", "_nin")
		}
		f.Cmp = rapid.SampledFrom(cmps).Draw(t, "cmp")
		if f.Cmp == "_in" || f.Cmp == "_nin" {
			f.Strs = rapid.SliceOfN(rapid.SampledFrom(tags), 1, 2).Draw(t, "strs")
		} else {
			f.Str = rapid.SampledFrom(tags).Draw(t, "str")
		}
		return f
	}
	max := maxAge
	if f.Field == "u" {
		max = maxU
	}
	cmps := []string{"_eq", "_gt", "_ge", "_lt", "_le", "_in"}
	if full {
		cmps = append(cmps, "_ne", "_nin")
	}
	f.Cmp = rapid.SampledFrom(cmps).Draw(t, "cmp")
	if f.Cmp == "_in" || f.Cmp == "_nin" {
		f.Ints = rapid.SliceOfN(rapid.IntRange(0, max), 1, 3).Draw(t, "ints")
	} else {
		f.Int = rapid.IntRange(0, max).Draw(t, "int")
	}
	return f
}

// drawSubFilter draws the filter of a GraphQL subscription (depth <= 2).
func drawSubFilter(t *rapid.T, indexed bool) *Filter {
	var rec func(depth int) Filter
	rec = func(depth int) Filter {
		k := rapid.IntRange(0, 9).Draw(t, "shape")
		if depth >= 2 || k < 5 {
			return drawLeaf(t, true, indexed)
		}
		switch {
		case k < 7:
			return Filter{Op: "and", Subs: []Filter{rec(depth + 1), rec(depth + 1)}}
		case k < 9:
			return Filter{Op: "or", Subs: []Filter{rec(depth + 1), rec(depth + 1)}}
		}
		return Filter{Op: "not", Subs: []Filter{rec(depth + 1)}}
	}
	f := rec(0)
	return &f
}

// drawMutFilter draws the filter of a filtered update/delete/upsert.
func drawMutFilter(t *rapid.T) *Filter {
	indexed := rapid.IntRange(0, 3).Draw(t, "mutIndexed") == 0
	if rapid.IntRange(0, 3).Draw(t, "conj") == 0 {
		return &Filter{Op: "and", Subs: []Filter{drawLeaf(t, true, indexed), drawLeaf(t, true, indexed)}}
	}
	f := drawLeaf(t, true, indexed)
	return &f
}
