package c20

import (
	"encoding/json"
	"sort"
	"testing"

	"pgregory.net/rapid"

	"github.com/sourcenetwork/defradb/verifharness/hx"
)

func TestMain(m *testing.M) { hx.Main(m) }

var rec = hx.NewRecorder("C20",
	"a case is one node with two collections (each plain or branchable), 1-3 event-bus subscribers to `update` "+
		"(plain or wildcard, possibly joining late), 0-2 GraphQL subscriptions with drawn filters, and a history of 1-12 API calls: "+
		"single and multi-document creates, updates/deletes by id, id list and filter, upserts, Go-API saves, several mutations in one request, "+
		"explicit transactions that commit or discard (also two interleaved ones), calls built to fail, and on a fault-injecting store "+
		"the k-th storage operation of a call failing; non-trivial = the history has a multi-document call, at least one discarded "+
		"transaction, failed call or injected failure, and at least 2 subscribers (bus + GraphQL); distinct = distinct case",
	"ground truth is the raw content of /db/blocks read between calls; the local history of every document is linear",
	"the order of notifications inside one call is unspecified except that a commit follows the commits it links to",
	"a deleted document matches no filter: a filtered GraphQL subscription must not yield a result for a delete commit, an unfiltered one may or may not",
	"a transaction one of whose steps failed under an injected storage fault is discarded, never committed (committing the partial writes of a failed step is the caller's protocol violation)",
	"a block under /db/blocks that no head reaches (left by a failed step of a transaction the caller commits anyway) is not a committed change",
	"ACP is off (relationship changes re-announce heads and are not mutations); signing and encryption are off",
	"GraphQL subscriptions are synchronised, whenever no explicit transaction is open, by a real update of a per-subscription sentinel document that satisfies the subscription's filter (found with the reference evaluator, marked mk=true and excluded from the case's filtered mutations), followed by a synthetic update event naming a block that does not exist (flagged IsRetry, ignored by the bus oracle), which a subscription answers with an error result; either marker ends the interval, the sentinel writes themselves are judged like every other change; results of intervals inside an open transaction are judged at the next synchronisation",
)

// Signatures of the defects the diagnosers know (see diagnose in run_test.go).
const (
	sigEmptyResult   = "C20/gql/empty-result-for-nonmatching-change"
	sigColCommitErr  = "C20/gql/error-result-for-collection-level-commit"
	sigOtherCol      = "C20/gql/result-for-change-in-other-collection"
	sigStallDelete   = "C20/gql/stalls-after-delete"
	sigIndexedFilter = "C20/gql/filter-on-indexed-field-never-matches"
	sigDeletePanic   = "C20/panic/delete-by-id-of-deleted-or-missing-document-with-index"
)

// DocVal is the content of a created document.
type DocVal struct {
	Age int    `json:"age"`
	Tag string `json:"tag"`
	U   int    `json:"u"`
}

// SetVal is the payload of an update (nil = field not written).
type SetVal struct {
	Age *int    `json:"age,omitempty"`
	Tag *string `json:"tag,omitempty"`
	U   *int    `json:"u,omitempty"`
}

// BusSub is one event-bus subscriber.
type BusSub struct {
	Wild bool `json:"wild,omitempty"` // subscribes to "*" instead of "update"
	Join int  `json:"join,omitempty"` // index of the first call it listens to (0 = from the start)
	// Stall (late subscribers): it subscribes while the bus is blocked on another subscriber whose buffer is full
	// (events queue up behind the blocked delivery); that subscriber is drained only after the next call returned
	Stall bool `json:"stall,omitempty"`
}

// GQLSub is one GraphQL subscription.
type GQLSub struct {
	Col     int     `json:"col"`
	Filter  *Filter `json:"filter,omitempty"`
	Version bool    `json:"version,omitempty"` // select _version{cid}: results name their commit
}

// Op is one API call (or, inside Sub, one step of a transaction / one mutation of a request).
type Op struct {
	// create | update | updateFilter | delete | deleteIDs | deleteFilter | upsert | save |
	// dup | txn | multi | pair
	Kind   string   `json:"kind"`
	Col    int      `json:"col"`
	API    bool     `json:"api,omitempty"` // Go collection API instead of GraphQL (where both exist)
	Docs   []DocVal `json:"docs,omitempty"`
	Target []int    `json:"target,omitempty"` // document indices, modulo what exists (deleted ones included)
	Filter *Filter  `json:"filter,omitempty"`
	Set    SetVal   `json:"set,omitempty"`
	// txn: the steps; multi: the mutations of the one request; pair: steps of transaction A
	Sub []Op `json:"sub,omitempty"`
	// pair: steps of transaction B
	Sub2 []Op `json:"sub2,omitempty"`
	// txn/pair: commit (true) or discard
	Commit  bool `json:"commit,omitempty"`
	Commit2 bool `json:"commit2,omitempty"`
	// pair: B completes before A
	BFirst bool `json:"bfirst,omitempty"`
	// txn: commit although a step failed (default: discard as a careful caller would)
	CommitAfterError bool `json:"commit_after_error,omitempty"`
	// FaultK > 0: on a fault-store node, fail the FaultK-th storage operation of this call.
	FaultK int `json:"fault_k,omitempty"`
	// FaultWrites: count only Set/Delete/Commit operations (the fault lands among the writes).
	FaultWrites bool `json:"fault_writes,omitempty"`
}

// Case is one history.
type Case struct {
	Branch [2]bool  `json:"branch"`
	Fault  bool     `json:"fault,omitempty"` // node on the fault-injecting store (no GraphQL subscriptions then)
	Subs   []BusSub `json:"subs"`
	GQL    []GQLSub `json:"gql,omitempty"`
	Ops    []Op     `json:"ops"`
	// Generator switches that avoid the trigger of a known finding (effective only while the
	// finding is listed): no delete on a collection that has an open GraphQL subscription;
	// no subscription filter on the indexed field.
	AvoidDeleteStall bool `json:"avoid_delete_stall,omitempty"`
}

func drawDoc(t *rapid.T) DocVal {
	return DocVal{
		Age: rapid.IntRange(0, maxAge).Draw(t, "age"),
		Tag: rapid.SampledFrom(tags).Draw(t, "tag"),
		U:   rapid.IntRange(0, maxU).Draw(t, "u"),
	}
}

func drawSet(t *rapid.T) SetVal {
	var s SetVal
	k := rapid.IntRange(0, 9).Draw(t, "setShape")
	if k < 6 || k == 8 {
		v := rapid.IntRange(0, maxAge).Draw(t, "age")
		s.Age = &v
	}
	if k >= 4 && k < 8 {
		v := rapid.SampledFrom(tags).Draw(t, "tag")
		s.Tag = &v
	}
	if k >= 8 {
		v := rapid.IntRange(0, maxU).Draw(t, "u")
		s.U = &v
	}
	return s
}

func drawTargets(t *rapid.T, min, max int) []int {
	return rapid.SliceOfN(rapid.IntRange(0, 11), min, max).Draw(t, "target")
}

var simpleKinds = []string{
	"create", "create", "create", "update", "update", "update", "updateFilter", "updateFilter",
	"delete", "deleteFilter", "deleteIDs", "upsert", "upsert", "dup",
}

// drawSimple draws a call that is one mutation.
func drawSimple(t *rapid.T, inRequest bool) Op {
	kinds := simpleKinds
	if !inRequest {
		kinds = append(append([]string{}, simpleKinds...), "save")
	}
	op := Op{Kind: rapid.SampledFrom(kinds).Draw(t, "kind")}
	if rapid.IntRange(0, 3).Draw(t, "col") == 0 {
		op.Col = 1
	}
	if !inRequest {
		op.API = rapid.IntRange(0, 3).Draw(t, "api") == 0
	}
	switch op.Kind {
	case "create":
		n := rapid.SampledFrom([]int{1, 1, 2, 2, 3}).Draw(t, "ndocs")
		for i := 0; i < n; i++ {
			op.Docs = append(op.Docs, drawDoc(t))
		}
	case "update", "delete", "dup":
		op.Target = drawTargets(t, 1, 1)
		op.Set = drawSet(t)
	case "deleteIDs":
		op.Target = drawTargets(t, 2, 3)
	case "updateFilter":
		op.Filter = drawMutFilter(t)
		op.Set = drawSet(t)
	case "deleteFilter":
		op.Filter = drawMutFilter(t)
	case "upsert":
		op.Docs = []DocVal{drawDoc(t)}
		op.Set = drawSet(t)
		if rapid.IntRange(0, 2).Draw(t, "upsertByTag") == 0 {
			op.Filter = &Filter{Op: "leaf", Field: "tag", Cmp: "_eq", Str: op.Docs[0].Tag}
		} else {
			op.Filter = &Filter{Op: "leaf", Field: "u", Cmp: "_eq", Int: op.Docs[0].U}
		}
	case "save":
		op.API = true
		op.Docs = []DocVal{drawDoc(t)}
		op.Target = drawTargets(t, 1, 1)
		op.Set = drawSet(t)
	}
	return op
}

func drawSteps(t *rapid.T, inRequest bool, min, max int) []Op {
	n := rapid.IntRange(min, max).Draw(t, "nsteps")
	out := make([]Op, n)
	for i := range out {
		out[i] = drawSimple(t, inRequest)
	}
	return out
}

// drawSameDoc draws 2-3 updates of one document (the shape in which the state at a commit
// differs from the state at the end of the interval).
func drawSameDoc(t *rapid.T, col int, inRequest bool) []Op {
	target := drawTargets(t, 1, 1)
	n := rapid.IntRange(2, 3).Draw(t, "nsame")
	out := make([]Op, n)
	for i := range out {
		out[i] = Op{Kind: "update", Col: col, Target: target, Set: drawSet(t)}
		if !inRequest {
			out[i].API = rapid.IntRange(0, 3).Draw(t, "api") == 0
		}
	}
	return out
}

func drawOp(t *rapid.T, fault bool, gqlCol int) Op {
	var op Op
	switch k := rapid.IntRange(0, 99).Draw(t, "opclass"); {
	case k < 42:
		op = drawSimple(t, false)
	case k < 58:
		// several commits of one document in one transaction or one request
		col := gqlCol
		if rapid.IntRange(0, 4).Draw(t, "otherCol") == 0 {
			col = 1 - col
		}
		if rapid.IntRange(0, 3).Draw(t, "asRequest") == 0 {
			op = Op{Kind: "multi", Sub: drawSameDoc(t, col, true)}
		} else {
			op = Op{Kind: "txn", Sub: drawSameDoc(t, col, false)}
			op.Commit = rapid.IntRange(0, 9).Draw(t, "commit") < 9
		}
	case k < 78:
		op = Op{Kind: "txn", Sub: drawSteps(t, false, 1, 3)}
		op.Commit = rapid.IntRange(0, 9).Draw(t, "commit") < 6
		op.CommitAfterError = rapid.IntRange(0, 4).Draw(t, "cae") == 0
	case k < 90:
		op = Op{Kind: "multi", Sub: drawSteps(t, true, 2, 3)}
	default:
		op = Op{Kind: "pair", Sub: drawSteps(t, false, 1, 2), Sub2: drawSteps(t, false, 1, 2)}
		op.Commit = rapid.IntRange(0, 9).Draw(t, "commit") < 7
		op.Commit2 = rapid.IntRange(0, 9).Draw(t, "commit2") < 7
		op.BFirst = rapid.Bool().Draw(t, "bfirst")
	}
	if fault && rapid.IntRange(0, 9).Draw(t, "faulted") < 5 {
		switch rapid.IntRange(0, 3).Draw(t, "faultShape") {
		case 0:
			op.FaultK = rapid.IntRange(1, 25).Draw(t, "k")
		case 1:
			op.FaultK = rapid.IntRange(1, 140).Draw(t, "k")
		default:
			op.FaultWrites = true
			op.FaultK = rapid.IntRange(1, 30).Draw(t, "k")
		}
	}
	return op
}

func drawCase(t *rapid.T) Case {
	var c Case
	c.Branch[0] = rapid.IntRange(0, 9).Draw(t, "branch0") < 5
	c.Branch[1] = rapid.IntRange(0, 9).Draw(t, "branch1") < 3
	c.Fault = rapid.IntRange(0, 9).Draw(t, "fault") < 3
	maxOps := 10
	if hx.Thorough() {
		maxOps = 14
	}
	nops := rapid.IntRange(1, maxOps).Draw(t, "nops")
	nsubs := rapid.SampledFrom([]int{1, 2, 2, 2, 3, 3}).Draw(t, "nsubs")
	for i := 0; i < nsubs; i++ {
		s := BusSub{Wild: rapid.IntRange(0, 4).Draw(t, "wild") == 0}
		if i > 0 && rapid.IntRange(0, 3).Draw(t, "late") == 0 {
			s.Join = rapid.IntRange(1, nops).Draw(t, "join")
			s.Stall = !c.Fault && rapid.IntRange(0, 2).Draw(t, "stall") == 0
		}
		c.Subs = append(c.Subs, s)
	}
	if !c.Fault {
		ngql := rapid.SampledFrom([]int{0, 0, 1, 1, 1, 2, 2}).Draw(t, "ngql")
		indexed := rapid.IntRange(0, 9).Draw(t, "indexedFilter") < 3
		for i := 0; i < ngql; i++ {
			g := GQLSub{Version: rapid.Bool().Draw(t, "version")}
			if rapid.IntRange(0, 3).Draw(t, "gcol") == 0 {
				g.Col = 1
			}
			if rapid.IntRange(0, 9).Draw(t, "filtered") < 7 {
				g.Filter = drawSubFilter(t, indexed)
			}
			c.GQL = append(c.GQL, g)
		}
	}
	// 85 % rather than half: every stalled subscription goroutine is leaked for the rest of the
	// process together with its node (about 20 MB each), see sigStallDelete
	c.AvoidDeleteStall = rapid.IntRange(0, 19).Draw(t, "avoidDeleteStall") < 17
	for i := 0; i < nops; i++ {
		if i == 0 && rapid.IntRange(0, 9).Draw(t, "seed") < 8 {
			op := Op{Kind: "create"}
			n := rapid.IntRange(2, 3).Draw(t, "ndocs")
			for j := 0; j < n; j++ {
				op.Docs = append(op.Docs, drawDoc(t))
			}
			c.Ops = append(c.Ops, op)
			continue
		}
		gqlCol := 0
		if len(c.GQL) > 0 {
			gqlCol = c.GQL[0].Col
		}
		c.Ops = append(c.Ops, drawOp(t, c.Fault, gqlCol))
	}
	return c
}

func TestC20(t *testing.T) {
	rapid.Check(t, func(t *rapid.T) {
		c := drawCase(t)
		st := newStats()
		f := hx.Guard("C20", func() *hx.Failure { return run(c, st) })
		labels := []string{}
		for l := range st.labels {
			labels = append(labels, l)
		}
		sort.Strings(labels)
		for k, v := range st.counts {
			rec.Extra[k] = toInt(rec.Extra[k]) + v
		}
		rec.Eval(c, st.nontrivial(), labels...)
		for _, k := range st.known {
			rec.Check(t, c, k)
		}
		rec.Check(t, c, f)
	})
}

func toInt(v any) int {
	if n, ok := v.(int); ok {
		return n
	}
	return 0
}

func runRaw(raw []byte) *hx.Failure {
	var c Case
	if err := json.Unmarshal(raw, &c); err != nil {
		return hx.Failf("C20/replay-file", "%v", err)
	}
	st := newStats()
	f := hx.Guard("C20", func() *hx.Failure { return run(c, st) })
	if f == nil && len(st.known) > 0 {
		return st.known[0]
	}
	return f
}

func TestReplay(t *testing.T) {
	raw := hx.ReplayCase(t)
	rec.SetReplaying()
	var c Case
	if err := json.Unmarshal(raw, &c); err != nil {
		t.Fatal(err)
	}
	f := runRaw(raw)
	if f != nil {
		t.Logf("replay verdict: %s", f.Error())
	}
	rec.Check(t, c, f)
}

func TestRegress(t *testing.T) {
	hx.Regress(t, "testdata/regress", runRaw, rec)
}
