package c20

import (
	"bytes"
	"context"
	"sort"
	"strings"

	"github.com/ipfs/go-cid"

	"github.com/fxamacker/cbor/v2"
	"github.com/sourcenetwork/corekv"

	coreblock "github.com/sourcenetwork/defradb/internal/core/block"
	"github.com/sourcenetwork/defradb/verifharness/hx"
)

// Ground truth, independent of the event path: the raw contents of /db/blocks. After every
// completion point the harness lists the keys under that prefix, decodes every block it has not
// seen before, recomputes its cid from the bytes and classifies it: document-level (composite)
// commit, collection-level commit, or field-level block. Only what a committed transaction wrote
// is visible here, so "new commits since the last completion point" is exactly what must have
// been announced.

const blockPrefix = "/db/blocks"

type commit struct {
	Cid     string
	Kind    string // doc | col | field
	DocID   string // doc-level only
	Schema  string // schema version id recorded in the delta
	Col     int    // collection index (-1 when the schema version is unknown)
	Height  uint64
	Deleted bool
	// Parents are all outgoing links (heads and links); the ones that are themselves announced
	// commits must have been announced earlier.
	Parents []string
	// Heads are the previous commits of the same chain.
	Heads []string
	// fieldLinks: name -> cid of field-level block (doc-level only)
	fieldLinks map[string]string
	Raw        []byte
	// State of the document at this commit (doc-level only).
	State docState
	// field-level payload
	fieldName string
	fieldData []byte
}

type truth struct {
	store    corekv.Store
	seen     map[string]bool    // raw keys already classified
	blocks   map[string]*commit // by cid, every decoded block
	bySchema map[string]int
}

func newTruth(store corekv.Store) *truth {
	return &truth{store: store, seen: map[string]bool{}, blocks: map[string]*commit{}, bySchema: map[string]int{}}
}

// scan returns the doc-level and collection-level commits that appeared since the last scan,
// sorted by (height, cid) so that the result does not depend on key order.
func (tr *truth) scan(ctx context.Context) []*commit {
	it, err := tr.store.Iterator(ctx, corekv.IterOptions{Prefix: []byte(blockPrefix)})
	if err != nil {
		hx.Harnessf("iterate blocks: %v", err)
	}
	type kv struct {
		k string
		v []byte
	}
	var fresh []kv
	for {
		ok, err := it.Next()
		if err != nil {
			_ = it.Close()
			hx.Harnessf("iterate blocks: %v", err)
		}
		if !ok {
			break
		}
		k := string(it.Key())
		if tr.seen[k] {
			continue
		}
		v, err := it.Value()
		if err != nil {
			_ = it.Close()
			hx.Harnessf("read block %q: %v", k, err)
		}
		fresh = append(fresh, kv{k, bytes.Clone(v)})
	}
	if err := it.Close(); err != nil {
		hx.Harnessf("close block iterator: %v", err)
	}
	var added []*commit
	for _, e := range fresh {
		tr.seen[e.k] = true
		c := decodeBlock(e.v)
		if c == nil {
			continue
		}
		if col, ok := tr.bySchema[c.Schema]; ok {
			c.Col = col
		}
		tr.blocks[c.Cid] = c
		added = append(added, c)
	}
	sort.Slice(added, func(i, j int) bool {
		if added[i].Height != added[j].Height {
			return added[i].Height < added[j].Height
		}
		return added[i].Cid < added[j].Cid
	})
	var out []*commit
	for _, c := range added {
		if c.Kind == "doc" {
			tr.buildState(c)
		}
		if c.Kind != "field" {
			out = append(out, c)
		}
	}
	return out
}

func decodeBlock(raw []byte) *commit {
	blk, err := coreblock.GetFromBytes(raw)
	if err != nil {
		// not a DAG block of the commit graph (none is expected here: signing and encryption are off)
		hx.Harnessf("undecodable block in /db/blocks: %v", err)
	}
	id, err := coreblock.GetLinkPrototype().Prefix.Sum(raw)
	if err != nil {
		hx.Harnessf("cid of block: %v", err)
	}
	c := &commit{Cid: id.String(), Raw: raw, Col: -1, Height: blk.Delta.GetPriority(), Schema: blk.Delta.GetSchemaVersionID()}
	for _, h := range blk.Heads {
		c.Heads = append(c.Heads, h.Cid.String())
		c.Parents = append(c.Parents, h.Cid.String())
	}
	for _, l := range blk.Links {
		c.Parents = append(c.Parents, l.Link.Cid.String())
	}
	switch {
	case blk.Delta.IsComposite():
		c.Kind = "doc"
		c.DocID = string(blk.Delta.GetDocID())
		c.Deleted = blk.Delta.DocCompositeDelta.Status.IsDeleted()
		c.fieldLinks = map[string]string{}
		for _, l := range blk.Links {
			c.fieldLinks[l.Name] = l.Link.Cid.String()
		}
	case blk.Delta.IsCollection():
		c.Kind = "col"
	default:
		c.Kind = "field"
		c.fieldName = blk.Delta.GetFieldName()
		c.fieldData = blk.Delta.GetData()
	}
	return c
}

// buildState derives the document at commit c: the state at its (single, local histories are
// linear) previous commit overlaid with the field values this commit links to.
func (tr *truth) buildState(c *commit) {
	st := docState{}
	if len(c.Heads) > 1 {
		hx.Harnessf("document commit %s has %d heads in a single-node history", c.Cid, len(c.Heads))
	}
	for _, h := range c.Heads {
		p := tr.blocks[h]
		if p == nil || p.State == nil {
			hx.Harnessf("previous commit %s of %s is not in the store", h, c.Cid)
		}
		for k, v := range p.State {
			st[k] = v
		}
	}
	for name, id := range c.fieldLinks {
		fb := tr.blocks[id]
		if fb == nil {
			hx.Harnessf("field block %s (%s) of commit %s is not in the store", id, name, c.Cid)
		}
		var v any
		if err := cbor.Unmarshal(fb.fieldData, &v); err != nil {
			hx.Harnessf("field %s of %s: cbor: %v", name, c.Cid, err)
		}
		switch x := v.(type) {
		case uint64:
			v = int64(x)
		case int64, string, bool, nil:
		default:
			hx.Harnessf("field %s of %s has unexpected value type %T", name, c.Cid, v)
		}
		st[name] = v
	}
	c.State = st
}

const headPrefix = "/db/heads"

// attached returns the cids reachable from the head entries of /db/heads (documents, fields
// and collections) through heads and links. A block that is in /db/blocks but not reachable
// from any head is not part of the commit graph: it is what a failed step leaves behind when
// the caller commits its transaction anyway, not a committed change.
func (tr *truth) attached(ctx context.Context) map[string]bool {
	it, err := tr.store.Iterator(ctx, corekv.IterOptions{Prefix: []byte(headPrefix), KeysOnly: true})
	if err != nil {
		hx.Harnessf("iterate heads: %v", err)
	}
	var queue []string
	for {
		ok, err := it.Next()
		if err != nil {
			_ = it.Close()
			hx.Harnessf("iterate heads: %v", err)
		}
		if !ok {
			break
		}
		k := string(it.Key())
		last := k[strings.LastIndex(k, "/")+1:]
		if _, err := cid.Decode(last); err == nil {
			queue = append(queue, last)
		}
	}
	if err := it.Close(); err != nil {
		hx.Harnessf("close head iterator: %v", err)
	}
	out := map[string]bool{}
	for len(queue) > 0 {
		id := queue[len(queue)-1]
		queue = queue[:len(queue)-1]
		if out[id] {
			continue
		}
		out[id] = true
		if b := tr.blocks[id]; b != nil {
			queue = append(queue, b.Parents...)
		}
	}
	return out
}
