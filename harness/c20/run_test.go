package c20

import (
	"bytes"
	"context"
	"encoding/json"
	"fmt"
	"runtime"
	"runtime/debug"
	"sort"
	"strconv"
	"strings"
	"sync"
	"time"

	"github.com/ipfs/go-cid"
	"github.com/sourcenetwork/corekv"

	"github.com/sourcenetwork/defradb/client"
	"github.com/sourcenetwork/defradb/event"
	coreblock "github.com/sourcenetwork/defradb/internal/core/block"
	"github.com/sourcenetwork/defradb/internal/datastore"
	"github.com/sourcenetwork/defradb/internal/db"
	"github.com/sourcenetwork/defradb/verifharness/hx"
)

var colNames = [2]string{"Users", "Things"}

const sentinelName = event.Name("c20-sentinel")

// how long a bus sentinel / subscription sentinel may take before the run is declared
// inconclusive (never a violation by itself)
const syncDeadline = 60 * time.Second

// how long a subscription that owes no result at all is given to answer the synthetic event
const noMarkerWait = 250 * time.Millisecond

type stats struct {
	labels map[string]bool
	counts map[string]int
	known  []*hx.Failure
	nsubs  int
}

func (st *stats) label(l string) { st.labels[l] = true }

func (st *stats) nontrivial() bool {
	rollback := st.labels["txn-discarded"] || st.labels["call-failed"] || st.labels["fault-fired"] || st.labels["commit-failed"]
	return st.labels["multi-doc-call"] && rollback && st.nsubs >= 2
}

type colInfo struct {
	name   string
	id     string // root collection id (what events carry)
	col    client.Collection
	branch bool
}

type recEvent struct {
	u        event.Update
	readable bool // the announced cid could be read from the blockstore when the event was received
	same     bool // and the bytes read equal the announced block
	readErr  string
}

type busSub struct {
	spec    BusSub
	sub     event.Subscription
	mu      sync.Mutex
	got     []recEvent
	waiters map[uint64]chan struct{}
}

type gqlRow struct {
	docID string
	cids  []string
}

type gqlItem struct {
	errs []string
	rows []gqlRow
	raw  string
}

type gqlSub struct {
	spec     GQLSub
	query    string
	ch       <-chan client.GQLResult
	mu       sync.Mutex
	items    []gqlItem
	notify   chan struct{}
	done     chan struct{}
	disabled bool // a known finding made this subscription blind; it is still drained
	// sentinel is the docID of this subscription's sentinel document ("" = its filter is
	// unsatisfiable and it is synchronised by the synthetic event alone)
	sentinel string
	sawReal  bool
}

type sim struct {
	c   Case
	st  *stats
	n   *hx.Node
	fs  *hx.FaultStore
	ctx context.Context
	raw corekv.Store
	bs  datastore.Blockstore
	tr  *truth

	cols    [2]colInfo
	docs    [2][]string
	docCol  map[string]int
	created map[string]DocVal

	subs    []*busSub // index = position in c.Subs; nil until joined
	gql     []*gqlSub
	gctx    context.Context
	gcancel context.CancelFunc

	// sentinel documents (never targeted by the operations of the case)
	sentinelDocs map[string]bool
	sentinelSeq  int
	// explicit transactions currently open: GraphQL subscriptions are synchronised (which needs
	// a real write) only when there is none; gqlPending holds the events of the intervals skipped
	openTxns   int
	gqlPending []recEvent

	sentSeq  uint64
	synthSeq int
	synth    map[string]bool // cids of synthetic events published so far
	synthCol map[string]int  // and the collection each was published for

	// commit blocks that are in the store but not reachable from any head
	unattached []*commit

	faultArmed bool
	faultPanic bool

	cut           bool // the case ends here (state after a known finding is not explored)
	stalled       bool
	stallSub      event.Subscription
	baselineStuck map[string]bool
	avoidDelete   bool
}

func (s *sim) note(f *hx.Failure) *hx.Failure {
	if f == nil {
		return nil
	}
	if rec.IsKnown(f.Sig) {
		for _, k := range s.st.known {
			if k.Sig == f.Sig {
				return nil
			}
		}
		s.st.known = append(s.st.known, f)
		return nil
	}
	return f
}

func newStats() *stats { return &stats{labels: map[string]bool{}, counts: map[string]int{}} }

func run(c Case, st *stats) *hx.Failure {
	if len(c.Subs) == 0 || len(c.Ops) == 0 {
		hx.Harnessf("case without subscribers or operations")
	}
	s := &sim{c: c, st: st, docCol: map[string]int{}, created: map[string]DocVal{}, synth: map[string]bool{}, sentinelDocs: map[string]bool{}, synthCol: map[string]int{}}
	defer s.close()
	s.boot()
	st.nsubs = len(c.Subs) + len(s.gql)
	if st.nsubs >= 2 {
		st.label("subscribers>=2")
	}
	if len(c.Subs) >= 2 {
		st.label("bus-subscribers>=2")
	}
	var fail *hx.Failure
	for i := range c.Ops {
		s.joinLate(i)
		if fail = s.execTop(i, c.Ops[i]); fail != nil || s.cut {
			break
		}
	}
	if fail == nil && !s.cut {
		// nothing may trail after the last call
		fail = s.checkpoint("end")
	}
	return fail
}

// ---- set-up ---------------------------------------------------------------------------------

func (s *sim) boot() {
	c := s.c
	if c.Fault {
		s.n, s.fs = hx.NewFaultNode()
		s.raw = s.fs.Inner()
		s.st.label("fault-store")
	} else {
		s.n = hx.MustMemNode()
		s.raw = s.n.DB.Rootstore()
	}
	s.ctx = s.n.Ctx
	s.bs = datastore.BlockstoreFrom(s.raw)
	s.tr = newTruth(s.raw)
	sdl := ""
	for i, name := range colNames {
		dir := ""
		if c.Branch[i] {
			dir = "@branchable"
		}
		sdl += fmt.Sprintf("type %s %s { age: Int  tag: String  u: Int @index(unique: true)  n: Int  mk: Boolean }\n", name, dir)
	}
	if _, err := s.n.DB.AddSchema(s.ctx, sdl); err != nil {
		hx.Harnessf("schema rejected: %v", err)
	}
	for i, name := range colNames {
		col, err := s.n.DB.GetCollectionByName(s.ctx, name)
		if err != nil {
			hx.Harnessf("collection %s: %v", name, err)
		}
		s.cols[i] = colInfo{name: name, id: col.Version().CollectionID, col: col, branch: c.Branch[i]}
		s.tr.bySchema[col.Schema().VersionID] = i
		if c.Branch[i] {
			s.st.label("branchable")
		}
	}
	if n := len(s.tr.scan(s.ctx)); n != 0 {
		hx.Harnessf("%d commits in a fresh store", n)
	}
	// one sentinel document per GraphQL subscription, created before anybody listens
	sentinels := make([]string, len(c.GQL))
	if !c.Fault {
		for k, g := range c.GQL {
			sentinels[k] = s.createSentinel(k, g)
		}
		for _, cm := range s.tr.scan(s.ctx) {
			if cm.Kind == "doc" {
				s.docCol[cm.DocID] = cm.Col
			}
		}
	}
	s.subs = make([]*busSub, len(c.Subs))
	s.joinLate(0)
	if s.subs[0] == nil {
		hx.Harnessf("the first subscriber must listen from the start")
	}
	s.baselineStuck = stuckSubscriptionGoroutines()
	s.gctx, s.gcancel = context.WithCancel(s.ctx)
	for k, g := range c.GQL {
		s.openGQL(g)
		s.gql[k].sentinel = sentinels[k]
	}
	s.avoidDelete = c.AvoidDeleteStall && rec.IsKnown(sigStallDelete) && len(s.gql) > 0
	if len(s.gql) > 0 {
		s.st.label("gql-subscription")
	}
}

func (s *sim) joinLate(i int) {
	for k, spec := range s.c.Subs {
		if s.subs[k] == nil && spec.Join <= i {
			if spec.Stall && spec.Join > 0 && s.stallSub == nil {
				s.stallBus()
			}
			s.subs[k] = s.openBus(spec)
			if spec.Join > 0 {
				s.st.label("late-subscriber")
			}
			if spec.Wild {
				s.st.label("wildcard-subscriber")
			}
		}
	}
}

const fillerName = event.Name("verif-filler")

// stallBus blocks the bus: a subscriber that is not read gets more events than its buffer holds, so the bus
// waits in the middle of a delivery with further events queued behind it.
func (s *sim) stallBus() {
	sub, err := s.n.DB.Events().Subscribe(fillerName)
	if err != nil {
		hx.Harnessf("subscribe: %v", err)
	}
	// first exactly as many events as the buffer holds (the bus delivers them all and goes idle), then one more, which
	// the bus picks up from an empty queue and cannot deliver: whatever is published from now on queues up behind it
	n := cap(sub.Message())
	for i := 0; i < n; i++ {
		s.n.DB.Events().Publish(event.NewMessage(fillerName, i))
	}
	deadline := time.Now().Add(20 * time.Second)
	for len(sub.Message()) < n {
		if time.Now().After(deadline) {
			hx.Harnessf("the buffer of the stalled subscriber never filled up")
		}
		time.Sleep(time.Millisecond)
	}
	time.Sleep(5 * time.Millisecond)
	s.n.DB.Events().Publish(event.NewMessage(fillerName, n))
	time.Sleep(20 * time.Millisecond)
	s.n.DB.Events().Publish(event.NewMessage(fillerName, n+1))
	s.stallSub = sub
	s.st.label("late-subscriber-joins-while-bus-is-blocked")
}

// releaseStall lets the blocked subscriber catch up and leave.
func (s *sim) releaseStall() {
	if s.stallSub == nil {
		return
	}
	sub := s.stallSub
	s.stallSub = nil
	go func() {
		for range sub.Message() { //nolint:revive
		}
	}()
	s.n.DB.Events().Unsubscribe(sub)
}

func (s *sim) openBus(spec BusSub) *busSub {
	names := []event.Name{event.UpdateName, sentinelName}
	if spec.Wild {
		names = []event.Name{event.WildCardName}
	}
	sub, err := s.n.DB.Events().Subscribe(names...)
	if err != nil {
		hx.Harnessf("subscribe: %v", err)
	}
	b := &busSub{spec: spec, sub: sub, waiters: map[uint64]chan struct{}{}}
	go func() {
		for m := range sub.Message() {
			switch m.Name {
			case event.UpdateName:
				u, ok := m.Data.(event.Update)
				if !ok {
					continue
				}
				r := recEvent{u: u}
				if !u.IsRetry {
					// "a block that is by then readable from the store"
					blk, err := s.bs.Get(s.ctx, u.Cid)
					if err != nil {
						r.readErr = err.Error()
					} else {
						r.readable = true
						r.same = bytes.Equal(blk.RawData(), u.Block)
					}
				}
				b.mu.Lock()
				b.got = append(b.got, r)
				b.mu.Unlock()
			case sentinelName:
				id, _ := m.Data.(uint64)
				b.mu.Lock()
				ch := b.waiters[id]
				delete(b.waiters, id)
				b.mu.Unlock()
				if ch != nil {
					close(ch)
				}
			}
		}
	}()
	return b
}

// syncBus waits until every subscriber has received everything published before the call
// (the bus is FIFO through one command channel; the sentinel is published last).
// syncBus publishes a sentinel event and waits until every subscriber has received it. When a subscriber has not
// after a short while, a second sentinel follows: delivery to one subscriber is first-in first-out, so a subscriber
// that receives the second sentinel without the first has LOST an event that was published after its Subscribe call
// returned (a verdict that does not depend on timing); a subscriber that receives neither within the deadline
// makes the run inconclusive.
func (s *sim) syncBus() *hx.Failure {
	register := func() (uint64, map[int]chan struct{}) {
		s.sentSeq++
		id := s.sentSeq
		chans := map[int]chan struct{}{}
		for k, b := range s.subs {
			if b == nil {
				continue
			}
			ch := make(chan struct{})
			b.mu.Lock()
			b.waiters[id] = ch
			b.mu.Unlock()
			chans[k] = ch
		}
		s.n.DB.Events().Publish(event.NewMessage(sentinelName, id))
		return id, chans
	}
	_, first := register()
	soon := time.After(2 * time.Second)
	pending := map[int]bool{}
	for k, ch := range first {
		select {
		case <-ch:
		case <-soon:
			pending[k] = true
		}
	}
	if len(pending) == 0 {
		return nil
	}
	_, second := register()
	deadline := time.After(syncDeadline)
	for k := range pending {
		select {
		case <-first[k]:
		case <-second[k]:
			// the second arrived: the first is either just ahead of it in the subscriber's reader, or lost
			select {
			case <-first[k]:
			case <-time.After(time.Second):
				select {
				case <-first[k]:
				default:
					return hx.Failf("C20/bus/event-lost", "bus subscriber %d (%+v), whose Subscribe call had returned before, received the second of two events published one after the other and not the first: an event was not delivered to every subscriber", k, s.c.Subs[k])
				}
			}
		case <-deadline:
			hx.Harnessf("event bus sentinel did not reach every subscriber within %v", syncDeadline)
		}
	}
	// the remaining waiters of the second sentinel are left to be closed when it arrives
	return nil
}

func (b *busSub) take() []recEvent {
	b.mu.Lock()
	defer b.mu.Unlock()
	out := b.got
	b.got = nil
	return out
}

func (s *sim) openGQL(spec GQLSub) {
	fields := "_docID age tag u"
	if spec.Version {
		fields += " _version { cid }"
	}
	args := ""
	if spec.Filter != nil {
		args = "(filter: " + spec.Filter.gql() + ")"
		s.st.label("gql-filtered")
		if spec.Filter.usesField("u") {
			s.st.label("gql-filter-on-indexed-field")
		}
	} else {
		s.st.label("gql-unfiltered")
	}
	q := fmt.Sprintf("subscription { %s%s { %s } }", colNames[spec.Col], args, fields)
	r := s.n.DB.ExecRequest(s.gctx, q)
	if len(r.GQL.Errors) > 0 || r.Subscription == nil {
		hx.Harnessf("subscription request %s rejected: %v", q, r.GQL.Errors)
	}
	g := &gqlSub{spec: spec, query: q, ch: r.Subscription, notify: make(chan struct{}, 1), done: make(chan struct{})}
	name := colNames[spec.Col]
	go func() {
		defer close(g.done)
		for res := range g.ch {
			it := gqlItem{}
			for _, e := range res.Errors {
				it.errs = append(it.errs, e.Error())
			}
			data, _ := hx.Normalize(res.Data).(map[string]any)
			it.raw = hx.Canon(data)
			if list, ok := data[name].([]any); ok {
				for _, x := range list {
					m, _ := x.(map[string]any)
					row := gqlRow{}
					row.docID, _ = m["_docID"].(string)
					if vs, ok := m["_version"].([]any); ok {
						for _, v := range vs {
							vm, _ := v.(map[string]any)
							c, _ := vm["cid"].(string)
							row.cids = append(row.cids, c)
						}
					}
					it.rows = append(it.rows, row)
				}
			}
			g.mu.Lock()
			g.items = append(g.items, it)
			g.mu.Unlock()
			select {
			case g.notify <- struct{}{}:
			default:
			}
		}
	}()
	s.gql = append(s.gql, g)
}

func (s *sim) close() {
	if s.n == nil {
		return
	}
	s.releaseStall()
	if s.gcancel != nil {
		s.gcancel()
		if !s.stalled {
			for _, g := range s.gql {
				select {
				case <-g.done:
				case <-time.After(10 * time.Second):
					// a subscription goroutine that does not end on cancellation; the node is abandoned
				}
			}
		}
	}
	for _, b := range s.subs {
		if b != nil {
			s.n.DB.Events().Unsubscribe(b.sub)
		}
	}
	done := make(chan struct{})
	go func() {
		defer close(done)
		defer func() { _ = recover() }() // closing a node whose call panicked under an injected fault
		s.n.Close()
		if s.fs != nil {
			_ = s.fs.Close()
		}
	}()
	select {
	case <-done:
	case <-time.After(20 * time.Second):
		// never block the shard on a wedged node
	}
}

// ---- sentinel documents ---------------------------------------------------------------------

// createSentinel creates the sentinel document of subscription k: a document of the subscribed
// collection that satisfies the subscription's filter (found by enumeration with the reference
// evaluator), marked mk=true so that the filtered mutations of the case leave it alone. It
// returns "" when no candidate satisfies the filter.
func (s *sim) createSentinel(k int, g GQLSub) string {
	ages := []int{50, 10}
	for a := 0; a <= maxAge; a++ {
		ages = append(ages, a)
	}
	us := []int{100 + k}
	for u := 0; u <= maxU; u++ {
		us = append(us, u)
	}
	for _, u := range us {
		for _, a := range ages {
			for _, tg := range []string{"z", "a", "b", "c"} {
				if !evalFilter(g.Filter, docState{"age": int64(a), "tag": tg, "u": int64(u)}) {
					continue
				}
				q := fmt.Sprintf("mutation { create_%s(input: {age: %d, tag: %q, u: %d, n: 0, mk: true}) { _docID } }", colNames[g.Col], a, tg, u)
				r := s.n.Exec(q)
				if !r.OK() {
					continue // e.g. the unique value is taken by another sentinel
				}
				rows := r.Rows("create_" + colNames[g.Col])
				if len(rows) != 1 {
					hx.Harnessf("sentinel creation returned %v", r.Data)
				}
				id, _ := rows[0]["_docID"].(string)
				s.sentinelDocs[id] = true
				return id
			}
		}
	}
	s.st.label("gql-unsatisfiable-filter")
	return ""
}

// sentinelWrites updates the sentinel document of every subscription (field n, which no filter
// names). They are ordinary committed mutations: the bus oracle and the GraphQL oracle judge
// them like every other change of the interval.
func (s *sim) sentinelWrites() {
	for _, g := range s.gql {
		if g.sentinel == "" {
			continue
		}
		s.sentinelSeq++
		q := fmt.Sprintf("mutation { update_%s(docID: %q, input: {n: %d}) { _docID } }", colNames[g.spec.Col], g.sentinel, s.sentinelSeq)
		if r := s.n.Exec(q); !r.OK() || len(r.Rows("update_"+colNames[g.spec.Col])) != 1 {
			hx.Harnessf("sentinel write failed: %s %s %v", r.Err(), r.Panic, r.Data)
		}
	}
}

// guardFilter keeps the filtered mutations of the case away from the sentinel documents.
func (s *sim) guardFilter(f *Filter) string {
	if len(s.sentinelDocs) == 0 {
		return f.gql()
	}
	return "{_and: [{mk: {_ne: true}}, " + f.gql() + "]}"
}

// ---- operations -----------------------------------------------------------------------------

func gqlDoc(d DocVal) string {
	return fmt.Sprintf("{age: %d, tag: %q, u: %d}", d.Age, d.Tag, d.U)
}

func jsonDoc(d DocVal) string {
	return fmt.Sprintf(`{"age": %d, "tag": %q, "u": %d}`, d.Age, d.Tag, d.U)
}

func (v SetVal) empty() bool { return v.Age == nil && v.Tag == nil && v.U == nil }

func (v SetVal) gql() string {
	parts := []string{}
	if v.Age != nil {
		parts = append(parts, fmt.Sprintf("age: %d", *v.Age))
	}
	if v.Tag != nil {
		parts = append(parts, fmt.Sprintf("tag: %q", *v.Tag))
	}
	if v.U != nil {
		parts = append(parts, fmt.Sprintf("u: %d", *v.U))
	}
	return "{" + strings.Join(parts, ", ") + "}"
}

func (v SetVal) json() string {
	parts := []string{}
	if v.Age != nil {
		parts = append(parts, fmt.Sprintf(`"age": %d`, *v.Age))
	}
	if v.Tag != nil {
		parts = append(parts, fmt.Sprintf(`"tag": %q`, *v.Tag))
	}
	if v.U != nil {
		parts = append(parts, fmt.Sprintf(`"u": %d`, *v.U))
	}
	return "{" + strings.Join(parts, ", ") + "}"
}

const noDoc = "bae-00000000-0000-5000-8000-000000000000"

func (s *sim) target(col, idx int) string {
	if len(s.docs[col]) == 0 {
		return noDoc
	}
	return s.docs[col][idx%len(s.docs[col])]
}

// normalise applies the generator switches and fills defaults; the result is what is executed.
func (s *sim) normalise(op Op) Op {
	if op.Set.empty() {
		v := (len(s.docs[0]) + len(s.docs[1]) + op.Col) % (maxAge + 1)
		op.Set.Age = &v
	}
	if s.avoidDelete {
		switch op.Kind {
		case "delete":
			op.Kind = "update"
		case "deleteIDs":
			op.Kind = "update"
			op.Target = op.Target[:1]
		case "deleteFilter":
			op.Kind = "updateFilter"
		}
	}
	return op
}

// mutation renders one GraphQL mutation selection (without the `mutation { }` wrapper).
func (s *sim) mutation(op Op) string {
	name := colNames[op.Col]
	switch op.Kind {
	case "create":
		if len(op.Docs) == 1 {
			return fmt.Sprintf("create_%s(input: %s) { _docID }", name, gqlDoc(op.Docs[0]))
		}
		parts := []string{}
		for _, d := range op.Docs {
			parts = append(parts, gqlDoc(d))
		}
		return fmt.Sprintf("create_%s(input: [%s]) { _docID }", name, strings.Join(parts, ", "))
	case "dup":
		id := s.target(op.Col, op.Target[0])
		d, ok := s.created[id]
		if !ok {
			d = DocVal{Age: 1, Tag: "a", U: maxU + 1 + op.Col}
		}
		return fmt.Sprintf("create_%s(input: %s) { _docID }", name, gqlDoc(d))
	case "update":
		return fmt.Sprintf("update_%s(docID: %q, input: %s) { _docID }", name, s.target(op.Col, op.Target[0]), op.Set.gql())
	case "updateFilter":
		return fmt.Sprintf("update_%s(filter: %s, input: %s) { _docID }", name, s.guardFilter(op.Filter), op.Set.gql())
	case "delete":
		return fmt.Sprintf("delete_%s(docID: %q) { _docID }", name, s.target(op.Col, op.Target[0]))
	case "deleteIDs":
		ids := []string{}
		for _, t := range op.Target {
			ids = append(ids, strconv.Quote(s.target(op.Col, t)))
		}
		return fmt.Sprintf("delete_%s(docID: [%s]) { _docID }", name, strings.Join(ids, ", "))
	case "deleteFilter":
		return fmt.Sprintf("delete_%s(filter: %s) { _docID }", name, s.guardFilter(op.Filter))
	case "upsert":
		return fmt.Sprintf("upsert_%s(filter: %s, create: %s, update: %s) { _docID }", name, s.guardFilter(op.Filter), gqlDoc(op.Docs[0]), op.Set.gql())
	}
	hx.Harnessf("no GraphQL form for op kind %q", op.Kind)
	return ""
}

type execer interface {
	ExecRequest(ctx context.Context, request string, opts ...client.RequestOption) *client.RequestResult
}

func errText(err error) string {
	if err == nil {
		return ""
	}
	if err.Error() == "" {
		return "error"
	}
	return err.Error()
}

// execSimple performs one mutation through GraphQL or the Go collection API, on the database
// (its own implicit transaction) or inside the given explicit transaction. It returns the error
// text ("" = the call reported success).
func (s *sim) execSimple(op Op, txn client.Txn) string {
	return s.call(func() string { return s.execSimple1(op, txn) })
}

func (s *sim) execSimple1(op Op, txn client.Txn) string {
	op = s.normalise(op)
	ctx := s.ctx
	var ex execer = s.n.DB
	if txn != nil {
		ctx = db.InitContext(s.ctx, txn)
		ex = txn
	}
	s.st.label("op:" + op.Kind)
	col := s.cols[op.Col].col
	if op.API {
		switch op.Kind {
		case "create", "dup":
			docs := []*client.Document{}
			vals := op.Docs
			if op.Kind == "dup" {
				d, ok := s.created[s.target(op.Col, op.Target[0])]
				if !ok {
					d = DocVal{Age: 1, Tag: "a", U: maxU + 1 + op.Col}
				}
				vals = []DocVal{d}
			}
			for _, d := range vals {
				doc, err := client.NewDocFromJSON([]byte(jsonDoc(d)), col.Definition())
				if err != nil {
					hx.Harnessf("NewDocFromJSON: %v", err)
				}
				docs = append(docs, doc)
			}
			s.st.label("route:api")
			if len(docs) == 1 {
				return errText(col.Create(ctx, docs[0]))
			}
			return errText(col.CreateMany(ctx, docs))
		case "update", "save":
			s.st.label("route:api")
			var doc *client.Document
			if op.Kind == "save" && (len(s.docs[op.Col]) == 0 || op.Target[0]%2 == 1) {
				var err error
				doc, err = client.NewDocFromJSON([]byte(jsonDoc(op.Docs[0])), col.Definition())
				if err != nil {
					hx.Harnessf("NewDocFromJSON: %v", err)
				}
			} else {
				id, err := client.NewDocIDFromString(s.target(op.Col, op.Target[0]))
				if err != nil {
					hx.Harnessf("doc id: %v", err)
				}
				doc, err = col.Get(ctx, id, false)
				if err != nil {
					return "get: " + errText(err)
				}
				var patch map[string]any
				_ = json.Unmarshal([]byte(op.Set.json()), &patch)
				for k, v := range patch {
					if f, ok := v.(float64); ok {
						v = int64(f)
					}
					if err := doc.Set(k, v); err != nil {
						hx.Harnessf("doc.Set: %v", err)
					}
				}
			}
			if op.Kind == "save" {
				return errText(col.Save(ctx, doc))
			}
			return errText(col.Update(ctx, doc))
		case "delete":
			s.st.label("route:api")
			id, err := client.NewDocIDFromString(s.target(op.Col, op.Target[0]))
			if err != nil {
				hx.Harnessf("doc id: %v", err)
			}
			_, err = col.Delete(ctx, id)
			return errText(err)
		case "updateFilter":
			s.st.label("route:api")
			_, err := col.UpdateWithFilter(ctx, s.guardFilter(op.Filter), op.Set.json())
			return errText(err)
		case "deleteFilter":
			s.st.label("route:api")
			_, err := col.DeleteWithFilter(ctx, s.guardFilter(op.Filter))
			return errText(err)
		}
		// deleteIDs, upsert: GraphQL only
	}
	q := "mutation { " + s.mutation(op) + " }"
	return gqlErr(ex.ExecRequest(ctx, q))
}

func gqlErr(r *client.RequestResult) string {
	parts := []string{}
	for _, e := range r.GQL.Errors {
		parts = append(parts, errText(e))
	}
	return strings.Join(parts, " | ")
}

// call runs one API call and returns its error text. A panic of the code under test is
//   - with a fault injected into this call: the end of the case (what a storage fault does to the
//     call itself belongs to C05; the store may be left in any state);
//   - explained by a listed finding: a failed call (the deferred Discard of the implicit
//     transaction has run while unwinding), the history continues;
//   - otherwise re-raised and reported by hx.Guard with its call site.
func (s *sim) call(f func() string) (res string) {
	defer func() {
		p := recover()
		if p == nil {
			return
		}
		if he, isHarness := p.(hx.HarnessError); isHarness {
			panic(he)
		}
		stack := string(debug.Stack())
		if s.faultArmed {
			s.faultPanic = true
			res = "panic"
			return
		}
		if strings.Contains(stack, "deleteIndexedDocWithID") && strings.Contains(stack, "client.(*Document).GetValue") {
			fl := hx.Failf(sigDeletePanic, "deleting by docID a document that is already deleted (or was never created) in a collection with a secondary index panics: collection.deleteIndexedDocWithID passes the nil document of c.get to deleteIndexedDoc; panic: %v", p)
			if s.note(fl) == nil {
				s.st.label("call-panicked")
				res = fmt.Sprintf("panic: %v", p)
				return
			}
		}
		panic(p)
	}()
	return f()
}

// execTop runs one top-level call with its completion points.
func (s *sim) execTop(i int, op Op) *hx.Failure {
	faulted := s.fs != nil && op.FaultK > 0
	var fail *hx.Failure
	body := func() {
		switch op.Kind {
		case "txn":
			fail = s.execTxn(op)
		case "pair":
			fail = s.execPair(op)
		case "multi":
			parts := []string{}
			for k, sub := range op.Sub {
				sub = s.normalise(sub)
				s.st.label("op:" + sub.Kind)
				parts = append(parts, fmt.Sprintf("m%d: %s", k, s.mutation(sub)))
			}
			s.st.label("op:multi-mutation-request")
			q := "mutation { " + strings.Join(parts, " ") + " }"
			fail = s.afterCall(s.call(func() string { return gqlErr(s.n.DB.ExecRequest(s.ctx, q)) }))
		default:
			fail = s.afterCall(s.execSimple(op, nil))
		}
	}
	if !faulted {
		body()
		return fail
	}
	s.faultArmed, s.faultPanic = true, false
	plan := hx.FaultPlan{K: op.FaultK}
	if op.FaultWrites {
		plan.Kinds = hx.FaultKindsOf(hx.FaultSet, hx.FaultDelete, hx.FaultCommit)
	}
	w := s.fs.Window(plan, func() {
		defer func() {
			// e.g. Badger's "Unclosed iterator at time of Txn.Discard" after a failed read (C05)
			if p := recover(); p != nil {
				if he, isHarness := p.(hx.HarnessError); isHarness {
					panic(he)
				}
				s.faultPanic = true
			}
		}()
		body()
	})
	s.faultArmed = false
	switch {
	case s.faultPanic:
		// the store may be left in any state by a panic inside a storage call: stop here
		s.st.label("fault-panic-cut")
		s.cut = true
		return nil
	case !w.Fired:
		s.st.label("fault-not-reached")
	default:
		s.st.label("fault-fired")
		s.st.label("fault-on-" + w.FiredOp.Kind.String())
		if w.WritesBefore > 0 {
			s.st.label("fault-after-first-write")
		} else {
			s.st.label("fault-before-first-write")
		}
	}
	return fail
}

func (s *sim) afterCall(errText string) *hx.Failure {
	if errText != "" {
		s.st.label("call-failed")
		return s.checkpoint("call-failed")
	}
	return s.checkpoint("call")
}

func (s *sim) execTxn(op Op) *hx.Failure {
	txn, err := s.n.DB.NewTxn(s.ctx, false)
	if err != nil {
		hx.Harnessf("NewTxn: %v", err)
	}
	s.openTxns++
	failed := false
	for _, step := range op.Sub {
		if e := s.execSimple(step, txn); e != "" {
			failed = true
			s.st.label("txn-step-failed")
		}
		if f := s.checkpoint("txn-open"); f != nil || s.cut {
			txn.Discard(s.ctx)
			s.openTxns--
			return f
		}
		if failed {
			break
		}
	}
	// A transaction one of whose steps failed while a storage fault is armed is always discarded:
	// committing it would make the partial writes of the failed step durable, which no event can
	// describe (the caller's protocol violation; what a fault does to a step is C05's subject).
	if op.Commit && (!failed || (op.CommitAfterError && !s.faultArmed)) {
		if failed {
			s.st.label("txn-commit-after-failed-step")
		}
		err := txn.Commit(s.ctx)
		s.openTxns--
		if err != nil {
			txn.Discard(s.ctx)
			s.st.label("commit-failed")
			return s.checkpoint("commit-failed")
		}
		s.st.label("txn-committed")
		return s.checkpoint("txn-commit")
	}
	txn.Discard(s.ctx)
	s.openTxns--
	s.st.label("txn-discarded")
	return s.checkpoint("txn-discard")
}

// execPair interleaves the steps of two explicit transactions and completes them in the drawn order.
func (s *sim) execPair(op Op) *hx.Failure {
	s.st.label("interleaved-transactions")
	type side struct {
		txn    client.Txn
		steps  []Op
		commit bool
		failed bool
	}
	var sides [2]*side
	for k := range sides {
		txn, err := s.n.DB.NewTxn(s.ctx, false)
		if err != nil {
			hx.Harnessf("NewTxn: %v", err)
		}
		sides[k] = &side{txn: txn}
	}
	s.openTxns = 2
	sides[0].steps, sides[0].commit = op.Sub, op.Commit
	sides[1].steps, sides[1].commit = op.Sub2, op.Commit2
	discardAll := func() {
		for _, sd := range sides {
			sd.txn.Discard(s.ctx)
		}
		s.openTxns = 0
	}
	for i := 0; i < len(op.Sub) || i < len(op.Sub2); i++ {
		for _, sd := range sides {
			if i >= len(sd.steps) || sd.failed {
				continue
			}
			if e := s.execSimple(sd.steps[i], sd.txn); e != "" {
				sd.failed = true
				s.st.label("txn-step-failed")
			}
			if f := s.checkpoint("txn-open"); f != nil || s.cut {
				discardAll()
				return f
			}
		}
	}
	order := []int{0, 1}
	if op.BFirst {
		order = []int{1, 0}
	}
	for n, k := range order {
		sd := sides[k]
		var f *hx.Failure
		if sd.commit && !sd.failed {
			err := sd.txn.Commit(s.ctx)
			s.openTxns--
			if err != nil {
				sd.txn.Discard(s.ctx)
				s.st.label("commit-failed")
				if strings.Contains(strings.ToLower(err.Error()), "conflict") {
					s.st.label("commit-conflict")
				}
				f = s.checkpoint("commit-failed")
			} else {
				s.st.label("txn-committed")
				f = s.checkpoint("txn-commit")
			}
		} else {
			sd.txn.Discard(s.ctx)
			s.openTxns--
			s.st.label("txn-discarded")
			f = s.checkpoint("txn-discard")
		}
		if f != nil || s.cut {
			if n == 0 {
				sides[order[1]].txn.Discard(s.ctx)
				s.openTxns = 0
			}
			return f
		}
	}
	return nil
}

// ---- the oracle -----------------------------------------------------------------------------

func short(id string) string {
	if len(id) > 14 {
		return "…" + id[len(id)-10:]
	}
	return id
}

func describe(evs []recEvent) string {
	parts := []string{}
	for _, e := range evs {
		parts = append(parts, fmt.Sprintf("(%s,%s)", short(e.u.DocID), short(e.u.Cid.String())))
	}
	return "[" + strings.Join(parts, " ") + "]"
}

// checkpoint is run at every completion point (a call returned, a transaction was committed or
// discarded) and, with kind "txn-open", between the steps of an open transaction. It compares
// what every subscriber received since the previous checkpoint with the commits that became
// part of the store in the same interval.
func (s *sim) checkpoint(kind string) *hx.Failure {
	s.releaseStall()
	// 1. synchronise: GraphQL sentinels first (they are update events, so the bus subscribers
	//    see them too, after everything the call published), then the bus sentinel.
	//    Before them, when no explicit transaction is open, one real write per subscription: an
	//    update of its sentinel document, which satisfies its filter and therefore must be
	//    reported - the synchronisation does not depend on how the subscription reads a commit.
	doGQL := len(s.gql) > 0 && s.openTxns == 0
	sentinels := map[int]string{}
	if doGQL {
		s.sentinelWrites()
		sentinels = s.publishGQLSentinels()
	}
	if f := s.syncBus(); f != nil {
		return f
	}
	cands := append(s.unattached, s.tr.scan(s.ctx)...)
	reach := s.tr.attached(s.ctx)
	var fresh []*commit
	s.unattached = nil
	for _, c := range cands {
		if reach[c.Cid] {
			fresh = append(fresh, c)
		} else {
			s.unattached = append(s.unattached, c)
			s.st.label("unattached-block-left-by-failed-step")
		}
	}

	newByCid := map[string]*commit{}
	distinctDocs := map[string]bool{}
	perDoc := map[string]int{}
	for _, c := range fresh {
		newByCid[c.Cid] = c
		if c.Col < 0 {
			hx.Harnessf("commit %s of unknown schema version %q", c.Cid, c.Schema)
		}
		if c.Kind == "doc" {
			if !s.sentinelDocs[c.DocID] {
				distinctDocs[c.DocID] = true
				perDoc[c.DocID]++
			}
			if _, known := s.docCol[c.DocID]; !known {
				s.docCol[c.DocID] = c.Col
			}
			if c.Deleted {
				s.st.label("delete-committed")
			}
		}
	}
	// documents created in this interval join the target lists in a deterministic order
	var newDocs []*commit
	for _, c := range fresh {
		if c.Kind == "doc" && len(c.Heads) == 0 && !s.sentinelDocs[c.DocID] {
			newDocs = append(newDocs, c)
		}
	}
	sort.Slice(newDocs, func(i, j int) bool { return newDocs[i].DocID < newDocs[j].DocID })
	for _, c := range newDocs {
		s.docs[c.Col] = append(s.docs[c.Col], c.DocID)
		s.created[c.DocID] = DocVal{Age: int(asInt(c.State["age"])), Tag: asStr(c.State["tag"]), U: int(asInt(c.State["u"]))}
	}
	if len(distinctDocs) >= 2 {
		if kind == "call" || kind == "call-failed" {
			s.st.label("multi-doc-call")
		} else {
			s.st.label("multi-doc-call")
			s.st.label("multi-doc-transaction")
		}
	}
	for id, n := range perDoc {
		if n >= 2 {
			s.st.label("several-commits-of-one-document-in-one-interval")
			for _, g := range s.gql {
				if g.spec.Col == s.docCol[id] && g.spec.Filter != nil {
					s.st.label("several-commits-of-one-document+filtered-gql")
				}
			}
		}
	}
	s.st.counts["checkpoints"]++
	s.st.counts["commits_checked"] += len(fresh)

	// 2. every bus subscriber
	var ref []recEvent
	first := true
	for k, b := range s.subs {
		if b == nil {
			continue
		}
		all := b.take()
		var evs []recEvent
		nsynth := 0
		for _, e := range all {
			if e.u.IsRetry && s.synth[e.u.Cid.String()] {
				nsynth++
				continue
			}
			evs = append(evs, e)
		}
		if nsynth != len(sentinels) {
			return hx.Failf("C20/bus/published-event-count", "subscriber %d received %d of the %d synthetic update events published by the harness", k, nsynth, len(sentinels))
		}
		if first {
			first = false
			ref = evs
			if f := s.checkEvents(kind, evs, fresh, newByCid); f != nil {
				return f
			}
			continue
		}
		if f := sameSequence(k, evs, ref); f != nil {
			return f
		}
		for _, e := range evs {
			if f := checkReadable(k, e); f != nil {
				return f
			}
		}
	}
	s.st.counts["events_checked"] += len(ref)

	// 3. every GraphQL subscription (events of intervals inside open transactions are carried over)
	if !doGQL {
		s.gqlPending = append(s.gqlPending, ref...)
		return nil
	}
	ref = append(s.gqlPending, ref...)
	s.gqlPending = nil
	for k, g := range s.gql {
		lastDoc := ""
		if !g.disabled {
			exp, _, _ := s.expected(g, ref)
			for _, x := range exp {
				if !x.optional {
					lastDoc = x.docID
				}
			}
			if lastDoc != "" && !s.sentinelDocs[lastDoc] {
				hx.Harnessf("the last expected result of subscription %d is not a sentinel write", k)
			}
		}
		items, stalled := s.waitSentinel(g, sentinels[g.spec.Col], lastDoc)
		if stalled {
			s.stalled = true
			s.cut = true
			s.st.label("gql-stall")
			return s.note(hx.Failf(sigStallDelete, "after a committed delete (%s) the goroutine of GraphQL subscription %d (%s) blocks forever in VersionedFetcher.merge -> DocComposite.deleteWithPrefix (write under its own open iterator on the in-memory scratch store); the subscription never yields again", kind, k, g.query))
		}
		if g.disabled {
			continue
		}
		if f := s.checkGQL(k, g, items, ref, sentinels); f != nil {
			return f
		}
	}
	return nil
}

func asInt(v any) int64 {
	n, _ := v.(int64)
	return n
}

func asStr(v any) string {
	s, _ := v.(string)
	return s
}

func checkReadable(k int, e recEvent) *hx.Failure {
	if !e.readable {
		return hx.Failf("C20/event/block-unreadable-at-receipt", "subscriber %d received the update event (%s,%s) but the announced cid was not readable from the blockstore at that moment: %s", k, short(e.u.DocID), e.u.Cid, e.readErr)
	}
	if !e.same {
		return hx.Failf("C20/event/block-differs-from-store", "subscriber %d: the Block of update event (%s,%s) differs from the bytes stored under that cid (read at receipt)", k, short(e.u.DocID), e.u.Cid)
	}
	return nil
}

func sameSequence(k int, evs, ref []recEvent) *hx.Failure {
	same := len(evs) == len(ref)
	for i := 0; same && i < len(evs); i++ {
		a, b := evs[i].u, ref[i].u
		same = a.DocID == b.DocID && a.Cid == b.Cid && a.CollectionID == b.CollectionID && bytes.Equal(a.Block, b.Block)
	}
	if same {
		return nil
	}
	return hx.Failf("C20/order/subscribers-disagree", "subscriber %d received %s, the first subscriber received %s in the same interval", k, describe(evs), describe(ref))
}

// checkEvents compares the events of one interval (as the first subscriber received them) with
// the commits that appeared in the store during it.
func (s *sim) checkEvents(kind string, evs []recEvent, fresh []*commit, newByCid map[string]*commit) *hx.Failure {
	seen := map[string]int{}
	pos := map[string]int{}
	for i, e := range evs {
		id := e.u.Cid.String()
		c := newByCid[id]
		if c == nil {
			if old := s.tr.blocks[id]; old != nil {
				for _, u := range s.unattached {
					if u.Cid == id {
						return hx.Failf("C20/event/announces-unattached-block", "update event (%s,%s) after %s announces a block that no head reaches", short(e.u.DocID), id, kind)
					}
				}
				if old.Kind == "field" {
					return hx.Failf("C20/event/not-a-commit", "update event (%s,%s) announces a field-level block", short(e.u.DocID), id)
				}
				return hx.Failf("C20/event/reannounced", "update event (%s,%s) after %s announces a commit that was already in the store before this interval", short(e.u.DocID), id, kind)
			}
			return hx.Failf("C20/event/uncommitted/"+kind, "update event (%s,%s) received at checkpoint %q, but no such block is in the store: the change was not (yet) committed; events of the interval: %s", short(e.u.DocID), id, kind, describe(evs))
		}
		seen[id]++
		if seen[id] > 1 {
			return hx.Failf("C20/event/duplicate", "commit (%s,%s) was announced %d times; events of the interval: %s", short(c.DocID), id, seen[id], describe(evs))
		}
		pos[id] = i
		if c.Kind == "field" {
			return hx.Failf("C20/event/not-a-commit", "update event (%s,%s) announces a field-level block", short(e.u.DocID), id)
		}
		if e.u.DocID != c.DocID {
			return hx.Failf("C20/event/wrong-docid", "update event for %s commit %s carries DocID %q, the commit belongs to %q", c.Kind, id, e.u.DocID, c.DocID)
		}
		if e.u.CollectionID != s.cols[c.Col].id {
			return hx.Failf("C20/event/wrong-collection-id", "update event (%s,%s) carries CollectionID %q, the commit belongs to collection %s (%s)", short(c.DocID), id, e.u.CollectionID, s.cols[c.Col].name, s.cols[c.Col].id)
		}
		if !bytes.Equal(e.u.Block, c.Raw) {
			return hx.Failf("C20/event/block-differs-from-store", "the Block of update event (%s,%s) differs from the bytes stored under that cid", short(c.DocID), id)
		}
		sum, err := coreblock.GetLinkPrototype().Prefix.Sum(e.u.Block)
		if err != nil || sum != e.u.Cid {
			return hx.Failf("C20/event/block-does-not-hash-to-cid", "the Block of update event (%s,%s) hashes to %s", short(c.DocID), id, sum)
		}
		if f := checkReadable(0, e); f != nil {
			return f
		}
	}
	for _, c := range fresh {
		if seen[c.Cid] == 0 {
			what := "document-level"
			if c.Kind == "col" {
				what = "collection-level"
			}
			shape := "single"
			if len(fresh) > 1 {
				shape = "multi"
			}
			return hx.Failf("C20/event/missing/"+c.Kind, "%s commit (%s,%s, height %d) became part of the store at checkpoint %q (%s-commit interval: %d new commits) but no update event announced it; events of the interval: %s", what, short(c.DocID), c.Cid, c.Height, kind, shape, len(fresh), describe(evs))
		}
	}
	// a commit is announced after the commits it links to (previous commit of the document,
	// previous collection-level commit, the document commit a collection-level commit carries)
	for _, c := range fresh {
		for _, p := range c.Parents {
			if pp, ok := pos[p]; ok && pp > pos[c.Cid] {
				return hx.Failf("C20/order/child-before-parent", "%s commit %s was announced before the commit %s it links to; events of the interval: %s", c.Kind, c.Cid, p, describe(evs))
			}
		}
	}
	return nil
}

// ---- GraphQL subscriptions ------------------------------------------------------------------

// publishGQLSentinels publishes, per collection that has a subscription, one synthetic update
// event that names a block which does not exist. Every subscription answers it with an error
// result naming that cid (whatever its filter), after all results of earlier events.
func (s *sim) publishGQLSentinels() map[int]string {
	out := map[int]string{}
	for _, g := range s.gql {
		col := g.spec.Col
		if _, ok := out[col]; ok {
			continue
		}
		s.synthSeq++
		id, err := coreblock.GetLinkPrototype().Prefix.Sum([]byte(fmt.Sprintf("c20-sentinel-%d", s.synthSeq)))
		if err != nil {
			hx.Harnessf("sentinel cid: %v", err)
		}
		out[col] = id.String()
		s.synth[id.String()] = true
		s.synthCol[id.String()] = col
	}
	cols := []int{}
	for col := range out {
		cols = append(cols, col)
	}
	sort.Ints(cols)
	for _, col := range cols {
		id, _ := cid.Decode(out[col])
		s.n.DB.Events().Publish(event.NewMessage(event.UpdateName, event.Update{
			DocID: noDoc, Cid: id, CollectionID: s.cols[col].id, IsRetry: true,
		}))
	}
	return out
}

func (it gqlItem) mentions(cid string) bool {
	for _, e := range it.errs {
		if strings.Contains(e, cid) {
			return true
		}
	}
	return false
}

// waitSentinel returns the results the subscription produced before the answer to the sentinel.
//
// Two independent markers end the interval in the result stream: the answer to the synthetic
// event (an error result naming its cid) and the result for the last real write of the interval,
// the update of a sentinel document (lastDoc) that satisfies this subscription's filter. No
// result is owed between the two, so the stream is cut at whichever is found first: at the
// answer when it is already there (a missing sentinel result is then a deterministic
// missing-result), else right after the real result (the answer, when it arrives later, is
// recognised and ignored). A subscription without a real marker (unsatisfiable filter) is only
// given a short time to answer the synthetic event and is then judged on what it has yielded so
// far - it owes nothing, ever, so any document it yields is a violation whenever it is seen.
func (s *sim) waitSentinel(g *gqlSub, sentinel string, lastDoc string) (items []gqlItem, stalled bool) {
	start := time.Now()
	var lastStuck map[string]bool
	nextProbe := 150 * time.Millisecond
	for {
		g.mu.Lock()
		idxReal := -1
		for i, it := range g.items {
			if it.mentions(sentinel) {
				items = append(items, g.items[:i]...)
				g.items = append([]gqlItem{}, g.items[i+1:]...)
				g.mu.Unlock()
				return items, false
			}
			if idxReal < 0 && lastDoc != "" && len(it.errs) == 0 && len(it.rows) == 1 && it.rows[0].docID == lastDoc {
				idxReal = i
			}
		}
		if idxReal >= 0 || (lastDoc == "" && time.Since(start) > noMarkerWait) {
			items = append(items, g.items[:idxReal+1]...)
			g.items = append([]gqlItem{}, g.items[idxReal+1:]...)
			if idxReal < 0 {
				items = append(items, g.items...)
				g.items = nil
			}
			g.mu.Unlock()
			return items, false
		}
		g.mu.Unlock()
		select {
		case <-g.notify:
			continue
		case <-g.done:
			hx.Harnessf("subscription channel closed while waiting for its sentinel")
		case <-time.After(25 * time.Millisecond):
		}
		waited := time.Since(start)
		if waited >= nextProbe {
			nextProbe = waited + 150*time.Millisecond
			stuck := map[string]bool{}
			for id := range stuckSubscriptionGoroutines() {
				if !s.baselineStuck[id] {
					stuck[id] = true
				}
			}
			for id := range stuck {
				if lastStuck[id] {
					// the same goroutine sits in the self-deadlock in two probes: it is permanent
					return nil, true
				}
			}
			lastStuck = stuck
		}
		if waited > syncDeadline {
			hx.Harnessf("GraphQL subscription %s did not answer its sentinel within %v (no deadlocked subscription goroutine found)", g.query, syncDeadline)
		}
	}
}

// stuckSubscriptionGoroutines returns the ids of goroutines of handleSubscription that are
// blocked acquiring the write lock of the in-memory store beneath deleteWithPrefix, i.e. under
// the iterator they hold themselves.
func stuckSubscriptionGoroutines() map[string]bool {
	buf := make([]byte, 1<<20)
	for {
		n := runtime.Stack(buf, true)
		if n < len(buf) {
			buf = buf[:n]
			break
		}
		buf = make([]byte, 2*len(buf))
	}
	out := map[string]bool{}
	for _, g := range strings.Split(string(buf), "\n\n") {
		if strings.Contains(g, "handleSubscription.func1") && strings.Contains(g, "deleteWithPrefix") && strings.Contains(g, "sync.(*RWMutex).Lock") {
			head := g
			if i := strings.Index(head, " ["); i > 0 {
				head = head[:i]
			}
			out[head] = true
		}
	}
	return out
}

// expected lists, in event order, the results a subscription owes for the events of an interval.
func (s *sim) expected(g *gqlSub, evs []recEvent) (exp []expect, colEvents int, foreignDocs map[string]int) {
	foreignDocs = map[string]int{}
	for _, e := range evs {
		c := s.tr.blocks[e.u.Cid.String()]
		switch {
		case c.Kind == "col":
			colEvents++
		case c.Col != g.spec.Col:
			foreignDocs[c.DocID]++
		case c.Deleted:
			// a deleted document matches no filter; without a filter a result for the delete
			// commit is accepted but not required
			if g.spec.Filter == nil {
				exp = append(exp, expect{c.DocID, c.Cid, true})
			}
		case evalFilter(g.spec.Filter, c.State):
			exp = append(exp, expect{c.DocID, c.Cid, false})
		}
	}
	return exp, colEvents, foreignDocs
}

type expect struct {
	docID    string
	cid      string
	optional bool
}

// checkGQL compares the results one subscription yielded in an interval with the events of the
// interval (in the order the bus delivered them).
func (s *sim) checkGQL(k int, g *gqlSub, items []gqlItem, evs []recEvent, sentinels map[int]string) *hx.Failure {
	exp, colEvents, foreignDocs := s.expected(g, evs)
	total := len(evs) + len(sentinels)
	describeItems := func() string {
		parts := []string{}
		for _, it := range items {
			if len(it.errs) > 0 {
				parts = append(parts, fmt.Sprintf("error(%s)", strings.Join(it.errs, "; ")))
			} else {
				parts = append(parts, it.raw)
			}
		}
		return fmt.Sprintf("subscription %d `%s` yielded %d result(s) %v for the events %s", k, g.query, len(items), parts, describe(evs))
	}

	var real []gqlRow
	nEmpty, nColErr, nForeign, nForeignSentinel, nStale := 0, 0, 0, 0, 0
	for _, it := range items {
		switch {
		case len(it.errs) > 0:
			// the answer to a sentinel published for the other collection (now or at an earlier
			// checkpoint): only seen while events are not matched against the subscribed collection
			foreign, stale := false, false
			for id := range s.synth {
				if it.mentions(id) {
					if s.synthCol[id] == g.spec.Col {
						stale = true // the late answer to a synthetic event of an earlier interval
					} else {
						foreign = true
					}
				}
			}
			switch {
			case stale:
				nStale++
			case foreign:
				nForeignSentinel++
			case len(it.errs) == 1 && strings.Contains(it.errs[0], "cid does not belong to document"):
				nColErr++
			default:
				return hx.Failf("C20/gql/error-result", "%s", describeItems())
			}
		case len(it.rows) == 0:
			nEmpty++
		case len(it.rows) > 1:
			return hx.Failf("C20/gql/result-with-several-documents", "%s", describeItems())
		default:
			row := it.rows[0]
			col, known := s.docCol[row.docID]
			switch {
			case !known:
				return hx.Failf("C20/gql/result-for-unknown-document", "%s", describeItems())
			case col != g.spec.Col:
				if foreignDocs[row.docID] == 0 {
					return hx.Failf("C20/gql/unexpected-result", "a document of another collection that did not change in this interval: %s", describeItems())
				}
				foreignDocs[row.docID]--
				nForeign++
			default:
				real = append(real, row)
			}
		}
	}

	// the real results against the expectation, in order
	i := 0
	var missing []expect
	for _, x := range exp {
		if i < len(real) && real[i].docID == x.docID && (!g.spec.Version || len(real[i].cids) == 0 || real[i].cids[0] == x.cid) {
			if g.spec.Version && len(real[i].cids) == 0 {
				return hx.Failf("C20/gql/result-without-version", "%s", describeItems())
			}
			i++
			continue
		}
		if x.optional {
			continue
		}
		missing = append(missing, x)
	}
	extra := real[i:]
	if len(real) > 0 {
		g.sawReal = true
	}
	if len(missing) > 0 || len(extra) > 0 {
		if len(extra) == 0 && g.spec.Filter.usesField("u") && !g.sawReal {
			// diagnoser: the filter names the indexed field and the subscription has never yielded a document
			g.disabled = true
			s.st.label("gql-indexed-filter-blind")
			return s.note(hx.Failf(sigIndexedFilter, "the filter names the indexed field u and %d matching change(s) yielded no document (the subscription has not matched anything so far): %s", len(missing), describeItems()))
		}
		sig := "C20/gql/unexpected-result"
		switch {
		case len(extra) == 0:
			sig = "C20/gql/missing-result"
		case len(missing) == len(extra) && sameMultiset(missing, extra):
			sig = "C20/gql/order"
		case len(missing) == 0 && duplicates(real):
			sig = "C20/gql/duplicate-result"
		case len(missing) > 0:
			sig = "C20/gql/missing-and-unexpected-result"
		}
		return hx.Failf(sig, "expected %d result(s) %v, missing %v, unexpected %v: %s", len(exp), exp, missing, extra, describeItems())
	}

	// results that carry no document of this collection must be explained by a listed finding
	if len(items)-nStale > total {
		return hx.Failf("C20/gql/more-results-than-events", "%d results for %d events: %s", len(items)-nStale, total, describeItems())
	}
	if nColErr > 0 {
		if nColErr > colEvents {
			return hx.Failf("C20/gql/error-result", "%d 'cid does not belong to document' results for %d collection-level commits: %s", nColErr, colEvents, describeItems())
		}
		s.st.label("gql-noise:collection-commit-error")
		if f := s.note(hx.Failf(sigColCommitErr, "the collection-level commit of a branchable collection (update event with empty DocID) makes a subscription that selects _version yield an error result 'cid does not belong to document': %s", describeItems())); f != nil {
			return f
		}
	}
	if nForeign > 0 || nForeignSentinel > 0 {
		s.st.label("gql-noise:other-collection")
		if f := s.note(hx.Failf(sigOtherCol, "a subscription on %s yields a result for %d change(s) of documents of the other collection (events are not matched against the subscribed collection): %s", colNames[g.spec.Col], nForeign+nForeignSentinel, describeItems())); f != nil {
			return f
		}
	}
	if nEmpty > 0 {
		s.st.label("gql-noise:empty-result")
		if f := s.note(hx.Failf(sigEmptyResult, "%d result(s) with an empty document list for changes that do not match (filter, collection-level commit or other collection): %s", nEmpty, describeItems())); f != nil {
			return f
		}
	}
	s.st.counts["gql_results_checked"] += len(real)
	return nil
}

func sameMultiset(a []expect, b []gqlRow) bool {
	n := map[string]int{}
	for _, x := range a {
		n[x.docID]++
	}
	for _, x := range b {
		n[x.docID]--
	}
	for _, v := range n {
		if v != 0 {
			return false
		}
	}
	return true
}

func duplicates(rows []gqlRow) bool {
	seen := map[string]bool{}
	for _, r := range rows {
		key := r.docID
		if len(r.cids) > 0 {
			key += "@" + r.cids[0]
		} else {
			continue
		}
		if seen[key] {
			return true
		}
		seen[key] = true
	}
	return false
}
