// Package c15 checks property C15: replication eventually delivers every
// commit, across outages of the receiving peer.
//
// Two real net.Peers on 127.0.0.1 (ephemeral ports). Node A writes; node B
// receives through a replicator A->B, through a pubsub subscription to the
// collection, or both. B's peer (not its database) is closed and reopened on
// the same key and port between and during writes; the schema may be patched
// on both nodes in the middle.
//
// Oracle (see run_test.go): (1) obligation invariant - a stable state "B up,
// B behind for a document, no retry record for it" is a violation; (2)
// bounded eventuality - with B reachable and traffic stopped B's documents
// equal the harness model of A's writes; a mere deadline miss is inconclusive.
package c15

import (
	"encoding/json"
	"fmt"
	"os"
	"testing"

	"pgregory.net/rapid"

	"github.com/sourcenetwork/defradb/verifharness/hx"
)

// Case is one replication history.
type Case struct {
	// Config: "rep" (replicator A->B), "pubsub" (B subscribed to the collection), "both".
	Config string `json:"config"`
	// NDocs is the number of document slots (1..4); writes address slots modulo NDocs.
	NDocs int `json:"ndocs"`
	// Boot: B lists A as a bootstrap peer (B dials A when its peer starts).
	Boot bool `json:"boot"`
	// Branchable: the collection is declared @branchable (collection-level commits are replicated too).
	Branchable bool `json:"branchable,omitempty"`
	// APubSubOff: A's peer runs with pubsub disabled (net.pubSubEnabled=false); config rep only.
	APubSubOff bool `json:"a_pubsub_off,omitempty"`
	Ops        []Op `json:"ops"`
}

// Op is one step of the history.
//
//	w       write to document slot Doc: field F in {n, c, e, del}, value V; a slot that does not
//	        exist yet is created, a write to a deleted slot is skipped. Wait: with B up, wait for
//	        B to have A's head of that document before the next step (paced traffic).
//	patch   PatchSchema add-field on A and on B (first patch adds e, second adds g; later ones are
//	        skipped); AOnly: only A is patched (B stays on the older schema version)
//	down    close B's peer (database kept); the writes in Burst are issued concurrently with it
//	up      reopen B's peer on the same key and port; Burst as above
//	settle  checkpoint: obligation invariant; Full: also wait until B has everything
//	setrep  A.SetReplicator(B) (configs rep/both; once)
//	fault   arm the block-write fault on B: V more block writes (pushed heads, fetched blocks) are
//	        stored, every later one fails until healed - a sync on B is interrupted mid-way
//	heal    with B up wait until the fault has interrupted a sync (bounded), then clear it; also done
//	        implicitly before a full checkpoint and before the final phase
//	racew   with B up, wait (at most 6 s) until B stores a block of an incoming push - A's push-log call,
//	        typically the retry after an outage, is then in flight - and write to document slot Doc on A
//	        at that moment; if nothing arrives the write happens anyway
//	pause   let Ms milliseconds pass (outage length; lets the retry loop run while B is still down)
type Op struct {
	K     string  `json:"k"`
	Doc   int     `json:"doc,omitempty"`
	F     string  `json:"f,omitempty"`
	V     int     `json:"v,omitempty"`
	Wait  bool    `json:"wait,omitempty"`
	Full  bool    `json:"full,omitempty"`
	Ms    int     `json:"ms,omitempty"`
	AOnly bool    `json:"a_only,omitempty"`
	Burst []Write `json:"burst,omitempty"`
}

// Write is a write inside a burst.
type Write struct {
	Doc int    `json:"doc"`
	F   string `json:"f"`
	V   int    `json:"v"`
}

var rec = hx.NewRecorder("C15",
	"cases are drawn up front: configuration in {replicator A->B, B subscribed to the collection via pubsub, both} x {B bootstraps from A or not} "+
		"x {collection @branchable or not} x {pubsub enabled on A or not (replicator only)}, 1-4 document slots, "+
		"5-14 steps from {write (create, update register n, increment counter c, write an added field, delete), PatchSchema add-field (up to two; on both nodes or on A only), "+
		"close B's peer, reopen B's peer on the same key and port (each optionally with a burst of 1-5 writes issued concurrently), pause 50ms-5s, checkpoint, SetReplicator, "+
		"block-write fault on B (a sync interrupted mid-way) and its healing, a write on A timed to the moment B stores a block of an incoming push (the retry after an outage is then in flight)}; "+
		"step weights depend on the simulated state (B up/down, writes in this outage, patches so far) so that outages, writes during and after them and patches during them dominate; "+
		"half of the cases avoid the triggers of the listed known findings by construction; "+
		"non-trivial = at least one write while B's peer was down and at least one write after it came back; distinct by case JSON",
	"only A writes; B's database stays open while its peer is closed (peer-only outage), B reopens on the same key and port",
	"net.PushTimeout shortened to 2s and retry intervals to 50-200ms; retryLoopInterval (2s) unchanged",
	"pubsub-only configurations only promise convergence of documents updated after reconnection (harness reconnects A and B explicitly and re-issues updates); in them B's outage lasts at least until A's pubsub layer has reported B's departure (a faster restart can make go-libp2p-pubsub forget B's subscription), and a case that only recovers after one more clean reconnection is counted, not reported",
	"liveness is checked in its safety form plus a bounded wait; a deadline miss alone is reported as inconclusive, never as a violation",
)

func drawWrite(t *rapid.T, c *Case, patches int) Write {
	w := Write{Doc: rapid.IntRange(0, c.NDocs-1).Draw(t, "doc"), V: rapid.IntRange(1, 9).Draw(t, "v")}
	fields := []string{"n", "c", "n", "c", "n", "del"}
	if patches == 1 {
		fields = []string{"n", "e", "c", "e", "n", "c", "del"}
	}
	if patches >= 2 {
		fields = []string{"n", "e", "c", "g", "n", "g", "del"}
	}
	w.F = rapid.SampledFrom(fields).Draw(t, "f")
	return w
}

func pick(t *rapid.T, label string, kinds []string, weights []int) string {
	total := 0
	for _, w := range weights {
		total += w
	}
	x := rapid.IntRange(0, total-1).Draw(t, label)
	for i, w := range weights {
		if x < w {
			return kinds[i]
		}
		x -= w
	}
	return kinds[0]
}

const sigRetryCollectionID = "C15/obligation-lost/retry-push-names-schema-version-as-collection"

func drawCase(t *rapid.T) Case {
	c := Case{}
	// Search past the known findings: half of the cases avoid every listed trigger by construction
	// (at most one patch and always on both nodes, so a retried commit's schema version is B's
	// active version; no branchable collection; pubsub enabled on A), the other half keeps
	// observing them. A switch only applies while its signature is listed as known.
	avoid := rapid.Bool().Draw(t, "avoid-known")
	maxPatches, allowAOnly := 2, true
	if avoid && rec.KnownSwitch(sigRetryCollectionID) {
		maxPatches, allowAOnly = 1, false
	}
	c.Config = rapid.SampledFrom([]string{"rep", "rep", "rep", "both", "both", "pubsub"}).Draw(t, "config")
	if only := os.Getenv("C15_ONLY_CONFIG"); only != "" {
		c.Config = only // targeted campaigns while developing
	}
	c.NDocs = rapid.IntRange(1, 4).Draw(t, "ndocs")
	c.Boot = rapid.IntRange(0, 3).Draw(t, "boot") == 0
	if !(avoid && rec.KnownSwitch(sigCollectionRetry)) {
		c.Branchable = rapid.IntRange(0, 3).Draw(t, "branchable") >= 2
	}
	if !(avoid && rec.KnownSwitch(sigPubSubOff)) && c.Config == "rep" {
		c.APubSubOff = rapid.IntRange(0, 5).Draw(t, "pubsuboff") >= 4
	}
	hasRep := c.Config != "pubsub"
	repSet := !hasRep
	up, patched, outages := true, 0, 0
	if hasRep && rapid.IntRange(0, 4).Draw(t, "repfirst") > 0 {
		c.Ops = append(c.Ops, Op{K: "setrep"})
		repSet = true
	}
	n := rapid.IntRange(5, 14).Draw(t, "nops")
	writesThisOutage := 0
	justUp, lastOutageDoc := false, -1
	armed, faults := false, 0
	for i := 0; i < n; i++ {
		// rapid's integer generator favours small values, so the kind listed first is drawn most
		// often: the order below puts the step that makes the history interesting first.
		kinds := []string{}
		weights := []int{}
		add := func(k string, w int) { kinds = append(kinds, k); weights = append(weights, w) }
		patchW := func(base int) {
			if patched < maxPatches {
				add("patch", base)
			}
		}
		switch {
		case up && outages == 0:
			add("down", 45)
			add("w", 35)
			patchW(8)
			add("settle", 6)
			add("pause", 3)
		case up && justUp && lastOutageDoc >= 0:
			// B just came back and A owes it documents: the retry is about to run
			add("racew", 55)
			add("w", 25)
			add("settle", 10)
			add("down", 10)
		case up:
			add("w", 50)
			add("settle", 15)
			add("down", 20)
			patchW(8)
			add("pause", 4)
		case writesThisOutage == 0:
			add("w", 60)
			patchW(25)
			add("pause", 8)
			add("up", 8)
		case armed:
			add("up", 60)
			add("w", 20)
			add("pause", 5)
		default:
			patchW(30)
			add("up", 30)
			add("w", 35)
			add("pause", 10)
		}
		if !repSet {
			add("setrep", 15)
		}
		// "sync on B interrupted mid-way": armed mostly while B is down and at least two writes behind
		// (the DAG to fetch is then at least two levels deep), healed after B is back
		switch {
		case armed && up:
			kinds, weights = append([]string{"heal"}, kinds...), append([]int{40}, weights...)
		case !armed && faults < 2 && !up && writesThisOutage >= 2:
			kinds, weights = append([]string{"fault"}, kinds...), append([]int{45}, weights...)
		case !armed && faults < 2 && up && outages > 0:
			add("fault", 6)
		}
		k := pick(t, "kind", kinds, weights)
		op := Op{K: k}
		wasJustUp := justUp
		justUp = false
		switch k {
		case "racew":
			w := drawWrite(t, &c, patched)
			op.F, op.V = w.F, w.V
			if op.F == "del" {
				op.F = "n"
			}
			// mostly the document written during the outage: its retry is the push in flight
			op.Doc = lastOutageDoc
			if rapid.IntRange(0, 3).Draw(t, "otherdoc") == 0 {
				op.Doc = w.Doc
			}
			// the retry of the next document may follow: stay in the "just up" state once more
			justUp = wasJustUp && rapid.Bool().Draw(t, "again")
		case "w":
			w := drawWrite(t, &c, patched)
			op.Doc, op.F, op.V = w.Doc, w.F, w.V
			op.Wait = rapid.IntRange(0, 2).Draw(t, "wait") == 0
			if !up {
				writesThisOutage++
				lastOutageDoc = w.Doc
			}
		case "down", "up":
			if rapid.IntRange(0, 2).Draw(t, "hasburst") == 0 {
				nb := rapid.IntRange(1, 5).Draw(t, "nburst")
				for j := 0; j < nb; j++ {
					op.Burst = append(op.Burst, drawWrite(t, &c, patched))
				}
			}
			up = k == "up"
			if k == "down" {
				outages++
				writesThisOutage = len(op.Burst)
				lastOutageDoc = -1
			}
			for _, bw := range op.Burst {
				if k == "down" || !up {
					lastOutageDoc = bw.Doc
				}
			}
			justUp = k == "up" && lastOutageDoc >= 0
		case "patch":
			patched++
			op.AOnly = allowAOnly && rapid.IntRange(0, 3).Draw(t, "aonly") == 0
		case "settle":
			op.Full = rapid.Bool().Draw(t, "full")
		case "setrep":
			repSet = true
		case "fault":
			op.V = rapid.IntRange(1, 8).Draw(t, "budget")
			armed = true
			faults++
		case "heal":
			armed = false
		case "pause":
			op.Ms = rapid.SampledFrom([]int{50, 400, 2500, 2500, 5000}).Draw(t, "ms")
		}
		c.Ops = append(c.Ops, op)
	}
	if !repSet {
		c.Ops = append(c.Ops, Op{K: "setrep"})
	}
	return c
}

// shape is what can be said about a case without running it.
type shape struct {
	writesDown, writesAfterUp int
	burstOutage               bool
	patchBetween              bool // patch while B down after a write in the same outage
	newVersionWriteDown       bool // write after the patch while B is down
	deleteDown                bool
	outages                   int
	setrepLate, setrepDown    bool
	patched                   int
	patchAOnly                bool
	supersededPending         bool // a write at a patched version while B down, then another patch before B is back
	longOutage                bool // >= 2.5s of pause while B down: the retry loop runs against a dead peer
	faults                    int
	faultTwoBehind            bool // fault armed while B is down and some document got >= 2 writes in this outage
	faultWhileUp              bool
	raceWrites                int // writes timed to land while a push to B is in flight
}

func shapeOf(c Case) shape {
	var s shape
	up, patched, repSeen := true, 0, false
	everDown := false
	patchedWriteThisOutage := false
	writesThisOutage := 0
	writes := 0
	perDoc := map[int]int{}
	countWrite := func(doc int, f string) {
		if !up {
			perDoc[doc%max(1, c.NDocs)]++
		}
		writes++
		if !up {
			s.writesDown++
			writesThisOutage++
			if patched > 0 {
				s.newVersionWriteDown = true
				patchedWriteThisOutage = true
			}
			if f == "del" {
				s.deleteDown = true
			}
		} else if everDown {
			s.writesAfterUp++
		}
	}
	for _, op := range c.Ops {
		switch op.K {
		case "w":
			countWrite(op.Doc, op.F)
		case "racew":
			countWrite(op.Doc, op.F)
			s.raceWrites++
		case "down":
			if up {
				s.outages++
				writesThisOutage = 0
				perDoc = map[int]int{}
				patchedWriteThisOutage = false
				if len(op.Burst) > 0 {
					s.burstOutage = true
				}
				// writes of the burst race with the close: count them as neither
				up = false
				everDown = true
				for _, w := range op.Burst {
					countWrite(w.Doc, w.F)
				}
			}
		case "up":
			if !up {
				if len(op.Burst) > 0 {
					s.burstOutage = true
				}
				for _, w := range op.Burst {
					countWrite(w.Doc, w.F)
				}
				up = true
			}
		case "fault":
			s.faults++
			if up {
				s.faultWhileUp = true
			} else {
				for _, n := range perDoc {
					if n >= 2 {
						s.faultTwoBehind = true
					}
				}
			}
		case "pause":
			if !up && op.Ms >= 2500 && writesThisOutage > 0 {
				s.longOutage = true
			}
		case "patch":
			if patched < 2 {
				patched++
				if !up && writesThisOutage > 0 {
					s.patchBetween = true
				}
				if !up && patchedWriteThisOutage {
					s.supersededPending = true
				}
				if op.AOnly {
					s.patchAOnly = true
				}
			}
		case "setrep":
			if !repSeen && c.Config != "pubsub" {
				repSeen = true
				if writes > 0 {
					s.setrepLate = true
				}
				if !up {
					s.setrepDown = true
				}
			}
		}
	}
	s.patched = patched
	return s
}

func labelsOf(c Case, s shape) []string {
	l := []string{"cfg:" + c.Config}
	if c.Boot {
		l = append(l, "b-bootstraps-a")
	}
	if c.Branchable {
		l = append(l, "branchable")
	}
	if c.APubSubOff {
		l = append(l, "a-pubsub-disabled")
	}
	if s.writesDown > 0 {
		l = append(l, "writes-while-b-down")
	}
	if s.writesAfterUp > 0 {
		l = append(l, "writes-after-b-back")
	}
	if s.burstOutage {
		l = append(l, "outage-during-burst")
	}
	if s.patchBetween {
		l = append(l, "patch-between-failure-and-retry")
	}
	if s.newVersionWriteDown {
		l = append(l, "write-at-new-version-while-down")
	}
	if s.deleteDown {
		l = append(l, "delete-while-down")
	}
	if s.outages > 1 {
		l = append(l, "multiple-outages")
	}
	if s.outages == 0 {
		l = append(l, "no-outage")
	}
	if s.setrepLate {
		l = append(l, "setrep-after-writes")
	}
	if s.setrepDown {
		l = append(l, "setrep-while-b-down")
	}
	if s.patched > 0 {
		l = append(l, "schema-patched")
	}
	if s.patched > 1 {
		l = append(l, "schema-patched-twice")
	}
	if s.patchAOnly {
		l = append(l, "patch-on-a-only")
	}
	if s.supersededPending {
		l = append(l, "pending-retry-at-superseded-version")
	}
	if s.patched <= 1 && !s.patchAOnly && !c.Branchable && !c.APubSubOff {
		l = append(l, "known-triggers-absent")
	}
	if s.faults > 0 {
		l = append(l, "sync-fault-armed")
	}
	if s.faultTwoBehind {
		l = append(l, "sync-fault-with-b-two-commits-behind")
	}
	if s.faultWhileUp {
		l = append(l, "sync-fault-armed-while-b-up")
	}
	if s.raceWrites > 0 {
		l = append(l, "write-timed-into-a-push-in-flight")
	}
	if s.longOutage {
		l = append(l, "retry-attempted-while-b-still-down")
	}
	return l
}

func evalCase(t hx.TB, c Case) bool {
	if os.Getenv("C15_DRY") != "" {
		// generator tuning: label statistics without running anything
		fmt.Println("DRY", labelsOf(c, shapeOf(c)), len(c.Ops))
		return false
	}
	var info runInfo
	f := hx.Guard("C15", func() *hx.Failure { return run(c, &info) })
	s := shapeOf(c)
	labels := append(labelsOf(c, s), info.labels()...)
	if os.Getenv("C15_TRACE") != "" {
		raw, _ := json.Marshal(c)
		fmt.Printf("CASE %s\nlabels %v\nfailure %v\n%s\n", raw, labels, f, info.trace)
	}
	if f != nil && os.Getenv("C15_COUNT_ONLY") != "" {
		// development aid: count failing cases per signature instead of stopping at the first
		labels = append(labels, "FAILED:"+f.Sig)
		f = nil
	}
	rec.Eval(c, s.writesDown > 0 && s.writesAfterUp > 0, labels...)
	return rec.Check(t, c, f)
}

func TestC15(t *testing.T) {
	rapid.Check(t, func(t *rapid.T) {
		c := drawCase(t)
		if evalCase(t, c) {
			return
		}
	})
}

func TestReplay(t *testing.T) {
	raw := hx.ReplayCase(t)
	rec.SetReplaying()
	var c Case
	if err := json.Unmarshal(raw, &c); err != nil {
		t.Fatalf("replay case: %v", err)
	}
	var info runInfo
	f := hx.Guard("C15", func() *hx.Failure { return run(c, &info) })
	if f != nil {
		fmt.Println(f.Error())
	}
	fmt.Println("labels:", info.labels())
	rec.Check(t, c, f)
}

func TestRegress(t *testing.T) {
	hx.Regress(t, "testdata/regress", func(raw []byte) *hx.Failure {
		var c Case
		if err := json.Unmarshal(raw, &c); err != nil {
			hx.Harnessf("regress case: %v", err)
		}
		var info runInfo
		return hx.Guard("C15", func() *hx.Failure { return run(c, &info) })
	}, rec)
}

func TestMain(m *testing.M) { hx.Main(m) }
