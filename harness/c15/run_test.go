package c15

import (
	"crypto/ed25519"
	"crypto/rand"
	"fmt"
	"io"
	"os"
	"regexp"
	"runtime"
	"sort"
	"strings"
	"sync"
	"time"

	"github.com/fxamacker/cbor/v2"
	"github.com/ipfs/go-cid"
	"github.com/libp2p/go-libp2p/core/peer"
	"github.com/sourcenetwork/corekv"
	"github.com/sourcenetwork/corelog"
	"github.com/sourcenetwork/immutable"
	"github.com/sourcenetwork/lens/host-go/config/model"

	"github.com/sourcenetwork/defradb/event"
	"github.com/sourcenetwork/defradb/internal/core"
	coreblock "github.com/sourcenetwork/defradb/internal/core/block"
	"github.com/sourcenetwork/defradb/internal/datastore"
	"github.com/sourcenetwork/defradb/internal/keys"
	"github.com/sourcenetwork/defradb/net"
	netConfig "github.com/sourcenetwork/defradb/net/config"
	"github.com/sourcenetwork/defradb/node"
	"github.com/sourcenetwork/defradb/verifharness/hx"
)

// Timing constants. None of them is a correctness signal on its own: a
// violation needs a state that did not move over quietWindow, then a canary
// round trip through the same push path, then a further re-read.
// Pseudo slots: the canary document (collection Probe) and, for branchable collections, the
// collection-level commit DAG of Users (DocID "" in update events, retry records and merges).
const (
	canarySlot = -1
	colSlot    = -100
)

const (
	pushTimeout    = 2 * time.Second
	pollEvery      = 100 * time.Millisecond
	quietWindow    = pushTimeout + 5*time.Second // suspicious state must be frozen this long
	rereadDelay    = pushTimeout + 2*time.Second // after the canary arrived
	eventualBudget = 90 * time.Second            // bounded eventuality deadline
	stallWindow    = 30 * time.Second            // retry record frozen this long with B up = no attempts are made
	canaryBudget   = 25 * time.Second
	waitWriteMax   = 20 * time.Second // paced write: stop waiting (not an oracle)
	maxTickLate    = 1 * time.Second  // a poll that late means the machine stalled: windows restart
	flapBudget     = 150 * time.Second
	// ineffectiveRounds retry rounds without any change to what is pending (plus canary, plus 2 rounds)
	ineffectiveRounds = 5
)

const sigPubSubOff = "C15/obligation-lost/replicator-never-pushes-when-pubsub-disabled"

const sigCollectionRetry = "C15/retry-ineffective/collection-level-commit-record-has-no-doc-id"

func init() {
	net.PushTimeout = pushTimeout
	if os.Getenv("C15_LOG") == "" {
		// Push failures against a closed peer are logged at error level, hundreds of lines per
		// case, and corelog has no level above error. It resolves os.Stderr at every record, so
		// pointing the variable at /dev/null silences it (the runtime and the test framework do
		// not use the variable). C15_LOG=1 keeps the log (info level) for diagnosis.
		// The records go to a scratch file; a failure message quotes the error lines of its case.
		dir := os.Getenv("VERIF_SCRATCH")
		if dir == "" {
			dir = os.TempDir()
		}
		if f, err := os.CreateTemp(dir, "c15-log-*.txt"); err == nil {
			_ = os.Remove(f.Name()) // stays readable through the handle
			os.Stderr = f
			logFile = f
		} else if f, err := os.OpenFile(os.DevNull, os.O_WRONLY, 0); err == nil {
			os.Stderr = f
		}
	} else {
		corelog.SetConfig(corelog.Config{Level: "info", Output: "stderr", Format: "text"})
	}
}

var logFile *os.File

// logMark returns the current end of the captured log.
func logMark() int64 {
	if logFile == nil {
		return 0
	}
	st, err := logFile.Stat()
	if err != nil {
		return 0
	}
	return st.Size()
}

var ansiRe = regexp.MustCompile("\\x1b\\[[0-9;]*m")

// logSince summarises the error records written since mark: push failures are only counted,
// everything else is quoted (first 25 distinct lines, shortened).
func logSince(mark int64) string {
	if logFile == nil {
		return ""
	}
	end := logMark()
	if end <= mark {
		return "error log of this case: empty\n"
	}
	n := end - mark
	if n > 4<<20 {
		mark, n = end-(4<<20), 4<<20
	}
	buf := make([]byte, n)
	if _, err := logFile.ReadAt(buf, mark); err != nil && err != io.EOF {
		return ""
	}
	pushFail, retryFail := 0, 0
	seen := map[string]int{}
	order := []string{}
	for _, line := range strings.Split(string(buf), "\n") {
		line = ansiRe.ReplaceAllString(strings.TrimSpace(line), "")
		switch {
		case line == "":
		case strings.Contains(line, "Failed pushing log"):
			pushFail++
		case strings.Contains(line, "Failed to retry doc"):
			retryFail++
		default:
			if i := strings.Index(line, " ERR "); i >= 0 {
				line = line[i+1:]
			}
			if len(line) > 420 {
				line = line[:420] + "…"
			}
			if seen[line] == 0 {
				order = append(order, line)
			}
			seen[line]++
		}
	}
	var sb strings.Builder
	fmt.Fprintf(&sb, "error log of this case: %d x 'Failed pushing log', %d x 'Failed to retry doc'", pushFail, retryFail)
	for i, l := range order {
		if i == 25 {
			fmt.Fprintf(&sb, "\n  … %d more distinct lines", len(order)-25)
			break
		}
		fmt.Fprintf(&sb, "\n  [%dx] %s", seen[l], l)
	}
	sb.WriteString("\n")
	return sb.String()
}

// stuckGoroutines lists the goroutines that are inside defradb's net, event or db packages
// (where does a push hang?), for the message of an inconclusive run.
func stuckGoroutines() string {
	buf := make([]byte, 8<<20)
	buf = buf[:runtime.Stack(buf, true)]
	var sb strings.Builder
	sb.WriteString("goroutines inside defradb net/event/db:\n")
	n := 0
	for _, g := range strings.Split(string(buf), "\n\n") {
		if !strings.Contains(g, "defradb/net.") && !strings.Contains(g, "defradb/event.") && !strings.Contains(g, "internal/db.") {
			continue
		}
		if strings.Contains(g, "verifharness/c15.stuckGoroutines") {
			continue
		}
		lines := strings.Split(g, "\n")
		if len(lines) > 17 {
			lines = lines[:17]
		}
		sb.WriteString(strings.Join(lines, "\n"))
		sb.WriteString("\n\n")
		n++
		if n >= 40 {
			break
		}
	}
	return sb.String()
}

var retryIntervals = []time.Duration{50 * time.Millisecond, 100 * time.Millisecond, 200 * time.Millisecond}

// ---------------------------------------------------------------- trace

type trace struct {
	mu    sync.Mutex
	t0    time.Time
	lines []string
	mark  int64 // start of this case in the captured error log
}

func (tr *trace) f(format string, args ...any) {
	tr.mu.Lock()
	defer tr.mu.Unlock()
	tr.lines = append(tr.lines, fmt.Sprintf("%7.2fs ", time.Since(tr.t0).Seconds())+fmt.Sprintf(format, args...))
}

func (tr *trace) String() string {
	tr.mu.Lock()
	defer tr.mu.Unlock()
	l := tr.lines
	if len(l) > 120 {
		l = append(append([]string{}, l[:40]...), append([]string{"..."}, l[len(l)-80:]...)...)
	}
	return strings.Join(l, "\n") + "\n" + logSince(tr.mark)
}

// ---------------------------------------------------------------- run info (dynamic labels)

type runInfo struct {
	mu    sync.Mutex
	l     map[string]bool
	trace *trace
}

func (r *runInfo) set(s string) {
	r.mu.Lock()
	defer r.mu.Unlock()
	if r.l == nil {
		r.l = map[string]bool{}
	}
	r.l[s] = true
}

func (r *runInfo) labels() []string {
	r.mu.Lock()
	defer r.mu.Unlock()
	out := []string{}
	for k := range r.l {
		out = append(out, k)
	}
	sort.Strings(out)
	return out
}

// ---------------------------------------------------------------- peers

type pnode struct {
	*hx.Node
	name    string
	key     []byte
	info    peer.AddrInfo
	addr    string // listen multiaddr with the concrete port
	up      bool
	netOpts []netConfig.NodeOpt
	fault   *blockFaultStore // B only
}

func newKey() []byte {
	_, priv, err := ed25519.GenerateKey(rand.Reader)
	if err != nil {
		hx.Harnessf("ed25519 key: %v", err)
	}
	return priv
}

func bootPeerNode(name string, pubsub bool, withFault bool, bootstrap ...string) *pnode {
	p := &pnode{name: name, key: newKey()}
	p.netOpts = []netConfig.NodeOpt{
		netConfig.WithEnableRelay(false),
		netConfig.WithEnablePubSub(pubsub),
		netConfig.WithPrivateKey(p.key),
		netConfig.WithRetryInterval(retryIntervals),
	}
	if len(bootstrap) > 0 {
		p.netOpts = append(p.netOpts, netConfig.WithBootstrapPeers(bootstrap...))
	}
	opts := []node.Option{
		node.WithBadgerInMemory(true),
		node.WithDisableAPI(true),
		node.WithDisableP2P(false),
		netConfig.WithListenAddresses("/ip4/127.0.0.1/tcp/0"),
	}
	for _, o := range p.netOpts {
		opts = append(opts, o)
	}
	var n *hx.Node
	if withFault {
		// The receiver runs on a root store whose block writes can be made to fail (blockFaultStore);
		// database and peer are wired as node.Start does it.
		inner, err := hx.NewFaultMemStore()
		if err != nil {
			hx.Harnessf("cannot open badger in-memory: %v", err)
		}
		p.fault = &blockFaultStore{TxnStore: inner}
		n, err = hx.NewFaultNodeOn(p.fault)
		if err != nil {
			_ = inner.Close()
			hx.Harnessf("cannot boot database of %s: %v", name, err)
		}
		popts := append([]netConfig.NodeOpt{netConfig.WithListenAddresses("/ip4/127.0.0.1/tcp/0")}, p.netOpts...)
		np, err := net.NewPeer(n.Ctx, n.DB.Events(), n.DB.DocumentACP(), n.DB, popts...)
		if err != nil {
			n.Close()
			hx.Harnessf("cannot start peer of %s: %v", name, err)
		}
		n.N.Peer = np
	} else {
		var err error
		n, err = hx.NewNode(opts...)
		if err != nil {
			hx.Harnessf("cannot boot peer node %s: %v", name, err)
		}
	}
	p.Node = n
	p.info = n.N.Peer.PeerInfo()
	for _, a := range p.info.Addrs {
		s := a.String()
		if strings.HasPrefix(s, "/ip4/127.0.0.1/tcp/") {
			p.addr = s
		}
	}
	if p.addr == "" {
		n.Close()
		hx.Harnessf("peer node %s has no loopback tcp listen address: %v", name, p.info.Addrs)
	}
	p.up = true
	return p
}

func (p *pnode) p2pAddr() string { return p.addr + "/p2p/" + p.info.ID.String() }

// closePeer stops the peer only; the database keeps running.
func (p *pnode) closePeer() {
	if !p.up {
		return
	}
	p.N.Peer.Close()
	p.N.Peer = nil
	p.up = false
}

// openPeer starts a new peer on the same key, port and database - what node.startP2P does.
func (p *pnode) openPeer() {
	if p.up {
		return
	}
	opts := append([]netConfig.NodeOpt{netConfig.WithListenAddresses(p.addr)}, p.netOpts...)
	var lastErr error
	for i := 0; i < 40; i++ {
		np, err := net.NewPeer(p.Ctx, p.DB.Events(), p.DB.DocumentACP(), p.DB, opts...)
		if err == nil {
			got := np.PeerInfo()
			if got.ID != p.info.ID {
				np.Close()
				hx.Harnessf("reopened peer has id %s, want %s", got.ID, p.info.ID)
			}
			p.N.Peer = np
			p.up = true
			return
		}
		lastErr = err
		time.Sleep(250 * time.Millisecond)
	}
	hx.Harnessf("cannot reopen peer %s on %s: %v", p.name, p.addr, lastErr)
}

func (p *pnode) shutdown() {
	if p == nil || p.Node == nil {
		return
	}
	p.Node.Close()
}

// ---------------------------------------------------------------- B's merge tap

type mergeSeen struct {
	Cid          string
	CollectionID string
	Done         bool
}

type mergeTap struct {
	sub event.Subscription
	bus event.Bus
	mu  sync.Mutex
	// per docID ("" = collection-level), in arrival order
	seen map[string][]*mergeSeen
}

func newMergeTap(n *hx.Node) *mergeTap {
	sub, err := n.DB.Events().Subscribe(event.MergeName, event.MergeCompleteName)
	if err != nil {
		hx.Harnessf("subscribe: %v", err)
	}
	t := &mergeTap{sub: sub, bus: n.DB.Events(), seen: map[string][]*mergeSeen{}}
	go func() {
		for m := range sub.Message() {
			switch d := m.Data.(type) {
			case event.Merge:
				t.mu.Lock()
				t.seen[d.DocID] = append(t.seen[d.DocID], &mergeSeen{Cid: d.Cid.String(), CollectionID: d.CollectionID})
				t.mu.Unlock()
			case event.MergeComplete:
				t.mu.Lock()
				for _, s := range t.seen[d.Merge.DocID] {
					if s.Cid == d.Merge.Cid.String() && s.CollectionID == d.Merge.CollectionID {
						s.Done = true
					}
				}
				t.mu.Unlock()
			}
		}
	}()
	return t
}

func (t *mergeTap) close() { t.bus.Unsubscribe(t.sub) }

// forCid returns the merge requests B received for the given document and cid.
func (t *mergeTap) forCid(docID, cid string) []mergeSeen {
	t.mu.Lock()
	defer t.mu.Unlock()
	var out []mergeSeen
	for _, s := range t.seen[docID] {
		if s.Cid == cid {
			out = append(out, *s)
		}
	}
	return out
}

// pubSubTap records when A's pubsub layer last reported a join/leave of a peer (event.PubSub).
type pubSubTap struct {
	sub  event.Subscription
	bus  event.Bus
	mu   sync.Mutex
	last map[peer.ID]time.Time
}

func newPubSubTap(n *hx.Node) *pubSubTap {
	sub, err := n.DB.Events().Subscribe(event.PubSubName)
	if err != nil {
		hx.Harnessf("subscribe: %v", err)
	}
	t := &pubSubTap{sub: sub, bus: n.DB.Events(), last: map[peer.ID]time.Time{}}
	go func() {
		for m := range sub.Message() {
			if d, ok := m.Data.(event.PubSub); ok {
				t.mu.Lock()
				t.last[d.Peer] = time.Now()
				t.mu.Unlock()
			}
		}
	}()
	return t
}

func (t *pubSubTap) close() { t.bus.Unsubscribe(t.sub) }

// waitSince waits until an event about the peer arrived after t0 (at most max).
func (t *pubSubTap) waitSince(id peer.ID, t0 time.Time, max time.Duration) bool {
	for time.Since(t0) < max {
		t.mu.Lock()
		seen := t.last[id].After(t0)
		t.mu.Unlock()
		if seen {
			return true
		}
		time.Sleep(20 * time.Millisecond)
	}
	return false
}

// ---------------------------------------------------------------- model

type mdoc struct {
	slot    int
	id      string
	name    string
	n       int
	c       int
	cSet    bool
	e       *string
	g       *string
	deleted bool
	// exempt: deleted on A before the replicator was configured. SetReplicator pushes the heads
	// of the documents GetAllDocIDs lists, which leaves deleted ones out; the property's
	// obligation starts with the replicator, so such a document is not required on B.
	exempt bool
}

type world struct {
	c                  Case
	tr                 *trace
	info               *runInfo
	a, b               *pnode
	atap               *hx.EventTap
	btap               *mergeTap
	aps                *pubSubTap
	faultArmed         bool
	docs               map[int]*mdoc // by slot; slot -1 is the canary
	order              []int
	aPatches, bPatches int
	// unevenPatch: some patch was applied to A only; B may have merged commits whose new field it did not know
	unevenPatch bool
	repSet      bool
	root        string // collection id (schema root)
	seq         int
	retryMu     sync.Mutex
	retrySeen   map[string]bool
	// bView is the main goroutine's view of B's peer for the trace: up, down or changing
	bView string
}

var patchFields = []string{"e", "g"}

func patchJSON(field string) string {
	return `[{ "op": "add", "path": "/Users/Fields/-", "value": {"Name": "` + field + `", "Kind": 11} }]`
}

func (w *world) sdl() string {
	br := ""
	if w.c.Branchable {
		br = " @branchable"
	}
	// Probe holds the canary document: replicated by the same replicator over the same
	// connection, but outside the collection under test (a canary write must not repair it).
	return "type Users" + br + " { name: String  n: Int  c: Int @crdt(type: pncounter) }\ntype Probe { n: Int }"
}

func (w *world) mustExec(n *pnode, q string) hx.Result {
	r := n.Exec(q)
	if !r.OK() {
		hx.Harnessf("request on %s failed: %s\n  errors: %s\n  panic: %s\n%s", n.name, q, r.Err(), r.Panic, w.tr)
	}
	return r
}

// write performs one write on A and updates the model. It returns the slot written or -2 when skipped.
func (w *world) write(wr Write) int {
	slot := wr.Doc % w.c.NDocs
	d := w.docs[slot]
	if col := w.docs[colSlot]; col != nil && w.repSet && (d == nil || !d.deleted) {
		col.exempt = false // this write adds a collection-level commit under the replicator
	}
	if d == nil {
		name := fmt.Sprintf("d%d", slot)
		r := w.mustExec(w.a, fmt.Sprintf(`mutation { create_Users(input: {name: %q, n: %d}) { _docID } }`, name, wr.V))
		rows := r.Rows("create_Users")
		if len(rows) != 1 {
			hx.Harnessf("create returned %v", r.Data)
		}
		d = &mdoc{slot: slot, id: rows[0]["_docID"].(string), name: name, n: wr.V}
		w.docs[slot] = d
		w.order = append(w.order, slot)
		w.tr.f("A create slot %d %s n=%d (B %s)", slot, d.id, wr.V, w.bView)
		return slot
	}
	if d.deleted {
		return -2
	}
	f := wr.F
	if (f == "e" && w.aPatches < 1) || (f == "g" && w.aPatches < 2) {
		f = "n"
	}
	switch f {
	case "n":
		w.mustExec(w.a, fmt.Sprintf(`mutation { update_Users(docID: %q, input: {n: %d}) { _docID } }`, d.id, wr.V))
		d.n = wr.V
	case "c":
		w.mustExec(w.a, fmt.Sprintf(`mutation { update_Users(docID: %q, input: {c: %d}) { _docID } }`, d.id, wr.V))
		d.c += wr.V
		d.cSet = true
	case "e":
		s := fmt.Sprintf("e%d", wr.V)
		w.mustExec(w.a, fmt.Sprintf(`mutation { update_Users(docID: %q, input: {e: %q}) { _docID } }`, d.id, s))
		d.e = &s
	case "g":
		s := fmt.Sprintf("g%d", wr.V)
		w.mustExec(w.a, fmt.Sprintf(`mutation { update_Users(docID: %q, input: {g: %q}) { _docID } }`, d.id, s))
		d.g = &s
	case "del":
		w.mustExec(w.a, fmt.Sprintf(`mutation { delete_Users(docID: %q) { _docID } }`, d.id))
		d.deleted = true
	default:
		hx.Harnessf("unknown field %q", wr.F)
	}
	w.tr.f("A write slot %d %s=%d (B %s)", slot, f, wr.V, w.bView)
	return slot
}

func heads(n *hx.Node, docID string) []string {
	var key keys.HeadstoreKey = keys.HeadstoreDocKey{DocID: docID, FieldID: core.COMPOSITE_NAMESPACE}
	if docID == "" {
		// collection-level heads; Users is the only branchable collection of the node
		key = keys.NewHeadstoreColKey(0)
	}
	hs := coreblock.NewHeadSet(datastore.HeadstoreFrom(n.DB.Rootstore()), key)
	cids, _, err := hs.List(n.Ctx)
	if err != nil {
		hx.Harnessf("heads of %s: %v", docID, err)
	}
	out := make([]string, len(cids))
	for i, c := range cids {
		out[i] = c.String()
	}
	sort.Strings(out)
	return out
}

type retryInfo struct {
	NextRetry  time.Time
	NumRetries int
	Retrying   bool
}

// snap is what the oracle polls: heads per document on both nodes and A's retry bookkeeping.
type snap struct {
	a, b      map[int][]string
	retryDocs map[string]bool // docID -> retry-doc record exists for B
	retryID   *retryInfo
	otherKeys []string
}

func (w *world) snapshot() snap {
	s := snap{a: map[int][]string{}, b: map[int][]string{}, retryDocs: map[string]bool{}}
	for slot, d := range w.docs {
		s.a[slot] = heads(w.a.Node, d.id)
		s.b[slot] = heads(w.b.Node, d.id)
	}
	ps := datastore.PeerstoreFrom(w.a.DB.Rootstore())
	it, err := ps.Iterator(w.a.Ctx, corekv.IterOptions{Prefix: []byte("/rep/retry")})
	if err != nil {
		hx.Harnessf("peerstore iterator: %v", err)
	}
	defer it.Close()
	bid := w.b.info.ID.String()
	for {
		ok, err := it.Next()
		if err != nil {
			hx.Harnessf("peerstore next: %v", err)
		}
		if !ok {
			break
		}
		k := string(it.Key())
		switch {
		case strings.HasPrefix(k, keys.REPLICATOR_RETRY_DOC+"/"+bid):
			rest := strings.TrimPrefix(strings.TrimPrefix(k, keys.REPLICATOR_RETRY_DOC+"/"+bid), "/")
			s.retryDocs[rest] = true
		case k == keys.REPLICATOR_RETRY_ID+"/"+bid:
			v, err := it.Value()
			if err != nil {
				hx.Harnessf("peerstore value: %v", err)
			}
			ri := retryInfo{}
			if err := cbor.Unmarshal(v, &ri); err != nil {
				s.otherKeys = append(s.otherKeys, k+"=<undecodable>")
			} else {
				s.retryID = &ri
			}
		default:
			s.otherKeys = append(s.otherKeys, k)
		}
	}
	return s
}

func eq(a, b []string) bool {
	if len(a) != len(b) {
		return false
	}
	for i := range a {
		if a[i] != b[i] {
			return false
		}
	}
	return true
}

// fingerprint renders everything the stability argument depends on.
func (s snap) fingerprint() string {
	var sb strings.Builder
	slots := []int{}
	for k := range s.a {
		slots = append(slots, k)
	}
	sort.Ints(slots)
	for _, k := range slots {
		fmt.Fprintf(&sb, "%d:%v|%v;", k, s.a[k], s.b[k])
	}
	rd := []string{}
	for k := range s.retryDocs {
		rd = append(rd, k)
	}
	sort.Strings(rd)
	fmt.Fprintf(&sb, "retry=%v;", rd)
	if s.retryID != nil {
		fmt.Fprintf(&sb, "rid=%d/%v/%d", s.retryID.NumRetries, s.retryID.Retrying, s.retryID.NextRetry.UnixNano())
	}
	return sb.String()
}

func (s snap) describe(w *world) string {
	var sb strings.Builder
	for _, slot := range w.slots() {
		d := w.docs[slot]
		st := "synced"
		if !eq(s.a[slot], s.b[slot]) {
			st = "BEHIND"
		}
		fmt.Fprintf(&sb, "  slot %d %s: %s retryRecord=%v A=%v B=%v\n", slot, d.id, st, s.retryDocs[d.id], short(s.a[slot]), short(s.b[slot]))
	}
	if s.retryID != nil {
		fmt.Fprintf(&sb, "  retry-id record: NumRetries=%d Retrying=%v NextRetry in %v\n", s.retryID.NumRetries, s.retryID.Retrying, time.Until(s.retryID.NextRetry).Round(time.Millisecond))
	} else {
		fmt.Fprintf(&sb, "  no retry-id record\n")
	}
	rd := []string{}
	for k := range s.retryDocs {
		rd = append(rd, k)
	}
	sort.Strings(rd)
	fmt.Fprintf(&sb, "  retry-doc records: %v other: %v\n", rd, s.otherKeys)
	return sb.String()
}

func short(cids []string) []string {
	out := make([]string, len(cids))
	for i, c := range cids {
		if len(c) > 10 {
			c = c[len(c)-10:]
		}
		out[i] = c
	}
	return out
}

func (w *world) slots() []int {
	out := []int{}
	for k := range w.docs {
		out = append(out, k)
	}
	sort.Ints(out)
	return out
}

// behind lists the slots for which B lacks A's heads, split by whether a retry record exists.
func (w *world) behind(s snap) (pending, orphan []int) {
	for _, slot := range w.slots() {
		if eq(s.a[slot], s.b[slot]) || w.docs[slot].exempt {
			continue
		}
		if s.retryDocs[w.docs[slot].id] {
			pending = append(pending, slot)
		} else {
			orphan = append(orphan, slot)
		}
	}
	return
}

// sleepTick sleeps one poll interval and reports whether the machine stalled meanwhile.
func sleepTick() (stalled bool) {
	t := time.Now()
	time.Sleep(pollEvery)
	return time.Since(t) > pollEvery+maxTickLate
}

// ---------------------------------------------------------------- oracle part 1+2 (replicator configurations)

// converge is the checkpoint of replicator configurations, called with B up.
// full=false: return as soon as every document is classified (synced or retry
// record pending). full=true: wait until B has everything.
//
// Violations are only stable states:
//   - obligation-lost: a document for which B is behind and no retry record
//     exists, frozen over quietWindow, still frozen after a canary write pushed
//     through the same path has reached B and a further delay;
//   - retry-stalled: retry records exist but the retry bookkeeping is frozen
//     for stallWindow with B up and the canary delivered (no attempt is made).
//
// A deadline miss with attempts still going on is inconclusive.
func (w *world) converge(full bool, where string) *hx.Failure {
	if !w.b.up {
		return nil
	}
	if !w.repSet {
		return nil
	}
	start := time.Now()
	var last string
	lastChange := time.Now()
	// retry-ineffective bookkeeping: the same documents pending with the same heads while the
	// retry round counter advances
	var lastOrphan string
	orphanSince := time.Now()
	var lastPend string
	pendSince := time.Now()
	pendRounds0 := 0
	for {
		s := w.snapshot()
		fp := s.fingerprint()
		if fp != last {
			last = fp
			lastChange = time.Now()
		}
		pending, orphan := w.behind(s)
		if len(orphan) == 0 && (len(pending) == 0 || !full) {
			if len(pending) > 0 {
				w.info.set("checkpoint-with-retry-pending")
			}
			return nil
		}
		frozen := time.Since(lastChange)
		// The orphan rule looks only at the orphans (their heads on both nodes and the absence of
		// their retry records): retry rounds spinning for another document must not mask them.
		if ok := s.orphanKey(orphan); ok != lastOrphan {
			lastOrphan, orphanSince = ok, time.Now()
		}
		if len(orphan) > 0 && time.Since(orphanSince) >= quietWindow {
			if f := w.confirmOrphan(s, orphan, where); f != nil {
				return f
			}
			// moved after all: start over
			last, lastChange = "", time.Now()
			lastOrphan, orphanSince = "", time.Now()
			continue
		}
		if len(orphan) == 0 && len(pending) > 0 && frozen >= stallWindow {
			if f := w.confirmStalled(s, pending, where); f != nil {
				return f
			}
			last, lastChange = "", time.Now()
			continue
		}
		if len(orphan) == 0 && len(pending) > 0 {
			pk := s.pendingKey(w, pending)
			rounds := 0
			if s.retryID != nil {
				rounds = s.retryID.NumRetries
			}
			if pk != lastPend || rounds < pendRounds0 {
				lastPend, pendSince, pendRounds0 = pk, time.Now(), rounds
			}
			if rounds-pendRounds0 >= ineffectiveRounds && time.Since(pendSince) >= quietWindow {
				if f := w.confirmIneffective(s, pending, pk, rounds-pendRounds0, where); f != nil {
					return f
				}
				lastPend = ""
			}
		} else {
			lastPend = ""
		}
		if time.Since(start) > eventualBudget && len(orphan) == 0 {
			hx.Harnessf("C15 inconclusive at %s: B still lacks documents after %v while retry records exist and the bookkeeping keeps changing (last change %v ago)\n%s%s\n%s",
				where, eventualBudget, frozen.Round(time.Millisecond), s.describe(w), w.tr, stuckGoroutines())
		}
		if time.Since(start) > flapBudget {
			hx.Harnessf("C15 inconclusive at %s: state keeps changing without converging for %v\n%s%s", where, flapBudget, s.describe(w), w.tr)
		}
		if sleepTick() {
			lastChange = time.Now()
			lastPend = ""
			lastOrphan = ""
		}
	}
}

// orphanKey renders what must stay the same for the orphan rule.
func (s snap) orphanKey(orphan []int) string {
	var sb strings.Builder
	for _, slot := range orphan {
		fmt.Fprintf(&sb, "%d:%v|%v;", slot, s.a[slot], s.b[slot])
	}
	return sb.String()
}

// pendingKey renders what must stay the same for "the retry rounds achieve nothing".
func (s snap) pendingKey(w *world, pending []int) string {
	var sb strings.Builder
	for _, slot := range pending {
		fmt.Fprintf(&sb, "%d:%v|%v;", slot, s.a[slot], s.b[slot])
	}
	rd := []string{}
	for k := range s.retryDocs {
		rd = append(rd, k)
	}
	sort.Strings(rd)
	fmt.Fprintf(&sb, "%q", rd)
	return sb.String()
}

// confirmIneffective: retry records exist, B is behind for them, and the retry round counter has
// advanced ineffectiveRounds times without any change to what is pending. A canary update then has
// to reach B (the push path works), two more rounds have to pass, and the pending set must still
// be the same: the retry mechanism runs but cannot deliver. Without the canary the run is inconclusive.
func (w *world) confirmIneffective(s0 snap, pending []int, pk string, rounds int, where string) *hx.Failure {
	w.tr.f("%s: slots %v pending unchanged over %d retry rounds; sending canary", where, pending, rounds)
	if !w.canary() {
		// the link is bad right now: nothing can be concluded about the retries; keep waiting, the
		// overall budgets decide between convergence and an inconclusive run
		w.tr.f("%s: canary did not reach B: cannot tell a dead link from an ineffective retry; waiting on", where)
		return nil
	}
	base := -1
	t0 := time.Now()
	var s1 snap
	for {
		s1 = w.snapshot()
		p1, o1 := w.behind(s1)
		if len(o1) > 0 || s1.pendingKey(w, p1) != pk {
			w.tr.f("%s: state moved during confirmation", where)
			return nil
		}
		if s1.retryID == nil {
			return nil // handled as retry-stalled by the caller's loop
		}
		if base < 0 || s1.retryID.NumRetries < base {
			base = s1.retryID.NumRetries
		}
		if s1.retryID.NumRetries-base >= 2 {
			break
		}
		if time.Since(t0) > stallWindow {
			return nil // no more rounds: the stalled rule decides
		}
		time.Sleep(pollEvery)
	}
	sig, why := "C15/retry-ineffective", ""
	onlyCol := len(pending) == 1 && pending[0] == colSlot
	onlyEmptyRecord := len(s1.retryDocs) == 1 && s1.retryDocs[""]
	if w.c.Branchable && onlyCol && onlyEmptyRecord {
		// Fully explained: the only thing B lacks is the collection-level commit DAG, and the only
		// retry record left is the one written for the collection-level update event, whose DocID is
		// empty: its key "/rep/retry/doc/<peer>" has no document part.
		sig = sigCollectionRetry
		why = "the collection is branchable; the record left over is the one for the collection-level commit (empty DocID), key " +
			keys.REPLICATOR_RETRY_DOC + "/" + w.b.info.ID.String() + "\n"
	}
	return hx.Failf(sig,
		"%s: B's peer is up and reachable (a canary update written on A reached B), A holds retry records and ran %d+2 retry rounds, "+
			"but what is pending did not change: slots %v stay behind and their retry records stay. The retry loop spins without delivering.\n%sstate:\n%strace:\n%s",
		where, rounds, pending, why, s1.describe(w), w.tr)
}

// canary writes to the canary document on A and waits until B has that head:
// the update event passes A's peer loop after every earlier update event, and
// the push uses the same connection as every other push to B.
func (w *world) canary() (arrived bool) {
	d := w.docs[canarySlot]
	w.seq++
	w.mustExec(w.a, fmt.Sprintf(`mutation { update_Probe(docID: %q, input: {n: %d}) { _docID } }`, d.id, 1000+w.seq))
	d.n = 1000 + w.seq
	w.tr.f("canary write n=%d", d.n)
	t0 := time.Now()
	for time.Since(t0) < canaryBudget {
		if eq(heads(w.a.Node, d.id), heads(w.b.Node, d.id)) {
			w.tr.f("canary arrived after %v", time.Since(t0).Round(time.Millisecond))
			return true
		}
		if time.Since(t0) > pushTimeout+time.Second {
			// its push failed and was recorded: A processed the event, nothing more to learn by waiting
			key := keys.NewReplicatorRetryDocIDKey(w.b.info.ID.String(), d.id)
			if has, err := datastore.PeerstoreFrom(w.a.DB.Rootstore()).Has(w.a.Ctx, key.Bytes()); err == nil && has {
				w.tr.f("canary push failed and was recorded for retry after %v", time.Since(t0).Round(time.Millisecond))
				return false
			}
		}
		time.Sleep(pollEvery)
	}
	w.tr.f("canary did NOT arrive within %v", canaryBudget)
	return false
}

func (w *world) confirmOrphan(s0 snap, orphan []int, where string) *hx.Failure {
	w.tr.f("%s: suspicious state frozen for %v: slots %v behind without retry record; sending canary", where, quietWindow, orphan)
	arrived := w.canary()
	time.Sleep(rereadDelay)
	s1 := w.snapshot()
	_, orphan1 := w.behind(s1)
	still := []int{}
	for _, slot := range orphan {
		if slot == canarySlot {
			continue
		}
		for _, o := range orphan1 {
			if o == slot && eq(s0.a[slot], s1.a[slot]) && eq(s0.b[slot], s1.b[slot]) {
				still = append(still, slot)
			}
		}
	}
	if len(still) == 0 {
		// only the canary itself was orphaned, or things moved
		onlyCanary := len(orphan) == 1 && orphan[0] == canarySlot
		if onlyCanary {
			for _, o := range orphan1 {
				if o == canarySlot {
					still = append(still, canarySlot)
				}
			}
		}
		if len(still) == 0 {
			w.tr.f("%s: state moved during confirmation", where)
			return nil
		}
	}
	slot := still[0]
	d := w.docs[slot]
	// The canary's update event passed A's peer loop after every earlier one. Either outcome that
	// shows it was processed (arrived, or recorded for retry) shows the earlier pushes are over;
	// if neither happened within canaryBudget A's peer does not process update events at all.
	canaryWhat := "reached B through the same push path"
	if !arrived {
		if s1.retryDocs[w.docs[canarySlot].id] {
			canaryWhat = "failed to reach B and was recorded for retry (A does process update events)"
		} else {
			canaryWhat = fmt.Sprintf("neither reached B nor was recorded for retry within %v (A's peer processes no update events)", canaryBudget)
		}
	}
	sig, why := w.diagnoseOrphan(slot, s1)
	return hx.Failf(sig,
		"%s: B's peer is up, B lacks A's head of document %s (slot %d) and A holds no retry record for it; nothing will ever deliver it. "+
			"State unchanged for %v, then a canary update written on A %s, then unchanged after another %v.\n%s\nstate:\n%strace:\n%s",
		where, d.id, slot, quietWindow, canaryWhat, rereadDelay, why, s1.describe(w), w.tr)
}

// diagnoseOrphan decides which signature explains a lost obligation.
func (w *world) diagnoseOrphan(slot int, s snap) (sig, why string) {
	d := w.docs[slot]
	ah := s.a[slot]
	if len(ah) != 1 {
		return "C15/obligation-lost", fmt.Sprintf("A has %d heads", len(ah))
	}
	seen := w.btap.forCid(d.id, ah[0])
	headVer := w.headSchemaVersion(d.id, ah[0])
	if len(seen) == 0 && w.c.APubSubOff {
		// Fully explained: A's peer runs with pubsub disabled, and net.NewPeer subscribes to update
		// events (the only trigger of pushes to replicators) inside "if options.EnablePubSub".
		return sigPubSubOff, fmt.Sprintf("A's peer runs with pubsub disabled; B never received a merge request for A's head %s", ah[0])
	}
	if len(seen) == 0 {
		return "C15/obligation-lost/never-received", fmt.Sprintf("B never received a merge request for A's head %s (retry record seen earlier: %v)", ah[0], w.sawRetry(d.id))
	}
	allDropped, wrongID := true, false
	for _, m := range seen {
		if m.Done {
			allDropped = false
		}
		if m.CollectionID != w.root {
			wrongID = true
		}
	}
	desc := fmt.Sprintf("B received %d merge request(s) for A's head %s: %+v; collection id (schema root) is %s, head block schema version is %s, retry record seen earlier: %v",
		len(seen), ah[0], seen, w.root, headVer, w.sawRetry(d.id))
	if allDropped && wrongID && headVer != w.root {
		ok := true
		for _, m := range seen {
			if m.CollectionID != headVer {
				ok = false
			}
		}
		if ok {
			// Fully explained: every request B got for this head names the block's schema version id
			// as collection id. A first push carries the collection id (schema root), only retryDoc
			// derives it from the block; B acknowledged, could not resolve the collection
			// and dropped the merge, and A cleared the retry record.
			return sigRetryCollectionID, desc
		}
	}
	if allDropped {
		if missing, total := w.missingOnB(ah[0]); missing > 0 {
			// B acknowledged the push (it published the merge request) although it does not hold the
			// DAG below the head: the merge cannot load it and is dropped.
			return "C15/obligation-lost/acked-with-incomplete-dag",
				desc + fmt.Sprintf("; B lacks %d of the %d blocks of the head's DAG", missing, total)
		}
		return "C15/obligation-lost/acked-but-not-merged", desc
	}
	return "C15/obligation-lost", desc
}

// missingOnB walks the DAG below a head in A's blockstore and counts the blocks B does not hold.
func (w *world) missingOnB(head string) (missing, total int) {
	root, err := cid.Decode(head)
	if err != nil {
		return 0, 0
	}
	src := datastore.BlockstoreFrom(w.a.DB.Rootstore())
	dst := datastore.BlockstoreFrom(w.b.DB.Rootstore())
	seen := map[cid.Cid]bool{}
	var walk func(c cid.Cid)
	walk = func(c cid.Cid) {
		if seen[c] {
			return
		}
		seen[c] = true
		total++
		if has, err := dst.Has(w.b.Ctx, c); err == nil && !has {
			missing++
		}
		b, err := src.Get(w.a.Ctx, c)
		if err != nil {
			return
		}
		blk, err := coreblock.GetFromBytes(b.RawData())
		if err != nil {
			return
		}
		for _, l := range blk.AllLinks() {
			walk(l.Cid)
		}
	}
	walk(root)
	return missing, total
}

func (w *world) headSchemaVersion(docID, c string) string {
	r := w.a.Exec(fmt.Sprintf(`query { commits(docID: %q, cid: %q) { cid schemaVersionId } }`, docID, c))
	if !r.OK() {
		return "<" + r.Err() + ">"
	}
	for _, row := range r.Rows("commits") {
		if row["cid"] == c {
			if s, ok := row["schemaVersionId"].(string); ok {
				return s
			}
		}
	}
	return "<unknown>"
}

func (w *world) confirmStalled(s0 snap, pending []int, where string) *hx.Failure {
	w.tr.f("%s: retry bookkeeping frozen for %v with B up: slots %v pending; sending canary", where, stallWindow, pending)
	arrived := w.canary()
	time.Sleep(rereadDelay)
	s1 := w.snapshot()
	if s1.fingerprintNoCanary() != s0.fingerprintNoCanary() {
		w.tr.f("%s: state moved during confirmation", where)
		return nil
	}
	if !arrived {
		w.tr.f("%s: canary did not reach B: cannot tell a dead link from a dead retry loop; waiting on", where)
		return nil
	}
	sig := "C15/retry-stalled"
	if s1.retryID == nil {
		sig = "C15/retry-stalled/doc-record-without-peer-record"
	} else if s1.retryID.Retrying {
		sig = "C15/retry-stalled/retrying-flag-stuck"
	}
	return hx.Failf(sig,
		"%s: B's peer is up and reachable (a canary update written on A reached B), A holds retry records for slots %v but its retry bookkeeping did not change for %v: no retry is being attempted.\nstate:\n%strace:\n%s",
		where, pending, stallWindow, s1.describe(w), w.tr)
}

func (s snap) fingerprintNoCanary() string {
	c := snap{a: map[int][]string{}, b: map[int][]string{}, retryDocs: s.retryDocs, retryID: s.retryID}
	for k, v := range s.a {
		if k != canarySlot {
			c.a[k] = v
			c.b[k] = s.b[k]
		}
	}
	return c.fingerprint()
}

// ---------------------------------------------------------------- content comparison

func (w *world) dump(n *pnode, patches int, cmpPatches int) map[string]string {
	extra := ""
	for i := 0; i < patches && i < len(patchFields); i++ {
		extra += " " + patchFields[i]
	}
	r := n.Exec(`query { Users(showDeleted: true) { _docID _deleted name n c` + extra + ` } }`)
	if !r.OK() {
		hx.Harnessf("dump on %s: %s %s", n.name, r.Err(), r.Panic)
	}
	out := map[string]string{}
	for _, row := range r.Rows("Users") {
		id, _ := row["_docID"].(string)
		delete(row, "_docID")
		for i, f := range patchFields {
			if i >= cmpPatches {
				delete(row, f)
			} else if _, ok := row[f]; !ok {
				row[f] = nil
			}
		}
		out[id] = hx.Canon(row)
	}
	return out
}

func (w *world) expected(d *mdoc, cmpPatches int) string {
	row := map[string]any{"_deleted": d.deleted, "name": d.name, "n": d.n, "c": d.c}
	if !d.cSet {
		row["c"] = nil
	}
	if cmpPatches >= 1 {
		row["e"] = nil
		if d.e != nil {
			row["e"] = *d.e
		}
	}
	if cmpPatches >= 2 {
		row["g"] = nil
		if d.g != nil {
			row["g"] = *d.g
		}
	}
	return hx.Canon(hx.Normalize(row))
}

// compareContent checks B's documents against the model (and A's, as a harness sanity check).
func (w *world) compareContent(slots []int, where string) *hx.Failure {
	// added fields are compared only when every patch reached both nodes together
	cmp := w.aPatches
	if w.unevenPatch {
		cmp = 0
	}
	ad := w.dump(w.a, w.aPatches, w.aPatches)
	bd := w.dump(w.b, w.bPatches, cmp)
	real := 0
	for _, slot := range slots {
		if slot < 0 || w.docs[slot].exempt {
			continue // canary and collection-level DAG: heads only
		}
		real++
		d := w.docs[slot]
		if ad[d.id] != w.expected(d, w.aPatches) {
			hx.Harnessf("model and A disagree on slot %d %s: A=%s model=%s\n%s", slot, d.id, ad[d.id], w.expected(d, w.aPatches), w.tr)
		}
		want := w.expected(d, cmp)
		if bd[d.id] != want {
			return hx.Failf("C15/content-differs-with-equal-heads",
				"%s: B has A's heads of document %s (slot %d) but shows %s, A shows %s\ntrace:\n%s", where, d.id, slot, bd[d.id], want, w.tr)
		}
	}
	if len(bd) > len(ad) {
		return hx.Failf("C15/extra-document-on-b", "%s: B has %d documents, A has %d\ntrace:\n%s", where, len(bd), len(ad), w.tr)
	}
	_ = real
	return nil
}

// ---------------------------------------------------------------- pubsub-only final phase

// pubsubFinal: B is up and explicitly reconnected. Every live document gets a
// fresh update on A; such a document must reach B (syncDAG pulls its
// ancestors). Pubsub is best effort per message, so the update is re-issued a
// few times; only a document that never arrives although A and B are
// connected and B is subscribed is reported.
func (w *world) pubsubFinal() *hx.Failure {
	const rounds = 6
	const perRound = 6 * time.Second
	live := []int{}
	for _, slot := range w.slots() {
		if slot >= 0 && !w.docs[slot].deleted {
			live = append(live, slot)
		}
	}
	lag := live
	cleaned := false
	for round := 0; round < rounds && len(lag) > 0; round++ {
		if round > 0 {
			w.info.set("pubsub-needed-renudge")
			if err := w.a.N.Peer.Connect(w.a.Ctx, w.b.info); err != nil {
				w.tr.f("explicit connect A->B failed: %v", err)
			}
		}
		if round == 2 {
			// Nothing after two rounds: reconnect once more, cleanly. The claim for pubsub-only
			// configurations is delivery after a reconnection, so this stays within its precondition;
			// a case that only recovers here is counted (label) and not reported.
			w.cleanReconnect()
			cleaned = true
		}
		for _, slot := range lag {
			d := w.docs[slot]
			w.seq++
			w.mustExec(w.a, fmt.Sprintf(`mutation { update_Users(docID: %q, input: {n: %d}) { _docID } }`, d.id, 100+w.seq))
			d.n = 100 + w.seq
		}
		w.tr.f("pubsub final round %d: nudged slots %v", round, lag)
		t0 := time.Now()
		for time.Since(t0) < perRound {
			s := w.snapshot()
			next := []int{}
			for _, slot := range lag {
				if !eq(s.a[slot], s.b[slot]) {
					next = append(next, slot)
				}
			}
			lag = next
			if len(lag) == 0 {
				break
			}
			time.Sleep(pollEvery)
		}
	}
	if len(lag) > 0 {
		s := w.snapshot()
		// where did it stop? syncDAG stores the pushed head block before it fetches the links
		sig := "C15/pubsub/update-after-reconnect-never-delivered"
		var why strings.Builder
		subs, _ := w.b.N.Peer.GetAllP2PCollections(w.b.Ctx)
		fmt.Fprintf(&why, "B's P2P collections: %v (collection id %s)\n", subs, w.root)
		arrived, requested := 0, 0
		for _, slot := range lag {
			d := w.docs[slot]
			for _, h := range s.a[slot] {
				c, err := cid.Decode(h)
				if err != nil {
					continue
				}
				has, _ := datastore.BlockstoreFrom(w.b.DB.Rootstore()).Has(w.b.Ctx, c)
				seen := w.btap.forCid(d.id, h)
				if has {
					arrived++
				}
				if len(seen) > 0 {
					requested++
				}
				fmt.Fprintf(&why, "slot %d head %s: block on B=%v, merge requests on B=%+v\n", slot, h, has, seen)
			}
		}
		switch {
		case arrived == 0:
			sig += "/message-never-arrived"
		case requested == 0:
			sig += "/arrived-but-dag-sync-failed"
		default:
			sig += "/merge-requested-but-not-done"
		}
		return hx.Failf(sig,
			"B is subscribed to the collection and connected to A, %d updates of slots %v were written on A after the reconnection over %v, none reached B\n%sstate:\n%strace:\n%s",
			rounds, lag, time.Duration(rounds)*perRound, why.String(), s.describe(w), w.tr)
	}
	if cleaned {
		w.info.set("pubsub-recovered-only-after-clean-reconnect")
	}
	return w.compareContent(live, "pubsub final")
}

// ---------------------------------------------------------------- the run

func (w *world) waitEvent(sub event.Subscription, what string) {
	select {
	case <-sub.Message():
	case <-time.After(30 * time.Second):
		hx.Harnessf("no %s event within 30s\n%s", what, w.tr)
	}
}

func (w *world) setReplicator() {
	if w.repSet || w.c.Config == "pubsub" {
		return
	}
	sub, err := w.a.DB.Events().Subscribe(event.ReplicatorCompletedName)
	if err != nil {
		hx.Harnessf("subscribe: %v", err)
	}
	// keep draining until unsubscribed
	got := make(chan struct{}, 16)
	go func() {
		for range sub.Message() {
			select {
			case got <- struct{}{}:
			default:
			}
		}
	}()
	defer w.a.DB.Events().Unsubscribe(sub)
	for _, d := range w.docs {
		if d.deleted {
			d.exempt = true
			w.info.set("doc-deleted-before-setreplicator")
		}
	}
	if col := w.docs[colSlot]; col != nil && len(w.order) > 0 {
		// Likewise SetReplicator pushes document heads only: collection-level commits that exist
		// already reach B with the first collection-level commit written afterwards (it links to them).
		col.exempt = true
		w.info.set("collection-commits-before-setreplicator")
	}
	w.tr.f("A.SetReplicator(B) (B up=%v)", w.b.up)
	if err := w.a.N.Peer.SetReplicator(w.a.Ctx, w.b.info); err != nil {
		hx.Harnessf("SetReplicator: %v", err)
	}
	select {
	case <-got:
	case <-time.After(60 * time.Second):
		hx.Harnessf("no replicator-completed event within 60s\n%s", w.tr)
	}
	w.repSet = true
}

func (w *world) patch(aOnly bool) {
	if w.aPatches >= len(patchFields) {
		return
	}
	f := patchFields[w.aPatches]
	if err := w.a.DB.PatchSchema(w.a.Ctx, patchJSON(f), immutable.None[model.Lens](), true); err != nil {
		hx.Harnessf("PatchSchema on A: %v", err)
	}
	w.aPatches++
	if aOnly || w.bPatches != w.aPatches-1 {
		w.unevenPatch = true
		w.tr.f("schema patch %d (add %s) on A only (B %s)", w.aPatches, f, w.bView)
		return
	}
	if err := w.b.DB.PatchSchema(w.b.Ctx, patchJSON(f), immutable.None[model.Lens](), true); err != nil {
		hx.Harnessf("PatchSchema on B: %v", err)
	}
	w.bPatches++
	w.tr.f("schema patch %d (add %s) on A and B (B %s)", w.aPatches, f, w.bView)
}

// toggle closes or reopens B's peer, with the burst writes issued concurrently.
func (w *world) toggle(op Op) {
	down := op.K == "down"
	if down == !w.b.up {
		// already in that state: only the writes happen
		for _, wr := range op.Burst {
			w.write(wr)
		}
		return
	}
	done := make(chan any, 1)
	if len(op.Burst) > 0 {
		w.info.set("ran-outage-during-burst")
	}
	w.tr.f("B peer %s begins (burst of %d)", op.K, len(op.Burst))
	w.bView = "changing"
	closeStart := time.Now()
	go func() {
		defer func() { done <- recover() }()
		if down {
			w.b.closePeer()
		} else {
			w.b.openPeer()
		}
	}()
	// the goroutine owns w.b.up until it reports; the burst does not read it
	for _, wr := range op.Burst {
		w.write(wr)
	}
	if p := <-done; p != nil {
		panic(p)
	}
	w.bView = map[bool]string{true: "up", false: "down"}[w.b.up]
	w.tr.f("B peer %s done", op.K)
	if down && w.c.Config == "pubsub" {
		w.awaitLeft(closeStart)
	}
	if !down && w.c.Config == "pubsub" {
		// reconnection is part of the pubsub-only precondition
		if err := w.b.N.Peer.Connect(w.b.Ctx, w.a.info); err != nil {
			w.tr.f("explicit connect B->A failed: %v", err)
		}
		time.Sleep(300 * time.Millisecond)
	}
}

// awaitLeft is the soundness guard of pubsub-only configurations: B's outage lasts at least until
// A's pubsub layer has noticed that B left. go-libp2p-pubsub (handleDeadPeers) forgets the topics
// of a peer whose old connection is reported dead after its new connection and hello have already
// been processed, and the peer announces its subscriptions only once per stream; a restart faster
// than the detection of the closed connection can therefore leave A without B's subscription
// until the next reconnection. That is outside the anchored code and outside what is claimed.
func (w *world) awaitLeft(closeStart time.Time) {
	if w.aps.waitSince(w.b.info.ID, closeStart, 3*time.Second) {
		time.Sleep(50 * time.Millisecond)
		return
	}
	w.tr.f("A's pubsub reported no leave of B within 3s of the close (not an oracle)")
}

// cleanReconnect closes B's peer, waits until A's pubsub has seen it leave, reopens and reconnects.
func (w *world) cleanReconnect() {
	t0 := time.Now()
	w.b.closePeer()
	w.awaitLeft(t0)
	time.Sleep(500 * time.Millisecond)
	w.b.openPeer()
	if err := w.b.N.Peer.Connect(w.b.Ctx, w.a.info); err != nil {
		w.tr.f("explicit connect B->A failed: %v", err)
	}
	time.Sleep(300 * time.Millisecond)
	w.tr.f("clean reconnect of B done")
}

// heal clears the block-write fault on B. With B up it first waits (bounded, not an oracle) until
// the fault has actually interrupted a sync, so that "interrupted, then healed" is what was run;
// after a reopen the first effective push comes only when libp2p's dial back-off has expired.
func (w *world) heal() {
	if !w.faultArmed {
		return
	}
	if w.b.up {
		t0 := time.Now()
		for time.Since(t0) < 20*time.Second {
			if _, _, failed := w.b.fault.state(); failed > 0 {
				break
			}
			time.Sleep(50 * time.Millisecond)
		}
	}
	passed, failed := w.b.fault.heal()
	w.faultArmed = false
	w.tr.f("fault healed on B: %d block writes stored, %d failed while armed (B %s)", passed, failed, w.bView)
	if failed > 0 {
		w.info.set("sync-on-b-interrupted")
		if passed > 0 {
			w.info.set("sync-on-b-interrupted-after-partial-store")
		}
	} else {
		w.info.set("fault-armed-but-never-fired")
	}
}

func (w *world) waitDelivered(slot int) {
	if slot < 0 || !w.b.up || !w.repSet || w.faultArmed {
		return
	}
	d := w.docs[slot]
	t0 := time.Now()
	for time.Since(t0) < waitWriteMax {
		if eq(heads(w.a.Node, d.id), heads(w.b.Node, d.id)) {
			return
		}
		time.Sleep(20 * time.Millisecond)
	}
	w.tr.f("paced write on slot %d not delivered within %v (not an oracle)", slot, waitWriteMax)
}

func run(c Case, info *runInfo) *hx.Failure {
	if c.NDocs < 1 {
		c.NDocs = 1
	}
	w := &world{c: c, tr: &trace{t0: time.Now(), mark: logMark()}, info: info, docs: map[int]*mdoc{}, bView: "up"}
	info.trace = w.tr
	w.retrySeen = map[string]bool{}
	if c.APubSubOff && c.Config != "rep" {
		c.APubSubOff = false
		w.c = c
	}
	w.a = bootPeerNode("A", !c.APubSubOff, false)
	defer w.a.shutdown()
	if c.Boot || c.Config == "pubsub" {
		w.b = bootPeerNode("B", true, true, w.a.p2pAddr())
	} else {
		w.b = bootPeerNode("B", true, true)
	}
	defer w.b.shutdown()
	w.tr.f("A=%s %s  B=%s %s", w.a.info.ID, w.a.addr, w.b.info.ID, w.b.addr)

	for _, n := range []*pnode{w.a, w.b} {
		cols, err := n.DB.AddSchema(n.Ctx, w.sdl())
		if err != nil {
			hx.Harnessf("AddSchema: %v", err)
		}
		for _, col := range cols {
			if col.Name == "Users" {
				w.root = col.CollectionID
			}
		}
	}
	if w.root == "" {
		hx.Harnessf("no Users collection")
	}
	w.atap = hx.NewEventTap(w.a.Node)
	defer w.atap.Close()
	stopSampler, samplerDone := make(chan struct{}), make(chan struct{})
	go func() { defer close(samplerDone); w.sampleRetries(stopSampler) }()
	defer func() { close(stopSampler); <-samplerDone }()
	w.btap = newMergeTap(w.b.Node)
	defer w.btap.close()
	w.aps = newPubSubTap(w.a.Node)
	defer w.aps.close()

	if c.Config != "rep" {
		if err := w.b.N.Peer.AddP2PCollections(w.b.Ctx, "Users"); err != nil {
			hx.Harnessf("AddP2PCollections: %v", err)
		}
		if err := w.a.N.Peer.Connect(w.a.Ctx, w.b.info); err != nil {
			hx.Harnessf("Connect: %v", err)
		}
		time.Sleep(200 * time.Millisecond) // subscription announcement (as the repository's own suite does)
	}

	// the canary document exists from the start; it is replicated like any other
	{
		r := w.mustExec(w.a, `mutation { create_Probe(input: {n: 1000}) { _docID } }`)
		w.docs[canarySlot] = &mdoc{slot: canarySlot, id: r.Rows("create_Probe")[0]["_docID"].(string), name: "canary", n: 1000}
		if c.Branchable {
			w.docs[colSlot] = &mdoc{slot: colSlot, id: "", name: "collection-level commits"}
		}
	}

	for i, op := range c.Ops {
		switch op.K {
		case "w":
			slot := w.write(Write{Doc: op.Doc, F: op.F, V: op.V})
			if op.Wait {
				w.waitDelivered(slot)
			}
		case "patch":
			w.patch(op.AOnly)
		case "down", "up":
			w.toggle(op)
		case "setrep":
			w.setReplicator()
		case "fault":
			k := op.V
			if k < 0 {
				k = 0
			}
			w.b.fault.arm(k)
			w.faultArmed = true
			w.tr.f("fault armed on B: block writes fail after %d more (B %s)", k, w.bView)
		case "heal":
			w.heal()
		case "racew":
			// a write on A at the moment B stores a block of an incoming push, i.e. while a push-log call
			// of A (a retry, with a pending record) is in flight: the new commit is concurrent with it
			fired := false
			if w.b.up && w.b.fault != nil {
				ch := w.b.fault.onNextBlockWrite()
				select {
				case <-ch:
					fired = true
				case <-time.After(6 * time.Second):
					w.b.fault.disarmTrigger()
				}
			}
			if fired {
				w.info.set("write-while-push-in-flight")
				if w.anyRetry() {
					w.info.set("write-while-push-in-flight-after-retry-record")
				}
			} else {
				w.info.set("race-write-trigger-not-fired")
			}
			w.tr.f("race write (B storing a pushed block: %v)", fired)
			w.write(Write{Doc: op.Doc, F: op.F, V: op.V})
		case "pause":
			ms := op.Ms
			if ms < 0 || ms > 10000 {
				ms = 10000
			}
			time.Sleep(time.Duration(ms) * time.Millisecond)
			w.tr.f("paused %dms", ms)
		case "settle":
			if op.Full {
				w.heal() // nothing converges while B cannot store blocks
			}
			if c.Config != "pubsub" {
				if f := w.converge(op.Full, fmt.Sprintf("checkpoint at step %d", i)); f != nil {
					return f
				}
				if op.Full && w.b.up && w.repSet {
					if f := w.compareContent(w.slots(), fmt.Sprintf("checkpoint at step %d", i)); f != nil {
						return f
					}
				}
			} else {
				time.Sleep(300 * time.Millisecond)
			}
		default:
			hx.Harnessf("unknown op %q", op.K)
		}
		_ = w.atap.Take()
	}

	// traffic stops; B reachable
	if !w.b.up {
		w.toggle(Op{K: "up"})
	}
	w.heal()
	if c.Config == "pubsub" {
		return w.pubsubFinal()
	}
	w.setReplicator()
	t0 := time.Now()
	if f := w.converge(true, "final"); f != nil {
		return f
	}
	w.tr.f("converged %v after the last event", time.Since(t0).Round(time.Millisecond))
	if w.anyRetry() {
		info.set("retry-record-observed")
		info.set("recovered-through-retry")
	}
	return w.compareContent(w.slots(), "final")
}

func (w *world) anyRetry() bool {
	w.retryMu.Lock()
	defer w.retryMu.Unlock()
	return len(w.retrySeen) > 0
}

func (w *world) sawRetry(docID string) bool {
	w.retryMu.Lock()
	defer w.retryMu.Unlock()
	return w.retrySeen[docID]
}

// sampleRetries records which documents ever had a retry-doc record (diagnosis and labels only).
func (w *world) sampleRetries(stop <-chan struct{}) {
	ps := datastore.PeerstoreFrom(w.a.DB.Rootstore())
	prefix := keys.REPLICATOR_RETRY_DOC + "/" + w.b.info.ID.String()
	for {
		select {
		case <-stop:
			return
		case <-time.After(40 * time.Millisecond):
		}
		it, err := ps.Iterator(w.a.Ctx, corekv.IterOptions{Prefix: []byte(prefix), KeysOnly: true})
		if err != nil {
			return
		}
		for {
			ok, err := it.Next()
			if err != nil || !ok {
				break
			}
			id := strings.TrimPrefix(strings.TrimPrefix(string(it.Key()), prefix), "/")
			w.retryMu.Lock()
			if !w.retrySeen[id] {
				w.retrySeen[id] = true
				w.info.set("retry-record-observed")
				w.tr.f("retry record appeared for %q", id)
			}
			w.retryMu.Unlock()
		}
		_ = it.Close()
	}
}
