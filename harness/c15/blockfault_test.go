package c15

import (
	"bytes"
	"context"
	"errors"
	"sync"

	"github.com/sourcenetwork/corekv"
)

// blockFaultStore wraps B's root store. Once armed with a budget it lets that many writes of
// blocks (keys under /db/blocks: the pushed head stored by syncDAG and every block fetched from
// the sender) through and fails every further one until healed. This is "the sync on B is
// interrupted mid-way": whatever was stored before the fault stays, the rest of the DAG is
// missing, the push is answered with an error.
type blockFaultStore struct {
	corekv.TxnStore
	mu     sync.Mutex
	armed  bool
	budget int
	passed int // block writes let through since arming
	failed int // block writes failed since arming
	// trigger, when set, is closed at the next block write on B (one shot): "B is storing a block of
	// a push right now", i.e. the sender's push-log call is in flight.
	trigger chan struct{}
}

// onNextBlockWrite arms the one-shot trigger and returns the channel that is closed when B next
// stores a block.
func (s *blockFaultStore) onNextBlockWrite() <-chan struct{} {
	s.mu.Lock()
	defer s.mu.Unlock()
	s.trigger = make(chan struct{})
	return s.trigger
}

func (s *blockFaultStore) disarmTrigger() {
	s.mu.Lock()
	defer s.mu.Unlock()
	s.trigger = nil
}

var errInjectedBlockWrite = errors.New("c15: injected failure of a block write on B (sync interrupted)")

var blockPrefix = []byte("/db/blocks")

func (s *blockFaultStore) arm(budget int) {
	s.mu.Lock()
	defer s.mu.Unlock()
	s.armed, s.budget, s.passed, s.failed = true, budget, 0, 0
}

// heal clears the fault and reports how many block writes passed and failed while it was armed.
func (s *blockFaultStore) heal() (passed, failed int) {
	s.mu.Lock()
	defer s.mu.Unlock()
	s.armed = false
	return s.passed, s.failed
}

func (s *blockFaultStore) state() (armed bool, passed, failed int) {
	s.mu.Lock()
	defer s.mu.Unlock()
	return s.armed, s.passed, s.failed
}

func (s *blockFaultStore) check(key []byte) error {
	if !bytes.HasPrefix(key, blockPrefix) {
		return nil
	}
	s.mu.Lock()
	defer s.mu.Unlock()
	if s.trigger != nil {
		close(s.trigger)
		s.trigger = nil
	}
	if !s.armed {
		return nil
	}
	if s.passed < s.budget {
		s.passed++
		return nil
	}
	s.failed++
	return errInjectedBlockWrite
}

func (s *blockFaultStore) Set(ctx context.Context, key, value []byte) error {
	if err := s.check(key); err != nil {
		return err
	}
	return s.TxnStore.Set(ctx, key, value)
}

func (s *blockFaultStore) NewTxn(readonly bool) corekv.Txn {
	return &blockFaultTxn{Txn: s.TxnStore.NewTxn(readonly), s: s}
}

type blockFaultTxn struct {
	corekv.Txn
	s *blockFaultStore
}

func (t *blockFaultTxn) Set(ctx context.Context, key, value []byte) error {
	if err := t.s.check(key); err != nil {
		return err
	}
	return t.Txn.Set(ctx, key, value)
}
