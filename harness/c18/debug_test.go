package c18

import (
	"encoding/json"
	"fmt"
	"os"
	"testing"

	"github.com/sourcenetwork/defradb/client"
	"github.com/sourcenetwork/defradb/internal/db"
	"github.com/sourcenetwork/defradb/verifharness/hx"
)

// TestDebug is a development aid, not part of the check: with VERIF_REPLAY=<case file> it prints the schema,
// the source dump, the export error as seen inside an explicit transaction, the parsed export file,
// the steps and the verdict of the case. It is skipped when VERIF_REPLAY is not set.
func TestDebug(t *testing.T) {
	raw := hx.ReplayCase(t)
	var c Case
	if err := json.Unmarshal(raw, &c); err != nil {
		t.Fatal(err)
	}
	sch := buildSchema(c)
	fmt.Println(sch.sdl)
	src := hx.MustMemNode()
	defer src.Close()
	if _, err := src.DB.AddSchema(src.Ctx, sch.sdl); err != nil {
		t.Fatal(err)
	}
	st := applySteps(src, sch, c)
	fmt.Printf("applied=%d rejected=%d created=%v\n", st.applied, st.rejected, st.created)
	d := dumpNode(src, sch)
	for name, m := range d {
		for id, r := range m {
			fmt.Println(name, id, show(r))
		}
	}
	dir, rm := hx.Scratch("c18dbg")
	defer rm()
	txn, err := src.DB.NewTxn(src.Ctx, true)
	if err != nil {
		t.Fatal(err)
	}
	ctx := db.InitContext(src.Ctx, txn)
	cfg := &client.BackupConfig{Filepath: dir + "/e.json", Pretty: c.Pretty}
	err = src.DB.BasicExport(ctx, cfg)
	fmt.Println("export err:", err)
	func() {
		defer func() { fmt.Println("discard recover:", recover()) }()
		txn.Discard(src.Ctx)
	}()
	if ef, err := parseFile(dir + "/e.json"); err == nil {
		for _, name := range ef.order {
			for _, fd := range ef.docs[name] {
				fmt.Println("FILE", name, fd.pos, show(fd.fields))
			}
		}
	} else {
		b, _ := os.ReadFile(dir + "/e.json")
		fmt.Println(string(b))
	}
	for i, s := range c.Steps {
		b, _ := json.Marshal(s)
		fmt.Println("STEP", i, string(b))
	}
	f, _ := evalCase(c)
	fmt.Println("VERDICT", f)
}
