// Package c18 checks property C18: export followed by import reproduces the data.
//
// A case is a generated schema (1-4 collections, every scalar kind, 1-1 / 1-N / self relations),
// a history of creates, field updates, link updates and deletes applied to a source node through
// the collection API, an export configuration (pretty/compact, collection subset) and a way to
// corrupt the file for the atomicity clause.  The oracle never trusts the export or the import:
// the reference is the GraphQL dump of the source, the export file is parsed by the harness, and
// the target is dumped through GraphQL again.
package c18

import (
	"bytes"
	"context"
	"encoding/json"
	"fmt"
	"math"
	"math/big"
	"os"
	"path/filepath"
	"runtime/debug"
	"sort"
	"strconv"
	"strings"
	"testing"
	"time"

	"pgregory.net/rapid"

	"github.com/sourcenetwork/corekv"

	"github.com/sourcenetwork/defradb/client"
	"github.com/sourcenetwork/defradb/verifharness/hx"
)

func TestMain(m *testing.M) { hx.Main(m) }

// Signatures of the diagnosed findings (see diagnosers below).
const (
	// import decodes numbers through float64: an Int that float64 cannot hold exactly changes,
	// the imported document gets another id than the _docIDNew promised by the file.
	sigLossy = "C18/import/int-not-exact-in-float64"
	// export computes the new id of a referenced, not yet exported document from its raw fields
	// (dropping its same-named foreign key, not remapping the others); the referencing document
	// then carries a foreign key that no imported document has.
	sigChain = "C18/export/fk-to-later-exported-doc-that-has-fk"
	// references forming a cycle of two or more documents (upstream issue 1704).
	sigCycle = "C18/export/reference-cycle"
	// GetAllDocIDs yields deleted documents too, Get(showDeleted=false) then fails: a collection
	// holding a deleted document cannot be exported.
	sigDeleted = "C18/export/error-when-collection-holds-deleted-doc"
	// basicExport returns an error while the docID iterator of GetAllDocIDs is still open; the
	// deferred Txn.Discard of BasicExport panics.
	sigExportPanic = "C18/export/panic-unclosed-iterator-on-error-return"
	// a document referencing itself through two relation fields: the export remembers only one
	// self-referencing field, the other keeps the old id.
	sigTwoSelf = "C18/export/two-self-references-in-one-doc"
)

var rec = hx.NewRecorder("C18",
	"cases = generated schema (1-4 collections, scalar kinds Int/Float64/Float32/Boolean/String/DateTime/Blob/JSON and arrays, "+
		"relations 1-1, 1-N, self) + history of creates/updates/link updates/deletes + export config (pretty, subset) + file corruption kind; "+
		"non-trivial = at least one link between exported documents of two different collections and at least one edge-case number "+
		"(|int| >= 2^31, non-integral or extreme float) or sub-second timestamp among the exported values; distinct by case hash",
	"no two live documents of a collection have identical content (every document has a unique immutable key field k): content-addressed ids would make them one document on import",
	"values are JSON-expressible (no NaN/Inf floats), strings are valid UTF-8, blobs are non-empty hex",
	"source reference is the GraphQL dump of the source node (storage fidelity of the source itself is not C18)",
	"a foreign key whose target is not in the file (collection not exported, deleted or never existing document) may be null or unchanged in the target",
	"operations rejected by the source (e.g. one-to-one target already linked) have no effect and are only counted",
)

// ---------------------------------------------------------------------------------------------
// Case

// Field is one scalar/array field of a collection.
type Field struct {
	Kind string `json:"kind"`
}

// Col is one collection; its name is C<i>, it always has the key field k: Int.
type Col struct {
	Fields []Field `json:"fields"`
}

// Rel is one relation; the foreign key lives on From.
type Rel struct {
	From int  `json:"from"`
	To   int  `json:"to"`
	Many bool `json:"many"` // true: many From documents per To document (1-N); false: 1-1
}

// Link says what a foreign key is set to.
type Link struct {
	Mode string `json:"mode"` // none, doc, missing, self
	T    int    `json:"t"`    // doc: index into the created documents of the target collection (modulo)
}

// Step is one operation on the source.
type Step struct {
	Op    string            `json:"op"` // create, set, link, del
	Col   int               `json:"col,omitempty"`
	Vals  []string          `json:"vals,omitempty"`  // create: JSON literal per field, "" = omitted
	Links []Link            `json:"links,omitempty"` // create: per primary relation of the collection
	Doc   int               `json:"doc,omitempty"`   // set/link/del: index into created documents (modulo)
	Field int               `json:"field,omitempty"` // set: field index (modulo)
	Lits  map[string]string `json:"lits,omitempty"`  // set: literal per field kind (the kind of the addressed field is known at run time)
	Rel   int               `json:"rel,omitempty"`   // link: index into the primary relations of the document's collection (modulo)
	Link  Link              `json:"link,omitempty"`
}

// Atomic describes how the file is made invalid for the atomicity clause.
type Atomic struct {
	Kind string `json:"kind"` // dup, badfield, badtype, badcol, trunc
	Pos  int    `json:"pos"`
}

// Case is one generated test case.
type Case struct {
	Cols    []Col  `json:"cols"`
	Rels    []Rel  `json:"rels"`
	Steps   []Step `json:"steps"`
	Pretty  bool   `json:"pretty"`
	Subset  []int  `json:"subset"` // nil/empty: export everything (empty Collections list)
	Atomic  Atomic `json:"atomic"`
	NoLossy bool   `json:"no_lossy"` // generator switch: no Int that float64 cannot hold
	NoChain bool   `json:"no_chain"` // generator switch: no document is both referenced and referencing
	NoDel   bool   `json:"no_del"`   // generator switch: delete steps are skipped
}

// ---------------------------------------------------------------------------------------------
// Schema

var kinds = []string{"int", "f64", "f32", "bool", "str", "time", "blob", "json",
	"a_int", "a_intn", "a_f64", "a_f32n", "a_str", "a_strn", "a_bool"}

func sdlType(k string) string {
	switch k {
	case "int":
		return "Int"
	case "f64":
		return "Float64"
	case "f32":
		return "Float32"
	case "bool":
		return "Boolean"
	case "str":
		return "String"
	case "time":
		return "DateTime"
	case "blob":
		return "Blob"
	case "json":
		return "JSON"
	case "a_int":
		return "[Int]"
	case "a_intn":
		return "[Int!]"
	case "a_f64":
		return "[Float64]"
	case "a_f32n":
		return "[Float32!]"
	case "a_str":
		return "[String]"
	case "a_strn":
		return "[String!]"
	case "a_bool":
		return "[Boolean]"
	}
	panic(k)
}

func baseKind(k string) (string, bool) {
	switch k {
	case "a_int", "a_intn":
		return "int", true
	case "a_f64":
		return "f64", true
	case "a_f32n":
		return "f32", true
	case "a_str", "a_strn":
		return "str", true
	case "a_bool":
		return "bool", true
	}
	return k, false
}

type prim struct {
	field string // p<j>; the id field is p<j>_id
	rel   int
	to    int
}

type sec struct {
	field string // s<rel>
	rel   int
	from  int
	many  bool
	pfld  string // name of the primary field on From
}

type colInfo struct {
	name   string
	fields []string // f<i>
	kinds  []string
	prims  []prim
	secs   []sec
}

type schema struct {
	sdl  string
	cols []colInfo
}

func buildSchema(c Case) schema {
	s := schema{cols: make([]colInfo, len(c.Cols))}
	for i, col := range c.Cols {
		ci := colInfo{name: fmt.Sprintf("C%d", i)}
		for j, f := range col.Fields {
			ci.fields = append(ci.fields, fmt.Sprintf("f%d", j))
			ci.kinds = append(ci.kinds, f.Kind)
		}
		s.cols[i] = ci
	}
	for ri, r := range c.Rels {
		from, to := r.From%len(c.Cols), r.To%len(c.Cols)
		p := prim{field: fmt.Sprintf("p%d", len(s.cols[from].prims)), rel: ri, to: to}
		s.cols[from].prims = append(s.cols[from].prims, p)
		s.cols[to].secs = append(s.cols[to].secs, sec{field: fmt.Sprintf("s%d", ri), rel: ri, from: from, many: r.Many, pfld: p.field})
	}
	var sb strings.Builder
	for i, ci := range s.cols {
		fmt.Fprintf(&sb, "type %s {\n  k: Int\n", ci.name)
		for j, f := range ci.fields {
			fmt.Fprintf(&sb, "  %s: %s\n", f, sdlType(ci.kinds[j]))
		}
		for _, p := range ci.prims {
			if c.Rels[p.rel].Many {
				fmt.Fprintf(&sb, "  %s: C%d @relation(name: \"r%d\")\n", p.field, p.to, p.rel)
			} else {
				fmt.Fprintf(&sb, "  %s: C%d @primary @relation(name: \"r%d\")\n", p.field, p.to, p.rel)
			}
		}
		for _, q := range ci.secs {
			if q.many {
				fmt.Fprintf(&sb, "  %s: [C%d] @relation(name: \"r%d\")\n", q.field, q.from, q.rel)
			} else {
				fmt.Fprintf(&sb, "  %s: C%d @relation(name: \"r%d\")\n", q.field, q.from, q.rel)
			}
		}
		sb.WriteString("}\n")
		_ = i
	}
	s.sdl = sb.String()
	return s
}

// ---------------------------------------------------------------------------------------------
// Value generators (JSON literals)

const two53 = int64(1) << 53

func lossyInt(x int64) bool {
	f := float64(x)
	if f >= 9223372036854775808.0 || f < -9223372036854775808.0 {
		return true
	}
	return int64(f) != x
}

var safeInts = []int64{0, 1, -1, 7, 42, -42, 2147483647, 2147483648, -2147483649, two53 - 1, two53, -two53, two53 + 2,
	1 << 62, math.MinInt64, -(two53 - 1)}
var lossyInts = []int64{two53 + 1, -(two53 + 1), math.MaxInt64, math.MaxInt64 - 1, math.MinInt64 + 1, 1234567890123456789, two53 + 3}

func genInt(noLossy bool) *rapid.Generator[string] {
	return rapid.Custom(func(t *rapid.T) string {
		var x int64
		switch m := rapid.IntRange(0, 9).Draw(t, "im"); {
		case m < 3:
			x = int64(rapid.IntRange(-3, 3).Draw(t, "small"))
		case m < 6:
			x = rapid.SampledFrom(safeInts).Draw(t, "safe")
		case m < 9:
			x = rapid.SampledFrom(lossyInts).Draw(t, "lossy")
		default:
			x = rapid.Int64().Draw(t, "any")
		}
		if noLossy && lossyInt(x) {
			x = int64(float64(x/2048)) * 1024 // exact: at most 53 significant bits
			if lossyInt(x) {
				x = 0
			}
		}
		return strconv.FormatInt(x, 10)
	})
}

func fmtF64(f float64) string {
	if f == 0 && math.Signbit(f) {
		return "-0.0"
	}
	return strconv.FormatFloat(f, 'g', -1, 64)
}

func fmtF32(f float32) string {
	if f == 0 && math.Signbit(float64(f)) {
		return "-0.0"
	}
	return strconv.FormatFloat(float64(f), 'g', -1, 32)
}

var f64Pool = []float64{0, math.Copysign(0, -1), 0.1, 1.5, -2.5, 3, 1e21, 1e-7, 5e-324, math.MaxFloat64, -math.MaxFloat64,
	0.30000000000000004, 9007199254740993, 123456789.123456789, 1e15, 1e16, 2.2250738585072014e-308}
var f32Pool = []float32{0, float32(math.Copysign(0, -1)), 0.1, 1.5, -2.5, 3, math.MaxFloat32, 1e-45, 16777217, 3.4e38, 1e-7}

func genF64() *rapid.Generator[string] {
	return rapid.Custom(func(t *rapid.T) string {
		if rapid.IntRange(0, 3).Draw(t, "fm") < 3 {
			return fmtF64(rapid.SampledFrom(f64Pool).Draw(t, "f"))
		}
		f := math.Float64frombits(rapid.Uint64().Draw(t, "bits"))
		if math.IsNaN(f) || math.IsInf(f, 0) {
			f = 2.5
		}
		return fmtF64(f)
	})
}

func genF32() *rapid.Generator[string] {
	return rapid.Custom(func(t *rapid.T) string {
		if rapid.IntRange(0, 3).Draw(t, "fm") < 3 {
			return fmtF32(rapid.SampledFrom(f32Pool).Draw(t, "f"))
		}
		f := math.Float32frombits(rapid.Uint32().Draw(t, "bits"))
		if f != f || math.IsInf(float64(f), 0) {
			f = 2.5
		}
		return fmtF32(f)
	})
}

var strPool = []string{"", "a", "b", "a\"b", "back\\slash", "line\nbreak", "tab\t", "\u0000", "a\u0000b", "<&>", "é", "日本", "😀",
	" ", "bae-00000000-0000-5000-8000-000000000000", "null", "0", " ", "{\"x\":1}", strings.Repeat("x", 300)}

func quote(s string) string {
	b, err := json.Marshal(s)
	if err != nil {
		panic(err)
	}
	return string(b)
}

func genStr() *rapid.Generator[string] {
	return rapid.Custom(func(t *rapid.T) string {
		if rapid.IntRange(0, 3).Draw(t, "sm") < 3 {
			return quote(rapid.SampledFrom(strPool).Draw(t, "s"))
		}
		return quote(strings.ToValidUTF8(rapid.StringN(0, 8, -1).Draw(t, "rs"), "?"))
	})
}

var timePool = []string{"2020-01-02T03:04:05.123456789Z", "1969-12-31T23:59:59.999999999Z", "9999-12-31T23:59:59.999999999Z",
	"0001-01-01T00:00:00Z", "0001-01-01T00:00:00.000000001Z", "2020-01-02T03:04:05+02:00", "2020-01-02T03:04:05.000000001-07:00",
	"1970-01-01T00:00:00Z", "2024-02-29T12:00:00.5Z", "2020-01-02T03:04:05Z", "1900-06-15T10:20:30.00001Z"}

func genTime() *rapid.Generator[string] {
	return rapid.Custom(func(t *rapid.T) string {
		if rapid.IntRange(0, 3).Draw(t, "tm") < 3 {
			return quote(rapid.SampledFrom(timePool).Draw(t, "t"))
		}
		sec := rapid.Int64Range(-62135596800, 253402300799).Draw(t, "sec")
		ns := rapid.SampledFrom([]int64{0, 1, 999999999, 123456789, 500000000, 1000}).Draw(t, "ns")
		return quote(time.Unix(sec, ns).UTC().Format(time.RFC3339Nano))
	})
}

func genBlob() *rapid.Generator[string] {
	return rapid.Custom(func(t *rapid.T) string {
		if rapid.Bool().Draw(t, "bm") {
			return quote(rapid.SampledFrom([]string{"00", "ff", "00ff", "DEADBEEF", "0", "abc", "0000000000000000", "Ab"}).Draw(t, "b"))
		}
		return quote(rapid.StringOfN(rapid.SampledFrom([]rune("0123456789abcdefABCDEF")), 1, 40, -1).Draw(t, "rb"))
	})
}

var jsonPool = []string{`1`, `1.5`, `"s"`, `true`, `false`, `{}`, `[]`, `{"a":1}`, `{"a":{"b":[1,null,{"c":"d"}]}}`,
	`[1,"a",null,true,{"x":[]}]`, `{"":0}`, `{"a b":1,"é":"\u0000"}`, `9007199254740993`, `1e21`, `-0.0`, `0.1`, `[[],[[]]]`,
	`{"a":null}`, `""`, `[null]`, `{"_docID":"x"}`, `123456789012345678901234567890`, `-1e-7`}

func genJSONVal(depth int) *rapid.Generator[string] {
	return rapid.Custom(func(t *rapid.T) string {
		m := rapid.IntRange(0, 7).Draw(t, "jm")
		if depth <= 0 && m >= 6 {
			m = 0
		}
		switch m {
		case 0, 1:
			return rapid.SampledFrom(jsonPool).Draw(t, "j")
		case 2:
			return genF64().Draw(t, "jn")
		case 3:
			return genStr().Draw(t, "js")
		case 4:
			return rapid.SampledFrom([]string{"true", "false", "null"}).Draw(t, "jb")
		case 5:
			return strconv.Itoa(rapid.IntRange(-5, 5).Draw(t, "ji"))
		case 6:
			n := rapid.IntRange(0, 3).Draw(t, "jan")
			parts := make([]string, n)
			for i := range parts {
				parts[i] = genJSONVal(depth-1).Draw(t, "je")
			}
			return "[" + strings.Join(parts, ",") + "]"
		default:
			n := rapid.IntRange(0, 3).Draw(t, "jon")
			parts := make([]string, 0, n)
			seen := map[string]bool{}
			for i := 0; i < n; i++ {
				k := rapid.SampledFrom([]string{"a", "b", "c", "", "k k", "é"}).Draw(t, "jk")
				if seen[k] {
					continue
				}
				seen[k] = true
				parts = append(parts, quote(k)+":"+genJSONVal(depth-1).Draw(t, "jv"))
			}
			return "{" + strings.Join(parts, ",") + "}"
		}
	})
}

// genLit draws a JSON literal for a field of the given kind ("null" included).
func genLit(kind string, noLossy bool) *rapid.Generator[string] {
	return rapid.Custom(func(t *rapid.T) string {
		if rapid.IntRange(0, 9).Draw(t, "null") == 0 {
			return "null"
		}
		base, isArr := baseKind(kind)
		one := func(label string) string {
			switch base {
			case "int":
				return genInt(noLossy).Draw(t, label)
			case "f64":
				return genF64().Draw(t, label)
			case "f32":
				return genF32().Draw(t, label)
			case "bool":
				return rapid.SampledFrom([]string{"true", "false"}).Draw(t, label)
			case "str":
				return genStr().Draw(t, label)
			case "time":
				return genTime().Draw(t, label)
			case "blob":
				return genBlob().Draw(t, label)
			case "json":
				return genJSONVal(2).Draw(t, label)
			}
			panic(base)
		}
		if !isArr {
			return one("v")
		}
		nullable := kind == "a_int" || kind == "a_f64" || kind == "a_str" || kind == "a_bool"
		n := rapid.IntRange(0, 4).Draw(t, "alen")
		parts := make([]string, n)
		for i := range parts {
			switch {
			case nullable && rapid.IntRange(0, 3).Draw(t, "enull") == 0:
				parts[i] = "null"
			case i > 0 && rapid.IntRange(0, 4).Draw(t, "edup") == 0:
				parts[i] = parts[i-1]
			default:
				parts[i] = one("e")
			}
		}
		return "[" + strings.Join(parts, ",") + "]"
	})
}

func genLink() *rapid.Generator[Link] {
	return rapid.Custom(func(t *rapid.T) Link {
		switch m := rapid.IntRange(0, 9).Draw(t, "lm"); {
		case m < 2:
			return Link{Mode: "none"}
		case m < 9:
			return Link{Mode: "doc", T: rapid.IntRange(0, 30).Draw(t, "lt")}
		default:
			return Link{Mode: "missing", T: rapid.IntRange(0, 3).Draw(t, "lt")}
		}
	})
}

func drawCase(t *rapid.T) Case {
	var c Case
	c.NoLossy = rapid.Bool().Draw(t, "noLossy") && rec.IsKnown(sigLossy)
	c.NoChain = rapid.Bool().Draw(t, "noChain") && (rec.IsKnown(sigChain) || rec.IsKnown(sigCycle) || rec.IsKnown(sigTwoSelf))
	c.NoDel = rapid.Bool().Draw(t, "noDel") && (rec.IsKnown(sigDeleted) || rec.IsKnown(sigExportPanic))
	nc := rapid.SampledFrom([]int{1, 2, 2, 2, 3, 3, 4}).Draw(t, "ncols")
	for i := 0; i < nc; i++ {
		nf := rapid.IntRange(0, 5).Draw(t, "nfields")
		col := Col{Fields: []Field{}}
		for j := 0; j < nf; j++ {
			col.Fields = append(col.Fields, Field{Kind: rapid.SampledFrom(kinds).Draw(t, "kind")})
		}
		c.Cols = append(c.Cols, col)
	}
	nr := rapid.IntRange(0, 3).Draw(t, "nrels")
	if nc > 1 {
		nr = rapid.IntRange(1, 4).Draw(t, "nrels2")
	}
	c.Rels = []Rel{}
	for i := 0; i < nr; i++ {
		r := Rel{From: rapid.IntRange(0, nc-1).Draw(t, "from"), Many: rapid.Bool().Draw(t, "many")}
		if nc == 1 || rapid.IntRange(0, 2).Draw(t, "selfrel") == 0 {
			r.To = r.From
		} else {
			// another collection (a relation into the own collection is drawn above)
			r.To = (r.From + 1 + rapid.IntRange(0, nc-2).Draw(t, "to")) % nc
		}
		c.Rels = append(c.Rels, r)
	}
	sch := buildSchema(c)
	ns := rapid.IntRange(0, 26).Draw(t, "nsteps")
	c.Steps = []Step{}
	createdCols := []int{}
	for i := 0; i < ns; i++ {
		var s Step
		switch m := rapid.IntRange(0, 39).Draw(t, "op"); {
		case m < 23 || i < 2:
			s.Op = "create"
			s.Col = rapid.IntRange(0, nc-1).Draw(t, "col")
			createdCols = append(createdCols, s.Col)
			ci := sch.cols[s.Col]
			for _, k := range ci.kinds {
				if rapid.IntRange(0, 5).Draw(t, "omit") == 0 {
					s.Vals = append(s.Vals, "")
				} else {
					s.Vals = append(s.Vals, genLit(k, c.NoLossy).Draw(t, "val"))
				}
			}
			for range ci.prims {
				s.Links = append(s.Links, genLink().Draw(t, "link"))
			}
		case m < 29:
			s.Op = "set"
			s.Doc = rapid.IntRange(0, 30).Draw(t, "doc")
			s.Field = rapid.IntRange(0, 5).Draw(t, "field")
			// the kind of the addressed field is only known at run time: draw a literal for the kind
			// the addressed document has if every earlier create succeeds (otherwise the step may be a no-op)
			s.Lits = map[string]string{}
			if len(createdCols) > 0 {
				ci := sch.cols[createdCols[s.Doc%len(createdCols)]]
				if len(ci.kinds) > 0 {
					k := ci.kinds[s.Field%len(ci.kinds)]
					s.Lits[k] = genLit(k, c.NoLossy).Draw(t, "lit")
				}
			}
		case m < 38:
			s.Op = "link"
			s.Doc = rapid.IntRange(0, 30).Draw(t, "doc")
			s.Rel = rapid.IntRange(0, 3).Draw(t, "rel")
			if rapid.IntRange(0, 2).Draw(t, "selflink") == 0 {
				s.Link = Link{Mode: "self"}
			} else {
				s.Link = genLink().Draw(t, "link")
			}
		default:
			s.Op = "del"
			s.Doc = rapid.IntRange(0, 30).Draw(t, "doc")
		}
		c.Steps = append(c.Steps, s)
	}
	c.Pretty = rapid.Bool().Draw(t, "pretty")
	if nc > 1 && rapid.IntRange(0, 2).Draw(t, "subset") == 0 {
		perm := rapid.Permutation(seq(nc)).Draw(t, "perm")
		n := rapid.IntRange(1, nc).Draw(t, "nsub")
		c.Subset = perm[:n]
	}
	c.Atomic = Atomic{
		Kind: rapid.SampledFrom([]string{"dup", "badfield", "badtype", "badcol", "trunc"}).Draw(t, "atomic"),
		Pos:  rapid.IntRange(0, 1000).Draw(t, "apos"),
	}
	return c
}

func seq(n int) []int {
	out := make([]int, n)
	for i := range out {
		out[i] = i
	}
	return out
}

// ---------------------------------------------------------------------------------------------
// Applying the history to the source node

type docRef struct {
	col int
	id  string
}

type srcState struct {
	created  []docRef
	byCol    [][]string
	fk       map[string]map[string]string // model of accepted foreign keys: doc -> field -> target
	rejected int
	applied  int
}

func (st *srcState) hasFK(id string) bool {
	for _, v := range st.fk[id] {
		if v != "" {
			return true
		}
	}
	return false
}

func (st *srcState) referencedByOther(id string) bool {
	for d, m := range st.fk {
		if d == id {
			continue
		}
		for _, v := range m {
			if v == id {
				return true
			}
		}
	}
	return false
}

func missingID(i int) string {
	return fmt.Sprintf("bae-%08x-dead-5eef-8000-00000000000%d", 0xabcdef00+i, i%10)
}

func (st *srcState) resolve(l Link, toCol int, self string, noChain bool) (string, bool) {
	switch l.Mode {
	case "doc":
		ids := st.byCol[toCol]
		if len(ids) == 0 {
			return "", false
		}
		id := ids[l.T%len(ids)]
		if noChain && (st.hasFK(id) || (self != "" && st.referencedByOther(self))) {
			return "", false
		}
		return id, true
	case "missing":
		return missingID(l.T), true
	case "self":
		if self == "" {
			return "", false
		}
		if noChain && (st.hasFK(self) || st.referencedByOther(self)) {
			return "", false
		}
		return self, true
	}
	return "", false
}

func applySteps(n *hx.Node, sch schema, c Case) *srcState {
	st := &srcState{byCol: make([][]string, len(sch.cols)), fk: map[string]map[string]string{}}
	cols := make([]client.Collection, len(sch.cols))
	for i, ci := range sch.cols {
		col, err := n.DB.GetCollectionByName(n.Ctx, ci.name)
		if err != nil {
			hx.Harnessf("collection %s: %v", ci.name, err)
		}
		cols[i] = col
	}
	for si, s := range c.Steps {
		switch s.Op {
		case "create":
			ci := sch.cols[s.Col%len(sch.cols)]
			colIdx := s.Col % len(sch.cols)
			parts := []string{fmt.Sprintf(`"k":%d`, si)}
			for j, f := range ci.fields {
				if j < len(s.Vals) && s.Vals[j] != "" {
					parts = append(parts, quote(f)+":"+s.Vals[j])
				}
			}
			links := map[string]string{}
			for j, p := range ci.prims {
				if j >= len(s.Links) {
					break
				}
				if id, ok := st.resolve(s.Links[j], p.to, "", c.NoChain); ok {
					parts = append(parts, quote(p.field+"_id")+":"+quote(id))
					links[p.field] = id
				}
			}
			js := "{" + strings.Join(parts, ",") + "}"
			doc, err := client.NewDocFromJSON([]byte(js), cols[colIdx].Definition())
			if err != nil {
				st.rejected++
				continue
			}
			if err := cols[colIdx].Create(n.Ctx, doc); err != nil {
				st.rejected++
				continue
			}
			id := doc.ID().String()
			st.created = append(st.created, docRef{col: colIdx, id: id})
			st.byCol[colIdx] = append(st.byCol[colIdx], id)
			st.fk[id] = links
			st.applied++
		case "set", "link", "del":
			if len(st.created) == 0 {
				continue
			}
			d := st.created[s.Doc%len(st.created)]
			ci := sch.cols[d.col]
			docID, err := client.NewDocIDFromString(d.id)
			if err != nil {
				hx.Harnessf("doc id %q: %v", d.id, err)
			}
			if s.Op == "del" {
				if c.NoDel {
					continue
				}
				if _, err := cols[d.col].Delete(n.Ctx, docID); err != nil {
					st.rejected++
				} else {
					st.applied++
				}
				continue
			}
			var patch, fld, tgt string
			if s.Op == "set" {
				if len(ci.fields) == 0 {
					continue
				}
				j := s.Field % len(ci.fields)
				lit, ok := s.Lits[ci.kinds[j]]
				if !ok {
					continue
				}
				patch = "{" + quote(ci.fields[j]) + ":" + lit + "}"
			} else {
				if len(ci.prims) == 0 {
					continue
				}
				p := ci.prims[s.Rel%len(ci.prims)]
				l := s.Link
				if l.Mode == "self" {
					// a self reference needs a relation into the own collection: take the next such one
					found := false
					for off := 0; off < len(ci.prims); off++ {
						if q := ci.prims[(s.Rel+off)%len(ci.prims)]; q.to == d.col {
							p, found = q, true
							break
						}
					}
					if !found {
						l = Link{Mode: "doc", T: 0}
					}
				}
				fld = p.field
				if l.Mode == "none" {
					patch = "{" + quote(p.field+"_id") + ":null}"
				} else {
					id, ok := st.resolve(l, p.to, d.id, c.NoChain)
					if !ok {
						continue
					}
					tgt = id
					patch = "{" + quote(p.field+"_id") + ":" + quote(id) + "}"
				}
			}
			doc, err := cols[d.col].Get(n.Ctx, docID, false)
			if err != nil {
				st.rejected++ // deleted
				continue
			}
			if err := doc.SetWithJSON([]byte(patch)); err != nil {
				st.rejected++
				continue
			}
			if err := cols[d.col].Update(n.Ctx, doc); err != nil {
				st.rejected++
				continue
			}
			if fld != "" {
				st.fk[d.id][fld] = tgt
			}
			st.applied++
		}
	}
	return st
}

// ---------------------------------------------------------------------------------------------
// Dumps

type row map[string]any

type dump map[string]map[string]row // collection -> docID -> row

func dumpNode(n *hx.Node, sch schema) dump {
	out := dump{}
	for _, ci := range sch.cols {
		sel := []string{"_docID", "k"}
		sel = append(sel, ci.fields...)
		for _, p := range ci.prims {
			sel = append(sel, p.field+"_id")
		}
		for _, q := range ci.secs {
			sel = append(sel, q.field+" { _docID }")
		}
		q := fmt.Sprintf("query { %s { %s } }", ci.name, strings.Join(sel, " "))
		r := n.Exec(q)
		if !r.OK() {
			hx.Harnessf("dump query failed: %s: %s %s", q, r.Err(), r.Panic)
		}
		m := map[string]row{}
		for _, x := range r.Rows(ci.name) {
			id, _ := x["_docID"].(string)
			if id == "" {
				hx.Harnessf("row without _docID: %v", x)
			}
			if _, dup := m[id]; dup {
				hx.Harnessf("dump of %s lists %s twice", ci.name, id)
			}
			m[id] = row(x)
		}
		out[ci.name] = m
	}
	return out
}

func secIDs(v any) []string {
	out := []string{}
	switch x := v.(type) {
	case nil:
	case map[string]any:
		if s, ok := x["_docID"].(string); ok {
			out = append(out, s)
		}
	case []any:
		for _, e := range x {
			if m, ok := e.(map[string]any); ok {
				if s, ok := m["_docID"].(string); ok {
					out = append(out, s)
				}
			}
		}
	}
	sort.Strings(out)
	return out
}

func rawDump(n *hx.Node) string {
	var store corekv.Reader = n.DB.Rootstore()
	it, err := store.Iterator(context.Background(), corekv.IterOptions{})
	if err != nil {
		hx.Harnessf("raw iterator: %v", err)
	}
	var sb strings.Builder
	cnt := 0
	for {
		ok, err := it.Next()
		if err != nil {
			_ = it.Close()
			hx.Harnessf("raw next: %v", err)
		}
		if !ok {
			break
		}
		v, err := it.Value()
		if err != nil {
			_ = it.Close()
			hx.Harnessf("raw value: %v", err)
		}
		fmt.Fprintf(&sb, "%q=%x\n", it.Key(), v)
		cnt++
	}
	_ = it.Close()
	return sb.String()
}

// ---------------------------------------------------------------------------------------------
// Typed value comparison (numbers exact)

func num(v any) (string, bool) {
	switch x := v.(type) {
	case json.Number:
		return x.String(), true
	case float64:
		return strconv.FormatFloat(x, 'g', -1, 64), true
	}
	return "", false
}

func eqVal(kind string, a, b any) bool {
	if a == nil || b == nil {
		return a == nil && b == nil
	}
	if base, isArr := baseKind(kind); isArr {
		x, ok1 := a.([]any)
		y, ok2 := b.([]any)
		if !ok1 || !ok2 || len(x) != len(y) {
			return false
		}
		for i := range x {
			if !eqVal(base, x[i], y[i]) {
				return false
			}
		}
		return true
	}
	switch kind {
	case "int":
		s1, ok1 := num(a)
		s2, ok2 := num(b)
		if !ok1 || !ok2 {
			return false
		}
		i1, ok1 := new(big.Int).SetString(s1, 10)
		i2, ok2 := new(big.Int).SetString(s2, 10)
		if !ok1 || !ok2 {
			// not written as an integer: compare as exact decimal text via big.Float
			f1, _, e1 := big.ParseFloat(s1, 10, 200, big.ToNearestEven)
			f2, _, e2 := big.ParseFloat(s2, 10, 200, big.ToNearestEven)
			return e1 == nil && e2 == nil && f1.Cmp(f2) == 0
		}
		return i1.Cmp(i2) == 0
	case "f64", "f32":
		s1, ok1 := num(a)
		s2, ok2 := num(b)
		if !ok1 || !ok2 {
			return false
		}
		bits := 64
		if kind == "f32" {
			bits = 32
		}
		f1, e1 := strconv.ParseFloat(s1, bits)
		f2, e2 := strconv.ParseFloat(s2, bits)
		if e1 != nil || e2 != nil {
			return false
		}
		return math.Float64bits(f1) == math.Float64bits(f2)
	case "bool":
		x, ok1 := a.(bool)
		y, ok2 := b.(bool)
		return ok1 && ok2 && x == y
	case "str", "blob", "id":
		x, ok1 := a.(string)
		y, ok2 := b.(string)
		return ok1 && ok2 && x == y
	case "time":
		x, ok1 := a.(string)
		y, ok2 := b.(string)
		if !ok1 || !ok2 {
			return false
		}
		if x == y {
			return true
		}
		t1, e1 := time.Parse(time.RFC3339Nano, x)
		t2, e2 := time.Parse(time.RFC3339Nano, y)
		if e1 != nil || e2 != nil {
			return false
		}
		_, o1 := t1.Zone()
		_, o2 := t2.Zone()
		return t1.Equal(t2) && o1 == o2
	case "json":
		return eqJSON(a, b)
	}
	panic(kind)
}

func eqJSON(a, b any) bool {
	switch x := a.(type) {
	case nil:
		return b == nil
	case bool:
		y, ok := b.(bool)
		return ok && x == y
	case string:
		y, ok := b.(string)
		return ok && x == y
	case json.Number, float64:
		if _, ok := num(b); !ok {
			return false
		}
		return eqVal("f64", a, b)
	case []any:
		y, ok := b.([]any)
		if !ok || len(x) != len(y) {
			return false
		}
		for i := range x {
			if !eqJSON(x[i], y[i]) {
				return false
			}
		}
		return true
	case map[string]any:
		y, ok := b.(map[string]any)
		if !ok || len(x) != len(y) {
			return false
		}
		for k, v := range x {
			w, ok := y[k]
			if !ok || !eqJSON(v, w) {
				return false
			}
		}
		return true
	}
	return false
}

func show(v any) string {
	b, err := json.Marshal(v)
	if err != nil {
		return fmt.Sprintf("%v", v)
	}
	if len(b) > 200 {
		return string(b[:200]) + "…"
	}
	return string(b)
}

// ---------------------------------------------------------------------------------------------
// The export file

type fileDoc struct {
	col    string
	pos    int // global position in the file
	old    string
	new    string
	fields map[string]any
}

type exportFile struct {
	order []string // collection names in file order
	docs  map[string][]*fileDoc
	byOld map[string]*fileDoc
}

func parseFile(path string) (*exportFile, error) {
	raw, err := os.ReadFile(path)
	if err != nil {
		return nil, err
	}
	if !json.Valid(raw) {
		return nil, fmt.Errorf("file is not valid JSON")
	}
	dec := json.NewDecoder(bytes.NewReader(raw))
	dec.UseNumber()
	tok, err := dec.Token()
	if err != nil || tok != json.Delim('{') {
		return nil, fmt.Errorf("file does not start with an object: %v %v", tok, err)
	}
	ef := &exportFile{docs: map[string][]*fileDoc{}, byOld: map[string]*fileDoc{}}
	pos := 0
	for dec.More() {
		tok, err := dec.Token()
		if err != nil {
			return nil, err
		}
		name, ok := tok.(string)
		if !ok {
			return nil, fmt.Errorf("collection key is %v", tok)
		}
		if _, dup := ef.docs[name]; dup {
			return nil, fmt.Errorf("collection %s listed twice", name)
		}
		var arr []map[string]any
		if err := dec.Decode(&arr); err != nil {
			return nil, fmt.Errorf("collection %s: %v", name, err)
		}
		ef.order = append(ef.order, name)
		ef.docs[name] = []*fileDoc{}
		for _, m := range arr {
			fd := &fileDoc{col: name, pos: pos, fields: m}
			pos++
			fd.old, _ = m["_docID"].(string)
			fd.new, _ = m["_docIDNew"].(string)
			ef.docs[name] = append(ef.docs[name], fd)
		}
	}
	return ef, nil
}

func writeFile(path string, order []string, docs map[string][]map[string]any, tail string) {
	var sb strings.Builder
	sb.WriteString("{")
	for i, name := range order {
		if i > 0 {
			sb.WriteString(",")
		}
		sb.WriteString(quote(name) + ":[")
		for j, d := range docs[name] {
			if j > 0 {
				sb.WriteString(",")
			}
			b, err := json.Marshal(d)
			if err != nil {
				hx.Harnessf("marshal: %v", err)
			}
			sb.Write(b)
		}
		sb.WriteString("]")
	}
	sb.WriteString(tail)
	sb.WriteString("}")
	if err := os.WriteFile(path, []byte(sb.String()), 0o644); err != nil {
		hx.Harnessf("write %s: %v", path, err)
	}
}

// ---------------------------------------------------------------------------------------------
// run

type info struct {
	labels     []string
	nontrivial bool
}

func (in *info) label(l string) {
	for _, x := range in.labels {
		if x == l {
			return
		}
	}
	in.labels = append(in.labels, l)
}

type finding struct {
	sig string
	msg string
}

type findings struct {
	list []finding
}

func (fs *findings) add(sig, format string, args ...any) {
	fs.list = append(fs.list, finding{sig: sig, msg: fmt.Sprintf(format, args...)})
}

// verdict: an undiagnosed discrepancy wins over a diagnosed one, so that a listed finding
// never hides a different violation in the same case.
func (fs *findings) verdict() *hx.Failure {
	diagnosed := map[string]bool{sigLossy: true, sigChain: true, sigCycle: true, sigDeleted: true, sigExportPanic: true, sigTwoSelf: true}
	for _, f := range fs.list {
		if !diagnosed[f.sig] {
			return hx.Failf(f.sig, "%s", f.msg)
		}
	}
	for _, f := range fs.list {
		if !rec.IsKnown(f.sig) {
			return hx.Failf(f.sig, "%s", f.msg)
		}
	}
	if len(fs.list) > 0 {
		return hx.Failf(fs.list[0].sig, "%s", fs.list[0].msg)
	}
	return nil
}

func edgeNumber(kind string, v any) bool {
	if v == nil {
		return false
	}
	if base, isArr := baseKind(kind); isArr {
		arr, _ := v.([]any)
		for _, e := range arr {
			if edgeNumber(base, e) {
				return true
			}
		}
		return false
	}
	switch kind {
	case "int":
		s, _ := num(v)
		i, ok := new(big.Int).SetString(s, 10)
		return ok && i.CmpAbs(big.NewInt(1<<31)) >= 0
	case "f64", "f32":
		s, _ := num(v)
		f, err := strconv.ParseFloat(s, 64)
		if err != nil {
			return false
		}
		return f != math.Trunc(f) || math.Abs(f) >= 1e15 || (f == 0 && math.Signbit(f))
	case "time":
		s, _ := v.(string)
		t, err := time.Parse(time.RFC3339Nano, s)
		return err == nil && t.Nanosecond() != 0
	}
	return false
}

// lossyIn reports whether an Int (or element of an Int array) of the value is not exact in float64.
func lossyIn(kind string, v any) bool {
	if v == nil {
		return false
	}
	if base, isArr := baseKind(kind); isArr {
		arr, _ := v.([]any)
		for _, e := range arr {
			if lossyIn(base, e) {
				return true
			}
		}
		return false
	}
	if kind != "int" {
		return false
	}
	s, _ := num(v)
	i, err := strconv.ParseInt(s, 10, 64)
	return err == nil && lossyInt(i)
}

func run(c Case) (*hx.Failure, *info) {
	in := &info{}
	if len(c.Cols) == 0 {
		hx.Harnessf("case without collections")
	}
	sch := buildSchema(c)
	src := hx.MustMemNode()
	defer src.Close()
	if _, err := src.DB.AddSchema(src.Ctx, sch.sdl); err != nil {
		hx.Harnessf("generated schema rejected: %v\n%s", err, sch.sdl)
	}
	st := applySteps(src, sch, c)
	if st.rejected > 0 {
		in.label("some-op-rejected-by-source")
	}
	srcDump := dumpNode(src, sch)

	colByName := map[string]*colInfo{}
	for i := range sch.cols {
		colByName[sch.cols[i].name] = &sch.cols[i]
	}
	exported := map[string]bool{}
	cfg := &client.BackupConfig{Pretty: c.Pretty}
	if len(c.Subset) > 0 {
		for _, i := range c.Subset {
			name := sch.cols[i%len(sch.cols)].name
			if !exported[name] {
				exported[name] = true
				cfg.Collections = append(cfg.Collections, name)
			}
		}
		if len(exported) < len(sch.cols) {
			in.label("collection-subset")
		}
	} else {
		for _, ci := range sch.cols {
			exported[ci.name] = true
		}
	}
	if c.Pretty {
		in.label("pretty")
	} else {
		in.label("compact")
	}

	dir, rm := hx.Scratch("c18")
	defer rm()
	file1 := filepath.Join(dir, "export1.json")
	cfg.Filepath = file1
	deletedIn := deletedDocs(src, sch)
	delExported := 0
	for name, n := range deletedIn {
		if exported[name] {
			delExported += n
		}
	}
	if delExported > 0 {
		in.label("exported-collection-holds-deleted-doc")
	}
	if err, pmsg := safeExport(src, cfg); err != nil || pmsg != "" {
		switch {
		case pmsg != "" && strings.Contains(pmsg, "Unclosed iterator at time of Txn.Discard") && strings.Contains(pmsg, "BasicExport"):
			return hx.Failf(sigExportPanic, "BasicExport(%v) panicked (deleted documents in exported collections: %d): %s", cfg.Collections, delExported, firstLines(pmsg, 14)), in
		case pmsg != "":
			return hx.Failf("C18/panic/"+hx.PanicSite(pmsg), "BasicExport(%v) panicked: %s", cfg.Collections, firstLines(pmsg, 30)), in
		case delExported > 0 && strings.Contains(err.Error(), "document not found or not authorized to access"):
			return hx.Failf(sigDeleted, "BasicExport(%v) failed with %q; %d deleted document(s) in the exported collections", cfg.Collections, err, delExported), in
		}
		return hx.Failf("C18/export/error", "BasicExport(%v) failed: %v", cfg.Collections, err), in
	}
	if _, err := os.Stat(file1 + ".temp"); err == nil {
		return hx.Failf("C18/export/temp-file-left", "export left %s.temp behind", file1), in
	}
	ef, err := parseFile(file1)
	if err != nil {
		return hx.Failf("C18/file/unparsable", "export file: %v", err), in
	}

	fs := &findings{}

	// ---- F: the file against the source ------------------------------------------------------
	for _, name := range ef.order {
		if !exported[name] {
			fs.add("C18/file/collection-not-requested", "file contains collection %s which was not requested (%v)", name, cfg.Collections)
		}
	}
	mapping := map[string]string{} // old -> new
	newIDs := map[string]*fileDoc{}
	for name := range exported {
		docs, ok := ef.docs[name]
		if !ok {
			fs.add("C18/file/collection-missing", "file lacks requested collection %s", name)
			continue
		}
		for _, fd := range docs {
			if fd.old == "" || fd.new == "" {
				fs.add("C18/file/doc-without-ids", "document in %s lacks _docID/_docIDNew: %s", name, show(fd.fields))
				continue
			}
			if _, dup := ef.byOld[fd.old]; dup {
				fs.add("C18/file/doc-twice", "document %s appears twice in the file", fd.old)
				continue
			}
			ef.byOld[fd.old] = fd
			mapping[fd.old] = fd.new
			if other, dup := newIDs[fd.new]; dup {
				fs.add("C18/file/docIDNew-not-injective", "documents %s and %s share _docIDNew %s", other.old, fd.old, fd.new)
			}
			newIDs[fd.new] = fd
			if _, ok := srcDump[name][fd.old]; !ok {
				fs.add("C18/file/unknown-doc", "file lists %s in %s which the source does not show", fd.old, name)
			}
		}
		for id := range srcDump[name] {
			if _, ok := ef.byOld[id]; !ok {
				fs.add("C18/file/doc-missing", "source document %s of %s is not in the file", id, name)
			}
		}
	}
	if len(fs.list) > 0 {
		return fs.verdict(), in
	}

	// source reference graph restricted to exported live documents
	srcFK := func(name, id, fld string) string {
		s, _ := srcDump[name][id][fld+"_id"].(string)
		return s
	}
	colOfDoc := map[string]string{}
	for name, m := range srcDump {
		for id := range m {
			colOfDoc[id] = name
		}
	}
	hasFK := func(id string) bool {
		ci := colByName[colOfDoc[id]]
		if ci == nil {
			return false
		}
		for _, p := range ci.prims {
			if srcFK(ci.name, id, p.field) != "" {
				return true
			}
		}
		return false
	}
	reaches := func(from, to string) bool {
		seen := map[string]bool{}
		stack := []string{from}
		for len(stack) > 0 {
			x := stack[len(stack)-1]
			stack = stack[:len(stack)-1]
			if seen[x] {
				continue
			}
			seen[x] = true
			ci := colByName[colOfDoc[x]]
			if ci == nil || !exported[ci.name] {
				continue
			}
			for _, p := range ci.prims {
				if v := srcFK(ci.name, x, p.field); v != "" {
					if v == to {
						return true
					}
					stack = append(stack, v)
				}
			}
		}
		return false
	}

	selfRefs := func(name, id string) int {
		n := 0
		for _, p := range colByName[name].prims {
			if srcFK(name, id, p.field) == id {
				n++
			}
		}
		return n
	}
	// leadsToCycle: following foreign keys from v one arrives at a document that lies on a cycle of
	// at least two documents (a plain self reference is not a cycle in this sense).
	leadsToCycle := func(v string) bool {
		seen := map[string]bool{}
		stack := []string{v}
		for len(stack) > 0 {
			x := stack[len(stack)-1]
			stack = stack[:len(stack)-1]
			if seen[x] {
				continue
			}
			seen[x] = true
			ci := colByName[colOfDoc[x]]
			if ci == nil || !exported[ci.name] {
				continue
			}
			for _, p := range ci.prims {
				w := srcFK(ci.name, x, p.field)
				if w == "" || w == x {
					continue
				}
				if reaches(w, x) {
					return true
				}
				stack = append(stack, w)
			}
		}
		return false
	}

	lossyDoc := map[string]bool{}  // old ids of documents holding an Int that float64 cannot hold
	taintedFK := map[string]bool{} // old id + "/" + field: foreign key explained by a diagnosed finding
	anyTaint := false
	idChanged := 0
	for name := range exported {
		ci := colByName[name]
		for _, fd := range ef.docs[name] {
			srow := srcDump[name][fd.old]
			if fd.old != fd.new {
				idChanged++
			}
			// scalar fields
			if !eqVal("int", srow["k"], fd.fields["k"]) {
				fs.add("C18/file/field-differs/int", "%s %s: k is %s in the source, %s in the file", name, fd.old, show(srow["k"]), show(fd.fields["k"]))
			}
			for j, f := range ci.fields {
				kind := ci.kinds[j]
				if !eqVal(kind, srow[f], fd.fields[f]) {
					fs.add("C18/file/field-differs/"+kind, "%s %s: field %s (%s) is %s in the source, %s in the file", name, fd.old, f, sdlType(kind), show(srow[f]), show(fd.fields[f]))
				}
				if lossyIn(kind, fd.fields[f]) {
					lossyDoc[fd.old] = true
				}
				if edgeNumber(kind, srow[f]) {
					in.label("edge-number-or-ns-time")
				}
				classify(in, kind, srow[f])
			}
			// foreign keys
			for _, p := range ci.prims {
				v := srcFK(name, fd.old, p.field)
				got, _ := fd.fields[p.field+"_id"].(string)
				if v == "" {
					if got != "" {
						fs.add("C18/file/foreign-key-invented", "%s %s: %s_id is null in the source, %q in the file", name, fd.old, p.field, got)
					}
					continue
				}
				tcol := sch.cols[p.to].name
				want, ok := mapping[v]
				if !ok {
					// target not in the file: null or unchanged are both acceptable
					if _, live := srcDump[tcol][v]; live {
						in.label("link-to-unexported-collection")
					} else {
						in.label("link-to-deleted-or-missing")
					}
					if got != "" && got != v {
						fs.add("C18/file/foreign-key-to-unexported-rewritten", "%s %s: %s_id points to %s (not exported); file has %q", name, fd.old, p.field, v, got)
					}
					continue
				}
				if c.Rels[p.rel].Many {
					in.label("link-of-1-N-relation")
				} else {
					in.label("link-of-1-1-relation")
				}
				if v == fd.old {
					in.label("self-reference")
				} else if tcol == name {
					in.label("link-within-collection")
				} else {
					in.label("link-crossing-collections")
				}
				if v != want {
					in.label("link-to-doc-whose-id-changes")
				}
				if hasFK(v) && v != fd.old {
					in.label("chain-of-links")
				}
				if got == want {
					continue
				}
				// diagnose
				target := ef.byOld[v]
				switch {
				case v == fd.old && selfRefs(name, fd.old) >= 2:
					fs.add(sigTwoSelf, "%s %s references itself through %d fields; %s_id is %q in the file, its _docIDNew is %q", name, fd.old, selfRefs(name, fd.old), p.field, got, want)
					taintedFK[fd.old+"/"+p.field] = true
					anyTaint = true
				case v != fd.old && (reaches(v, fd.old) || leadsToCycle(v)):
					// on a cycle, or upstream of one: the new id of v depends on ids that cannot be made consistent
					fs.add(sigCycle, "%s %s: %s_id -> %s lies on, or leads to, a reference cycle of two or more documents; file has %q, mapping promises %q", name, fd.old, p.field, v, got, want)
					taintedFK[fd.old+"/"+p.field] = true
					anyTaint = true
				case target != nil && v != fd.old && hasFK(v) && (fd.pos < target.pos || target.old == target.new):
					// the export had no (correct) cached new id for v when it wrote this foreign key: v was not
					// exported yet, or it was exported with an unchanged id (only changed ids are cached)
					fs.add(sigChain, "%s %s (file position %d): %s_id -> %s (position %d, id changes: %v, has a foreign key of its own); file has %q which is not the _docIDNew %q of the target",
						name, fd.old, fd.pos, p.field, v, target.pos, target.old != target.new, got, want)
					taintedFK[fd.old+"/"+p.field] = true
					anyTaint = true
				default:
					fs.add("C18/file/foreign-key-not-mapped", "%s %s: %s_id is %s in the source whose _docIDNew is %q; file has %q", name, fd.old, p.field, v, want, got)
					taintedFK[fd.old+"/"+p.field] = true
				}
			}
		}
	}
	if idChanged > 0 {
		in.label("some-docID-changes")
	}
	if len(lossyDoc) > 0 {
		in.label("int-not-exact-in-float64")
	}
	for _, l := range in.labels {
		if l == "link-crossing-collections" {
			for _, m := range in.labels {
				if m == "edge-number-or-ns-time" {
					in.nontrivial = true
				}
			}
		}
	}
	for _, f := range fs.list {
		if f.sig != sigChain && f.sig != sigCycle && f.sig != sigTwoSelf {
			return fs.verdict(), in
		}
	}

	// ---- A: atomicity of a failing import into the fresh target ----------------------------
	tgt := hx.MustMemNode()
	defer tgt.Close()
	if _, err := tgt.DB.AddSchema(tgt.Ctx, sch.sdl); err != nil {
		hx.Harnessf("schema rejected by the target: %v", err)
	}
	if f := atomicity(c, sch, tgt, ef, dir, in); f != nil {
		return f, in
	}

	// ---- T: import and compare ---------------------------------------------------------------
	if err := tgt.DB.BasicImport(tgt.Ctx, file1); err != nil {
		// an import error is only diagnosed when a lossy integer makes two documents collide or similar
		sig := "C18/import/error"
		fs.add(sig, "BasicImport of the exported file failed: %v", err)
		return fs.verdict(), in
	}
	tgtDump := dumpNode(tgt, sch)
	for _, ci := range sch.cols {
		name := ci.name
		if !exported[name] {
			if len(tgtDump[name]) != 0 {
				fs.add("C18/target/unexported-collection-not-empty", "%s was not exported but the target holds %d documents", name, len(tgtDump[name]))
			}
			continue
		}
		if len(tgtDump[name]) != len(ef.docs[name]) {
			fs.add("C18/target/count", "%s: file has %d documents, target shows %d", name, len(ef.docs[name]), len(tgtDump[name]))
		}
		tgtByK := map[string]row{}
		for _, r := range tgtDump[name] {
			if s, ok := num(r["k"]); ok {
				tgtByK[s] = r
			}
		}
		for _, fd := range ef.docs[name] {
			srow := srcDump[name][fd.old]
			trow, ok := tgtDump[name][fd.new]
			if !ok {
				if lossyDoc[fd.old] && lossyExplains(&ci, srow, tgtByK) {
					fs.add(sigLossy, "%s %s holds an Int that float64 cannot represent; the target has no document %s (the imported copy has a rounded value and another id)", name, fd.old, fd.new)
					anyTaint = true
					continue
				}
				detail := "no document with the same key k either"
				if ks, ok := num(srow["k"]); ok {
					if other, ok := tgtByK[ks]; ok {
						diffs := []string{}
						for j, f := range ci.fields {
							if !eqVal(ci.kinds[j], srow[f], other[f]) {
								diffs = append(diffs, fmt.Sprintf("%s (%s): %s -> %s", f, sdlType(ci.kinds[j]), show(srow[f]), show(other[f])))
							}
						}
						for _, p := range ci.prims {
							diffs = append(diffs, fmt.Sprintf("%s_id: %s -> %s", p.field, show(srow[p.field+"_id"]), show(other[p.field+"_id"])))
						}
						detail = fmt.Sprintf("the document with the same key k is %v; differing fields / foreign keys: %s", other["_docID"], strings.Join(diffs, "; "))
					}
				}
				fs.add("C18/target/doc-missing-under-docIDNew", "%s: file promises %s -> %s but the target has no such document (source row %s); %s", name, fd.old, fd.new, show(srow), detail)
				continue
			}
			if !eqVal("int", srow["k"], trow["k"]) {
				fs.add("C18/target/field-differs/int", "%s %s->%s: k is %s in the source, %s in the target", name, fd.old, fd.new, show(srow["k"]), show(trow["k"]))
			}
			for j, f := range ci.fields {
				kind := ci.kinds[j]
				if !eqVal(kind, srow[f], trow[f]) && lossyIn(kind, srow[f]) && lossyImage(kind, srow[f], trow[f]) {
					// (the id of a document does not depend on the element values of a nillable-element array,
					// so such a document is found under its _docIDNew although a value changed)
					fs.add(sigLossy, "%s %s->%s: field %s (%s) is %s in the source, %s in the target: exactly the Ints that float64 cannot hold are rounded", name, fd.old, fd.new, f, sdlType(kind), show(srow[f]), show(trow[f]))
					anyTaint = true
					continue
				}
				if !eqVal(kind, srow[f], trow[f]) {
					fs.add("C18/target/field-differs/"+kind, "%s %s->%s: field %s (%s) is %s in the source, %s in the target", name, fd.old, fd.new, f, sdlType(kind), show(srow[f]), show(trow[f]))
				}
			}
			for _, p := range ci.prims {
				if taintedFK[fd.old+"/"+p.field] {
					continue
				}
				v := srcFK(name, fd.old, p.field)
				got, _ := trow[p.field+"_id"].(string)
				want, mapped := mapping[v]
				switch {
				case v == "":
					if got != "" {
						fs.add("C18/target/foreign-key-differs", "%s %s->%s: %s_id is null in the source, %q in the target", name, fd.old, fd.new, p.field, got)
					}
				case !mapped:
					if got != "" && got != v {
						fs.add("C18/target/foreign-key-differs", "%s %s->%s: %s_id -> %s (not in the file); target has %q", name, fd.old, fd.new, p.field, v, got)
					}
				case got != want:
					fs.add("C18/target/foreign-key-differs", "%s %s->%s: %s_id is %s in the source, expected %q in the target, got %q", name, fd.old, fd.new, p.field, v, want, got)
				}
			}
			// the relation read from the secondary side
			for _, q := range ci.secs {
				fromCol := sch.cols[q.from].name
				want := []string{}
				skipped := false
				optional := map[string]bool{} // holders touched by a diagnosed finding: may be absent, re-identified or present
				for _, holder := range secIDs(srow[q.field]) {
					if taintedFK[holder+"/"+q.pfld] || lossyDoc[holder] {
						skipped = true
						if n, ok := mapping[holder]; ok {
							optional[n] = true
						}
						continue
					}
					if n, ok := mapping[holder]; ok && exported[fromCol] {
						want = append(want, n)
					}
				}
				sort.Strings(want)
				got := []string{}
				for _, id := range secIDs(trow[q.field]) {
					if optional[id] {
						continue
					}
					if _, promised := newIDs[id]; skipped && !promised {
						continue // the re-identified copy of a document holding a rounded Int
					}
					got = append(got, id)
				}
				if lossyDoc[fd.old] {
					continue
				}
				if strings.Join(want, ",") != strings.Join(got, ",") {
					fs.add("C18/target/relation-from-secondary-side-differs", "%s %s->%s: %s lists %v in the source (mapped: %v), target lists %v", name, fd.old, fd.new, q.field, secIDs(srow[q.field]), want, got)
				}
			}
		}
	}
	for _, f := range fs.list {
		if f.sig != sigChain && f.sig != sigCycle && f.sig != sigLossy && f.sig != sigTwoSelf {
			return fs.verdict(), in
		}
	}

	// ---- R: exporting the target again gives an equivalent file ---------------------------
	file2 := filepath.Join(dir, "export2.json")
	// same configuration as the first export: with a wider one a foreign key into a collection that
	// was left out would legitimately be treated differently (its target collection is then known)
	if err := tgt.DB.BasicExport(tgt.Ctx, &client.BackupConfig{Filepath: file2, Pretty: c.Pretty, Collections: cfg.Collections}); err != nil {
		fs.add("C18/reexport/error", "BasicExport of the target failed: %v", err)
		return fs.verdict(), in
	}
	ef2, err := parseFile(file2)
	if err != nil {
		fs.add("C18/reexport/unparsable", "second export file: %v", err)
		return fs.verdict(), in
	}
	if !anyTaint && len(lossyDoc) == 0 {
		for _, name := range ef2.order {
			if !exported[name] {
				fs.add("C18/reexport/collection-not-requested", "second file contains %s which was not requested", name)
			}
		}
		second := map[string]*fileDoc{} // by _docID (an id of the target)
		for name := range exported {
			for _, fd := range ef2.docs[name] {
				if _, dup := second[fd.old]; dup {
					fs.add("C18/reexport/doc-twice", "%s: %s appears twice in the second file", name, fd.old)
				}
				second[fd.old] = fd
				if _, ok := newIDs[fd.old]; !ok {
					fs.add("C18/reexport/unknown-doc", "%s: second file lists %s which the first file did not promise", name, fd.old)
				}
			}
		}
		// a document of the target has a foreign key of its own (as written in the first file)?
		tgtHasFK := func(fd *fileDoc) bool {
			for _, p := range colByName[fd.col].prims {
				if s, _ := fd.fields[p.field+"_id"].(string); s != "" {
					return true
				}
			}
			return false
		}
		type mism struct {
			fd  *fileDoc
			msg string
		}
		mismatched := map[string]mism{} // by new id
		for name := range exported {
			for _, fd := range ef.docs[name] {
				fd2, ok := second[fd.new]
				switch {
				case !ok:
					fs.add("C18/reexport/doc-missing", "%s: %s (was %s) is not in the second file", name, fd.new, fd.old)
				case fd2.col != name:
					fs.add("C18/reexport/doc-in-other-collection", "%s: %s is listed under %s in the second file", name, fd.new, fd2.col)
				case fd2.old != fd2.new:
					mismatched[fd.new] = mism{fd, fmt.Sprintf("%s: re-exported document has _docID %s but _docIDNew %s", name, fd2.old, fd2.new)}
				case canonDoc(fd.fields, true) != canonDoc(fd2.fields, false):
					mismatched[fd.new] = mism{fd, fmt.Sprintf("%s: first export (ids mapped) %s, second export %s", name, canonDoc(fd.fields, true), canonDoc(fd2.fields, false))}
				}
			}
		}
		// diagnosis: the second export meets the ad-hoc id computation of sigChain wherever a document
		// references one that has a foreign key of its own (nothing is cached: no id changes);
		// a document whose id changed in the second export drags the documents referencing it along.
		explained := map[string]bool{}
		for changed := true; changed; {
			changed = false
			for id, m := range mismatched {
				if explained[id] {
					continue
				}
				for _, p := range colByName[m.fd.col].prims {
					v, _ := m.fd.fields[p.field+"_id"].(string)
					if v == "" || v == id {
						continue
					}
					if target, ok := newIDs[v]; ok && (tgtHasFK(target) || explained[v]) {
						explained[id] = true
						changed = true
					}
				}
			}
		}
		ids := make([]string, 0, len(mismatched))
		for id := range mismatched {
			ids = append(ids, id)
		}
		sort.Strings(ids)
		for _, id := range ids {
			if explained[id] {
				fs.add(sigChain, "second export: %s (references a document that has a foreign key of its own)", mismatched[id].msg)
			} else {
				fs.add("C18/reexport/differs", "%s", mismatched[id].msg)
			}
		}
	} else {
		in.label("reexport-comparison-skipped-by-diagnosed-finding")
	}
	return fs.verdict(), in
}

func firstLines(s string, n int) string {
	lines := strings.Split(s, "\n")
	if len(lines) > n {
		lines = lines[:n]
	}
	return strings.Join(lines, "\n")
}

// safeExport runs BasicExport and reports a panic of the code under test as text.
func safeExport(n *hx.Node, cfg *client.BackupConfig) (err error, panicMsg string) {
	defer func() {
		if p := recover(); p != nil {
			panicMsg = fmt.Sprintf("%v\n%s", p, debug.Stack())
		}
	}()
	return n.DB.BasicExport(n.Ctx, cfg), ""
}

// deletedDocs counts deleted documents per collection (GraphQL, showDeleted).
func deletedDocs(n *hx.Node, sch schema) map[string]int {
	out := map[string]int{}
	for _, ci := range sch.cols {
		q := fmt.Sprintf("query { %s(showDeleted: true) { _docID _deleted } }", ci.name)
		r := n.Exec(q)
		if !r.OK() {
			hx.Harnessf("query failed: %s: %s %s", q, r.Err(), r.Panic)
		}
		for _, x := range r.Rows(ci.name) {
			if d, _ := x["_deleted"].(bool); d {
				out[ci.name]++
			}
		}
	}
	return out
}

// canonDoc renders a file document canonically; with mapIDs the _docID is replaced by _docIDNew
// (the identity the second export must show). Null members are dropped (absent == null).
func canonDoc(m map[string]any, mapIDs bool) string {
	out := map[string]any{}
	for k, v := range m {
		if v == nil {
			continue
		}
		out[k] = v
	}
	if mapIDs {
		out["_docID"] = m["_docIDNew"]
	}
	b, err := json.Marshal(out)
	if err != nil {
		hx.Harnessf("canon: %v", err)
	}
	return string(b)
}

// lossyExplains: the target holds a document with the same key k whose fields equal the source's
// except for Int values that float64 cannot hold.
func lossyExplains(ci *colInfo, srow row, tgtByK map[string]row) bool {
	ks, ok := num(srow["k"])
	if !ok {
		return false
	}
	trow, ok := tgtByK[ks]
	if !ok {
		return false
	}
	for j, f := range ci.fields {
		kind := ci.kinds[j]
		if eqVal(kind, srow[f], trow[f]) {
			continue
		}
		if !lossyImage(kind, srow[f], trow[f]) {
			return false
		}
	}
	return true
}

// lossyImage: tgt equals src except that every Int which float64 cannot hold exactly appears as its
// float64 image (for |x| rounding up to 2^63 the conversion back is implementation-defined: either end).
func lossyImage(kind string, src, tgt any) bool {
	if src == nil || tgt == nil {
		return src == nil && tgt == nil
	}
	if base, isArr := baseKind(kind); isArr {
		x, ok1 := src.([]any)
		y, ok2 := tgt.([]any)
		if !ok1 || !ok2 || len(x) != len(y) {
			return false
		}
		for i := range x {
			if !lossyImage(base, x[i], y[i]) {
				return false
			}
		}
		return true
	}
	if kind != "int" {
		return eqVal(kind, src, tgt)
	}
	if eqVal("int", src, tgt) {
		return true
	}
	s1, _ := num(src)
	s2, _ := num(tgt)
	a, e1 := strconv.ParseInt(s1, 10, 64)
	b, e2 := strconv.ParseInt(s2, 10, 64)
	if e1 != nil || e2 != nil || !lossyInt(a) {
		return false
	}
	f := float64(a)
	if f >= 9223372036854775808.0 {
		return b == math.MinInt64 || b == math.MaxInt64
	}
	return b == int64(f)
}

func classify(in *info, kind string, v any) {
	if v == nil {
		return
	}
	switch kind {
	case "blob":
		in.label("blob")
	case "json":
		switch v.(type) {
		case map[string]any, []any:
			in.label("json-composite")
		default:
			in.label("json-scalar")
		}
	case "time":
		in.label("datetime")
	case "f32":
		in.label("float32")
	case "f64":
		in.label("float64")
	case "int":
		s, _ := num(v)
		if i, ok := new(big.Int).SetString(s, 10); ok && i.CmpAbs(big.NewInt(two53)) > 0 {
			in.label("int-beyond-2^53")
		}
	}
	if base, isArr := baseKind(kind); isArr {
		in.label("array")
		arr, _ := v.([]any)
		if len(arr) == 0 {
			in.label("empty-array")
		}
		for _, e := range arr {
			if e == nil {
				in.label("array-with-null")
			} else if base == "int" {
				classify(in, "int", e)
			}
		}
	}
}

// atomicity imports a corrupted copy of the file into the (still empty) target: the import must
// return an error and the raw store must be byte-for-byte what it was.
func atomicity(c Case, sch schema, tgt *hx.Node, ef *exportFile, dir string, in *info) *hx.Failure {
	before := rawDump(tgt)
	bad := filepath.Join(dir, "bad.json")
	docs := map[string][]map[string]any{}
	total := 0
	lastNonEmpty := ""
	for _, name := range ef.order {
		for _, fd := range ef.docs[name] {
			docs[name] = append(docs[name], fd.fields)
			total++
		}
		if len(ef.docs[name]) > 0 {
			lastNonEmpty = name
		}
	}
	kind := c.Atomic.Kind
	if kind == "dup" && lastNonEmpty == "" {
		kind = "badfield"
	}
	last := ef.order[len(ef.order)-1]
	switch kind {
	case "dup":
		// move the collection with documents to the end so that the duplicate is the last document
		order := []string{}
		for _, n := range ef.order {
			if n != lastNonEmpty {
				order = append(order, n)
			}
		}
		order = append(order, lastNonEmpty)
		d := docs[lastNonEmpty]
		docs[lastNonEmpty] = append(append([]map[string]any{}, d...), d[c.Atomic.Pos%len(d)])
		writeFile(bad, order, docs, "")
	case "badfield":
		docs[last] = append(append([]map[string]any{}, docs[last]...), map[string]any{"k": json.Number("99"), "no_such_field": json.Number("1")})
		writeFile(bad, ef.order, docs, "")
	case "badtype":
		docs[last] = append(append([]map[string]any{}, docs[last]...), map[string]any{"k": "not a number"})
		writeFile(bad, ef.order, docs, "")
	case "badcol":
		writeFile(bad, ef.order, docs, `,"NoSuchCollection":[{"k":1}]`)
	case "trunc":
		writeFile(bad, ef.order, docs, "")
		// keep everything up to a point strictly inside the array of the last collection: cutting at the
		// boundary between two collections (or right after '{') leaves a prefix that the importer reads as a
		// complete, smaller file, which is not an atomicity matter
		raw, _ := os.ReadFile(bad)
		lastClose := bytes.LastIndexByte(raw, ']')
		open := bytes.LastIndex(raw, []byte(quote(last)+":[")) + len(quote(last)) + 1
		if lastClose < 0 || open <= 0 || open > lastClose {
			hx.Harnessf("cannot locate the last collection in %s", raw)
		}
		cut := open + 1 + c.Atomic.Pos%(lastClose-open)
		if err := os.WriteFile(bad, raw[:cut], 0o644); err != nil {
			hx.Harnessf("write: %v", err)
		}
	default:
		hx.Harnessf("atomic kind %q", kind)
	}
	in.label("atomicity:" + kind)
	if total > 0 {
		in.label("atomicity-after-valid-docs")
	}
	err := tgt.DB.BasicImport(tgt.Ctx, bad)
	after := rawDump(tgt)
	if err == nil {
		return hx.Failf("C18/atomicity/invalid-file-accepted/"+kind, "importing the corrupted file (%s) returned no error", kind)
	}
	if after != before {
		return hx.Failf("C18/atomicity/partial-effect/"+kind, "import failed with %v but the raw store changed (%d -> %d bytes of dump)", err, len(before), len(after))
	}
	for name, m := range dumpNode(tgt, sch) {
		if len(m) != 0 {
			return hx.Failf("C18/atomicity/partial-effect/"+kind, "import failed with %v but %s shows %d documents", err, name, len(m))
		}
	}
	return nil
}

// ---------------------------------------------------------------------------------------------
// Entry points

func evalCase(c Case) (*hx.Failure, *info) {
	var in *info
	f := hx.Guard("C18", func() *hx.Failure {
		var f *hx.Failure
		f, in = run(c)
		return f
	})
	if in == nil {
		in = &info{}
	}
	return f, in
}

func TestC18(t *testing.T) {
	rapid.Check(t, func(t *rapid.T) {
		c := drawCase(t)
		f, in := evalCase(c)
		labels := append([]string{}, in.labels...)
		if c.NoLossy {
			labels = append(labels, "switch:no-lossy-int")
		}
		if c.NoChain {
			labels = append(labels, "switch:no-chain")
		}
		if c.NoDel {
			labels = append(labels, "switch:no-delete")
		}
		rec.Eval(c, in.nontrivial, labels...)
		if rec.Check(t, c, f) {
			return
		}
	})
}

func TestReplay(t *testing.T) {
	raw := hx.ReplayCase(t)
	rec.SetReplaying()
	var c Case
	if err := json.Unmarshal(raw, &c); err != nil {
		t.Fatal(err)
	}
	f, _ := evalCase(c)
	rec.Check(t, c, f)
}

func TestRegress(t *testing.T) {
	hx.Regress(t, "testdata/regress", func(raw []byte) *hx.Failure {
		var c Case
		if err := json.Unmarshal(raw, &c); err != nil {
			return hx.Failf("C18/regress-file", "%v", err)
		}
		f, _ := evalCase(c)
		return f
	}, rec)
}
