package c09

import (
	"fmt"
	"os"
	"strings"
	"testing"

	"github.com/sourcenetwork/defradb/verifharness/hx"
)

// TestProbe runs the statements of $PROBE (one per line; first block up to a line "--" is SDL).
func TestProbe(t *testing.T) {
	raw, err := os.ReadFile(os.Getenv("PROBE"))
	if err != nil {
		t.Skip()
	}
	parts := strings.SplitN(string(raw), "\n--\n", 2)
	n := hx.MustMemNode()
	defer n.Close()
	if _, err := n.DB.AddSchema(n.Ctx, parts[0]); err != nil {
		t.Fatal(err)
	}
	ids := map[string]string{}
	for _, line := range strings.Split(parts[1], "\n") {
		line = strings.TrimSpace(line)
		if line == "" || strings.HasPrefix(line, "#") {
			continue
		}
		name := ""
		if i := strings.Index(line, "="); i > 0 && i < 8 && !strings.Contains(line[:i], " ") {
			name, line = line[:i], line[i+1:]
		}
		for k, v := range ids {
			line = strings.ReplaceAll(line, "$"+k+"$", v)
		}
		r := n.Exec(line)
		out := hx.Canon(r.Data)
		if name != "" {
			for _, rows := range r.Data {
				if l, ok := rows.([]any); ok && len(l) > 0 {
					ids[name] = l[0].(map[string]any)["_docID"].(string)
				}
			}
		}
		for k, v := range ids {
			out = strings.ReplaceAll(out, v, k)
		}
		p := r.Panic
		if len(p) > 200 {
			p = p[:200]
		}
		fmt.Printf("%s\n   -> %s %v %s\n", line, out, r.Errors, p)
	}
}
